#!/usr/bin/env python3
"""Keeps hooks.json and the `fixed` entries of known_findings.json in sync with the commit
ids of /repo (looked up by commit subject)."""
import json
import subprocess

log = subprocess.run(["git", "-C", "/repo", "log", "--format=%h\t%s"], capture_output=True, text=True).stdout
by_subject = {}
for line in log.split("\n"):
    if line:
        h, s = line.split("\t", 1)
        by_subject[s] = h

SUBJECTS = {
    "F1": "fix: re-strip patch name after truncation at a word boundary",
    "F2": "fix: uniquify patch names whose digit suffix does not fit in usize",
    "F16": "fix: use checked arithmetic when resolving relative patch locators",
    "F19": "fix: do not panic on the locator -9223372036854775808",
    "F7": "fix: keep the cached temp index tree id in sync after applying a patch",
    "F3": "fix: pushing an empty selection of patches is a no-op, not a panic",
    "F4": "fix: report an error instead of panicking on a transaction without stack state",
    "F5": "fix: stg commit with a range that selects no patch is an error, not a panic",
    "F8": "fix: reject redo counts that do not fit in isize",
    "F12": "fix: an interrupt deferred by a critical section must not trigger a rollback",
    "F23": "fix: stg repair keeps the branch head when history ends at a merge commit",
}
d = json.load(open("/verif/known_findings.json"))
for e in d:
    if e.get("status") == "fixed":
        subj = e.get("subject") or SUBJECTS.get(e["id"])
        if subj and subj in by_subject:
            new = by_subject[subj]
            e["subject"] = subj
            e["commit"] = new
            if "desc" in e:
                e["what"] = "fixed: property=%s %s %s" % (e["properties"][0], new, e["desc"])
        else:
            print("WARNING: no commit for", e["id"])
json.dump(d, open("/verif/known_findings.json", "w"), indent=1)
hooks = sorted(h for s, h in by_subject.items() if s.startswith("verif hook"))
json.dump({"source_commits": hooks}, open("/verif/hooks.json", "w"))
print("hooks", hooks)
