#!/bin/sh
# Build the framework from files on disk only (offline).
set -e
cd "$(dirname "$0")"
export CARGO_NET_OFFLINE=true
python3 - <<'PY'
import sys
sys.path.insert(0, ".")
from harness import common, translate
ok, msg = translate.regenerate()
print("translator:", ok, msg)
stg = common.build_stg()
print("stg:", stg)
ok, log = common.coq_make(["all"], timeout=3000)
print("coq make all:", ok)
if not ok:
    print(log[-3000:])
common.build_driver()
print("driver built")
PY
