(* C05 - undo, redo and reset navigate the recorded history exactly.
   Only the property theorems; proofs in Proofs/LogProofs.v. *)
From StgV Require Import Model.Log Model.LogSpec Proofs.LogProofs.

(* undo -n k lands on the k-th state of the effective timeline (k = 1: the state that
   preceded the most recent operation not already undone; a redo counts as an operation) *)
Theorem C05_undo_spec :
  forall (S : Type) (l : list (entry S)) k,
    wf_log S l -> (1 <= k)%Z -> walk S l k = nth_error (eff S l) (Z.to_nat k).
Proof. exact undo_spec. Qed.
Print Assumptions C05_undo_spec.

(* `undo -n k` reaches the same state as k single undos *)
Theorem C05_undo_n_is_n_undos :
  forall (S : Type) (l l' : list (entry S)) k,
    wf_log S l -> undo_times S l k = Some l' -> (1 <= k)%nat ->
    walk S l (Z.of_nat k) = hd_error (eff S l') /\ wf_log S l'.
Proof. exact undo_n_is_n_undos. Qed.
Print Assumptions C05_undo_n_is_n_undos.

(* redo -n k takes back the last k undo invocations not yet redone *)
Theorem C05_redo_spec :
  forall (S : Type) (l : list (entry S)) k,
    wf_log S l -> (1 <= k)%Z ->
    walk S l (- k)%Z = nth_error (redo_stack S l) (Z.to_nat k - 1).
Proof. exact redo_spec. Qed.
Print Assumptions C05_redo_spec.

(* ... and is refused once any other stack change has intervened *)
Theorem C05_redo_refused_after_op :
  forall (S : Type) (l : list (entry S)) s k,
    (1 <= k)%Z -> walk S (EOp s :: l) (- k)%Z = None.
Proof. exact redo_refused_after_op. Qed.
Print Assumptions C05_redo_refused_after_op.

(* the current state is the head of the effective timeline *)
Theorem C05_eff_head :
  forall (S : Type) (l : list (entry S)) e,
    wf_log S (e :: l) -> hd_error (eff S (e :: l)) = Some (state_of_entry S e).
Proof. exact eff_head. Qed.
Print Assumptions C05_eff_head.

(* the loop of find_undo_state over the object store is the abstract walk over the log *)
Theorem C05_find_undo_state_is_walk :
  forall objs so steps,
    prev_decreasing objs ->
    find_undo_state (S (length objs)) objs so steps
    = walk sstate (log_of (S (length objs)) objs so) steps.
Proof. exact find_undo_state_is_walk. Qed.
Print Assumptions C05_find_undo_state_is_walk.

(* reset_to_state installs exactly the logged state: the three lists, the head, and for every
   name the commit the logged state records (and no patch the logged state does not have).
   The premise on the transaction says that it only knows patches that are in its lists
   (true of every transaction of a well-formed stack: C01). *)
Theorem C05_reset_installs_state :
  forall st t t',
    (forall n, t_patch t n <> None -> In n (t_all t)) ->
    reset_to_state st t = TOk t' ->
    t_applied t' = s_applied st /\ t_unapplied t' = s_unapplied st /\ t_hidden t' = s_hidden st
    /\ t_head t' = Some (s_head st)
    /\ (forall n, NoDup (map fst (s_patches st)) ->
                  t_patch t' n = pm_get (s_patches st) n).
Proof. exact reset_installs_state_consistent. Qed.
Print Assumptions C05_reset_installs_state.
