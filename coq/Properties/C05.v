(* C05 - undo, redo and reset navigate the recorded history exactly.
   Only the property theorems; proofs in Proofs/LogProofs.v. *)
From StgV Require Import Model.Log Model.LogSpec Proofs.LogProofs.

(* undo -n k lands on the k-th state of the effective timeline (k = 1: the state that
   preceded the most recent operation not already undone; a redo counts as an operation) *)
Theorem C05_undo_spec :
  forall (S : Type) (l : list (entry S)) k,
    wf_log S l -> (1 <= k)%Z -> walk S l k = nth_error (eff S l) (Z.to_nat k).
Proof. exact undo_spec. Qed.
Print Assumptions C05_undo_spec.

(* `undo -n k` reaches the same state as k single undos *)
Theorem C05_undo_n_is_n_undos :
  forall (S : Type) (l l' : list (entry S)) k,
    wf_log S l -> undo_times S l k = Some l' -> (1 <= k)%nat ->
    walk S l (Z.of_nat k) = hd_error (eff S l') /\ wf_log S l'.
Proof. exact undo_n_is_n_undos. Qed.
Print Assumptions C05_undo_n_is_n_undos.

(* redo -n k takes back the last k undo invocations not yet redone *)
Theorem C05_redo_spec :
  forall (S : Type) (l : list (entry S)) k,
    wf_log S l -> (1 <= k)%Z ->
    walk S l (- k)%Z = nth_error (redo_stack S l) (Z.to_nat k - 1).
Proof. exact redo_spec. Qed.
Print Assumptions C05_redo_spec.

(* ... and is refused once any other stack change has intervened *)
Theorem C05_redo_refused_after_op :
  forall (S : Type) (l : list (entry S)) s k,
    (1 <= k)%Z -> walk S (EOp s :: l) (- k)%Z = None.
Proof. exact redo_refused_after_op. Qed.
Print Assumptions C05_redo_refused_after_op.

(* the current state is the head of the effective timeline *)
Theorem C05_eff_head :
  forall (S : Type) (l : list (entry S)) e,
    wf_log S (e :: l) -> hd_error (eff S (e :: l)) = Some (state_of_entry S e).
Proof. exact eff_head. Qed.
Print Assumptions C05_eff_head.

(* the loop of find_undo_state over the object store is the abstract walk over the log *)
Theorem C05_find_undo_state_is_walk :
  forall objs so steps,
    prev_decreasing objs ->
    find_undo_state (S (length objs)) objs so steps
    = walk sstate (log_of (S (length objs)) objs so) steps.
Proof. exact find_undo_state_is_walk. Qed.
Print Assumptions C05_find_undo_state_is_walk.

(* reset_to_state installs exactly the logged state: the three lists, the head, and for every
   name the commit the logged state records (and no patch the logged state does not have).
   The premise on the transaction says that it only knows patches that are in its lists
   (true of every transaction of a well-formed stack: C01). *)
Theorem C05_reset_installs_state :
  forall st t t',
    (forall n, t_patch t n <> None -> In n (t_all t)) ->
    reset_to_state st t = TOk t' ->
    t_applied t' = s_applied st /\ t_unapplied t' = s_unapplied st /\ t_hidden t' = s_hidden st
    /\ t_head t' = Some (s_head st)
    /\ (forall n, NoDup (map fst (s_patches st)) ->
                  t_patch t' n = pm_get (s_patches st) n).
Proof. exact reset_installs_state_consistent. Qed.
Print Assumptions C05_reset_installs_state.

(* ------------------------------------------------------------------------------------------
   Whole-command theorems: what `stg undo` / `stg redo` do to the WORLD (Model/Cmd.v run_undo /
   run_redo: open the stack, find_undo_state, reset_to_state, execute), composed from the
   component theorems above.  Spec definitions in Model/UndoSpec.v; proofs in
   Proofs/UndoStepProofs.v (+ UndoStepOpts.v).
   ------------------------------------------------------------------------------------------ *)
From StgV Require Import Model.UndoSpec Proofs.UndoStepProofs Proofs.UndoTwice.

(* `stg undo` on a stack whose newest log entry [so] was written by an ordinary operation puts
   the stack back to the state [pst] recorded by the entry before it - the three lists, every
   patch's commit, the head - moves the branch there, and appends (never rewrites): the new
   entry's predecessor is [so] *)
Theorem C05_undo_restores_logged_state :
  forall w so st po pst hard w2,
    Inv6 w -> prev_decreasing (w_objs w) ->
    w_stack w = Some so -> state_of (w_objs w) so = Some st ->
    logged_as_op (w_objs w) so ->
    s_prev st = Some po -> state_of (w_objs w) po = Some pst ->
    w_branch w = s_head st ->
    run_undo w 1 hard = (w2, X0) ->
    at_state w2 pst
    /\ (exists so2 st2, w_stack w2 = Some so2 /\ state_of (w_objs w2) so2 = Some st2 /\ s_prev st2 = Some so).
Proof. exact undo_restores_logged_state. Qed.
Print Assumptions C05_undo_restores_logged_state.

(* ... and `stg redo` after that undo brings back exactly the state the undo took away *)
Theorem C05_redo_restores_undone_state :
  forall w so st po pst hard hard' w2 w3,
    Inv6 w -> prev_decreasing (w_objs w) ->
    w_stack w = Some so -> state_of (w_objs w) so = Some st ->
    logged_as_op (w_objs w) so ->
    s_prev st = Some po -> state_of (w_objs w) po = Some pst ->
    w_branch w = s_head st ->
    run_undo w 1 hard = (w2, X0) ->
    run_redo w2 1 hard' = (w3, X0) ->
    at_state w3 st.
Proof. exact redo_restores_undone_state. Qed.
Print Assumptions C05_redo_restores_undone_state.

(* for EVERY stg command other than undo / redo (26 modelled commands): if it succeeds and
   recorded exactly one new entry on top of the old log, a following `stg undo` restores the
   stack the command found *)
Theorem C05_undo_undoes_step :
  forall lower_s, LowerOK lower_s ->
  forall w c w1 so0 st0 so1 st1 hard w2,
    Inv6 w -> prev_decreasing (w_objs w) ->
    in_scope c = true -> logs_plain_op c = true ->
    w_stack w = Some so0 -> state_of (w_objs w) so0 = Some st0 ->
    step lower_s w c = (w1, X0) ->
    w_stack w1 = Some so1 -> state_of (w_objs w1) so1 = Some st1 ->
    s_prev st1 = Some so0 ->
    run_undo w1 1 hard = (w2, X0) ->
    at_state w2 st0.
Proof. exact undo_undoes_step. Qed.
Print Assumptions C05_undo_undoes_step.

(* `stg undo -n 2` reaches the same stack as two single `stg undo`s - the world-level form of
   C05_undo_n_is_n_undos, external modifications included (proof in Proofs/UndoTwice.v); the work
   tree is not in the statement: after `stg hide` of an applied patch it may differ *)
Theorem C05_undo_2_is_two_undos :
  forall w hard w1 w2 w3,
    Inv6 w -> prev_decreasing (w_objs w) ->
    run_undo w 1 hard = (w1, X0) ->
    run_undo w1 1 hard = (w2, X0) ->
    run_undo w 2 hard = (w3, X0) ->
    exists st2 st3, cur_state w2 = Some st2 /\ cur_state w3 = Some st3
                    /\ same_stack st2 st3 /\ w_branch w2 = w_branch w3.
Proof. exact undo_2_is_two_undos. Qed.
Print Assumptions C05_undo_2_is_two_undos.

(* the hypotheses are satisfiable: a world reached by commands on which undo really succeeds *)
Theorem C05_undo_step_nonvacuous :
  exists w so st po pst w2,
    Inv6 w /\ prev_decreasing (w_objs w)
    /\ w_stack w = Some so /\ state_of (w_objs w) so = Some st
    /\ logged_as_op (w_objs w) so
    /\ s_prev st = Some po /\ state_of (w_objs w) po = Some pst
    /\ w_branch w = s_head st
    /\ run_undo w 1 false = (w2, X0).
Proof. exact undo_step_nonvacuous. Qed.
Print Assumptions C05_undo_step_nonvacuous.
