(* C13 - stg repair reconciles the stack with a branch moved by plain git.
   Only the property theorems; proofs in Proofs/RepairProofs.v and by computation on Gen/. *)
From Coq Require Import String Permutation.
From StgV Require Import Model.CmdSpec Model.RepairSpec Gen.CmdTable Proofs.RepairProofs Proofs.RepairNoopProofs
  Proofs.PlainOlderStep Proofs.RepairNoopTwice Proofs.RepairNoopReach.

(* repair is a pure rearrangement of the existing patches: none is dropped, none invented *)
Theorem C13_appliedness_is_permutation :
  forall a u h t t',
    repair_appliedness a u h t = TOk t' ->
    Permutation (t_all t') (t_all t) /\ t_applied t' = a /\ t_unapplied t' = u /\ t_hidden t' = h
    /\ t_objs t' = t_objs t /\ t_updated t' = t_updated t.
Proof. exact appliedness_is_permutation. Qed.
Print Assumptions C13_appliedness_is_permutation.

(* repair never touches the index or the work tree, and never moves the branch when it
   succeeds: the branch head stays where plain git left it *)
Theorem C13_repair_keeps_worktree :
  forall lower_s w w' x,
    run_repair lower_s w = (w', x) -> w_wt w' = w_wt w /\ w_unmerged w' = w_unmerged w.
Proof. exact repair_keeps_worktree. Qed.
Print Assumptions C13_repair_keeps_worktree.

(* the first-parent walk: on a consistent stack (head = top, applied patches form the chain
   from the base) it finds exactly the applied patches and nothing to patchify *)
Theorem C13_walk_on_chain :
  forall objs s base fuel,
    chain objs base (applied_oids s) (s_top s) ->
    NoDup (s_applied s) ->
    (forall n, In n (s_applied s) -> pm_get (s_patches s) n <> None) ->
    (forall a b, In a (all_of s) -> In b (all_of s) -> patch_oid s a = patch_oid s b -> a = b) ->
    (forall n, In n (all_of s) -> patch_oid s n <> base) ->
    (length (s_applied s) < fuel)%nat ->
    s_applied s <> [] ->
    repair_walk fuel objs s base (s_top s) [] [] [] = (rev (s_applied s), [], base).
Proof. exact walk_on_chain. Qed.
Print Assumptions C13_walk_on_chain.

(* every commit the walk classifies lies on the first-parent path from the head, applied
   names are patches of the stack, patchified commits are not *)
Theorem C13_walk_sound :
  forall fuel objs s base head applied patchify stop,
    repair_walk fuel objs s base head [] [] [] = (applied, patchify, stop) ->
    (forall n, In n applied -> In n (all_of s))
    /\ (forall c, In c patchify -> patch_of_commit s c = None /\ exists p, parents_of objs c = [p]).
Proof. exact walk_sound. Qed.
Print Assumptions C13_walk_sound.

(* ------------------------------------------------------------------------------------------
   Whole-command theorems (through open_stack, the head checks, repair_walk, repair_base, the
   patchify loop, repair_appliedness, execute): "repair on a consistent stack changes nothing but
   the log", and repair is idempotent.  Spec in Model/RepairSpec.v (`walked`: the commits the walk
   visits; `repair_consistent`: branch = recorded head = top patch, and no unapplied or hidden
   patch's commit among the walked commits - after `stg rebase <a patch's commit>` repair rightly
   applies such a patch).  Proofs in Proofs/RepairNoopProofs.v, RepairNoopIdem.v, PlainOlder*.v,
   RepairNoopReach.v.
   ------------------------------------------------------------------------------------------ *)

(* every single-parent plain commit is younger than its parent: an invariant of every command
   (the store is append-only and a commit names only parents that exist when it is written) *)
Theorem C13_plain_parents_older_invariant :
  forall lower_s, LowerOK lower_s ->
  forall w c, in_scope c = true -> Inv w -> plain_parents_older (w_objs w) ->
    plain_parents_older (w_objs (fst (step lower_s w c))).
Proof. exact step_plain_parents_older. Qed.
Print Assumptions C13_plain_parents_older_invariant.

(* repair on a consistent stack: same three lists, same commit for every patch, same head;
   branch, index, work tree untouched; the patch refs are exactly the patch map *)
Theorem C13_repair_consistent_noop :
  forall lower_s w st w1,
    Inv6 w -> prev_decreasing (w_objs w) ->
    plain_parents_older (w_objs w) ->
    cur_state w = Some st ->
    repair_consistent w st ->
    run_repair lower_s w = (w1, X0) ->
    (exists st1, cur_state w1 = Some st1 /\ same_stack st1 st)
    /\ w_branch w1 = w_branch w /\ w_wt w1 = w_wt w /\ w_unmerged w1 = w_unmerged w
    /\ (forall n, pm_get (w_prefs w1) n = pm_get (s_patches st) n).
Proof. exact repair_consistent_noop_partial. Qed.
Print Assumptions C13_repair_consistent_noop.

(* ... and for every world reached from the initial world by commands nothing is left to assume
   about the store *)
Theorem C13_repair_consistent_noop_reachable :
  forall lower_s, LowerOK lower_s ->
  forall t cs st w1,
    forallb in_scope cs = true ->
    cur_state (run lower_s (init_world t) cs) = Some st ->
    repair_consistent (run lower_s (init_world t) cs) st ->
    run_repair lower_s (run lower_s (init_world t) cs) = (w1, X0) ->
    (exists st1, cur_state w1 = Some st1 /\ same_stack st1 st)
    /\ w_branch w1 = w_branch (run lower_s (init_world t) cs)
    /\ w_wt w1 = w_wt (run lower_s (init_world t) cs)
    /\ w_unmerged w1 = w_unmerged (run lower_s (init_world t) cs)
    /\ (forall n, pm_get (w_prefs w1) n = pm_get (s_patches st) n).
Proof. exact repair_consistent_noop_reachable. Qed.
Print Assumptions C13_repair_consistent_noop_reachable.

(* without the age condition the statement is false of the bare invariant: Inv6 admits a commit
   that is its own parent, which the walk meets again (witness in the proof file); this is why
   the invariant above had to be proved first *)
Theorem C13_repair_noop_needs_acyclic_store :
  ~ (forall lower_s w st w1,
        Inv6 w -> prev_decreasing (w_objs w) ->
        cur_state w = Some st ->
        repair_consistent w st ->
        run_repair lower_s w = (w1, X0) ->
        (exists st1, cur_state w1 = Some st1 /\ same_stack st1 st)
        /\ w_branch w1 = w_branch w /\ w_wt w1 = w_wt w /\ w_unmerged w1 = w_unmerged w
        /\ (forall n, pm_get (w_prefs w1) n = pm_get (s_patches st) n)).
Proof. exact repair_consistent_noop_refuted. Qed.
Print Assumptions C13_repair_noop_needs_acyclic_store.

(* repair is idempotent: after a successful repair a second one succeeds and changes nothing -
   same lists, same commit for every patch, same head, branch where it was (the age condition is
   the invariant above) *)
Theorem C13_repair_idempotent :
  forall lower_s, LowerOK lower_s ->
  forall w w1,
    Inv6 w -> prev_decreasing (w_objs w) -> plain_parents_older (w_objs w) ->
    run_repair lower_s w = (w1, X0) ->
    exists w2 st1 st2,
      run_repair lower_s w1 = (w2, X0)
      /\ cur_state w1 = Some st1 /\ cur_state w2 = Some st2 /\ same_stack st2 st1
      /\ w_branch w2 = w_branch w1.
Proof. exact repair_idempotent. Qed.
Print Assumptions C13_repair_idempotent.

(* ... for every world reached from the initial world by commands, with nothing assumed *)
Theorem C13_repair_idempotent_reachable :
  forall lower_s, LowerOK lower_s ->
  forall t cs w1,
    forallb in_scope cs = true ->
    run_repair lower_s (run lower_s (init_world t) cs) = (w1, X0) ->
    exists w2 st1 st2,
      run_repair lower_s w1 = (w2, X0)
      /\ cur_state w1 = Some st1 /\ cur_state w2 = Some st2 /\ same_stack st2 st1
      /\ w_branch w2 = w_branch w1.
Proof. exact repair_idempotent_reachable_full. Qed.
Print Assumptions C13_repair_idempotent_reachable.

(* the premises are satisfiable: two applied patches and an unapplied one, repair succeeds *)
Theorem C13_repair_noop_nonvacuous :
  exists w st w1,
    cur_state w = Some st /\ w_branch w = s_head st /\ s_top st = s_head st
    /\ length (s_applied st) = 2 /\ length (s_unapplied st) = 1
    /\ run_repair (fun s => s) w = (w1, X0).
Proof. exact repair_noop_nonvacuous. Qed.
Print Assumptions C13_repair_noop_nonvacuous.

(* --- tie to the current source --- *)
(* stg repair: RequireInitialized, protected branches refused before anything else, and the
   transaction does not use the index / work tree *)
Theorem C13_repair_in_source :
  ci_policies cmd_repair = [("run", "RequireInitialized")]%string
  /\ has_unguarded_precheck cmd_repair "is_protected" = true
  /\ txn_opt cmd_repair "use_index_and_worktree" = [Some BFalse].
Proof. vm_compute. repeat split; reflexivity. Qed.
Print Assumptions C13_repair_in_source.
