(* C13 - stg repair reconciles the stack with a branch moved by plain git.
   Only the property theorems; proofs in Proofs/RepairProofs.v and by computation on Gen/. *)
From Coq Require Import String Permutation.
From StgV Require Import Model.CmdSpec Gen.CmdTable Proofs.RepairProofs.

(* repair is a pure rearrangement of the existing patches: none is dropped, none invented *)
Theorem C13_appliedness_is_permutation :
  forall a u h t t',
    repair_appliedness a u h t = TOk t' ->
    Permutation (t_all t') (t_all t) /\ t_applied t' = a /\ t_unapplied t' = u /\ t_hidden t' = h
    /\ t_objs t' = t_objs t /\ t_updated t' = t_updated t.
Proof. exact appliedness_is_permutation. Qed.
Print Assumptions C13_appliedness_is_permutation.

(* repair never touches the index or the work tree, and never moves the branch when it
   succeeds: the branch head stays where plain git left it *)
Theorem C13_repair_keeps_worktree :
  forall lower_s w w' x,
    run_repair lower_s w = (w', x) -> w_wt w' = w_wt w /\ w_unmerged w' = w_unmerged w.
Proof. exact repair_keeps_worktree. Qed.
Print Assumptions C13_repair_keeps_worktree.

(* the first-parent walk: on a consistent stack (head = top, applied patches form the chain
   from the base) it finds exactly the applied patches and nothing to patchify *)
Theorem C13_walk_on_chain :
  forall objs s base fuel,
    chain objs base (applied_oids s) (s_top s) ->
    NoDup (s_applied s) ->
    (forall n, In n (s_applied s) -> pm_get (s_patches s) n <> None) ->
    (forall a b, In a (all_of s) -> In b (all_of s) -> patch_oid s a = patch_oid s b -> a = b) ->
    (forall n, In n (all_of s) -> patch_oid s n <> base) ->
    (length (s_applied s) < fuel)%nat ->
    s_applied s <> [] ->
    repair_walk fuel objs s base (s_top s) [] [] [] = (rev (s_applied s), [], base).
Proof. exact walk_on_chain. Qed.
Print Assumptions C13_walk_on_chain.

(* every commit the walk classifies lies on the first-parent path from the head, applied
   names are patches of the stack, patchified commits are not *)
Theorem C13_walk_sound :
  forall fuel objs s base head applied patchify stop,
    repair_walk fuel objs s base head [] [] [] = (applied, patchify, stop) ->
    (forall n, In n applied -> In n (all_of s))
    /\ (forall c, In c patchify -> patch_of_commit s c = None /\ exists p, parents_of objs c = [p]).
Proof. exact walk_sound. Qed.
Print Assumptions C13_walk_sound.

(* --- tie to the current source --- *)
(* stg repair: RequireInitialized, protected branches refused before anything else, and the
   transaction does not use the index / work tree *)
Theorem C13_repair_in_source :
  ci_policies cmd_repair = [("run", "RequireInitialized")]%string
  /\ has_unguarded_precheck cmd_repair "is_protected" = true
  /\ txn_opt cmd_repair "use_index_and_worktree" = [Some BFalse].
Proof. vm_compute. repeat split; reflexivity. Qed.
Print Assumptions C13_repair_in_source.
