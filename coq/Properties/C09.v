(* C09 - a conflicting push halts in a well-defined, undoable state.
   Only the property theorems; proofs in Proofs/ConflictProofs.v (model) and by computation on
   the regenerated tables Gen/CmdTable.v, Gen/Consts.v (source tie). *)
From Coq Require Import String ZArith.
From StgV Require Import Model.CmdSpec Model.OptsSpec Gen.CmdTable Gen.Consts Proofs.ConflictProofs.

(* a push that halts on a conflict has kept every earlier push of the same command, and the
   conflicting patch is the one whose push_patch halted *)
Theorem C09_halt_keeps_earlier :
  forall ns merged t t',
    push_list ns merged t = THalt t' HConflict ->
    exists pre n post t1,
      ns = pre ++ n :: post
      /\ push_list pre merged t = TOk t1
      /\ push_patch n (mem n merged) t1 = THalt t' HConflict.
Proof. exact halt_keeps_earlier. Qed.
Print Assumptions C09_halt_keeps_earlier.

(* a halted transaction never reports success *)
Theorem C09_halt_exit :
  forall w t h msg w' x, execute w (THalt t h) msg = (w', x) -> x <> X0.
Proof. exact halt_exit. Qed.
Print Assumptions C09_halt_exit.

(* with push conflicts disallowed no conflict is ever recorded: the push halts with the
   lists, the updated patches, the index and the work tree untouched *)
Theorem C09_disallow_keeps_unapplied :
  forall n am t t' h,
    o_allow_push_conflicts (t_opts t) = false ->
    push_patch n am t = THalt t' h ->
    h = HNoConflict
    /\ t_applied t' = t_applied t /\ t_unapplied t' = t_unapplied t /\ t_hidden t' = t_hidden t
    /\ t_updated t' = t_updated t /\ t_wt t' = t_wt t /\ t_wt_unmerged t' = t_wt_unmerged t.
Proof. exact disallow_keeps_unapplied. Qed.
Print Assumptions C09_disallow_keeps_unapplied.

(* while unresolved conflicts exist the guarded commands fail and move neither the branch
   nor (for an initialised stack) the stack state.  [conflict_guarded2] (defined next to the
   proof) is [conflict_guarded] minus the selections that select nothing and are plain
   no-ops returning 0 before any check: `push ..`-only ranges, `push/pop -n N` with N <= 0
   (witnesses: ConflictProofs.refuse_when_conflicted_counterexample). *)
Theorem C09_refuse_when_conflicted :
  forall lower_s w c,
    conflict_guarded2 c = true -> w_unmerged w = true -> w_stack w <> None ->
    let '(w', x) := step lower_s w c in
    (x = X1 \/ x = X2) /\ same_refs w w' /\ w_wt w' = w_wt w /\ w_unmerged w' = true.
Proof. exact refuse_when_conflicted_partial. Qed.
Print Assumptions C09_refuse_when_conflicted.

(* "With conflicts disallowed ... the tree stays clean", for the configuration variable: while
   stgit.push.allow-conflicts is false, no stg command that was not given --conflicts=allow
   leaves unmerged entries behind, whatever it pushes (pop of non-top patches, float, sink,
   commit, edit, squash, pick, rebase, reset of selected patches, ...); stg commands never
   change the setting, so this holds for whole sessions *)
Theorem C09_config_disallow_keeps_index_merged :
  forall lower_s w c,
    w_apc w = false -> w_unmerged w = false -> is_stg c = true -> no_explicit_allow c = true ->
    w_unmerged (fst (step lower_s w c)) = false.
Proof. exact config_disallow_keeps_index_merged. Qed.
Print Assumptions C09_config_disallow_keeps_index_merged.

Theorem C09_stg_keeps_config :
  forall lower_s w c, is_stg c = true -> w_apc (fst (step lower_s w c)) = w_apc w.
Proof. exact stg_keeps_config. Qed.
Print Assumptions C09_stg_keeps_config.

Theorem C09_config_disallow_session :
  forall lower_s cs w,
    forallb (fun c => is_stg c && no_explicit_allow c) cs = true ->
    w_apc w = false -> w_unmerged w = false ->
    w_unmerged (run lower_s w cs) = false.
Proof. exact config_disallow_session. Qed.
Print Assumptions C09_config_disallow_session.

(* undo without --hard is refused while the index is unmerged; refs untouched *)
Theorem C09_undo_needs_hard :
  forall w n,
    w_unmerged w = true ->
    let '(w', x) := run_undo w n false in
    x <> X0 /\ w_branch w' = w_branch w /\ w_unmerged w' = true.
Proof. exact undo_needs_hard. Qed.
Print Assumptions C09_undo_needs_hard.

(* --- ties to the current source (regenerated on every run) --- *)

(* each of these commands calls check_conflicts unconditionally before its transaction *)
Theorem C09_guards_in_source :
  forallb (fun ci => has_unguarded_precheck ci "check_conflicts")
          [cmd_push; cmd_pop; cmd_goto; cmd_float; cmd_sink; cmd_delete; cmd_new; cmd_squash;
           cmd_spill] = true.
Proof. vm_compute. reflexivity. Qed.
Print Assumptions C09_guards_in_source.

(* a transaction halt maps to the documented conflict status 3 *)
Theorem C09_conflict_status_in_source : conflict_error = 3%Z /\ command_error = 2%Z.
Proof. vm_compute. split; reflexivity. Qed.
Print Assumptions C09_conflict_status_in_source.

(* every modelled command sets up its transaction(s) in the current source with exactly the
   options the model gives it (Model/OptsSpec.v transcribes the `opts` calls of Model/Cmd.v):
   conflict policy, discard_changes, use_index_and_worktree, set_head, allow_bad_head, in
   source order; a changed or added builder call breaks this *)
Theorem C09_transaction_options_in_source :
  forallb (fun p => cmd_matches (fst p) (snd p))
    [(cmd_new, exp_new); (cmd_refresh, exp_refresh); (cmd_push, exp_push); (cmd_pop, exp_pop);
     (cmd_goto, exp_goto); (cmd_float, exp_float); (cmd_sink, exp_sink); (cmd_delete, exp_delete);
     (cmd_hide, exp_hide); (cmd_unhide, exp_unhide); (cmd_rename, exp_rename);
     (cmd_commit, exp_commit); (cmd_uncommit, exp_uncommit); (cmd_clean, exp_clean);
     (cmd_spill, exp_spill); (cmd_undo, exp_undo); (cmd_redo, exp_redo); (cmd_reset, exp_reset);
     (cmd_repair, exp_repair); (cmd_edit, exp_edit); (cmd_rebase, exp_rebase); (cmd_squash, exp_squash)] = true.
Proof. vm_compute. reflexivity. Qed.
Print Assumptions C09_transaction_options_in_source.

(* the same for `stg pick`, whose transaction is built in the helper pick_picks *)
Theorem C09_transaction_options_in_source_pick :
  cmd_matches_in "pick_picks" cmd_pick exp_pick = true.
Proof. vm_compute. reflexivity. Qed.
Print Assumptions C09_transaction_options_in_source_pick.

(* ------------------------------------------------------------------------------------------
   "... in a well-defined, UNDOABLE state", for every command: whichever modelled stg command
   (other than undo / redo) stops with status 3 - a push, pop, float, sink, goto, delete,
   commit, squash, pick, refresh or rebase that conflicts or whose check-out is refused - and
   has recorded one entry on top of the old log, `stg undo --hard` gives back the stack the
   command found (the three lists, every patch's commit, the head, the branch), with no
   unmerged entry left and the work tree of the branch head.  Proofs in Proofs/UndoHaltProofs.v
   (+ UndoHaltOpts.v) on top of Proofs/UndoStepProofs.v; spec in Model/UndoSpec.v.
   ------------------------------------------------------------------------------------------ *)
From StgV Require Import Model.UndoSpec Proofs.UndoHaltProofs.

Theorem C09_undo_hard_undoes_halted_step :
  forall lower_s, LowerOK lower_s ->
  forall w c w1 so0 st0 so1 st1 w2,
    Inv6 w -> prev_decreasing (w_objs w) ->
    in_scope c = true -> logs_plain_op c = true ->
    w_stack w = Some so0 -> state_of (w_objs w) so0 = Some st0 ->
    step lower_s w c = (w1, X3) ->
    w_stack w1 = Some so1 -> state_of (w_objs w1) so1 = Some st1 ->
    s_prev st1 = Some so0 ->
    run_undo w1 1 true = (w2, X0) ->
    at_state w2 st0 /\ w_unmerged w2 = false /\ w_wt w2 = tree_of (w_objs w2) (w_branch w2).
Proof. exact undo_hard_undoes_halted_step. Qed.
Print Assumptions C09_undo_hard_undoes_halted_step.

(* the premises are satisfiable: a push that really conflicts (unmerged entries), undone *)
Theorem C09_undo_halt_nonvacuous :
  exists w c w1 so0 st0 so1 st1 w2,
    w_stack w = Some so0 /\ state_of (w_objs w) so0 = Some st0 /\ logs_plain_op c = true
    /\ step (fun s => s) w c = (w1, X3) /\ w_unmerged w1 = true
    /\ w_stack w1 = Some so1 /\ state_of (w_objs w1) so1 = Some st1 /\ s_prev st1 = Some so0
    /\ run_undo w1 1 true = (w2, X0).
Proof. exact undo_halt_nonvacuous. Qed.
Print Assumptions C09_undo_halt_nonvacuous.
