(* C08 - stack manipulation never changes a patch's authorship or message.
   Only the property theorems; proofs in Proofs/IdentProofs.v.  The model carries the author
   name / e-mail / date and the message of a commit as one opaque identity (c_meta) plus the
   message text (c_subj); byte-level decoding and re-encoding (encoding header, encoding_rs)
   is modelled separately (Model/Encoding.v, theorems at the end of this file) and tied to the
   code by the re-creation correspondence of harness/p_c08.py. *)
From Coq Require Import List NArith Bool.
From StgV Require Import Model.Chars Model.Name Model.Stack Model.Cmd Model.StackSpec
  Model.IdentSpec Proofs.IdentProofs.
Import ListNotations.
Local Open Scope nat_scope.

(* commit objects are immutable: no command ever alters or drops a commit that exists *)
Theorem C08_commits_immutable :
  forall lower_s w c o cm,
    get (w_objs w) o = Some cm -> get (w_objs (fst (step lower_s w c))) o = Some cm.
Proof. exact commits_immutable. Qed.
Print Assumptions C08_commits_immutable.

(* pushing, popping, reordering, renaming, hiding, deleting, committing, uncommitting,
   cleaning, spilling and refreshing: every patch of the resulting stack carries the identity
   of a patch of the stack before - its own, or under rename that of the patch renamed - or,
   under uncommit, is an already existing commit taken as it is *)
Theorem C08_manipulation_keeps_identity :
  forall lower_s, LowerOK lower_s ->
  forall w c w' x n o',
    Inv w -> manip c = true -> step lower_s w c = (w', x) -> patch_commit w' n = Some o' ->
    (exists a o, patch_commit w a = Some o
                 /\ ident_of (w_objs w') o' = ident_of (w_objs w) o
                 /\ (a = n \/ is_rename c = true))
    \/ (is_uncommit c = true /\ patch_commit w n = None /\ o' < length (w_objs w)).
Proof. exact manipulation_keeps_identity. Qed.
Print Assumptions C08_manipulation_keeps_identity.

(* rename, precisely: the new name carries the very commit of the old name *)
Theorem C08_rename_same_commit :
  forall lower_s, LowerOK lower_s ->
  forall w old new w' n o',
    Inv w -> step lower_s w (CRename old new) = (w', X0) -> patch_commit w' n = Some o' ->
    exists a, patch_commit w a = Some o'.
Proof. exact rename_same_commit. Qed.
Print Assumptions C08_rename_same_commit.

(* undo, redo and reset re-create nothing: every patch afterwards is a commit that existed *)
Theorem C08_restore_reuses_commits :
  forall lower_s, LowerOK lower_s ->
  forall w c w' x n o',
    Inv w -> is_restore c = true -> in_scope c = true -> step lower_s w c = (w', x) ->
    patch_commit w' n = Some o' -> o' < length (w_objs w).
Proof. exact restore_reuses_commits. Qed.
Print Assumptions C08_restore_reuses_commits.

(* `stg new` gives the new patch the identity it was asked for and leaves the others alone *)
Theorem C08_new_keeps_others :
  forall lower_s, LowerOK lower_s ->
  forall w nm meta msg w' x n o',
    Inv w -> step lower_s w (CNew nm meta msg) = (w', x) -> patch_commit w' n = Some o' ->
    patch_commit w n = Some o'
    \/ (patch_commit w n = None /\ ident_of (w_objs w') o' = Some (meta, msg)).
Proof. exact new_keeps_others. Qed.
Print Assumptions C08_new_keeps_others.

(* a refresh that changes nothing creates no new commit: every patch keeps its commit *)
Theorem C08_unchanged_refresh_no_commit :
  forall lower_s, LowerOK lower_s ->
  forall w w' s top otop,
    Inv w -> cur_state w = Some s -> last_error (s_applied s) = Some top ->
    pm_get (s_patches s) top = Some otop ->
    tree_eqb (w_wt w) (tree_of (w_objs w) otop) = true ->
    step lower_s w (CRefresh None) = (w', X0) ->
    forall n, patch_commit w' n = patch_commit w n.
Proof. exact unchanged_refresh_no_commit. Qed.
Print Assumptions C08_unchanged_refresh_no_commit.

(* `stg edit -m <msg>`: an editing command changes only what the user asked to change - every
   patch keeps its identity, except that the patches re-created by the command may carry the
   identity that was asked for (only the named patch does: the others copy their own) *)
Theorem C08_edit_changes_only_named :
  forall lower_s, LowerOK lower_s ->
  forall w loc meta msg w' x n o',
    Inv w -> step lower_s w (CEdit loc meta msg) = (w', x) -> patch_commit w' n = Some o' ->
    exists o, patch_commit w n = Some o
      /\ (ident_of (w_objs w') o' = ident_of (w_objs w) o \/ ident_of (w_objs w') o' = Some (meta, msg)).
Proof. exact edit_changes_only_named. Qed.
Print Assumptions C08_edit_changes_only_named.

(* an edit that changes nothing creates no commit, runs no transaction and records nothing:
   the command returns the world it opened *)
Theorem C08_unchanged_edit_is_noop :
  forall lower_s w op meta msg pn pc,
    open_stack PAllow w = Some op -> head_top_ok op = true ->
    last_error (s_applied (op_state op)) = Some pn -> pm_get (s_patches (op_state op)) pn = Some pc ->
    ident_of (w_objs (op_world op)) pc = Some (meta, msg) ->
    step lower_s w (CEdit None meta msg) = (op_world op, X0).
Proof. exact unchanged_edit_is_noop. Qed.
Print Assumptions C08_unchanged_edit_is_noop.

(* `stg squash -m <msg>`: every patch of the result either carries the identity of a patch of
   the stack before, or is the squashed patch with exactly the identity that was asked for *)
Theorem C08_squash_identity :
  forall lower_s, LowerOK lower_s ->
  forall w ranges nm meta msg w' x n o',
    Inv w -> step lower_s w (CSquash ranges nm meta msg) = (w', x) -> patch_commit w' n = Some o' ->
    (exists a o, patch_commit w a = Some o /\ ident_of (w_objs w') o' = ident_of (w_objs w) o)
    \/ ident_of (w_objs w') o' = Some (meta, msg).
Proof. exact squash_identity. Qed.
Print Assumptions C08_squash_identity.

(* `stg pick`: every patch of the result carries the identity of a patch of the stack before or
   (the picked patch) the identity of the commit that was picked *)
Theorem C08_pick_identity :
  forall lower_s, LowerOK lower_s ->
  forall w src nm na w' x n o',
    Inv w -> step lower_s w (CPick src nm na) = (w', x) -> patch_commit w' n = Some o' ->
    (exists a o, patch_commit w a = Some o /\ ident_of (w_objs w') o' = ident_of (w_objs w) o)
    \/ (exists op o, open_stack PAuto w = Some op /\ pick_source op src = Some o
                     /\ ident_of (w_objs w') o' = ident_of (w_objs w) o).
Proof. exact pick_identity. Qed.
Print Assumptions C08_pick_identity.

(* `stg pick --noapply` that succeeds: exactly one new patch, the first unapplied one; its
   commit has the source's tree and first parent (its change) and identity; every other patch
   keeps its commit, the applied patches and the branch head do not move *)
Theorem C08_pick_noapply_copies :
  forall lower_s, LowerOK lower_s ->
  forall w src nm w' op o s s',
    Inv w -> open_stack PAuto w = Some op -> pick_source op src = Some o ->
    step lower_s w (CPick src nm true) = (w', X0) ->
    cur_state (op_world op) = Some s -> cur_state w' = Some s' ->
    exists n o',
      s_unapplied s' = n :: s_unapplied s /\ s_applied s' = s_applied s /\ s_hidden s' = s_hidden s
      /\ pm_get (s_patches s) n = None /\ pm_get (s_patches s') n = Some o'
      /\ (forall m, m <> n -> pm_get (s_patches s') m = pm_get (s_patches s) m)
      /\ tree_of (w_objs w') o' = tree_of (w_objs w) o
      /\ first_parent (w_objs w') o' = first_parent (w_objs w) o
      /\ ident_of (w_objs w') o' = ident_of (w_objs w) o
      /\ w_branch w' = w_branch w.
Proof. exact pick_noapply_copies. Qed.
Print Assumptions C08_pick_noapply_copies.

(* `stg refresh -p <patch>` (outside [manip]: it may leave its temporary patch behind - when the
   change does not apply to an unapplied target, status 0, or when pushing it conflicts, status
   3): whatever its status, every patch that existed before still carries ITS OWN identity, and a
   patch that did not exist before is the temporary patch with the identity (0, "Refresh of <pn>") *)
From StgV Require Import Proofs.RefreshIdent.
Theorem C08_refresh_p_identity :
  forall lower_s, LowerOK lower_s ->
  forall w p w' x n o',
    Inv w -> step lower_s w (CRefresh (Some p)) = (w', x) -> patch_commit w' n = Some o' ->
    (exists o, patch_commit w n = Some o /\ ident_of (w_objs w') o' = ident_of (w_objs w) o)
    \/ (patch_commit w n = None
        /\ exists pn, ident_of (w_objs w') o' = Some (0%N, s_refresh_of ++ pn)).
Proof. exact refresh_p_identity. Qed.
Print Assumptions C08_refresh_p_identity.

From StgV Require Import Model.Encoding Proofs.EncodingProofs.
Local Open Scope N_scope.

(* ---- the text side: what re-creating a commit does to the message as git shows it
   (Model/Encoding.v: message_ex, Message::encode_with, commit_with_options) ---- *)

(* a commit with no encoding header or a utf-8 label keeps its message bytes exactly, for
   i18n.commitEncoding unset or UTF-8 *)
Theorem C08_recreate_utf8_exact :
  forall h bytes c h' out,
    (h = HAbsent \/ h = HUtf8) -> utf8_cfg c ->
    recreate h bytes c = Some (h', out) ->
    out = bytes /\ (h' = HAbsent \/ h' = HUtf8).
Proof. exact recreate_utf8_exact. Qed.
Print Assumptions C08_recreate_utf8_exact.

(* every message in the modelled domain outside the class of F40 is shown by git with the
   same text after the re-creation: undeclared / utf-8 commits, windows-1252 commits that git
   can decode, and latin-1 commits without a byte in 0x80-0x9f *)
Theorem C08_text_kept_outside_f40 :
  forall h bytes c,
    utf8_cfg c -> Forall is_byte bytes ->
    (h = HAbsent \/ h = HUtf8 \/
     (h = HW1252 /\ Forall (fun b => w1252_undefined b = false) bytes) \/
     (h = HLatin1 /\ Forall (fun b => b < 128 \/ 159 < b) bytes)) ->
    text_kept h bytes c.
Proof. exact text_kept_outside_f40. Qed.
Print Assumptions C08_text_kept_outside_f40.

(* and such single-byte commits ARE re-created (the statement above is not vacuous) *)
Theorem C08_recreate_w1252_text :
  forall bytes c,
    utf8_cfg c -> Forall is_byte bytes -> Forall (fun b => w1252_undefined b = false) bytes ->
    exists h' out, recreate HW1252 bytes c = Some (h', out) /\
                   git_text h' out = git_text HW1252 bytes.
Proof. exact recreate_w1252_text. Qed.
Print Assumptions C08_recreate_w1252_text.

(* a label encoding_rs does not know: the command refuses, nothing is re-created *)
Theorem C08_recreate_unknown_refused :
  forall bytes c, recreate HUnknown bytes c = None.
Proof. exact recreate_unknown_refused. Qed.
Print Assumptions C08_recreate_unknown_refused.

(* i18n.commitEncoding naming the commit's own single-byte encoding keeps bytes and label *)
Theorem C08_recreate_same_single_byte_exact :
  forall bytes,
    recreate HLatin1 bytes CfgLatin1 = Some (HLatin1, bytes) /\
    recreate HW1252 bytes CfgW1252 = Some (HW1252, bytes).
Proof. exact recreate_same_single_byte_exact. Qed.
Print Assumptions C08_recreate_same_single_byte_exact.

(* F40 (known finding): the full statement is false for a latin-1 label with a byte in
   0x80-0x9f - encoding_rs resolves the label to windows-1252 *)
Theorem C08_latin1_c1_refuted :
  exists bytes, Forall is_byte bytes /\ ~ text_kept HLatin1 bytes CfgNone.
Proof. exact f40_latin1_c1_refuted. Qed.
Print Assumptions C08_latin1_c1_refuted.

(* ---- the author / committer side (author_strict, commit_with_options; fix F44) ---- *)

(* for i18n.commitEncoding unset or UTF-8: the name git shows for the re-created commit is the
   name it showed before - for UTF-8 names (code points below the surrogates), windows-1252 names
   git can decode, and latin-1 names outside F40's class *)
Theorem C08_author_kept :
  forall h bytes c out,
    utf8_cfg c -> Forall is_byte bytes ->
    ((h = HAbsent \/ h = HUtf8) /\ Forall (fun cp => cp < 55296) (utf8_to_text (length bytes) bytes))
    \/ (h = HW1252 /\ Forall (fun b => w1252_undefined b = false) bytes)
    \/ (h = HLatin1 /\ Forall (fun b => b < 128 \/ 159 < b) bytes) ->
    recreate_name h bytes c = Some out ->
    git_text (match c with CfgUtf8 => HUtf8 | _ => HAbsent end) out = git_text h bytes.
Proof. exact author_kept. Qed.
Print Assumptions C08_author_kept.

(* with i18n.commitEncoding = windows-1252 the name is written in that encoding (before fix F44
   it stayed UTF-8 under a windows-1252 header): whenever git can decode what was written, it
   shows the name it showed before *)
Theorem C08_author_encoded_with_commit_encoding :
  forall h bytes out,
    Forall is_byte bytes ->
    ((h = HAbsent \/ h = HUtf8) /\ Forall (fun cp => cp < 55296) (utf8_to_text (length bytes) bytes))
    \/ (h = HW1252 /\ Forall (fun b => w1252_undefined b = false) bytes)
    \/ (h = HLatin1 /\ Forall (fun b => b < 128 \/ 159 < b) bytes) ->
    recreate_name h bytes CfgW1252 = Some out ->
    Forall (fun b => w1252_undefined b = false) out ->
    git_text HW1252 out = git_text h bytes.
Proof. exact author_encoded_with_commit_encoding. Qed.
Print Assumptions C08_author_encoded_with_commit_encoding.
