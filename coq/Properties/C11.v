(* C11 - concurrent stg commands on one stack never lose each other's update.
   Only the property theorems; proofs in Proofs/ProtocolProofs.v. *)
From Coq Require Import String.
From StgV Require Import Model.ProtocolSpec Model.ExpectedOrder Gen.ExecOrder Proofs.ProtocolProofs.

(* the specification a correct publication must satisfy: when the compare-and-swap on the
   state ref expects the state commit seen when the stack was LOADED, then under every
   interleaving of two commands no update is lost - both succeed only if one of them loaded
   the other's result *)
Theorem C11_cas_on_loaded_is_safe :
  forall s1 s2 v0 sched r p1 p2 r',
    complete_sched sched = true -> ref_get r RStack = Some v0 ->
    s1 <> v0 -> s2 <> v0 -> s1 <> s2 ->
    run2 true s1 s2 sched r = (r', p1, p2) ->
    ~ lost_update p1 /\ ~ lost_update p2
    /\ (pr_failed p1 = false -> pr_failed p2 = false ->
        pr_loaded p1 = Some s2 \/ pr_loaded p2 = Some s1).
Proof. exact cas_on_loaded_is_safe. Qed.
Print Assumptions C11_cas_on_loaded_is_safe.

(* in every interleaving, with either expectation, the state ref ends at the initial value
   or at one of the two published states: the log stays a single linear history *)
Theorem C11_log_linear :
  forall use_loaded s1 s2 v0 sched r p1 p2 r',
    ref_get r RStack = Some v0 ->
    run2 use_loaded s1 s2 sched r = (r', p1, p2) ->
    ref_get r' RStack = Some v0 \/ ref_get r' RStack = Some s1 \/ ref_get r' RStack = Some s2.
Proof. exact log_linear. Qed.
Print Assumptions C11_log_linear.

(* KNOWN FINDING (F9): execute() expects the value read inside the critical section, and
   then an interleaving exists in which both commands succeed and one publishes a state
   computed from a stale load *)
Theorem C11_cas_on_reread_loses_updates :
  exists sched r p1 p2 r',
    complete_sched sched = true /\ ref_get r RStack = Some 10%N
    /\ run2 false 11 12 sched r = (r', p1, p2)
    /\ pr_failed p1 = false /\ pr_failed p2 = false /\ lost_update p1.
Proof. exact cas_on_reread_loses_updates. Qed.
Print Assumptions C11_cas_on_reread_loses_updates.

(* --- tie to the current source: which value execute() expects, and where it reads it --- *)
Theorem C11_expected_value_in_source : execute_events = expected_execute_events.
Proof. vm_compute. reflexivity. Qed.
Print Assumptions C11_expected_value_in_source.
