(* C10 - uncommitted local changes and untracked files are never silently lost.
   Only the property theorems; proofs in Proofs/TwowayProofs.v and by computation on the
   regenerated command table. *)
From Coq Require Import String.
From StgV Require Import Model.Stack Model.DiscardSpec Gen.CmdTable Proofs.TwowayProofs.

(* the check-out of another tree (git read-tree -m -u, as modelled) either refuses - then
   nothing is touched - or keeps every locally modified file exactly as it is *)
Theorem C10_twoway_keeps_dirty_files :
  forall cur target wt wt',
    twoway cur target wt = Some wt' ->
    exists files', wt' = List.concat files'
      /\ List.length files' = List.length (chunks file_sizes wt)
      /\ forall k h i x,
           nth_error (chunks file_sizes cur) k = Some h ->
           nth_error (chunks file_sizes wt) k = Some i ->
           nth_error files' k = Some x ->
           i <> h -> x = i.
Proof. exact twoway_keeps_dirty_files. Qed.
Print Assumptions C10_twoway_keeps_dirty_files.

(* --- ties to the current source --- *)

(* in every command, a transaction discards local changes only when --hard was given *)
Theorem C10_discard_only_on_hard_in_source : forallb discard_only_on_hard all_cmds = true.
Proof. vm_compute. reflexivity. Qed.
Print Assumptions C10_discard_only_on_hard_in_source.

(* read-tree --reset -u outside a transaction: only `stg reset --hard` (guarded by the flag)
   and the failure path of `stg fold`, which runs behind an unconditional cleanliness check *)
Theorem C10_hard_checkouts_in_source :
  forallb (fun ci => no_hard_checkout ci
                     || (String.eqb (ci_file ci) "cmd/reset.rs" && hard_checkout_guarded_by "hard" ci)
                     || (String.eqb (ci_file ci) "cmd/fold.rs"
                         && has_unguarded ci "check_index_and_worktree_clean"))
          all_cmds = true.
Proof. vm_compute. reflexivity. Qed.
Print Assumptions C10_hard_checkouts_in_source.

(* commands that check out another tree without --keep refuse a dirty tree up front *)
Theorem C10_cleanliness_prechecks_in_source :
  forallb (fun ci => existsb (fun g => String.eqb (gc_name g) "check_index_and_worktree_clean") (ci_prechecks ci))
          [cmd_push; cmd_pop; cmd_goto; cmd_float; cmd_sink] = true.
Proof. vm_compute. reflexivity. Qed.
Print Assumptions C10_cleanliness_prechecks_in_source.
