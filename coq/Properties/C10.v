(* C10 - uncommitted local changes and untracked files are never silently lost.
   Only the property theorems; proofs in Proofs/TwowayProofs.v and by computation on the
   regenerated command table. *)
From Coq Require Import String.
From StgV Require Import Model.Stack Model.Cmd Model.StackSpec Model.CmdSpec Model.DiscardSpec Gen.CmdTable
  Proofs.TwowayProofs Proofs.RefreshProofs.

(* the check-out of another tree (git read-tree -m -u, as modelled) either refuses - then
   nothing is touched - or keeps every locally modified file exactly as it is *)
Theorem C10_twoway_keeps_dirty_files :
  forall cur target wt wt',
    twoway cur target wt = Some wt' ->
    exists files', wt' = List.concat files'
      /\ List.length files' = List.length (chunks file_sizes wt)
      /\ forall k h i x,
           nth_error (chunks file_sizes cur) k = Some h ->
           nth_error (chunks file_sizes wt) k = Some i ->
           nth_error files' k = Some x ->
           i <> h -> x = i.
Proof. exact twoway_keeps_dirty_files. Qed.
Print Assumptions C10_twoway_keeps_dirty_files.

(* "the command ... completes with those contents intact (as with ... refresh ...)": a refresh
   of the top patch that succeeds leaves the work tree exactly as it was: everything that was
   uncommitted is now in the patch, nothing was reverted or merged away *)
Theorem C10_refresh_keeps_worktree :
  forall lower_s, LowerOK lower_s ->
  forall w w' s pn,
    Inv w -> w_stack w <> None -> cur_state w = Some s ->
    refresh_target s None = Some pn -> In pn (s_applied s) ->
    step lower_s w (CRefresh None) = (w', X0) ->
    w_wt w' = w_wt w.
Proof. exact refresh_keeps_worktree_top. Qed.
Print Assumptions C10_refresh_keeps_worktree.

(* ... and the same statement for `stg refresh -p <applied patch further down>` is FALSE of the
   faithful model (known finding F43, replayed on the implementation by
   corpus/hist-f43-refresh-p-overridden.json): the patches above are pushed back onto the refreshed
   patch, and one that sets the region back to an older content applies without any conflict
   (another becomes empty): exit status 0, and the work-tree file no longer has what the user had
   written - the change survives only inside the refreshed patch *)
Theorem C10_refresh_p_keeps_worktree_refuted :
  ~ (forall lower_s, LowerOK lower_s ->
     forall w p w' s pn,
       Inv w -> w_stack w <> None -> cur_state w = Some s ->
       refresh_target s p = Some pn -> In pn (s_applied s) ->
       step lower_s w (CRefresh p) = (w', X0) ->
       w_wt w' = w_wt w).
Proof. exact refresh_keeps_worktree_refuted. Qed.
Print Assumptions C10_refresh_p_keeps_worktree_refuted.

(* --- ties to the current source --- *)

(* in every command, a transaction discards local changes only when --hard was given *)
Theorem C10_discard_only_on_hard_in_source : forallb discard_only_on_hard all_cmds = true.
Proof. vm_compute. reflexivity. Qed.
Print Assumptions C10_discard_only_on_hard_in_source.

(* read-tree --reset -u outside a transaction: only `stg reset --hard` (guarded by the flag)
   and the failure path of `stg fold`, which runs behind an unconditional cleanliness check *)
Theorem C10_hard_checkouts_in_source :
  forallb (fun ci => no_hard_checkout ci
                     || (String.eqb (ci_file ci) "cmd/reset.rs" && hard_checkout_guarded_by "hard" ci)
                     || (String.eqb (ci_file ci) "cmd/fold.rs"
                         && has_unguarded ci "check_index_and_worktree_clean"))
          all_cmds = true.
Proof. vm_compute. reflexivity. Qed.
Print Assumptions C10_hard_checkouts_in_source.

(* commands that check out another tree without --keep refuse a dirty tree up front *)
Theorem C10_cleanliness_prechecks_in_source :
  forallb (fun ci => existsb (fun g => String.eqb (gc_name g) "check_index_and_worktree_clean") (ci_prechecks ci))
          [cmd_push; cmd_pop; cmd_goto; cmd_float; cmd_sink] = true.
Proof. vm_compute. reflexivity. Qed.
Print Assumptions C10_cleanliness_prechecks_in_source.
