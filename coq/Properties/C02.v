(* C02 - applied patches are exactly the commit chain from stack base to branch head.
   Only the property theorems; proofs in Proofs/ChainProofs.v. *)
From StgV Require Import Model.StackSpec Proofs.ChainProofs.

Definition ChainInv (w : world) : Prop :=
  forall so s, state_of (w_objs w) so = Some s -> chain_ok (w_objs w) s.

Theorem C02_init_chain : forall t, ChainInv (init_world t).
Proof. exact init_chain. Qed.
Print Assumptions C02_init_chain.

(* in every recorded state the applied patches form a first-parent chain ending at the top *)
Theorem C02_step_chain :
  forall lower_s w c, in_scope c = true -> Inv w -> ChainInv w -> ChainInv (fst (step lower_s w c)).
Proof. exact step_chain. Qed.
Print Assumptions C02_step_chain.

(* when a transaction that sets the head ends with status 0 or 3 (conflict halt), either the
   new state was published - the branch is the recorded head, which is the transaction's
   head - or the roll-back check-out failed (status 3) and neither the branch nor the patch
   refs were moved *)
Theorem C02_execute_head :
  forall w r msg w' x t,
    (r = TOk t \/ exists h, r = THalt t h) -> execute w r msg = (w', x) -> (x = X0 \/ x = X3) ->
    o_set_head (t_opts t) = true ->
    (exists s', cur_state w' = Some s' /\ w_branch w' = s_head s' /\ Some (s_head s') = t_head_oid t)
    \/ (x = X3 /\ w_branch w' = w_branch w /\ w_prefs w' = w_prefs w).
Proof. exact execute_head_or_untouched. Qed.
Print Assumptions C02_execute_head.

(* a conflicting push records the conflicting patch as a commit on top whose tree is the
   tree of the patch below, and makes it the head.  (Premise: the temp-index cache does not
   name the patch's own tree - the ours/theirs swap; C07_tmp_coherent and the tree-equality
   shortcuts make that case unreachable within push_patches.) *)
Theorem C02_conflict_on_top :
  forall n t t',
    (forall pc, t_patch t n = Some pc -> t_tmp_id t <> Some (tree_of (t_objs t) pc)) ->
    push_patch n false t = THalt t' HConflict ->
    exists o top, t_patch t' n = Some o /\ t_top t = Some top
      /\ parents_of (t_objs t') o = [top]
      /\ tree_of (t_objs t') o = tree_of (t_objs t) top
      /\ t_head t' = Some o /\ hd_error (rev (t_applied t')) = Some n.
Proof. exact conflict_on_top_partial. Qed.
Print Assumptions C02_conflict_on_top.

(* the base moves only through commit, uncommit, undo/redo/reset (and repair / plain git) *)
Theorem C02_base_preserved :
  forall lower_s w c b,
    keeps_base c = true -> Inv w -> ChainInv w -> mirror w ->
    (match cur_state w with Some s => s_head s = w_branch w | None => True end) ->
    base_of w = Some b -> base_of (fst (step lower_s w c)) = Some b.
Proof. exact base_preserved. Qed.
Print Assumptions C02_base_preserved.
