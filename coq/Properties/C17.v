(* C17 - branch administration preserves stacks and touches only the named branch.
   Only the property theorems; proofs in Proofs/BranchProofs.v (model of deinitialize /
   ensure_patch_refs / clone / rename / delete / cleanup / protect), Proofs/BranchIwProofs.v
   (transactions with use_index_and_worktree(false)) and by computation on the regenerated
   command table Gen/CmdTable.v. *)
From Coq Require Import List NArith Bool String.
From StgV Require Import Model.Chars Model.GenTypes Model.Stack Model.Cmd Gen.CmdTable
  Proofs.BranchIwProofs Proofs.BranchProofs.
(* the branch model last: its names (ensure_patch_refs, open_stack, rename, delete, ...) are the
   ones meant below; the transaction-level names used by the C17_no_iw_* theorems (transact,
   delete_patches, push_patches, hide_patches, unhide_patches, rename_patch) exist only in
   Model.Stack / Model.Cmd *)
From StgV Require Import Model.Branch Model.BranchSpec.
Import ListNotations.

(* ---- deinitialize() removes exactly the state ref, the patch refs and the stgit config
   section of the branch it is given ---- *)
Theorem C17_deinitialize_exact :
  forall r b,
    (forall k v, In (k, v) (b_refs (deinitialize r b)) <-> In (k, v) (b_refs r) /\ ~ stgit_ref_of b k)
    /\ (forall e, In e (b_cfg (deinitialize r b)) <-> In e (b_cfg r) /\ ce_sub e <> stgit_sub b)
    /\ b_head (deinitialize r b) = b_head r /\ b_states (deinitialize r b) = b_states r.
Proof. exact deinitialize_exact. Qed.
Print Assumptions C17_deinitialize_exact.

(* ---- ... and that never includes anything of a branch that can coexist with it: names
   sharing a prefix, containing '.', or differing only below a '/' ---- *)
Theorem C17_namespaces_disjoint :
  forall b b' n,
    unrelated b b' ->
    ~ ref_of_branch b (head_ref b') /\ ~ ref_of_branch b (stack_ref b')
    /\ ~ ref_of_branch b (patch_ref b' n) /\ stgit_sub b' <> stgit_sub b.
Proof. exact namespaces_disjoint. Qed.
Print Assumptions C17_namespaces_disjoint.

(* ---- opening a stack makes the patch refs exactly the patches of its state (the "lazy"
   creation clone and rename rely on) and touches nothing outside refs/patches/<b>/ ---- *)
Theorem C17_ensure_patch_refs_exact :
  forall refs b ps,
    (forall n c, In (patch_ref b n, c) (ensure_patch_refs refs b ps) <-> In (n, c) ps)
    /\ (forall k v, starts_with (patch_prefix b) k = false ->
                    (In (k, v) (ensure_patch_refs refs b ps) <-> In (k, v) refs)).
Proof. exact ensure_patch_refs_exact. Qed.
Print Assumptions C17_ensure_patch_refs_exact.

(* ---- --cleanup: the stack's refs and stgit config go, nothing else does ---- *)
Theorem C17_cleanup_exact :
  forall r b force r',
    cleanup r b force = (r', true) ->
    (forall k v, In (k, v) (b_refs r') <-> In (k, v) (b_refs r) /\ ~ stgit_ref_of b k)
    /\ (forall e, In e (b_cfg r') <-> In e (b_cfg r) /\ ce_sub e <> stgit_sub b)
    /\ b_head r' = b_head r.
Proof. exact cleanup_exact. Qed.
Print Assumptions C17_cleanup_exact.

(* ---- --delete: additionally the branch ref and the branch's own config section ---- *)
Theorem C17_delete_exact :
  forall r b force r',
    has_stack r b = true -> delete r b force = (r', true) ->
    (forall k v, In (k, v) (b_refs r') <-> In (k, v) (b_refs r) /\ ~ ref_of_branch b k)
    /\ (forall e, In e (b_cfg r') <-> In e (b_cfg r) /\ ce_sub e <> stgit_sub b /\ ce_sub e <> b).
Proof. exact delete_exact. Qed.
Print Assumptions C17_delete_exact.

(* a branch without a stack that opens (plain git branch): only the branch ref and its own
   config section go; as in the implementation, leftovers of a stack that does not open
   (hand-made state) are not cleaned *)
Theorem C17_delete_nostack_exact :
  forall r b force r',
    has_stack r b = false -> delete r b force = (r', true) ->
    (forall k v, In (k, v) (b_refs r') <-> In (k, v) (b_refs r) /\ k <> head_ref b)
    /\ (forall e, In e (b_cfg r') <-> In e (b_cfg r) /\ ce_sub e <> b).
Proof. exact delete_nostack_exact. Qed.
Print Assumptions C17_delete_nostack_exact.

(* ---- --rename carries the complete stack: the new name's state ref is the SAME state
   commit (hence all three lists, every patch commit and the log), its patch refs are exactly
   the patches, nothing is left under the old name, and no other ref changes ---- *)
Theorem C17_rename_carries_stack :
  forall r old new r' ps,
    rename r old new = (r', true) -> stack_patches r old = Some ps ->
    ref_get (b_refs r') (stack_ref new) = ref_get (b_refs r) (stack_ref old)
    /\ ref_get (b_refs r') (head_ref new) = ref_get (b_refs r) (head_ref old)
    /\ (forall n c, In (patch_ref new n, c) (b_refs r') <-> In (n, c) ps)
    /\ (forall k v, In (k, v) (b_refs r') -> ~ ref_of_branch old k)
    /\ same_refs_outside (fun k => ref_of_branch old k \/ ref_of_branch new k) r r'.
Proof. exact rename_carries_stack. Qed.
Print Assumptions C17_rename_carries_stack.

Theorem C17_rename_config :
  forall r old new r',
    has_stack r old = true -> rename r old new = (r', true) -> no_twin old new ->
    (forall e, In e (b_cfg r') -> ce_sub e <> old /\ ce_sub e <> stgit_sub old)
    /\ (forall key v, In (old, key, v) (b_cfg r) -> In (new, key, v) (b_cfg r'))
    /\ (forall key v, In (stgit_sub old, key, v) (b_cfg r) -> key <> s_parentbranch ->
                      In (stgit_sub new, key, v) (b_cfg r'))
    /\ cfg_get (b_cfg r') (stgit_sub new) s_parentbranch
       = cfg_get (b_cfg r) (stgit_sub old) s_parentbranch
    /\ same_cfg_outside (fun s => s = old \/ s = stgit_sub old \/ s = new \/ s = stgit_sub new) r r'.
Proof. exact rename_config. Qed.
Print Assumptions C17_rename_config.

(* ---- --clone: the same, and the branch cloned from keeps everything ---- *)
Theorem C17_clone_carries_stack :
  forall r cur new r' ps,
    clone r new = (r', true) -> b_head r = Some cur -> stack_patches r cur = Some ps ->
    ref_get (b_refs r') (stack_ref new) = ref_get (b_refs r) (stack_ref cur)
    /\ ref_get (b_refs r') (head_ref new) = ref_get (b_refs r) (head_ref cur)
    /\ (forall n c, In (patch_ref new n, c) (b_refs r') <-> In (n, c) ps)
    /\ (forall n c, In (patch_ref cur n, c) (b_refs r') <-> In (n, c) ps)
    /\ same_refs_outside (fun k => ref_of_branch new k \/ starts_with (patch_prefix cur) k = true) r r'
    /\ same_cfg_outside (fun s => s = new \/ s = stgit_sub new) r r'
    /\ b_head r' = Some new.
Proof. exact clone_carries_stack. Qed.
Print Assumptions C17_clone_carries_stack.

(* ---- --create: the new branch starts at the parent's head with an EMPTY stack (whatever
   refs/stacks/<new> or refs/patches/<new>/* plain git had left behind is replaced), becomes the
   current branch, and nothing outside its own refs and its own two config sections changes;
   when the id of the new state commit is fresh, every other branch keeps its stack ---- *)
Theorem C17_create_exact :
  forall r new from hid sid r',
    create r new from hid sid = (r', true) ->
    ref_get (b_refs r') (head_ref new)
      = match from with Some f => ref_get (b_refs r) (head_ref f) | None => Some hid end
    /\ ref_get (b_refs r') (stack_ref new) = Some sid
    /\ stack_patches r' new = Some []
    /\ (forall k v, starts_with (patch_prefix new) k = true -> ~ In (k, v) (b_refs r'))
    /\ same_refs_outside (ref_of_branch new) r r'
    /\ same_cfg_outside (fun s => s = new \/ s = stgit_sub new) r r'
    /\ b_head r' = Some new
    /\ ((forall k v, In (k, v) (b_refs r) -> v <> sid) ->
        forall b, b <> new -> stack_patches r' b = stack_patches r b).
Proof. exact create_exact. Qed.
Print Assumptions C17_create_exact.

(* ---- switching and describing: no ref changes; switch changes nothing but HEAD, describe
   nothing but the description of the named branch ---- *)
Theorem C17_switch_exact :
  forall r b r' ok,
    switch r b = (r', ok) ->
    b_refs r' = b_refs r /\ b_cfg r' = b_cfg r /\ b_states r' = b_states r
    /\ (ok = true -> b_head r' = Some b) /\ (ok = false -> b_head r' = b_head r).
Proof. exact switch_exact. Qed.
Print Assumptions C17_switch_exact.

Theorem C17_describe_exact :
  forall r b text r' ok,
    describe r b text = (r', ok) ->
    b_refs r' = b_refs r /\ b_head r' = b_head r /\ b_states r' = b_states r
    /\ (forall e, ~ (ce_sub e = b /\ ce_key e = s_description) -> (In e (b_cfg r') <-> In e (b_cfg r)))
    /\ (ok = true -> cfg_get (b_cfg r') b s_description = match text with [] => None | _ => Some text end).
Proof. exact describe_exact. Qed.
Print Assumptions C17_describe_exact.

(* ---- protected branches refuse --delete and --cleanup (the protect flag belongs to a
   stack: without one that opens, --delete does not consult it) ---- *)
Theorem C17_protected_refuses :
  forall r b force,
    is_protected r b = true ->
    (has_stack r b = true -> snd (delete r b force) = false) /\ snd (cleanup r b force) = false.
Proof. exact protected_refuses. Qed.
Print Assumptions C17_protected_refuses.

(* ---- a refused sub-command (protected, patches without --force, unusable or existing new
   name, ...) changes no config, no HEAD and no ref outside refs/patches/<named branch>/,
   where opening the stack may have normalised the patch refs ---- *)
Theorem C17_refused_changes_nothing :
  forall r o r',
    bstep r o = (r', false) ->
    b_cfg r' = b_cfg r /\ b_head r' = b_head r
    /\ same_refs_outside (fun k => exists b, op_names r o b /\ starts_with (patch_prefix b) k = true) r r'.
Proof. exact refused_changes_nothing. Qed.
Print Assumptions C17_refused_changes_nothing.

(* ---- every sub-command leaves the refs and config of every unrelated branch alone ---- *)
Theorem C17_other_branches_untouched :
  forall r o r' ok b' ,
    bstep r o = (r', ok) ->
    (forall b, op_names r o b -> unrelated b b' /\ no_twin b b') ->
    (forall k v, ref_of_branch b' k -> (In (k, v) (b_refs r') <-> In (k, v) (b_refs r)))
    /\ (forall e, ce_sub e = b' \/ ce_sub e = stgit_sub b' -> (In e (b_cfg r') <-> In e (b_cfg r))).
Proof. exact other_branches_untouched. Qed.
Print Assumptions C17_other_branches_untouched.

(* ---- the twin-name hazard is real in the model: deleting a branch literally called
   "<b>.stgit" drops b's stgit config (recorded as a known finding when the implementation
   agrees) ---- *)
Theorem C17_stgit_twin_refuted :
  exists r b b' e r',
    b <> b' /\ delete r b true = (r', true) /\ ce_sub e = stgit_sub b'
    /\ In e (b_cfg r) /\ ~ In e (b_cfg r').
Proof. exact stgit_twin_refuted. Qed.
Print Assumptions C17_stgit_twin_refuted.

(* ---- --branch: a transaction set up with use_index_and_worktree(false) never changes the
   index or the work tree, whatever it does to the stack: the closures of the
   --branch-capable commands delete / hide / unhide / rename ---- *)
Theorem C17_no_iw_delete :
  forall op o sel msg w' x,
    o_use_iw o = false ->
    transact op o (fun t => let '(t1, to_push) := delete_patches sel t in
                            push_patches to_push false t1) msg = (w', x) ->
    w_wt w' = w_wt (op_world op) /\ w_unmerged w' = w_unmerged (op_world op).
Proof. exact no_iw_delete. Qed.
Print Assumptions C17_no_iw_delete.

Theorem C17_no_iw_hide_unhide_rename :
  forall op o msg w' x,
    o_use_iw o = false ->
    (forall l, transact op o (hide_patches l) msg = (w', x) ->
               w_wt w' = w_wt (op_world op) /\ w_unmerged w' = w_unmerged (op_world op))
    /\ (forall l, transact op o (unhide_patches l) msg = (w', x) ->
                  w_wt w' = w_wt (op_world op) /\ w_unmerged w' = w_unmerged (op_world op))
    /\ (forall a b, transact op o (rename_patch a b) msg = (w', x) ->
                    w_wt w' = w_wt (op_world op) /\ w_unmerged w' = w_unmerged (op_world op)).
Proof. exact no_iw_hide_unhide_rename. Qed.
Print Assumptions C17_no_iw_hide_unhide_rename.

(* ---- tie to the current source ---- *)

(* knowing only that --branch was given decides the option *)
Theorem C17_eval3_sound :
  forall e b flag present,
    eval3 e = Some b -> present "branch"%string = true -> bexpr_eval flag present e = b.
Proof. exact eval3_sound. Qed.
Print Assumptions C17_eval3_sound.

(* every command that takes --branch runs its transactions without index and work tree
   once the option is present *)
Theorem C17_branch_option_in_source :
  forallb branch_arg_ok all_cmds = true.
Proof. vm_compute. reflexivity. Qed.
Print Assumptions C17_branch_option_in_source.

(* delete, cleanup, rebase, pull and repair consult is_protected before their first write *)
Theorem C17_protect_checked_first_in_source :
  forallb (fun ci => protect_first (ci_seq ci))
          [cmd_branch_delete; cmd_branch_cleanup; cmd_rebase; cmd_pull; cmd_repair] = true.
Proof. vm_compute. reflexivity. Qed.
Print Assumptions C17_protect_checked_first_in_source.

(* clone lets git refuse the new name before any stack state is written; rename moves the
   stgit config section and deinitializes the old name only after git has moved the branch *)
Theorem C17_git_refuses_first_in_source :
  first_write_is "dispatch" "branch_copy" (ci_seq cmd_branch_clone) = true
  /\ seq_before "dispatch" "branch_move" "write_local_config" (ci_seq cmd_branch_rename) = true
  /\ seq_before "dispatch" "branch_move" "deinitialize" (ci_seq cmd_branch_rename) = true.
Proof. vm_compute. repeat split; reflexivity. Qed.
Print Assumptions C17_git_refuses_first_in_source.
