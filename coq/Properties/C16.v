(* C16 - inspection commands never modify the repository.
   Only the property theorems; proofs in Proofs/OpenProofs.v and by computation on the
   regenerated command table Gen/CmdTable.v. *)
From Coq Require Import String.
From StgV Require Import Model.StackSpec Model.InspectSpec Gen.CmdTable Proofs.OpenProofs.

(* opening a stack with AllowUninitialized / RequireInitialized leaves refs, index and work
   tree as they are whenever the patch refs mirror the stack (C01) *)
Theorem C16_open_readonly :
  forall p w op,
    readonly_policy p = true -> mirror w -> w_prefs w = [] \/ cur_state w <> None ->
    open_stack p w = Some op -> same_repository w (op_world op).
Proof. exact open_readonly. Qed.
Print Assumptions C16_open_readonly.

Theorem C16_inspect_readonly :
  forall lower_s w,
    mirror w -> w_prefs w = [] \/ cur_state w <> None ->
    same_repository w (fst (step lower_s w CInspect)).
Proof. exact inspect_readonly. Qed.
Print Assumptions C16_inspect_readonly.

(* ... and never initialises a stack *)
Theorem C16_never_initialises :
  forall lower_s w, w_stack w = None -> w_stack (fst (step lower_s w CInspect)) = None.
Proof. exact inspect_never_initialises. Qed.
Print Assumptions C16_never_initialises.

(* --- tie to the current source: every inspection command (and the revision-spec resolver
   they share) opens stacks only with non-initialising policies, runs no transaction and
   calls nothing that writes to the repository; `stg log` calls clear_state_log only under
   --clear --- *)
Theorem C16_inspection_commands_in_source :
  forallb (inspection_ok [("clear_state_log", "clear")])
          [cmd_series; cmd_show; cmd_id; cmd_name; cmd_top; cmd_next; cmd_prev; cmd_patches;
           cmd_files; cmd_diff; cmd_log; cmd_export; cmd_branch_list; cmd_version; patch_revspec;
           branchloc] = true.
Proof. vm_compute. reflexivity. Qed.
Print Assumptions C16_inspection_commands_in_source.
