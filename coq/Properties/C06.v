(* C06 - the stack log is append-only and keeps every patch safe from git gc.
   Only the property theorems; proofs in Proofs/ReachProofs.v. *)
From StgV Require Import Model.StackSpec Model.LogSpec Proofs.ReachProofs.

(* grouping terminates within its fuel, keeps at most MAX_PARENTS parents and keeps every
   original parent reachable *)
Theorem C06_group_bound :
  forall objs tree ps objs' ps',
    group_parents (length ps) max_parents_nat objs tree ps = (objs', ps') ->
    length ps' <= max_parents_nat /\ store_extends objs objs'.
Proof. exact group_bound. Qed.
Print Assumptions C06_group_bound.

Theorem C06_group_reach :
  forall objs tree ps objs' ps',
    group_parents (length ps) max_parents_nat objs tree ps = (objs', ps') ->
    (forall p, In p ps -> p < length objs) ->
    forall p, In p ps -> exists q, In q ps' /\ reach objs' q p.
Proof. exact group_reach. Qed.
Print Assumptions C06_group_reach.

(* a new state commit reaches its previous state commit, and every commit among its head,
   top, unapplied and hidden patches - except those it may leave out because the previous
   state already records them as patches (they are reachable through the previous state).
   The extra premise says that the previous state commit is not itself recorded as a patch
   of the previous state (true in every reachable world: patch commits are plain commits,
   C01) - without it the subtraction would drop the link to the previous state. *)
Theorem C06_state_commit_reaches :
  forall objs s msg objs' so,
    state_commit objs s msg = Some (objs', so) ->
    (forall o, In o (parent_set s None) -> o < length objs) ->
    (forall p, s_prev s = Some p -> p < length objs) ->
    (forall p ps n, s_prev s = Some p -> state_of objs p = Some ps ->
                    In n (all_of ps) -> patch_oid ps n <> p) ->
    store_extends objs objs'
    /\ state_of objs' so = Some s
    /\ (forall p, s_prev s = Some p -> reach objs' so p)
    /\ (forall o, In o (parent_set s None) ->
          reach objs' so o
          \/ exists p ps n, s_prev s = Some p /\ state_of objs p = Some ps
                            /\ In n (all_of ps) /\ patch_oid ps n = o).
Proof. exact state_commit_reaches_partial. Qed.
Print Assumptions C06_state_commit_reaches.

(* every command keeps every patch of every logged state reachable from refs/stacks/<b> *)
Theorem C06_step_reach :
  forall lower_s, LowerOK lower_s ->
  forall w c, in_scope c = true -> Inv6 w -> prev_decreasing (w_objs w) ->
    let w' := fst (step lower_s w c) in
    Inv6 w' /\ prev_decreasing (w_objs w').
Proof. exact step_reach. Qed.
Print Assumptions C06_step_reach.

(* the log is append-only: except for `stg log --clear`, the old log is the tail of the new
   one, unchanged *)
Theorem C06_append_only :
  forall lower_s w c top so,
    c <> CLogClear -> Inv w -> prev_decreasing (w_objs w) ->
    w_stack w = Some top -> on_log (w_objs w) top so ->
    let w' := fst (step lower_s w c) in
    exists top', w_stack w' = Some top' /\ on_log (w_objs w') top' so
                 /\ get (w_objs w') so = get (w_objs w) so.
Proof. exact append_only. Qed.
Print Assumptions C06_append_only.

(* consequently a garbage collection that keeps everything reachable from the refs keeps
   every patch commit of every logged state *)
Theorem C06_gc_safe :
  forall w top so s n o (kept : oid -> Prop),
    Inv6 w -> w_stack w = Some top ->
    (forall a b, kept a -> reach (w_objs w) a b -> kept b) -> kept top ->
    on_log (w_objs w) top so -> state_of (w_objs w) so = Some s ->
    pm_get (s_patches s) n = Some o -> kept o.
Proof. exact gc_safe. Qed.
Print Assumptions C06_gc_safe.
