(* C04 - a crash at any point leaves a recoverable stack and loses no patch.
   Only the property theorems; proofs in Proofs/ProtocolProofs.v. *)
From Coq Require Import String.
From StgV Require Import Model.ProtocolSpec Model.ExpectedOrder Gen.ExecOrder Proofs.ProtocolProofs.

(* killed at any program point, or after any number of single-ref operations of the final
   reference transaction, the state ref holds the old state, the logged external-modification
   state, or the new state - never anything else *)
Theorem C04_state_ref_two_valued :
  forall pl w0 p, stack_ref_two_valued pl w0 (crash_at pl w0 p).
Proof. exact state_ref_two_valued. Qed.
Print Assumptions C04_state_ref_two_valued.

Theorem C04_state_ref_two_valued_in_edit :
  forall pl w0 j, stack_ref_two_valued pl w0 (crash_in_edit pl w0 j).
Proof. exact state_ref_two_valued_in_edit. Qed.
Print Assumptions C04_state_ref_two_valued_in_edit.

(* no ref ever holds a value that is neither its old value nor one of the objects the
   transaction created before touching any ref *)
Theorem C04_no_foreign_value :
  forall pl w0 j, no_foreign_value pl w0 (crash_in_edit pl w0 j).
Proof. exact no_foreign_value_in_edit. Qed.
Print Assumptions C04_no_foreign_value.

(* the reference transaction is ordered: the branch ref moves only after the state ref *)
Theorem C04_branch_after_state :
  forall pl w0 j,
    ref_get (pw_refs (crash_in_edit pl w0 j)) RBranch <> ref_get (pw_refs w0) RBranch ->
    p_set_head pl = true /\
    ref_get (pw_refs (crash_in_edit pl w0 j)) RStack = Some (p_new_state pl).
Proof. exact branch_after_state. Qed.
Print Assumptions C04_branch_after_state.

(* a complete prefix is the whole publication *)
Theorem C04_full_prefix :
  forall pl w0,
    pw_refs (crash_in_edit pl w0 (length (plan_edits pl (pw_refs (world_at pl w0 PtCritBeforeEdit)))))
    = pw_refs (world_at pl w0 PtCritAfterEdit).
Proof. exact full_prefix. Qed.
Print Assumptions C04_full_prefix.

(* --- tie to the current source: all objects are written (state.commit) before the ref
   edits are built and applied --- *)
Theorem C04_execute_order_in_source : execute_events = expected_execute_events.
Proof. vm_compute. reflexivity. Qed.
Print Assumptions C04_execute_order_in_source.
