(* C14 - derived and accepted patch names are always valid, bounded and unique.
   This file contains only the property theorems; each is closed by [exact] of a lemma
   from Proofs/NameProofs.v and followed by Print Assumptions. *)
From StgV Require Import Model.Name Model.NameSpec Proofs.NameProofs.

(* every accepted name is a legal last component of refs/patches/<branch>/<name> *)
Theorem C14_validate_sound :
  forall n, validate n = true -> git_component_ok n = true.
Proof. exact validate_sound. Qed.
Print Assumptions C14_validate_sound.

(* derivation is total (never panics) and yields a valid name, for every raw string, both
   lowercase modes, every limit *)
Theorem C14_make_valid :
  forall lower_s, LowerOK lower_s ->
  forall raw lower limit,
    exists n, make lower_s raw lower limit = Ok n /\ validate n = true.
Proof. exact make_valid. Qed.
Print Assumptions C14_make_valid.

(* the derived name does not exceed the limit unless its first word alone is longer *)
Theorem C14_make_bounded :
  forall lower_s, LowerOK lower_s ->
  forall raw lower l n,
    0 < l -> make lower_s raw lower (Some l) = Ok n ->
    utf8_len n <= l \/ l < utf8_len (first_word (make_candidate lower_s raw lower)).
Proof. exact make_bounded. Qed.
Print Assumptions C14_make_bounded.

(* uniquifying keeps the name valid and removes every (case-insensitive) collision *)
Theorem C14_uniquify_spec :
  forall n allow dis r,
    validate n = true -> uniquify n allow dis = UOk r ->
    validate r = true
    /\ (name_in r allow = true \/ Forall (fun d => collides r d = false) dis).
Proof. exact uniquify_spec. Qed.
Print Assumptions C14_uniquify_spec.

(* ... and always terminates within the model's fuel (length dis + 1 steps) *)
Theorem C14_uniquify_terminates :
  forall n allow dis, uniquify n allow dis <> UFuel.
Proof. exact uniquify_never_out_of_fuel. Qed.
Print Assumptions C14_uniquify_terminates.

(* the two definitions of validity (FromStr/validate and the winnow parser) agree *)
Theorem C14_parser_agrees :
  forall s n, patch_name_p s = POk n [] <-> from_str s = Some n.
Proof. exact parser_agrees. Qed.
Print Assumptions C14_parser_agrees.

(* a lowercase table that passes the (complete, finite) check satisfies LowerOK *)
Theorem C14_table_sound :
  forall tbl choose, check_table tbl = true -> LowerOK (lower_of_table tbl choose).
Proof. exact table_sound. Qed.
Print Assumptions C14_table_sound.

(* the names `stg uncommit` generates from commit messages (uncommit.rs make_patchnames, as it
   is run by Model/Cmd.v): never a panic, one name per commit, every name valid, colliding with
   no patch of the stack - applied, unapplied or hidden - and with no other generated name *)
From StgV Require Import Model.Stack Model.Cmd Proofs.UncommitNames.
Theorem C14_uncommit_names_fresh :
  forall lower_s, LowerOK lower_s ->
  forall objs s commits,
    exists pns, make_patchnames lower_s objs s commits = Some pns
      /\ length pns = length commits
      /\ Forall (fun n => validate n = true
                          /\ forallb (fun d => negb (collides n d)) (all_of s) = true) pns
      /\ ForallOrdPairs (fun a b => collides a b = false) pns.
Proof. exact uncommit_names_fresh. Qed.
Print Assumptions C14_uncommit_names_fresh.
