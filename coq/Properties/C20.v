(* C20 - stg always terminates with a documented exit status and never panics.
   Only the property theorems; proofs in Proofs/NoPanicProofs.v, Proofs/NameProofs.v,
   Proofs/LocatorProofs.v and by computation on Gen/. *)
From Coq Require Import String ZArith.
From StgV Require Import Model.ExitSpec Model.PanicClass Model.LocatorSpec Gen.Consts Gen.PanicSites
     Proofs.NameProofs Proofs.LocatorProofs Proofs.NoPanicProofs.

(* every non-panic outcome maps to one of the documented statuses 0, 1, 2, 3 (with the
   constants of the current source) *)
Theorem C20_exit_documented :
  forall x, x <> XPanic -> exists z, exit_status x = Some z /\ documented z.
Proof. exact exit_documented. Qed.
Print Assumptions C20_exit_documented.

(* name derivation never panics (C14), locator / range resolution never panics (C15) *)
Theorem C20_make_total :
  forall lower_s, LowerOK lower_s -> forall raw lower limit, make lower_s raw lower limit <> Panic.
Proof. exact make_no_panic. Qed.
Print Assumptions C20_make_total.

Theorem C20_resolve_total :
  forall v l, wf_loc l -> resolve_name v l <> RPanic.
Proof. exact resolve_no_panic. Qed.
Print Assumptions C20_resolve_total.

(* no modelled command panics from a well-formed world, outside the known finding F6
   (stg repair with a foreign commit below a patch).  [stack_ref_has_parent]: the state ref
   designates a state commit that has a parent (every state commit stg writes has its
   "simplified" parent); it holds initially and is preserved by every command. *)
Theorem C20_step_no_panic :
  forall lower_s, LowerOK lower_s ->
  forall w c, Inv w -> ChainInvP w -> stack_ref_has_parent w -> cmd_ok c = true ->
    snd (step lower_s w c) <> XPanic.
Proof. exact step_no_panic. Qed.
Print Assumptions C20_step_no_panic.

Theorem C20_stack_ref_has_parent_init : forall t, stack_ref_has_parent (init_world t).
Proof. exact init_stack_ref_has_parent. Qed.
Print Assumptions C20_stack_ref_has_parent_init.

Theorem C20_stack_ref_has_parent_step :
  forall lower_s w c, stack_ref_has_parent w -> stack_ref_has_parent (fst (step lower_s w c)).
Proof. exact step_stack_ref_has_parent. Qed.
Print Assumptions C20_stack_ref_has_parent_step.

(* --- ties to the current source --- *)
Theorem C20_statuses_in_source :
  general_error = 1%Z /\ command_error = 2%Z /\ conflict_error = 3%Z /\ sigint_code = 130%Z.
Proof. vm_compute. repeat split; reflexivity. Qed.
Print Assumptions C20_statuses_in_source.

(* every potential panic site of the modelled modules is a reviewed one *)
Theorem C20_sites_classified : all_classified panic_sites = true.
Proof. vm_compute. reflexivity. Qed.
Print Assumptions C20_sites_classified.
