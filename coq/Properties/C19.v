(* C19 - a single Ctrl-C never leaves a half-published or misreported stack state.
   Only the property theorems; proofs in Proofs/ProtocolProofs.v; source tie on Gen/. *)
From Coq Require Import String ZArith.
From StgV Require Import Model.ProtocolSpec Model.ExpectedOrder Gen.ExecOrder Gen.Consts Proofs.ProtocolProofs.

(* an interrupt that arrives before publication leaves every ref of the stack unchanged
   (except the state ref when external modifications had to be logged first) *)
Theorem C19_sigint_before_crit :
  forall pl w0 p,
    in_critical p = false -> (point_index p <= 5)%nat ->
    ob_exit (sigint_at pl w0 p) = E130
    /\ (pw_refs (ob_world (sigint_at pl w0 p)) = pw_refs w0
        \/ (p_extmods pl <> None
            /\ pw_refs (ob_world (sigint_at pl w0 p)) = extmods_refs pl (pw_refs w0))).
Proof. exact sigint_before_crit. Qed.
Print Assumptions C19_sigint_before_crit.

(* an interrupt that arrives while the new state is being published lets the publication
   complete: refs, index and work tree are those of the completed command *)
Theorem C19_sigint_in_crit_completes :
  forall pl w0 p,
    in_critical p = true ->
    ob_world (sigint_at pl w0 p) = final_world pl w0 /\ ob_exit (sigint_at pl w0 p) = E130.
Proof. exact sigint_in_crit_completes. Qed.
Print Assumptions C19_sigint_in_crit_completes.

(* stg never claims a roll-back after an interrupt *)
Theorem C19_never_misreports :
  forall pl w0 p, ob_says_rolled_back (sigint_at pl w0 p) = false.
Proof. exact sigint_never_misreports. Qed.
Print Assumptions C19_never_misreports.

(* --- tie to the current source: the shape of signal::critical and of the handler --- *)
Theorem C19_critical_in_source :
  critical_events = expected_critical_events /\ signal_setup_events = expected_signal_setup_events
  /\ sigint_code = 130%Z.
Proof. vm_compute. repeat split; reflexivity. Qed.
Print Assumptions C19_critical_in_source.
