(* C18 - export followed by import reproduces the patches: the text side (template,
   message/diff splitter, header parser).  Only the property theorems; proofs in
   Proofs/ExportProofs.v.  The diff itself (git diff-tree --binary, git apply) is git's. *)
From Coq Require Import List NArith Bool.
From StgV Require Import Model.Chars Model.Export Model.ExportSpec Proofs.ExportProofs.
Import ListNotations.
Open Scope N_scope.

(* splitting loses and invents nothing: message ++ diff is the file *)
Theorem C18_split_partition :
  forall content, fst (split_patch content) ++ snd (split_patch content) = content.
Proof. exact split_partition. Qed.
Print Assumptions C18_split_partition.

(* the message part never contains a separator line, and the diff part (when there is
   one) starts with the first separator line *)
Theorem C18_split_at_first_separator :
  forall content,
    forallb (fun ln => negb (is_sep_line ln)) (lines_wt (fst (split_patch content))) = true
    /\ (snd (split_patch content) = []
        \/ exists ln rest, lines_wt (snd (split_patch content)) = ln :: rest /\ is_sep_line ln = true).
Proof. exact split_at_first_separator. Qed.
Print Assumptions C18_split_at_first_separator.

(* a template without '%' is copied; a known specifier is replaced by its value *)
Theorem C18_specialize_plain :
  forall t repl, forallb (fun c => negb (c =? 37)) t = true -> specialize t repl = t.
Proof. exact specialize_plain. Qed.
Print Assumptions C18_specialize_plain.

(* the default template renders to exactly this text *)
Theorem C18_default_template_renders :
  forall p short long,
    descr_split (pi_description p) = (short, long) ->
    export_file default_template p =
      short ++ [10; 10] ++ [70; 114; 111; 109; 58; 32] ++ pi_authname p ++ [32; 60] ++ pi_authemail p
            ++ [62; 10; 10] ++ long ++ [10; 45; 45; 45; 10] ++ pi_diffstat p ++ [10] ++ pi_diff p.
Proof. exact default_template_renders. Qed.
Print Assumptions C18_default_template_renders.

(* THE round trip: what `stg export` writes with the default template, `stg import` reads
   back as the same subject, author name, author e-mail and message body, and hands the
   untouched rest to git apply *)
Theorem C18_export_import_roundtrip :
  forall p short long,
    descr_split (pi_description p) = (short, long) ->
    good_short short -> good_long long -> good_ident (pi_authname p) (pi_authemail p) ->
    import_file (export_file default_template p) =
      Some (mkImp (mkH None (Some (pi_authname p, pi_authemail p)) None (Some short) None)
                  (short ++ [10; 10] ++ body_of long)
                  ([45; 45; 45; 10] ++ pi_diffstat p ++ [10] ++ pi_diff p)).
Proof. exact export_import_roundtrip. Qed.
Print Assumptions C18_export_import_roundtrip.

(* ... which is the description up to trailing blank lines *)
Theorem C18_message_up_to_trailing_blank_lines :
  forall short long,
    good_short short -> good_long long -> long <> [] ->
    utrim_end (short ++ [10; 10] ++ body_of long) = short ++ [10; 10] ++ long
    /\ descr_split (short ++ [10; 10] ++ long) = (short, long).
Proof. exact message_up_to_trailing_blank_lines. Qed.
Print Assumptions C18_message_up_to_trailing_blank_lines.

(* the hypotheses are not vacuous: a multi-paragraph message with a trailer and non-ASCII *)
Theorem C18_roundtrip_example :
  exists p short long,
    descr_split (pi_description p) = (short, long) /\ good_short short /\ good_long long
    /\ long <> [] /\ good_ident (pi_authname p) (pi_authemail p)
    /\ existsb (fun c => 128 <=? c) (pi_description p) = true
    /\ In [10] (lines_wt (long ++ [10])).
Proof. exact roundtrip_example. Qed.
Print Assumptions C18_roundtrip_example.

(* ---- where the full statement of C18 is false of the faithful model (replayed on the
   implementation by harness/p_c18.py; known findings F13, F14, F35) ---- *)

(* F13: a `---` line inside the message ends the message at import *)
Theorem C18_dash_line_refuted :
  exists p im,
    good_short (fst (descr_split (pi_description p)))
    /\ good_ident (pi_authname p) (pi_authemail p)
    /\ import_file (export_file default_template p) = Some im
    /\ utrim_end (im_message im) <> utrim_end (pi_description p).
Proof. exact dash_line_refuted. Qed.
Print Assumptions C18_dash_line_refuted.

(* F14: a first body line that looks like a header is taken as one: the author changes *)
Theorem C18_from_line_refuted :
  exists p im,
    good_short (fst (descr_split (pi_description p)))
    /\ good_ident (pi_authname p) (pi_authemail p)
    /\ import_file (export_file default_template p) = Some im
    /\ h_author (im_headers im) <> Some (pi_authname p, pi_authemail p).
Proof. exact from_line_refuted. Qed.
Print Assumptions C18_from_line_refuted.

(* F35: leading white space of the first body line is dropped *)
Theorem C18_indent_refuted :
  exists p im,
    good_short (fst (descr_split (pi_description p)))
    /\ good_ident (pi_authname p) (pi_authemail p)
    /\ forallb (fun ln => negb (is_sep_line ln)) (lines_wt (pi_description p ++ [10])) = true
    /\ import_file (export_file default_template p) = Some im
    /\ h_author (im_headers im) = Some (pi_authname p, pi_authemail p)
    /\ utrim_end (im_message im) <> utrim_end (pi_description p).
Proof. exact indent_refuted. Qed.
Print Assumptions C18_indent_refuted.
