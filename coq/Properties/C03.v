(* C03 - a failed stack transaction leaves refs, index and work tree as they were.
   Only the property theorems; proofs in Proofs/ProtocolProofs.v; source tie by computation
   on Gen/ExecOrder.v (regenerated from transaction/mod.rs on every run). *)
From Coq Require Import String.
From StgV Require Import Model.ProtocolSpec Model.ExpectedOrder Gen.ExecOrder Proofs.ProtocolProofs.

(* whichever step fails - outside the known classes - the command error leaves every ref
   and the checked-out tree exactly as they were when the stack was loaded *)
Theorem C03_fault_atomic :
  forall pl w0 p,
    p_old_tree pl = pw_wt w0 -> ~ known_c03 pl p ->
    ob_exit (fault_at pl w0 p) = E2 /\ unchanged w0 (ob_world (fault_at pl w0 p)).
Proof. exact fault_atomic. Qed.
Print Assumptions C03_fault_atomic.

(* the known classes are real: each has a fault position that changes something *)
Theorem C03_known_classes_nonempty :
  exists pl w0 p, p_old_tree pl = pw_wt w0 /\ known_c03 pl p
                  /\ ~ unchanged w0 (ob_world (fault_at pl w0 p)).
Proof. exact known_classes_nonempty. Qed.
Print Assumptions C03_known_classes_nonempty.

(* no ref moves before the reference transaction, except the state ref when external
   modifications are logged *)
Theorem C03_refs_move_last :
  forall pl w0 p,
    (point_index p <= 9)%nat ->
    pw_refs (world_at pl w0 p) = pw_refs w0
    \/ (p_extmods pl <> None /\ pw_refs (world_at pl w0 p) = extmods_refs pl (pw_refs w0)).
Proof. exact refs_move_last. Qed.
Print Assumptions C03_refs_move_last.

(* --- tie to the current source: the order of the publication-relevant events inside
   ExecuteContext::execute is the one the model assumes --- *)
Theorem C03_execute_order_in_source : execute_events = expected_execute_events.
Proof. vm_compute. reflexivity. Qed.
Print Assumptions C03_execute_order_in_source.

Theorem C03_checkout_order_in_source : checkout_events = expected_checkout_events.
Proof. vm_compute. reflexivity. Qed.
Print Assumptions C03_checkout_order_in_source.
