(* C01 - stack metadata is always well-formed and mirrored by the patch refs.
   Only the property theorems; proofs in Proofs/WfProofs.v. *)
From StgV Require Import Model.StackSpec Proofs.WfProofs.

Theorem C01_init_inv : forall t, Inv (init_world t).
Proof. exact init_inv. Qed.
Print Assumptions C01_init_inv.

(* every command - succeeding, failing, halting on conflicts or panicking - preserves
   well-formedness of every recorded state *)
Theorem C01_step_inv :
  forall lower_s, LowerOK lower_s ->
  forall w c, in_scope c = true -> Inv w -> Inv (fst (step lower_s w c)).
Proof. exact step_inv. Qed.
Print Assumptions C01_step_inv.

Theorem C01_all_histories :
  forall lower_s, LowerOK lower_s ->
  forall cs w, forallb in_scope cs = true -> Inv w -> Inv (run lower_s w cs).
Proof. exact run_inv. Qed.
Print Assumptions C01_all_histories.

(* opening the stack makes refs/patches/<b>/* mirror the recorded patches ... *)
Theorem C01_open_mirror :
  forall p w op, open_stack p w = Some op -> mirror (op_world op).
Proof. exact open_mirror. Qed.
Print Assumptions C01_open_mirror.

(* ... and every command keeps them mirrored *)
Theorem C01_step_mirror :
  forall lower_s w c, mirror w -> mirror (fst (step lower_s w c)).
Proof. exact step_mirror. Qed.
Print Assumptions C01_step_mirror.
