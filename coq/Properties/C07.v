(* C07 - reordering commands yield the documented order and preserve each patch's change.
   Only the property theorems; proofs in Proofs/ReorderProofs.v and Proofs/MergedRefuted.v. *)
From StgV Require Import Model.StackSpec Model.IdentSpec Proofs.ReorderProofs Proofs.MergedRefuted.

(* --- the list part --- *)

(* a successful reorder leaves exactly the requested lists *)
Theorem C07_reorder_lists :
  forall a u h t t',
    reorder_patches a u h t = TOk t' ->
    (match a with Some l => t_applied t' = l | None => t_applied t' = t_applied t end)
    /\ (match u with Some l => t_unapplied t' = l | None => True end)
    /\ (match h with Some l => t_hidden t' = l | None => True end).
Proof. exact reorder_lists. Qed.
Print Assumptions C07_reorder_lists.

(* pushing: the named patches go on top in the requested order, everything else keeps its
   relative order; a halt keeps the pushes made so far *)
Theorem C07_push_lists :
  forall ns t t',
    NoDup ns -> (forall n, In n ns -> In n (t_unapplied t ++ t_hidden t)) ->
    NoDup (t_applied t ++ t_unapplied t ++ t_hidden t) ->
    push_patches ns false t = TOk t' ->
    t_applied t' = t_applied t ++ ns
    /\ t_unapplied t' = filter (fun n => negb (mem n ns)) (t_unapplied t)
    /\ t_hidden t' = filter (fun n => negb (mem n ns)) (t_hidden t).
Proof. exact push_lists. Qed.
Print Assumptions C07_push_lists.

(* popping: requested and incidental patches go to the front of unapplied in stack order;
   no commit is created or altered *)
Theorem C07_pop_lists :
  forall f t t' inc,
    pop_patches f t = (t', inc) ->
    (exists keep popped, t_applied t = keep ++ popped /\ t_applied t' = keep
        /\ Forall (fun n => f n = false) keep
        /\ t_unapplied t' = filter (fun n => negb (f n)) popped ++ filter f popped ++ t_unapplied t)
    /\ t_hidden t' = t_hidden t
    /\ t_objs t' = t_objs t /\ t_updated t' = t_updated t.
Proof. exact pop_lists. Qed.
Print Assumptions C07_pop_lists.

(* deleting removes exactly the selected patches and keeps the order of the others *)
Theorem C07_delete_lists :
  forall f t t' inc,
    delete_patches f t = (t', inc) ->
    filter (fun n => negb (f n)) (t_applied t ++ t_unapplied t) = t_applied t' ++ t_unapplied t'
    /\ t_hidden t' = filter (fun n => negb (f n)) (t_hidden t)
    /\ t_objs t' = t_objs t.
Proof. exact delete_lists. Qed.
Print Assumptions C07_delete_lists.

(* --- the content part --- *)

(* the four tree-equality shortcuts of push_patch return what the three-way merge returns *)
Theorem C07_shortcuts_sound :
  forall o n p, same_len o n p ->
    (o = n -> merge3 o n p = Some p)
    /\ (o = p -> merge3 o n p = Some n)
    /\ (n = p -> merge3 o n p = Some p).
Proof. exact shortcuts_sound. Qed.
Print Assumptions C07_shortcuts_sound.

(* a change that does not overlap what lies beneath merges cleanly, to exactly the new parent
   plus the patch's change; git-apply and the real merge agree on it *)
Theorem C07_nonoverlap_merge :
  forall o n p, same_len o n p -> no_overlap o n p ->
    merge3 o n p = Some (apply_delta o n p).
Proof. exact nonoverlap_merge. Qed.
Print Assumptions C07_nonoverlap_merge.

(* the merge is symmetric in ours/theirs (the swap in push_patch is sound) *)
Theorem C07_merge_sym :
  forall o a b, merge3 o a b = merge3 o b a.
Proof. exact merge_sym. Qed.
Print Assumptions C07_merge_sym.

(* two patches with non-overlapping changes can be pushed in either order: same tree *)
Theorem C07_order_independent :
  forall b p1 p2, same_len b p1 p2 -> no_overlap b p1 p2 ->
    apply_delta b (apply_delta b b p1) p2 = apply_delta b (apply_delta b b p2) p1.
Proof. exact order_independent. Qed.
Print Assumptions C07_order_independent.

(* a change already present beneath the patch makes the patch empty, not a conflict *)
Theorem C07_already_present_empty :
  forall o n, length o = length n -> merge3 o n n = Some n.
Proof. exact already_present_empty. Qed.
Print Assumptions C07_already_present_empty.

(* git apply --3way succeeds only with the merge result (so a tree produced through the
   temp index is the three-way merge) *)
Theorem C07_apply_is_merge :
  forall w o c t r, apply3way w o c t = Some r -> merge3 o c t = Some r.
Proof. exact apply_is_merge. Qed.
Print Assumptions C07_apply_is_merge.

(* the temp-index cache stays coherent across every push of one command *)
Theorem C07_tmp_coherent :
  forall n am t t',
    tmp_coherent t -> (push_patch n am t = TOk t' \/ exists h, push_patch n am t = THalt t' h) ->
    tmp_coherent t'.
Proof. exact push_tmp_coherent. Qed.
Print Assumptions C07_tmp_coherent.

(* pushing a patch whose parent already is the top reuses the very same commit *)
Theorem C07_pop_push_identity :
  forall n t t' pc top,
    t_patch t n = Some pc -> t_top t = Some top -> first_parent (t_objs t) pc = Some top ->
    push_patch n false t = TOk t' ->
    t_patch t' n = Some pc /\ t_objs t' = t_objs t.
Proof. exact pop_push_identity. Qed.
Print Assumptions C07_pop_push_identity.

(* what push_patch commits: the three-way merge of (old parent tree, new parent tree, patch
   tree) on the new top, when it does not conflict *)
Theorem C07_push_tree_is_merge :
  forall n t t' pc oldp top,
    tmp_coherent t ->
    t_patch t n = Some pc -> first_parent (t_objs t) pc = Some oldp -> t_top t = Some top ->
    same_len (tree_of (t_objs t) oldp) (tree_of (t_objs t) top) (tree_of (t_objs t) pc) ->
    push_patch n false t = TOk t' ->
    exists o, t_patch t' n = Some o
      /\ merge3 (tree_of (t_objs t) oldp) (tree_of (t_objs t) top) (tree_of (t_objs t) pc)
         = Some (tree_of (t_objs t') o)
      /\ (o = pc \/ parents_of (t_objs t') o = [top]).
Proof. exact push_tree_is_merge. Qed.
Print Assumptions C07_push_tree_is_merge.

(* ---- where the full statement of C07 is false of the faithful model: `--merged` (known finding
   F37, replayed on the implementation by corpus/hist-f37-merged-heuristic.json).  From the
   initial world, by commands: patch m4 sets cells 1 and 2 to 2, patch n5 sets cell 2 back to 1,
   both are popped, upstream commits an unrelated change; `stg push --merged --all` succeeds,
   takes n5 for merged (its reverse applies to the tree checked out before the push), makes it an
   empty patch - its tree is its new parent's - although the three-way merge of its change onto
   its new parent exists and differs: the change of n5 is lost ---- *)
Theorem C07_merged_heuristic_refuted :
  exists w' pc oldp pc' newp t,
    step f37_lower f37_world f37_push = (w', X0)
    /\ patch_commit f37_world f37_n5 = Some pc
    /\ first_parent (w_objs f37_world) pc = Some oldp
    /\ patch_commit w' f37_n5 = Some pc'
    /\ first_parent (w_objs w') pc' = Some newp
    /\ merge3 (tree_of (w_objs f37_world) oldp) (tree_of (w_objs w') newp) (tree_of (w_objs f37_world) pc) = Some t
    /\ tree_of (w_objs w') pc' <> t
    /\ tree_of (w_objs w') pc' = tree_of (w_objs w') newp.
Proof. exact merged_heuristic_refuted. Qed.
Print Assumptions C07_merged_heuristic_refuted.

(* ------------------------------------------------------------------------------------------
   Whole-command round trip (proof in Proofs/PopPushRoundTrip.v): `stg pop -n k` followed by
   `stg push -n k` gives back exactly the stack there was - the SAME commits (every push is a
   fast-forward, nothing is re-created), the same three lists, the branch on the same commit,
   the same work tree, a clean index.
   ------------------------------------------------------------------------------------------ *)
From StgV Require Import Model.StackSpec Model.LogSpec Proofs.PopPushRoundTrip.

Theorem C07_pop_push_roundtrip :
  forall lower_s w st0 k w1 w2,
    Inv6 w ->
    cur_state w = Some st0 ->
    (1 <= k)%nat -> (k <= length (s_applied st0))%nat ->
    step lower_s w (CPop None (Some (Z.of_nat k)) false false false) = (w1, X0) ->
    step lower_s w1 (CPush None (Some (Z.of_nat k)) false false false false false false None) = (w2, X0) ->
    (exists st2, cur_state w2 = Some st2
                 /\ s_applied st2 = s_applied st0 /\ s_unapplied st2 = s_unapplied st0
                 /\ s_hidden st2 = s_hidden st0
                 /\ s_head st2 = w_branch w
                 /\ (forall n, pm_get (s_patches st2) n = pm_get (s_patches st0) n))
    /\ w_branch w2 = w_branch w /\ w_wt w2 = w_wt w /\ w_unmerged w2 = false.
Proof. exact pop_push_roundtrip. Qed.
Print Assumptions C07_pop_push_roundtrip.

(* the premises are satisfiable: three applied patches on different cells, k = 2 *)
Theorem C07_pop_push_nonvacuous :
  exists w st0 w1 w2,
    cur_state w = Some st0 /\ length (s_applied st0) = 3%nat
    /\ step (fun s => s) w (CPop None (Some 2%Z) false false false) = (w1, X0)
    /\ step (fun s => s) w1 (CPush None (Some 2%Z) false false false false false false None) = (w2, X0).
Proof. exact pop_push_nonvacuous. Qed.
Print Assumptions C07_pop_push_nonvacuous.
