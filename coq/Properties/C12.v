(* C12 - commit and uncommit move the stack base without rewriting history.
   Only the property theorems; proofs in Proofs/CommitProofs.v and by computation on Gen/. *)
From Coq Require Import String.
From StgV Require Import Model.CmdSpec Gen.CmdTable Proofs.CommitProofs.

(* committing the bottom-most applied patches creates no object, keeps the head, removes
   exactly those patches and makes the last of them the base *)
Theorem C12_commit_bottom :
  forall k t lastn lasto,
    (1 <= k)%nat -> (k <= length (t_applied t))%nat ->
    hd_error (rev (firstn k (t_applied t))) = Some lastn -> t_patch t lastn = Some lasto ->
    exists t',
      commit_patches (firstn k (t_applied t)) t = TOk t'
      /\ t_objs t' = t_objs t
      /\ t_applied t' = skipn k (t_applied t)
      /\ t_unapplied t' = t_unapplied t /\ t_hidden t' = t_hidden t
      /\ t_base t' = Some lasto
      /\ t_head t' = t_head t
      /\ (forall n, In n (firstn k (t_applied t)) -> up_get (t_updated t') n = Some None)
      /\ (forall n, ~ In n (firstn k (t_applied t)) -> up_get (t_updated t') n = up_get (t_updated t) n).
Proof. exact commit_bottom. Qed.
Print Assumptions C12_commit_bottom.

(* uncommit never moves the branch, the index or the work tree, whatever happens *)
Theorem C12_uncommit_keeps_head :
  forall lower_s w number names w' x,
    run_uncommit lower_s w number names = (w', x) ->
    w_branch w' = w_branch w /\ w_wt w' = w_wt w /\ w_unmerged w' = w_unmerged w.
Proof. exact uncommit_keeps_head. Qed.
Print Assumptions C12_uncommit_keeps_head.

(* ... and creates no commit other than stack-state bookkeeping *)
Theorem C12_uncommit_no_new_commit :
  forall lower_s w number names w' x,
    run_uncommit lower_s w number names = (w', x) ->
    store_extends (w_objs w) (w_objs w') /\ no_new_plain (w_objs w) (w_objs w').
Proof. exact uncommit_no_new_commit. Qed.
Print Assumptions C12_uncommit_no_new_commit.

(* uncommit_patches puts the given commits, unchanged, below the applied patches *)
Theorem C12_uncommit_patches_spec :
  forall ps t,
    NoDup (map fst ps) ->
    exists t',
      uncommit_patches ps t = TOk t'
      /\ t_applied t' = map fst ps ++ t_applied t
      /\ t_objs t' = t_objs t
      /\ (forall n o, In (n, o) ps -> t_patch t' n = Some o).
Proof. exact uncommit_patches_spec. Qed.
Print Assumptions C12_uncommit_patches_spec.

(* merge and root commits are refused: the downward walk needs exactly one parent each time *)
Theorem C12_walk_refuses :
  forall objs o k l,
    walk_down objs o k = Some l ->
    length l = k /\ forall c, In c l -> exists p, parents_of objs c = [p].
Proof. exact walk_refuses. Qed.
Print Assumptions C12_walk_refuses.

(* uncommit -n k after commit -n k finds the very same commits, in the same order *)
Theorem C12_walk_down_chain :
  forall objs base oids top k,
    chain objs base oids top -> (1 <= k)%nat -> (k <= length oids)%nat ->
    walk_down objs (nth (k - 1) oids O) k = Some (rev (firstn k oids)).
Proof. exact walk_down_chain. Qed.
Print Assumptions C12_walk_down_chain.

(* --- tie to the current source --- *)
(* stg uncommit runs its transaction with set_head(false) and use_index_and_worktree(false) *)
Theorem C12_uncommit_options_in_source :
  txn_opt cmd_uncommit "set_head" = [Some BFalse]
  /\ txn_opt cmd_uncommit "use_index_and_worktree" = [Some BFalse].
Proof. vm_compute. split; reflexivity. Qed.
Print Assumptions C12_uncommit_options_in_source.
