(* C12 - commit and uncommit move the stack base without rewriting history.
   Only the property theorems; proofs in Proofs/CommitProofs.v and by computation on Gen/. *)
From Coq Require Import String.
From StgV Require Import Model.CmdSpec Model.LogSpec Gen.CmdTable Proofs.CommitProofs Proofs.CommitRoundTrip
  Proofs.UncommitCommitRoundTrip.

(* committing the bottom-most applied patches creates no object, keeps the head, removes
   exactly those patches and makes the last of them the base *)
Theorem C12_commit_bottom :
  forall k t lastn lasto,
    (1 <= k)%nat -> (k <= length (t_applied t))%nat ->
    hd_error (rev (firstn k (t_applied t))) = Some lastn -> t_patch t lastn = Some lasto ->
    exists t',
      commit_patches (firstn k (t_applied t)) t = TOk t'
      /\ t_objs t' = t_objs t
      /\ t_applied t' = skipn k (t_applied t)
      /\ t_unapplied t' = t_unapplied t /\ t_hidden t' = t_hidden t
      /\ t_base t' = Some lasto
      /\ t_head t' = t_head t
      /\ (forall n, In n (firstn k (t_applied t)) -> up_get (t_updated t') n = Some None)
      /\ (forall n, ~ In n (firstn k (t_applied t)) -> up_get (t_updated t') n = up_get (t_updated t) n).
Proof. exact commit_bottom. Qed.
Print Assumptions C12_commit_bottom.

(* uncommit never moves the branch, the index or the work tree, whatever happens *)
Theorem C12_uncommit_keeps_head :
  forall lower_s w number names w' x,
    run_uncommit lower_s w number names = (w', x) ->
    w_branch w' = w_branch w /\ w_wt w' = w_wt w /\ w_unmerged w' = w_unmerged w.
Proof. exact uncommit_keeps_head. Qed.
Print Assumptions C12_uncommit_keeps_head.

(* ... and creates no commit other than stack-state bookkeeping *)
Theorem C12_uncommit_no_new_commit :
  forall lower_s w number names w' x,
    run_uncommit lower_s w number names = (w', x) ->
    store_extends (w_objs w) (w_objs w') /\ no_new_plain (w_objs w) (w_objs w').
Proof. exact uncommit_no_new_commit. Qed.
Print Assumptions C12_uncommit_no_new_commit.

(* uncommit_patches puts the given commits, unchanged, below the applied patches *)
Theorem C12_uncommit_patches_spec :
  forall ps t,
    NoDup (map fst ps) ->
    exists t',
      uncommit_patches ps t = TOk t'
      /\ t_applied t' = map fst ps ++ t_applied t
      /\ t_objs t' = t_objs t
      /\ (forall n o, In (n, o) ps -> t_patch t' n = Some o).
Proof. exact uncommit_patches_spec. Qed.
Print Assumptions C12_uncommit_patches_spec.

(* merge and root commits are refused: the downward walk needs exactly one parent each time *)
Theorem C12_walk_refuses :
  forall objs o k l,
    walk_down objs o k = Some l ->
    length l = k /\ forall c, In c l -> exists p, parents_of objs c = [p].
Proof. exact walk_refuses. Qed.
Print Assumptions C12_walk_refuses.

(* uncommit -n k after commit -n k finds the very same commits, in the same order *)
Theorem C12_walk_down_chain :
  forall objs base oids top k,
    chain objs base oids top -> (1 <= k)%nat -> (k <= length oids)%nat ->
    walk_down objs (nth (k - 1) oids O) k = Some (rev (firstn k oids)).
Proof. exact walk_down_chain. Qed.
Print Assumptions C12_walk_down_chain.

(* ------------------------------------------------------------------------------------------
   Whole-command round trip (proofs in Proofs/CommitRoundTrip.v): `stg commit -n k` followed by
   `stg uncommit <the same k names>` (top-most name first, as the command line takes them) gives
   back exactly the stack there was: the same commits under the same names in the same order,
   the same unapplied and hidden patches; the branch never moves, index and work tree are
   untouched.  The head the state RECORDS afterwards is the branch head.
   ------------------------------------------------------------------------------------------ *)
Theorem C12_commit_uncommit_roundtrip :
  forall lower_s w st0 k ae w1 w2,
    Inv6 w ->
    cur_state w = Some st0 ->
    (1 <= k)%nat -> (k <= length (s_applied st0))%nat ->
    step lower_s w (CCommit None (Some (N.of_nat k)) false ae) = (w1, X0) ->
    step lower_s w1 (CUncommit None (rev (firstn k (s_applied st0)))) = (w2, X0) ->
    (exists st2, cur_state w2 = Some st2
                 /\ s_applied st2 = s_applied st0 /\ s_unapplied st2 = s_unapplied st0
                 /\ s_hidden st2 = s_hidden st0
                 /\ s_head st2 = w_branch w
                 /\ (forall n, pm_get (s_patches st2) n = pm_get (s_patches st0) n))
    /\ w_branch w1 = w_branch w /\ w_branch w2 = w_branch w
    /\ w_wt w2 = w_wt w /\ w_unmerged w2 = w_unmerged w.
Proof. exact commit_uncommit_roundtrip_general. Qed.
Print Assumptions C12_commit_uncommit_roundtrip.

(* with `same_stack` (which also compares the RECORDED head with the one recorded before) the
   statement is false: after a plain-git commit, an stg command, `stg undo` and `git reset --hard`
   back onto the top patch the state still records the other head; the round trip records the
   branch head.  First pinned in that form; the prover returned this witness (reachable by
   commands).  It is a correction of my statement, not a defect: C12 speaks of commits and base. *)
Theorem C12_roundtrip_recorded_head_refuted :
  ~ (forall lower_s, LowerOK lower_s ->
     forall w st0 k ae w1 w2,
       Inv6 w -> prev_decreasing (w_objs w) ->
       cur_state w = Some st0 ->
       (1 <= k)%nat -> (k <= length (s_applied st0))%nat ->
       step lower_s w (CCommit None (Some (N.of_nat k)) false ae) = (w1, X0) ->
       step lower_s w1 (CUncommit None (rev (firstn k (s_applied st0)))) = (w2, X0) ->
       (exists st2, cur_state w2 = Some st2 /\ same_stack st2 st0)
       /\ w_branch w1 = w_branch w /\ w_branch w2 = w_branch w
       /\ w_wt w2 = w_wt w /\ w_unmerged w2 = w_unmerged w).
Proof. exact commit_uncommit_roundtrip_refuted. Qed.
Print Assumptions C12_roundtrip_recorded_head_refuted.

(* the premises are satisfiable: two non-empty applied patches, k = 2, both commands succeed *)
Theorem C12_commit_uncommit_nonvacuous :
  exists w st0 w1 w2,
    cur_state w = Some st0 /\ length (s_applied st0) = 2
    /\ step (fun s => s) w (CCommit None (Some 2%N) false false) = (w1, X0)
    /\ step (fun s => s) w1 (CUncommit None (rev (firstn 2 (s_applied st0)))) = (w2, X0).
Proof. exact commit_uncommit_nonvacuous. Qed.
Print Assumptions C12_commit_uncommit_nonvacuous.

(* the round trip in the other direction (proof in Proofs/UncommitCommitRoundTrip.v): `stg uncommit
   -n k` (generated names) followed by `stg commit -n k` puts the k commits back below the base
   unchanged and leaves the lists, every remaining patch's commit, branch, index and work tree as
   they were *)
Theorem C12_uncommit_commit_roundtrip :
  forall lower_s, LowerOK lower_s ->
  forall w st0 k w1 w2,
    Inv6 w ->
    cur_state w = Some st0 ->
    (1 <= k)%nat ->
    step lower_s w (CUncommit (Some (N.of_nat k)) []) = (w1, X0) ->
    step lower_s w1 (CCommit None (Some (N.of_nat k)) false true) = (w2, X0) ->
    (exists st2, cur_state w2 = Some st2
                 /\ s_applied st2 = s_applied st0 /\ s_unapplied st2 = s_unapplied st0
                 /\ s_hidden st2 = s_hidden st0
                 /\ s_head st2 = w_branch w
                 /\ (forall n, pm_get (s_patches st2) n = pm_get (s_patches st0) n))
    /\ w_branch w1 = w_branch w /\ w_branch w2 = w_branch w
    /\ w_wt w2 = w_wt w /\ w_unmerged w2 = w_unmerged w.
Proof. exact uncommit_commit_roundtrip. Qed.
Print Assumptions C12_uncommit_commit_roundtrip.

Theorem C12_uncommit_commit_nonvacuous :
  exists w st0 w1 w2,
    cur_state w = Some st0
    /\ step (fun s => s) w (CUncommit (Some 2%N) []) = (w1, X0)
    /\ step (fun s => s) w1 (CCommit None (Some 2%N) false true) = (w2, X0).
Proof. exact uncommit_commit_nonvacuous. Qed.
Print Assumptions C12_uncommit_commit_nonvacuous.

(* --- tie to the current source --- *)
(* stg uncommit runs its transaction with set_head(false) and use_index_and_worktree(false) *)
Theorem C12_uncommit_options_in_source :
  txn_opt cmd_uncommit "set_head" = [Some BFalse]
  /\ txn_opt cmd_uncommit "use_index_and_worktree" = [Some BFalse].
Proof. vm_compute. split; reflexivity. Qed.
Print Assumptions C12_uncommit_options_in_source.
