(* C15 - patch locators and ranges resolve as documented; an existing name always wins.
   Only the property theorems; proofs are in Proofs/LocatorProofs.v. *)
From StgV Require Import Model.Name Model.Locator Model.LocatorSpec Proofs.LocatorProofs.

(* an argument that is exactly the name of an existing patch designates that patch, whatever
   else it looks like (index, offset, commit-id prefix) *)
Theorem C15_existing_name_wins :
  forall v s, validate s = true -> v_has v s = true ->
    exists l, parse_locator s = Some l /\ resolve_name v l = ROk s.
Proof. exact existing_name_wins. Qed.
Print Assumptions C15_existing_name_wins.

(* every parsed locator carries offsets text that re-parses completely *)
Theorem C15_parsed_wf :
  forall s l, parse_locator s = Some l -> wf_loc l.
Proof. exact parsed_wf. Qed.
Print Assumptions C15_parsed_wf.

(* resolution yields a patch of the stack or an error - never a panic, never a foreign name *)
Theorem C15_resolve_sound :
  forall v l, wf_loc l -> name_result_ok v (resolve_name v l).
Proof. exact resolve_sound. Qed.
Print Assumptions C15_resolve_sound.

(* every parsed locator prints back to text that parses to the same locator *)
Theorem C15_display_parse_loc :
  forall s l, parse_locator s = Some l -> parse_locator (display_loc l) = Some l.
Proof. exact display_parse_loc. Qed.
Print Assumptions C15_display_parse_loc.

Theorem C15_display_parse_range :
  forall s r, parse_range s = Some r -> parse_range (display_range r) = Some r.
Proof. exact display_parse_range. Qed.
Print Assumptions C15_display_parse_range.

(* range expansion: no duplicates, only allowed patches, never a panic *)
Theorem C15_ranges_sound :
  forall v rc rs, Forall wf_range rs -> names_result_ok v rc (resolve_names v rc rs).
Proof. exact ranges_sound. Qed.
Print Assumptions C15_ranges_sound.

Theorem C15_ranges_contiguous_sound :
  forall v rc rs, Forall wf_range rs -> names_result_ok v rc (resolve_names_contiguous v rc rs).
Proof. exact ranges_contiguous_sound. Qed.
Print Assumptions C15_ranges_contiguous_sound.

(* a single range a..b expands to a contiguous interval of the allowed list in stack order,
   reversed only by resolve_names when b precedes a; the stack-order variant never reverses *)
Theorem C15_range_is_interval :
  forall v rc b e l,
    resolve_names v rc [RRange b e] = ROk l ->
    is_interval_or_reversed (allowed v (lc_of rc)) l.
Proof. exact range_is_interval. Qed.
Print Assumptions C15_range_is_interval.

Theorem C15_range_contiguous_is_interval :
  forall v rc rs l,
    resolve_names_contiguous v rc rs = ROk l ->
    is_interval (allowed v (lc_of rc)) l.
Proof. exact range_contiguous_is_interval. Qed.
Print Assumptions C15_range_contiguous_is_interval.
