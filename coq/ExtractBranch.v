(* Extraction of the branch-administration model (C17) for its correspondence driver.
   Only ExtrOcamlBasic is used: N / positive / nat stay the extracted inductive datatypes. *)
From Coq Require Import Extraction ExtrOcamlBasic.
From StgV Require Import Model.Chars Model.Branch.

Extraction Language OCaml.
Extraction "../ocaml/bmodel.ml" Branch.bstep Branch.has_stack Branch.is_protected.
