(* Extraction of the export / import text model (C18) and of the message re-creation model
   (C08, Model/Encoding.v) for their correspondence driver.
   Only ExtrOcamlBasic is used: N / positive / nat stay the extracted inductive datatypes. *)
From Coq Require Import Extraction ExtrOcamlBasic.
From StgV Require Import Model.Chars Model.Export Model.Encoding.

Extraction Language OCaml.
Extraction "../ocaml/emodel.ml" Export.split_patch Export.parse_message Export.parse_name_email
  Export.specialize Export.descr_split Export.export_file Export.import_file Export.default_template
  Export.diff_is_empty Export.utf8_valid Encoding.recreate Encoding.recreate_name Encoding.git_text.
