(* Extraction of the executable model for the correspondence driver.
   Only ExtrOcamlBasic is used: N / Z / positive / nat stay the extracted inductive
   datatypes (no Extract Constant to OCaml int). *)
From Coq Require Import Extraction ExtrOcamlBasic.
From StgV Require Import Model.Chars Model.Name Model.NameSpec Model.Locator Model.Stack Model.Cmd Model.Protocol.

Extraction Language OCaml.
Extraction "../ocaml/model.ml"
  Chars.utf8_len Chars.dec_of_N Chars.parse_dec Chars.lines Chars.trim
  Name.validate Name.from_str Name.collides Name.make Name.uniquify Name.patch_name_p
  NameSpec.check_table NameSpec.git_component_ok NameSpec.clean
  Locator.parse_locator Locator.parse_range Locator.offsets_full Locator.offset_atoms
  Locator.display_loc Locator.display_range Locator.resolve_name Locator.resolve_names
  Locator.resolve_names_contiguous Locator.dec_of_Z
  Cmd.step Cmd.init_world Stack.cur_state
  Protocol.fault_at Protocol.crash_at Protocol.crash_in_edit Protocol.sigint_at Protocol.world_at
  Protocol.plan_edits Protocol.commit_order Protocol.run2.
