(* Specification-side definitions for C09 / C12 / C13 and the regenerated-model ties. *)
From StgV Require Export Model.StackSpec Model.LogSpec Model.GenTypes.
From Coq Require Import String.

(* commands that must refuse to run while unresolved conflicts exist *)
Definition conflict_guarded (c : cmd) : bool :=
  match c with
  | CPush _ (Some 0%Z) _ _ _ _ _ _ _ => false            (* `-n 0` is a no-op by design *)
  | CPop _ (Some 0%Z) _ _ _ => false
  | CPush _ _ _ _ _ _ _ _ _ | CPop _ _ _ _ _ | CGoto _ _ _ _ | CFloat _ _ _ | CSink _ _ _ _
  | CDelete _ _ _ _ _ _ _ _ | CNew _ _ _ | CRefresh _ | CSpill | CSquash _ _ _ _ | CPick _ _ false => true
  | _ => false
  end.

(* commands that were not given --conflicts=allow (the flag overrides stgit.push.allow-conflicts) *)
Definition no_explicit_allow (c : cmd) : bool :=
  match c with
  | CPush _ _ _ _ _ _ _ _ (Some true) | CGoto _ _ _ (Some true) | CDelete _ _ _ _ _ _ _ (Some true) => false
  | _ => true
  end.

(* the patch `stg refresh [-p <patch>]` absorbs the work tree into *)
Definition refresh_target (s : sstate) (p : option str) : option name :=
  match p with
  | None => last_error (s_applied s)
  | Some o =>
      match parse_locator o with
      | Some l => match resolve_constrained (view_of s) LCVisible l with ROk n => Some n | _ => None end
      | None => None
      end
  end.

(* the refs of the stack *)
Definition same_refs (a b : world) : Prop :=
  w_branch a = w_branch b /\ w_stack a = w_stack b.

(* a pre-check that is called unconditionally (no enclosing `if`) in a command's source *)
Definition has_unguarded_precheck (ci : cmd_info) (name : string) : bool :=
  existsb (fun g => String.eqb (gc_name g) name
                    && match gc_guards g with [] => true | _ => false end)
          (ci_prechecks ci).

Definition txn_opt (ci : cmd_info) (name : string) : list (option bexpr) :=
  map (fun t => opt_lookup name (tx_opts t)) (ci_txns ci).

(* no plain commit is created between two stores *)
Definition no_new_plain (a b : store) : Prop :=
  forall o, (List.length a <= o)%nat -> ~ is_plain b o.
