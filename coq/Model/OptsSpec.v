(* The transaction-builder options of every modelled command, transcribed from the `opts`
   calls of Model/Cmd.v (each entry names the run_* function and line it mirrors) as
   expressions over the command's flags, for comparison with the options the translator
   finds in the current source (Gen/CmdTable.v).

   opts cm apc discard use_iw set_head bad_head   <->   builder calls
     cm        allow_conflicts(true) = CAllow, allow_conflicts_if_same_top(true) = CAllowIfSameTop,
               neither = CDisallow (the builder default)
     apc       allow_push_conflicts(<resolved config/option value>)   (not compared: a variable)
     discard   discard_changes(e)         default false
     use_iw    use_index_and_worktree(e)  default false
     set_head  set_head(e)                default true
     bad_head  allow_bad_head(e)          default false
   committer_date_is_author_date does not exist in the model (commit dates are not modelled). *)
From Coq Require Import List String Bool.
From StgV Require Import Model.GenTypes.
Import ListNotations.
Open Scope string_scope.

Record exp_txn : Type := mkExp {
  ex_conflicts : string;          (* "disallow" | "allow" | "same_top" *)
  ex_discard : bexpr;
  ex_use_iw : bexpr;
  ex_set_head : bexpr;
  ex_bad_head : bexpr
}.

Definition E (c : string) (discard use_iw set_head bad_head : bexpr) : exp_txn :=
  mkExp c discard use_iw set_head bad_head.

(* what the source says, in the same shape *)
Definition src_conflicts (t : txn_site) : string :=
  match opt_lookup "allow_conflicts" (tx_opts t), opt_lookup "allow_conflicts_if_same_top" (tx_opts t) with
  | Some BTrue, None => "allow"
  | None, Some BTrue => "same_top"
  | None, None => "disallow"
  | _, _ => "?"
  end.

Definition src_opt (t : txn_site) (name : string) (default : bexpr) : bexpr :=
  match opt_lookup name (tx_opts t) with Some e => e | None => default end.

Definition txn_matches (t : txn_site) (e : exp_txn) : bool :=
  String.eqb (src_conflicts t) (ex_conflicts e)
  && bexpr_eqb (src_opt t "discard_changes" BFalse) (ex_discard e)
  && bexpr_eqb (src_opt t "use_index_and_worktree" BFalse) (ex_use_iw e)
  && bexpr_eqb (src_opt t "set_head" BTrue) (ex_set_head e)
  && bexpr_eqb (src_opt t "allow_bad_head" BFalse) (ex_bad_head e).

(* the transactions of function `fn` of a command file, in source order *)
Definition txns_of (ci : cmd_info) (fn : string) : list txn_site :=
  filter (fun t => String.eqb (tx_fn t) fn) (ci_txns ci).

Fixpoint all_match (ts : list txn_site) (es : list exp_txn) : bool :=
  match ts, es with
  | [], [] => true
  | t :: ts', e :: es' => txn_matches t e && all_match ts' es'
  | _, _ => false
  end.

Definition cmd_matches (ci : cmd_info) (es : list exp_txn) : bool := all_match (txns_of ci "run") es.
(* a command whose transaction sits in a helper function of its file *)
Definition cmd_matches_in (fn : string) (ci : cmd_info) (es : list exp_txn) : bool := all_match (txns_of ci fn) es.

(* ---- the model's options, command by command ---- *)
Definition hard : bexpr := BFlag "hard".
Definition exp_new      := [E "disallow" BFalse BFalse BTrue BFalse].                 (* run_new: default_opts *)
Definition exp_refresh  := [E "disallow" BFalse BFalse BTrue BFalse;                  (* run_refresh: default_opts, *)
                            E "disallow" BFalse BTrue BTrue BFalse].                  (*   then opts CDisallow _ false true true false *)
Definition exp_push     := [E "disallow" BFalse BTrue BTrue BFalse].                  (* run_push *)
Definition exp_pop      := [E "disallow" BFalse (BNot (BFlag "spill")) BTrue BFalse]. (* run_pop: use_iw = negb spill *)
Definition exp_goto     := [E "disallow" BFalse BTrue BTrue BFalse].                  (* run_goto *)
Definition exp_float    := [E "disallow" BFalse BTrue BTrue BFalse].                  (* run_float *)
Definition exp_sink     := [E "disallow" BFalse BTrue BTrue BFalse].                  (* run_sink *)
Definition exp_delete   := [E "disallow" BFalse (BAnd (BIsNone "branch") (BNot (BFlag "spill"))) BTrue BFalse].
                                                   (* run_delete: negb spill; --branch is C17's no_iw_delete *)
Definition exp_hide     := [E "disallow" BFalse BFalse BTrue BFalse].                 (* run_hide: default_opts *)
Definition exp_unhide   := [E "allow" BFalse BFalse BTrue BFalse].                    (* run_unhide *)
Definition exp_rename   := [E "allow" BFalse BFalse BTrue BFalse].                    (* run_rename *)
Definition exp_commit   := [E "same_top" BFalse BTrue BTrue BFalse].                  (* run_commit *)
Definition exp_uncommit := [E "allow" BFalse BFalse BFalse BFalse].                   (* run_uncommit: set_head false *)
Definition exp_clean    := [E "allow" BFalse BFalse BTrue BFalse].                    (* run_clean *)
Definition exp_spill    := [E "disallow" BFalse BFalse BTrue BFalse].                 (* run_spill *)
Definition exp_undo     := [E "disallow" hard BTrue BTrue BTrue].                     (* run_undo_like *)
Definition exp_redo     := [E "disallow" hard BTrue BTrue BTrue].
Definition exp_reset    := [E "disallow" hard BTrue BTrue (BIsNone "patchranges-all")]. (* run_reset *)
Definition exp_repair   := [E "disallow" BFalse BFalse BTrue BFalse].                 (* run_repair *)
Definition exp_edit     := [E "allow" BFalse BTrue BTrue BFalse].                     (* run_edit *)
Definition exp_rebase   := [E "disallow" BFalse BTrue BTrue BFalse;                   (* run_rebase: pop, *)
                            E "disallow" BFalse BTrue BTrue BFalse].                  (*   then reapply *)
Definition exp_squash   := [E "allow" BFalse BTrue BTrue BFalse].                     (* run_squash *)
Definition exp_pick     := [E "disallow" BFalse BTrue BTrue BFalse].                  (* run_pick (pick_picks) *)
