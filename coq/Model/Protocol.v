(* The publication protocol of a stack transaction (ExecuteContext::execute and
   signal::critical), seen by four observers: an injected fault, a crash (SIGKILL), one
   SIGINT, and a second concurrent stg process.  Executable definitions only.

   Refs are an association list from ref names to object ids (N); the work tree is an
   abstract tree id. *)

From Coq Require Export List NArith Bool.
From StgV Require Export Model.Chars.
Export ListNotations.
Open Scope N_scope.

(* ---------------------------------------------------------------- reference transactions *)

Inductive refname : Type := RBranch | RStack | RPatch (n : str).

Definition refname_eqb (a b : refname) : bool :=
  match a, b with
  | RBranch, RBranch | RStack, RStack => true
  | RPatch x, RPatch y => str_eqb x y
  | _, _ => false
  end.

Definition refs := list (refname * N).

Fixpoint ref_get (r : refs) (n : refname) : option N :=
  match r with
  | [] => None
  | (k, v) :: r' => if refname_eqb k n then Some v else ref_get r' n
  end.

Fixpoint ref_del (r : refs) (n : refname) : refs :=
  match r with
  | [] => []
  | (k, v) :: r' => if refname_eqb k n then ref_del r' n else (k, v) :: ref_del r' n
  end.

Definition ref_set (r : refs) (n : refname) (v : N) : refs := (n, v) :: ref_del r n.

Inductive expect : Type := XAny | XMustNotExist | XExistingMustMatch (v : N).

Inductive redit : Type :=
| EUpdate (n : refname) (new : N) (e : expect)
| EDelete (n : refname).

Definition edit_name (e : redit) : refname :=
  match e with EUpdate n _ _ | EDelete n => n end.

Definition is_update (e : redit) : bool := match e with EUpdate _ _ _ => true | _ => false end.

(* gix-ref file transaction: `prepare` takes all locks and verifies every expectation
   against the current refs; `commit` then performs all updates in list order, and after
   them all deletions *)
Definition expect_ok (r : refs) (e : redit) : bool :=
  match e with
  | EUpdate n _ XAny => true
  | EUpdate n _ XMustNotExist => match ref_get r n with None => true | Some _ => false end
  | EUpdate n _ (XExistingMustMatch v) =>
      match ref_get r n with None => true | Some c => N.eqb c v end
  | EDelete _ => true
  end.

Definition prepare_ok (r : refs) (es : list redit) : bool := forallb (expect_ok r) es.

Definition commit_order (es : list redit) : list redit :=
  filter is_update es ++ filter (fun e => negb (is_update e)) es.

Definition apply_edit (r : refs) (e : redit) : refs :=
  match e with
  | EUpdate n v _ => ref_set r n v
  | EDelete n => ref_del r n
  end.

(* the first j single-ref operations of the commit phase have reached the disk *)
Definition apply_prefix (j : nat) (es : list redit) (r : refs) : refs :=
  fold_left apply_edit (firstn j (commit_order es)) r.

Definition apply_all (es : list redit) (r : refs) : refs :=
  fold_left apply_edit (commit_order es) r.

(* Repository::edit_references *)
Definition edit_references (r : refs) (es : list redit) : option refs :=
  if prepare_ok r es then Some (apply_all es r) else None.

(* the edit list built by execute(): patch refs in BTreeMap order, then the state ref
   (expecting the previous state commit read inside the critical section), then the branch *)
Definition build_edits (patch_updates : list (str * option N)) (prev_read : option N)
           (new_state : N) (new_head : option N) : list redit :=
  map (fun p => match snd p with
                | Some v => EUpdate (RPatch (fst p)) v XAny
                | None => EDelete (RPatch (fst p))
                end) patch_updates
  ++ [EUpdate RStack new_state
              (match prev_read with Some v => XExistingMustMatch v | None => XMustNotExist end)]
  ++ match new_head with Some h => [EUpdate RBranch h XAny] | None => [] end.

(* ---------------------------------------------------------------- one transaction *)

(* what a transaction is about to do, as determined by the closure *)
Record txplan : Type := mkPlan {
  p_extmods : option N;            (* Some s: the branch was moved by git; log_external_mods
                                      publishes state commit s first *)
  p_set_head : bool;
  p_use_iw : bool;
  p_wt_merge : option N;           (* Some t: the closure's work-tree merge left tree t checked out *)
  p_patch_updates : list (str * option N);
  p_new_state : N;
  p_new_head : N;
  p_old_tree : N;                  (* tree of the branch head when the stack was loaded *)
  p_new_tree : N;                  (* tree of the transaction's head *)
  p_halt : bool;                   (* the closure ended in a TransactionHalt *)
  p_ext_early : bool               (* undo/redo: log_external_mods runs right after the stack
                                      is loaded, before the transaction is set up *)
}.

Record pworld : Type := mkPW {
  pw_refs : refs;
  pw_wt : N                        (* tree checked out in index + work tree *)
}.

Inductive point : Type :=
| PtStackLoaded | PtPushBeforeWtMerge | PtExecStart | PtAfterExtMods | PtBeforeCheckout
| PtAfterCheckout | PtCritEnter | PtCritPrevRead | PtCritStateCommitted | PtCritBeforeEdit
| PtCritAfterEdit | PtAfterCrit.

Definition point_eqb (a b : point) : bool :=
  match a, b with
  | PtStackLoaded, PtStackLoaded | PtPushBeforeWtMerge, PtPushBeforeWtMerge
  | PtExecStart, PtExecStart | PtAfterExtMods, PtAfterExtMods | PtBeforeCheckout, PtBeforeCheckout
  | PtAfterCheckout, PtAfterCheckout | PtCritEnter, PtCritEnter | PtCritPrevRead, PtCritPrevRead
  | PtCritStateCommitted, PtCritStateCommitted | PtCritBeforeEdit, PtCritBeforeEdit
  | PtCritAfterEdit, PtCritAfterEdit | PtAfterCrit, PtAfterCrit => true
  | _, _ => false
  end.

(* order of the points in a run (PtPushBeforeWtMerge only occurs when there is a merge) *)
Definition point_index (p : point) : nat :=
  match p with
  | PtStackLoaded => 0 | PtPushBeforeWtMerge => 1 | PtExecStart => 2 | PtAfterExtMods => 3
  | PtBeforeCheckout => 4 | PtAfterCheckout => 5 | PtCritEnter => 6 | PtCritPrevRead => 7
  | PtCritStateCommitted => 8 | PtCritBeforeEdit => 9 | PtCritAfterEdit => 10 | PtAfterCrit => 11
  end%nat.

Definition in_critical (p : point) : bool :=
  match p with
  | PtCritEnter | PtCritPrevRead | PtCritStateCommitted | PtCritBeforeEdit | PtCritAfterEdit => true
  | _ => false
  end.

(* index of the first point that sees the state published by log_external_mods *)
Definition extmods_index (pl : txplan) : nat := if p_ext_early pl then 1%nat else 3%nat.

Definition extmods_refs (pl : txplan) (r : refs) : refs :=
  match p_extmods pl with Some s => ref_set r RStack s | None => r end.

Definition does_checkout (pl : txplan) : bool := p_set_head pl && p_use_iw pl.

Definition closure_wt (pl : txplan) (w0 : pworld) : N :=
  match p_wt_merge pl with Some t => t | None => pw_wt w0 end.

Definition plan_edits (pl : txplan) (r : refs) : list redit :=
  build_edits (p_patch_updates pl) (ref_get r RStack) (p_new_state pl)
              (if p_set_head pl then Some (p_new_head pl) else None).

(* the world when the process arrives at point p of a fault-free, uninterrupted run that
   started (stack loaded) in world w0 *)
Definition world_at (pl : txplan) (w0 : pworld) (p : point) : pworld :=
  let idx := point_index p in
  (* PtPushBeforeWtMerge (index 1) is reached before merge-recursive touches the work tree *)
  let wt1 := if Nat.leb 2 idx then closure_wt pl w0 else pw_wt w0 in
  let r1 := if Nat.leb (extmods_index pl) idx then extmods_refs pl (pw_refs w0) else pw_refs w0 in
  let wt2 := if Nat.leb 5 idx && does_checkout pl then p_new_tree pl else wt1 in
  let r2 := if Nat.leb 10 idx then apply_all (plan_edits pl r1) r1 else r1 in
  mkPW r2 wt2.

Definition final_world (pl : txplan) (w0 : pworld) : pworld := world_at pl w0 PtAfterCrit.

(* ---------------------------------------------------------------- observer 1: a fault *)

Inductive pexit : Type := E0 | E2 | E3 | E130.

Record pobs : Type := mkObs {
  ob_world : pworld;
  ob_exit : pexit;
  ob_says_rolled_back : bool
}.

(* rollback(old_tree, err): check out the pre-transaction tree again *)
Definition rollback (pl : txplan) (w : pworld) : pworld := mkPW (pw_refs w) (p_old_tree pl).

(* the step right after point p fails with an ordinary error *)
Definition fault_at (pl : txplan) (w0 : pworld) (p : point) : pobs :=
  let w := world_at pl w0 p in
  if in_critical p then
    (* the closure of critical() returns Err: map_err(rollback(trans_head_tree)) *)
    mkObs (rollback pl w) E2 true
  else
    (* a plain `?`: the error propagates, nothing is undone *)
    mkObs w E2 false.

(* ---------------------------------------------------------------- observer 2: a crash *)

(* SIGKILL on arrival at point p; inside edit_references additionally after j single-ref
   operations *)
Definition crash_at (pl : txplan) (w0 : pworld) (p : point) : pworld := world_at pl w0 p.

Definition crash_in_edit (pl : txplan) (w0 : pworld) (j : nat) : pworld :=
  let w := world_at pl w0 PtCritBeforeEdit in
  mkPW (apply_prefix j (plan_edits pl (pw_refs w)) (pw_refs w)) (pw_wt w).

(* ---------------------------------------------------------------- observer 3: one SIGINT *)

(* signal::setup + signal::critical: outside a critical section the handler exits at once
   with status 130; inside, the interrupt is deferred to the end of the section, after
   which the process exits with status 130 (the section's effects stand) *)
Definition sigint_at (pl : txplan) (w0 : pworld) (p : point) : pobs :=
  if in_critical p then mkObs (world_at pl w0 PtAfterCrit) E130 false
  else mkObs (world_at pl w0 p) E130 false.

(* ---------------------------------------------------------------- observer 4: a second process *)

(* A process: load the stack (remember the state ref), compute, check out, read the previous
   state commit, publish with a compare-and-swap on the state ref.  [use_loaded] selects
   which value the CAS expects: the one read at load time (true) or the one read inside the
   critical section (false = what execute() does). *)
Record proc : Type := mkProc {
  pr_loaded : option N;            (* state ref value seen when the stack was loaded *)
  pr_prev_read : option N;
  pr_new_state : N;
  pr_done : bool;
  pr_failed : bool
}.

Inductive phase : Type := PhLoad | PhReadPrev | PhPublish.

Definition proc_step (use_loaded : bool) (new_state : N) (ph : phase) (r : refs) (p : proc)
  : refs * proc :=
  match ph with
  | PhLoad => (r, mkProc (ref_get r RStack) None new_state false false)
  | PhReadPrev => (r, mkProc (pr_loaded p) (ref_get r RStack) (pr_new_state p) false false)
  | PhPublish =>
      let expected := if use_loaded then pr_loaded p else pr_prev_read p in
      let e := EUpdate RStack (pr_new_state p)
                       (match expected with Some v => XExistingMustMatch v | None => XMustNotExist end) in
      match edit_references r [e] with
      | Some r' => (r', mkProc (pr_loaded p) (pr_prev_read p) (pr_new_state p) true false)
      | None => (r, mkProc (pr_loaded p) (pr_prev_read p) (pr_new_state p) true true)
      end
  end.

(* a schedule: which process (false = first, true = second) takes its next phase *)
Definition next_phase (done : nat) : option phase :=
  match done with
  | O => Some PhLoad | S O => Some PhReadPrev | S (S O) => Some PhPublish | _ => None
  end.

Fixpoint run_sched (use_loaded : bool) (s1 s2 : N) (sched : list bool) (r : refs)
         (p1 p2 : proc) (d1 d2 : nat) : refs * proc * proc :=
  match sched with
  | [] => (r, p1, p2)
  | false :: rest =>
      match next_phase d1 with
      | Some ph => let '(r', p1') := proc_step use_loaded s1 ph r p1 in
                   run_sched use_loaded s1 s2 rest r' p1' p2 (S d1) d2
      | None => run_sched use_loaded s1 s2 rest r p1 p2 d1 d2
      end
  | true :: rest =>
      match next_phase d2 with
      | Some ph => let '(r', p2') := proc_step use_loaded s2 ph r p2 in
                   run_sched use_loaded s1 s2 rest r' p1 p2' d1 (S d2)
      | None => run_sched use_loaded s1 s2 rest r p1 p2 d1 d2
      end
  end.

Definition idle : proc := mkProc None None 0 false false.

Definition run2 (use_loaded : bool) (s1 s2 : N) (sched : list bool) (r : refs) : refs * proc * proc :=
  run_sched use_loaded s1 s2 sched r idle idle O O.

(* each process takes exactly its three phases *)
Definition complete_sched (sched : list bool) : bool :=
  Nat.eqb (length (filter negb sched)) 3 && Nat.eqb (length (filter (fun b => b) sched)) 3.
