(* Export / import of patch files (C18): the byte-level text side of
     src/cmd/export.rs   description split, template specialisation (src/templates.rs)
     src/cmd/import.rs   split_patch, Headers::parse_message, the message of create_patch
     src/patch/edit/parse.rs  parse_name_email
   Executable definitions only.  Strings are byte strings (list N, bytes 0..255); the
   implementation iterates some of them by char, which is equivalent here because every
   character it tests is ASCII and UTF-8 is self-synchronising.  The diff itself (git
   diff-tree -p --binary / git apply) is git's and is not modelled: it is an opaque tail. *)
From Coq Require Import List NArith Bool.
From StgV Require Import Model.Chars.
Import ListNotations.
Open Scope N_scope.

Definition b_diff_dash : str := [100; 105; 102; 102; 32; 45].   (* 'diff -' *)
Definition b_index : str := [73; 110; 100; 101; 120; 58; 32].   (* 'Index: ' *)
Definition b_dashes : str := [45; 45; 45].   (* '---' *)
Definition b_commit_sp : str := [99; 111; 109; 109; 105; 116; 32].   (* 'commit ' *)
Definition b_patch : str := [112; 97; 116; 99; 104].   (* 'patch' *)
Definition b_from : str := [102; 114; 111; 109].   (* 'from' *)
Definition b_author : str := [97; 117; 116; 104; 111; 114].   (* 'author' *)
Definition b_date : str := [100; 97; 116; 101].   (* 'date' *)
Definition b_subject : str := [115; 117; 98; 106; 101; 99; 116].   (* 'subject' *)
Definition b_message_id : str := [109; 101; 115; 115; 97; 103; 101; 45; 105; 100].   (* 'message-id' *)
Definition b_dedent : str := [32; 32; 32; 32].   (* '    ' *)
Definition b_nlnl : str := [10; 10].   (* '\n\n' *)
Definition k_description : str := [100; 101; 115; 99; 114; 105; 112; 116; 105; 111; 110].   (* 'description' *)
Definition k_shortdescr : str := [115; 104; 111; 114; 116; 100; 101; 115; 99; 114].   (* 'shortdescr' *)
Definition k_longdescr : str := [108; 111; 110; 103; 100; 101; 115; 99; 114].   (* 'longdescr' *)
Definition k_authname : str := [97; 117; 116; 104; 110; 97; 109; 101].   (* 'authname' *)
Definition k_authemail : str := [97; 117; 116; 104; 101; 109; 97; 105; 108].   (* 'authemail' *)
Definition k_authdate : str := [97; 117; 116; 104; 100; 97; 116; 101].   (* 'authdate' *)
Definition k_commname : str := [99; 111; 109; 109; 110; 97; 109; 101].   (* 'commname' *)
Definition k_commemail : str := [99; 111; 109; 109; 101; 109; 97; 105; 108].   (* 'commemail' *)
Definition k_commdate : str := [99; 111; 109; 109; 100; 97; 116; 101].   (* 'commdate' *)
Definition k_diffstat : str := [100; 105; 102; 102; 115; 116; 97; 116].   (* 'diffstat' *)
Definition default_template : str := [37; 40; 115; 104; 111; 114; 116; 100; 101; 115; 99; 114; 41; 115; 10; 10; 70; 114; 111; 109; 58; 32; 37; 40; 97; 117; 116; 104; 110; 97; 109; 101; 41; 115; 32; 60; 37; 40; 97; 117; 116; 104; 101; 109; 97; 105; 108; 41; 115; 62; 10; 10; 37; 40; 108; 111; 110; 103; 100; 101; 115; 99; 114; 41; 115; 10; 45; 45; 45; 10; 37; 40; 100; 105; 102; 102; 115; 116; 97; 116; 41; 115; 10].   (* '%(shortdescr)s\n\nFrom: %(authname)s <%(authemail)s>\n\n%(longdescr)s\n---\n%(diffstat)s\n' *)

(* ---------------------------------------------------------------- byte helpers *)

Definition is_ws (c : N) : bool := is_ascii_whitespace c.    (* u8::is_ascii_whitespace *)

(* bstr lines_with_terminator: every piece keeps its \n; a last piece without \n is kept *)
Fixpoint lines_wt_aux (s cur : str) : list str :=
  match s with
  | [] => match cur with [] => [] | _ => [rev cur] end
  | c :: s' => if c =? 10 then rev (c :: cur) :: lines_wt_aux s' [] else lines_wt_aux s' (c :: cur)
  end.
Definition lines_wt (s : str) : list str := lines_wt_aux s [].

(* strict UTF-8 validity (core::str::from_utf8) *)
Definition cont (b : N) : bool := (128 <=? b) && (b <=? 191).
Fixpoint utf8_valid (s : str) : bool :=
  match s with
  | [] => true
  | b0 :: r0 =>
      if b0 <? 128 then utf8_valid r0
      else match r0 with
           | [] => false
           | b1 :: r1 =>
               if (194 <=? b0) && (b0 <=? 223) then cont b1 && utf8_valid r1
               else match r1 with
                    | [] => false
                    | b2 :: r2 =>
                        if b0 =? 224 then (160 <=? b1) && (b1 <=? 191) && cont b2 && utf8_valid r2
                        else if ((225 <=? b0) && (b0 <=? 236)) || (b0 =? 238) || (b0 =? 239)
                             then cont b1 && cont b2 && utf8_valid r2
                        else if b0 =? 237 then (128 <=? b1) && (b1 <=? 159) && cont b2 && utf8_valid r2
                        else match r2 with
                             | [] => false
                             | b3 :: r3 =>
                                 if b0 =? 240 then (144 <=? b1) && (b1 <=? 191) && cont b2 && cont b3
                                                   && utf8_valid r3
                                 else if (241 <=? b0) && (b0 <=? 243)
                                      then cont b1 && cont b2 && cont b3 && utf8_valid r3
                                 else if b0 =? 244 then (128 <=? b1) && (b1 <=? 143) && cont b2 && cont b3
                                                        && utf8_valid r3
                                 else false
                             end
                    end
           end
  end.

(* the UTF-8 encodings of the characters with the Unicode White_Space property
   (char::is_whitespace), for str::trim on byte strings that are valid UTF-8 *)
Definition uws_seqs : list str :=
  [[9]; [10]; [11]; [12]; [13]; [32]; [194; 133]; [194; 160]; [225; 154; 128];
   [226; 128; 128]; [226; 128; 129]; [226; 128; 130]; [226; 128; 131]; [226; 128; 132];
   [226; 128; 133]; [226; 128; 134]; [226; 128; 135]; [226; 128; 136]; [226; 128; 137];
   [226; 128; 138]; [226; 128; 168]; [226; 128; 169]; [226; 128; 175]; [226; 129; 159];
   [227; 128; 128]].

Definition uws_prefix_len (s : str) : nat :=
  match find (fun w => starts_with w s) uws_seqs with
  | Some w => length w
  | None => O
  end.

Fixpoint utrim_start_fuel (fuel : nat) (s : str) : str :=
  match fuel with
  | O => s
  | S f => match uws_prefix_len s with
           | O => s
           | k => utrim_start_fuel f (skipn k s)
           end
  end.
Definition utrim_start (s : str) : str := utrim_start_fuel (length s) s.

Definition uws_suffix_len (s : str) : nat :=
  match find (fun w => ends_with w s) uws_seqs with
  | Some w => length w
  | None => O
  end.

Fixpoint utrim_end_fuel (fuel : nat) (s : str) : str :=
  match fuel with
  | O => s
  | S f => match uws_suffix_len s with
           | O => s
           | k => utrim_end_fuel f (firstn (length s - k) s)
           end
  end.
Definition utrim_end (s : str) : str := utrim_end_fuel (length s) s.
Definition utrim (s : str) : str := utrim_end (utrim_start s).          (* str::trim *)

(* split at the first occurrence of a byte: (before, after) *)
Fixpoint split_once (sep : N) (s : str) : option (str * str) :=
  match s with
  | [] => None
  | c :: s' =>
      if c =? sep then Some ([], s')
      else match split_once sep s' with
           | Some (a, b) => Some (c :: a, b)
           | None => None
           end
  end.

Definition eq_ci (a b : str) : bool := str_eqb (map ascii_lower a) (map ascii_lower b).

(* ---------------------------------------------------------------- export *)

(* (shortdescr, longdescr) of export.rs *)
Definition descr_split (description : str) : str * str :=
  match split_once 10 description with
  | Some (short, rest) => (short, utrim_end (drop_while (fun c => c =? 10) rest))
  | None => (description, [])
  end.

Fixpoint assoc (k : str) (m : list (str * str)) : option str :=
  match m with
  | [] => None
  | (k', v) :: m' => if str_eqb k' k then Some v else assoc k m'
  end.

(* templates::specialize_template *)
Inductive tstate : Type := TStart | TPercent | TOpened | TClosed.

Fixpoint specialize_aux (t : str) (st : tstate) (name out : str) (repl : list (str * str)) : str :=
  match t with
  | [] =>
      match st with
      | TStart => out
      | TPercent => out ++ [37]
      | TOpened => out ++ [37; 40]
      | TClosed => out ++ [37; 40] ++ name ++ [41]
      end
  | c :: t' =>
      match st with
      | TStart => if c =? 37 then specialize_aux t' TPercent name out repl
                  else specialize_aux t' TStart name (out ++ [c]) repl
      | TPercent => if c =? 40 then specialize_aux t' TOpened [] out repl
                    else specialize_aux t' TStart name (out ++ [37; c]) repl
      | TOpened => if c =? 41 then specialize_aux t' TClosed name out repl
                   else specialize_aux t' TOpened (name ++ [c]) out repl
      | TClosed =>
          if c =? 115 then
            match assoc name repl with
            | Some v => specialize_aux t' TStart name (out ++ v) repl
            | None => specialize_aux t' TStart name (out ++ [37; 40] ++ name ++ [41; c]) repl
            end
          else specialize_aux t' TClosed name out repl
      end
  end.

Definition specialize (template : str) (repl : list (str * str)) : str :=
  specialize_aux template TStart [] [] repl.

Record patch_info : Type := mkPI {
  pi_description : str;
  pi_authname : str; pi_authemail : str; pi_authdate : str;
  pi_commname : str; pi_commemail : str; pi_commdate : str;
  pi_diffstat : str;
  pi_diff : str                     (* output of git diff-tree -p --binary *)
}.

Definition replacements (p : patch_info) : list (str * str) :=
  let (short, long) := descr_split (pi_description p) in
  [(k_description, pi_description p); (k_shortdescr, short); (k_longdescr, long);
   (k_authname, pi_authname p); (k_authemail, pi_authemail p); (k_authdate, pi_authdate p);
   (k_commname, pi_commname p); (k_commemail, pi_commemail p); (k_commdate, pi_commdate p);
   (k_diffstat, pi_diffstat p)].

Definition export_file (template : str) (p : patch_info) : str :=
  specialize template (replacements p) ++ pi_diff p.

(* ---------------------------------------------------------------- import *)

(* import.rs split_patch *)
Definition is_sep_line (line : str) : bool :=
  starts_with b_diff_dash line || starts_with b_index line
  || (starts_with b_dashes line &&
      (let rem := skipn 3 line in
       forallb is_ws rem
       || match rem with a :: b :: _ => (a =? 32) && negb (is_ws b) | _ => false end)).

Fixpoint split_lines (ls : list str) : list str * list str :=
  match ls with
  | [] => ([], [])
  | l :: r => if is_sep_line l then ([], ls)
              else let (m, d) := split_lines r in (l :: m, d)
  end.

Definition split_patch (content : str) : str * str :=
  let (m, d) := split_lines (lines_wt content) in (concat m, concat d).

(* patch/edit/parse.rs parse_name_email (on a valid UTF-8 value) *)
Definition parse_name_email (v : str) : option (str * str) :=
  match split_once 60 v with
  | Some (name, rem) =>
      match split_once 62 rem with
      | Some (email, rem2) =>
          let name := utrim name in
          let email := utrim email in
          if existsb (fun c => (c =? 60) || (c =? 62)) name then None
          else if existsb (fun c => (c =? 60) || (c =? 62)) email then None
          else match utrim rem2 with [] => Some (name, email) | _ => None end
      | None => None
      end
  | None => None
  end.

Record headers : Type := mkH {
  h_patch : option str;
  h_author : option (str * str);
  h_date : option str;
  h_subject : option str;
  h_msgid : option str
}.
Definition no_headers : headers := mkH None None None None None.

Inductive hstep : Type := HErr | HTaken (h : headers) | HNone.

Definition opt_utf8 (v : str) : option str := if utf8_valid v then Some v else None.

(* one trimmed, non-empty line of the header part *)
Definition header_step (line : str) (h : headers) : hstep :=
  match split_once 58 line with
  | None => HNone
  | Some (hd, after) =>
      let value := drop_while is_ws after in
      if eq_ci hd b_patch && negb (match value with [] => true | _ => false end) then
        if utf8_valid value
        then HTaken (mkH (Some value) (h_author h) (h_date h) (h_subject h) (h_msgid h))
        else HErr
      else if eq_ci hd b_from || eq_ci hd b_author then
        if utf8_valid value then
          match parse_name_email value with
          | Some ne => HTaken (mkH (h_patch h) (Some ne) (h_date h) (h_subject h) (h_msgid h))
          | None => HErr
          end
        else HErr
      else if eq_ci hd b_date then
        HTaken (mkH (h_patch h) (h_author h) (opt_utf8 value) (h_subject h) (h_msgid h))
      else if eq_ci hd b_subject then
        HTaken (mkH (h_patch h) (h_author h) (h_date h) (opt_utf8 value) (h_msgid h))
      else if eq_ci hd b_message_id then
        HTaken (mkH (h_patch h) (h_author h) (h_date h) (h_subject h) (opt_utf8 value))
      else HNone
  end.

Definition strip_dedent (dedent : bool) (line : str) : str :=
  if dedent && starts_with b_dedent line then skipn 4 line else line.

Definition is_git_show_commit (line : str) : bool :=
  starts_with b_commit_sp line && forallb is_ascii_hexdigit (skipn 7 line).

Inductive pm_res : Type := PMErr | PMOk (h : headers) (body : str).

(* Headers::parse_message *)
Fixpoint pm_loop (ls : list str) (h : headers) (dedent : bool) : pm_res :=
  match ls with
  | [] => PMOk h []
  | raw :: rest =>
      let line := trim_by is_ws raw in
      match line with
      | [] => pm_loop rest h dedent
      | _ =>
          match header_step line h with
          | HErr => PMErr
          | HTaken h' => pm_loop rest h' dedent
          | HNone =>
              match h_subject h with
              | Some _ =>
                  PMOk h (strip_dedent dedent line ++ [10] ++ concat (map (strip_dedent dedent) rest))
              | None =>
                  if is_git_show_commit line then pm_loop rest h true
                  else if utf8_valid line
                       then pm_loop rest (mkH (h_patch h) (h_author h) (h_date h) (Some line) (h_msgid h))
                                    dedent
                       else PMErr
              end
          end
      end
  end.

Definition parse_message (message : str) : pm_res := pm_loop (lines_wt message) no_headers false.

Record imported : Type := mkImp {
  im_headers : headers;
  im_message : str;                 (* default_message handed to the EditBuilder *)
  im_diff : str                     (* what is fed to git apply *)
}.

(* import_file + the message of create_patch (without --message-id handling) *)
Definition import_file (content : str) : option imported :=
  let (m, d) := split_patch content in
  match parse_message m with
  | PMErr => None
  | PMOk h body =>
      Some (mkImp h (match h_subject h with Some s => s ++ b_nlnl ++ body | None => body end) d)
  end.

(* create_patch skips git apply for an empty diff or a lone separator *)
Definition diff_is_empty (d : str) : bool :=
  let t := trim_end_by is_ws d in
  match t with [] => true | _ => str_eqb t b_dashes end.
