(* Specification-side definitions for the stack theorems (C01, C02, C06, C07, C09, C12, C13). *)
From StgV Require Export Model.Stack Model.Cmd Model.NameSpec.

(* ---------------------------------------------------------------- objects *)

(* a commit that can be a patch or part of the branch history: exists, is neither a stack
   state commit nor a parent-grouping commit *)
Definition is_plain (objs : store) (o : oid) : Prop :=
  exists c, get objs o = Some c /\ c_state c = None /\ c_msg c <> MGroup.

(* a patch commit: plain with exactly one parent *)
Definition is_patch_commit (objs : store) (o : oid) : Prop :=
  is_plain objs o /\ exists p, parents_of objs o = [p].

(* parents of plain commits are plain (and hence exist) *)
Definition plain_closed (objs : store) : Prop :=
  forall o p, is_plain objs o -> In p (parents_of objs o) -> is_plain objs p.

(* ---------------------------------------------------------------- C01: well-formedness *)

Definition names_ok (l : list name) : Prop :=
  NoDup l
  /\ Forall (fun n => validate n = true) l
  /\ (forall a b, In a l -> In b l -> collides a b = true -> a = b).

Definition wf_state (objs : store) (s : sstate) : Prop :=
  names_ok (all_of s)
  /\ NoDup (map fst (s_patches s))
  /\ (forall n, In n (all_of s) <-> pm_get (s_patches s) n <> None)
  /\ (forall n o, pm_get (s_patches s) n = Some o -> is_patch_commit objs o)
  /\ is_plain objs (s_head s).

(* every state ever written to the store is well-formed; the refs designate existing objects *)
Definition Inv (w : world) : Prop :=
  plain_closed (w_objs w)
  /\ (forall so s, state_of (w_objs w) so = Some s -> wf_state (w_objs w) s)
  /\ is_plain (w_objs w) (w_branch w)
  /\ match w_stack w with
     | Some so => exists s, state_of (w_objs w) so = Some s
     | None => True
     end.

(* the patch refs mirror the recorded patch map exactly *)
Definition mirror (w : world) : Prop :=
  match cur_state w with
  | Some s => forall n, pm_get (w_prefs w) n = pm_get (s_patches s) n
  | None => True
  end.

(* commands of the stg command line (as opposed to plain-git scenario operations) *)
Definition is_stg (c : cmd) : bool :=
  match c with
  | GEdit _ _ | GCommit _ _ | GAmend _ _ | GResetHard _ | GMerge _ | GConfigApc _ => false
  | _ => true
  end.

(* `stg reset <entry> <patches>` re-adds names of the logged state without a collision test
   against the current names: excluded from the invariant theorem (see DESIGN.md, finding
   on reset_to_state_partially) *)
Definition in_scope (c : cmd) : bool :=
  match c with
  | CReset _ (Some _) _ => false
  | _ => true
  end.

(* ---------------------------------------------------------------- C02: the chain *)

(* patches (bottom first) form a first-parent chain from base up to head *)
Fixpoint chain (objs : store) (base : oid) (patches : list oid) (head : oid) : Prop :=
  match patches with
  | [] => head = base
  | p :: rest => parents_of objs p = [base] /\ chain objs p rest head
  end.

Definition applied_oids (s : sstate) : list oid := map (patch_oid s) (s_applied s).

Definition chain_ok (objs : store) (s : sstate) : Prop :=
  exists base, chain objs base (applied_oids s) (s_top s).

Definition Inv2 (w : world) : Prop :=
  Inv w /\ (forall so s, state_of (w_objs w) so = Some s -> chain_ok (w_objs w) s).

(* commands that move the branch through a transaction with set_head *)
Definition moves_branch (c : cmd) : bool :=
  match c with
  | CUncommit _ _ | CInit | CInspect | CLogClear
  | GEdit _ _ | GCommit _ _ | GAmend _ _ | GResetHard _ | GMerge _ | GConfigApc _ => false
  | _ => true
  end.

(* commands that never change the stack base *)
Definition keeps_base (c : cmd) : bool :=
  match c with
  | CNew _ _ _ | CRefresh _ | CPush _ _ _ _ _ _ _ _ _ | CPop _ _ _ _ _ | CGoto _ _ _ _
  | CFloat _ _ _ | CSink _ _ _ _ | CDelete _ _ _ _ _ _ _ _ | CHide _ | CUnhide _
  | CRename _ _ | CClean _ _ | CSpill | CInspect | CLogClear => true
  | _ => false
  end.

Definition base_of (w : world) : option oid :=
  match cur_state w with
  | Some s => stack_base (w_objs w) (w_branch w) s
  | None => None
  end.

(* ---------------------------------------------------------------- C06: reachability *)

Inductive reach (objs : store) : oid -> oid -> Prop :=
| reach_refl : forall a, reach objs a a
| reach_step : forall a p b, In p (parents_of objs a) -> reach objs p b -> reach objs a b.

(* state commits on the log of the state commit [top]: the chain of `prev` links *)
Inductive on_log (objs : store) : oid -> oid -> Prop :=
| on_log_here : forall top, on_log objs top top
| on_log_prev : forall top s p so,
    state_of objs top = Some s -> s_prev s = Some p -> on_log objs p so -> on_log objs top so.

Definition patches_reachable (objs : store) (top : oid) : Prop :=
  forall so s, on_log objs top so -> state_of objs so = Some s ->
    (forall n o, pm_get (s_patches s) n = Some o -> reach objs top o)
    /\ reach objs top (s_head s)
    /\ reach objs top so.

Definition Inv6 (w : world) : Prop :=
  Inv2 w /\ match w_stack w with Some top => patches_reachable (w_objs w) top | None => True end.

(* the store only grows and old objects never change *)
Definition store_extends (a b : store) : Prop := exists ext, b = a ++ ext.

(* ---------------------------------------------------------------- C07: deltas *)

(* cell-wise: the patch (parent tree o, patch tree p) does not touch cells where the new
   parent n differs from o *)
Fixpoint no_overlap (o n p : tree) : Prop :=
  match o, n, p with
  | x :: o', y :: n', z :: p' => (x = z \/ x = y) /\ no_overlap o' n' p'
  | _, _, _ => True
  end.

(* apply the patch's change (o -> p) to n, cell by cell *)
Fixpoint apply_delta (o n p : tree) : tree :=
  match o, n, p with
  | x :: o', y :: n', z :: p' => (if N.eqb x z then y else z) :: apply_delta o' n' p'
  | _, _, _ => []
  end.

Definition same_len (a b c : tree) : Prop := length a = length b /\ length b = length c.

(* the temp index cache is coherent: a cached id names the actual content *)
Definition tmp_coherent (t : txn) : Prop :=
  forall c, t_tmp_id t = Some c -> t_tmp_content t = c.
