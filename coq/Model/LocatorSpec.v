(* Specification-side definitions for the locator / range theorems (C15). *)
From StgV Require Export Model.Locator.

(* Well-formed locators: the offsets text is consumed completely by the offsets parser, and
   a name component is not "@" (a PatchName is validated on construction and "@" is not a
   valid patch name).  True of every parsed locator (C15_parsed_wf). *)
Definition wf_loc (l : ploc) : Prop :=
  offsets_full (l_offs l) = Some (l_offs l) /\ l_id l <> IdName s_at.

Definition wf_oloc (l : option ploc) : Prop :=
  match l with Some l => wf_loc l | None => True end.

Definition wf_range (r : prange) : Prop :=
  match r with
  | RSingle l => wf_loc l
  | RRange b e => wf_oloc b /\ wf_oloc e
  end.

(* a result never names a patch outside the stack and never panics *)
Definition name_result_ok (v : sview) (r : rres str) : Prop :=
  match r with
  | ROk n => In n (v_all v)
  | RErr _ => True
  | RPanic => False
  end.

Definition names_result_ok (v : sview) (rc : rconstraint) (r : rres (list str)) : Prop :=
  match r with
  | ROk l => NoDup l /\ incl l (allowed v (lc_of rc))
  | RErr _ => True
  | RPanic => False
  end.

(* l is the contiguous interval [i..j] of al, possibly reversed *)
Definition is_interval (al l : list str) : Prop :=
  exists i j, l = slice i j al.
Definition is_interval_or_reversed (al l : list str) : Prop :=
  exists i j, l = slice i j al \/ l = rev (slice i j al).
