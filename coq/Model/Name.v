(* Patch names: transcription of src/patch/name.rs (validate, from_str, make, uniquify,
   collides) and of the winnow parser src/patch/parse/name.rs (patch_name).
   Executable definitions only. *)

From StgV Require Export Model.Chars.

Inductive res (A : Type) : Type :=
| Ok (a : A)
| Err
| Panic.
Arguments Ok {A} a.
Arguments Err {A}.
Arguments Panic {A}.

(* ---------------------------------------------------------------- validate *)

(* the characters rejected one by one in the `while let` loop of validate *)
Definition forbidden_char (c : N) : bool :=
  (c =? ch_tilde) || (c =? ch_caret) || (c =? ch_colon) || (c =? ch_slash)
  || (c =? ch_bslash) || (c =? ch_qmark) || (c =? ch_lbrack) || (c =? ch_star)
  || (c =? ch_del).

(* loop body: [c] is the current char, [next] the peeked one *)
Definition validate_step (c : N) (next : option N) : bool :=
  if c =? ch_dot then
    match next with
    | Some n => negb (n =? ch_dot)
    | None => false
    end
  else if (c =? ch_at) && match next with Some n => n =? ch_lbrace | None => false end then false
  else if is_ascii_whitespace c then false
  else if is_control c then false
  else negb (forbidden_char c).

Fixpoint validate_loop (s : str) : bool :=
  match s with
  | [] => true
  | c :: s' => validate_step c (hd_error s') && validate_loop s'
  end.

Definition validate (name : str) : bool :=
  match name with
  | [] => false
  | c :: _ =>
      negb (c =? ch_dot)
      && validate_loop name
      && negb (ends_with s_dotlock name)
      && negb (str_eqb name s_base)
      && negb (str_eqb name s_at)
  end.

(* FromStr / TryFrom<String>: a leading "\-" loses the backslash *)
Definition unescape_dash (s : str) : str :=
  match s with
  | b :: d :: rest => if (b =? ch_bslash) && (d =? ch_dash) then d :: rest else s
  | _ => s
  end.

Definition from_str (s : str) : option str :=
  let n := unescape_dash s in if validate n then Some n else None.

(* ---------------------------------------------------------------- collides *)

Definition collides (a b : str) : bool := str_eqb (map ascii_lower a) (map ascii_lower b).

(* ---------------------------------------------------------------- make *)

(* first line whose trim() is non-empty, trimmed; else "patch" *)
Fixpoint first_nonblank (ls : list str) : option str :=
  match ls with
  | [] => None
  | l :: ls' => match trim l with [] => first_nonblank ls' | t => Some t end
  end.

Definition make_base (raw : str) : str :=
  match first_nonblank (lines raw) with Some t => t | None => s_patch end.

(* the character loop; [prev] starts as NUL; output accumulated in order *)
Fixpoint sanitize (prev : N) (s : str) : str :=
  match s with
  | [] => []
  | c :: s' =>
      if is_whitespace c || is_control c then
        if negb (prev =? ch_dash) then ch_dash :: sanitize ch_dash s' else sanitize prev s'
      else if is_ascii_alnum c || (c =? ch_uscore) || negb (is_ascii c) then
        c :: sanitize c s'
      else if (c =? ch_dash) || (c =? ch_dot) then
        if negb (prev =? ch_dash) && negb (prev =? ch_dot) then c :: sanitize c s'
        else sanitize prev s'
      else if negb (prev =? ch_dash) && negb (prev =? ch_dot) then
        ch_dash :: sanitize ch_dash s'
      else sanitize prev s'
  end.

Definition is_dash_or_dot (c : N) : bool := (c =? ch_dash) || (c =? ch_dot).

(* one round of the strip loop *)
Definition strip_round (s : str) : str :=
  trim_by is_dash_or_dot (trim_end_matches_str s_dotlock s).

(* loop { ... if candidate.len() == prev_len break }: every non-final round strictly
   shortens, so length s + 1 rounds of fuel always suffice *)
Fixpoint strip_loop (fuel : nat) (s : str) : str :=
  match fuel with
  | O => s
  | S fuel' =>
      let s' := strip_round s in
      if Nat.eqb (length s') (length s) then s' else strip_loop fuel' s'
  end.

Definition strip_all (s : str) : str := strip_loop (S (length s)) s.

Definition is_dot (c : N) : bool := c =? ch_dot.

Definition words (candidate : str) : list str :=
  filter (fun w => match w with [] => false | _ => true end)
         (map (trim_by is_dot) (split_on ch_dash candidate)).

(* for word in word_iter { if short.len()+1+word.len() <= limit {push} else {break} } *)
Fixpoint take_words (limit : N) (short : str) (ws : list str) : str :=
  match ws with
  | [] => short
  | w :: ws' =>
      if utf8_len short + 1 + utf8_len w <=? limit
      then take_words limit (short ++ ch_dash :: w) ws'
      else short
  end.

Definition shorten (limit : N) (candidate : str) : str :=
  match words candidate with
  | [] => take_words limit s_patch []
  | w :: ws => take_words limit w ws
  end.

Section Make.
  (* String::to_lowercase as a function on strings: a Unicode table oracle. *)
  Variable lower_s : str -> str.

  Definition make_candidate (raw : str) (lower : bool) : str :=
    let name := sanitize 0 (make_base raw) in
    let name := if lower then lower_s name else name in
    match strip_all name with
    | [] => s_patch
    | c => c
    end.

  Definition make (raw : str) (lower : bool) (limit : option N) : res str :=
    let candidate := make_candidate raw lower in
    let truncate :=
      match limit with
      | Some l => (0 <? l) && (l <? utf8_len candidate)
      | None => false
      end in
    let final :=
      if truncate then
        match strip_all (shorten (match limit with Some l => l | None => 0 end) candidate) with
        | [] => s_patch
        | short => short
        end
      else candidate in
    match from_str final with
    | Some n => Ok n
    | None => Panic
    end.
End Make.

(* ---------------------------------------------------------------- uniquify *)

Definition usize_max : N := 18446744073709551615.

(* split name into (base, trailing ASCII digit run) *)
Definition split_digits (name : str) : str * str :=
  let rd := rev name in
  let digits_rev := (fix take (s : str) : str :=
                       match s with
                       | c :: s' => if is_ascii_digit c then c :: take s' else []
                       | [] => []
                       end) rd in
  (rev (drop_while is_ascii_digit rd), rev digits_rev).

Definition s_dash1 : str := [45; 49].

(* next candidate: `digits.parse::<usize>().ok().and_then(|n| n.checked_add(1))` gives
   base ++ (n+1); an empty or too large digit run gets a fresh "-1" suffix. *)
Definition uniquify_next (name : str) : str :=
  let '(base, digits) := split_digits name in
  match digits with
  | [] => name ++ s_dash1
  | _ =>
      let n := parse_dec digits in
      if usize_max <=? n then name ++ s_dash1
      else base ++ dec_of_N (n + 1)
  end.

Definition name_in (n : str) (l : list str) : bool := existsb (str_eqb n) l.

Definition uniquify_done (name : str) (allow dis : list str) : bool :=
  name_in name allow || forallb (fun d => negb (collides name d)) dis.

Inductive ures : Type :=
| UOk (n : str)
| UFuel.

Fixpoint uniquify_loop (fuel : nat) (name : str) (allow dis : list str) : ures :=
  if uniquify_done name allow dis then UOk name
  else
    match fuel with
    | O => UFuel
    | S fuel' => uniquify_loop fuel' (uniquify_next name) allow dis
    end.

(* Every failed candidate collides with a distinct member of [dis], so length dis + 1
   steps always suffice (Proofs/NameProofs.v: uniquify_never_out_of_fuel). *)
Definition uniquify (name : str) (allow dis : list str) : ures :=
  uniquify_loop (S (length dis)) name allow dis.

(* ---------------------------------------------------------------- parser patch_name *)

(* Characters at which the scanning loop of parse/name.rs breaks (other than the
   position-dependent '\\', '.', '@' rules). *)
Definition pn_break_char (c : N) : bool :=
  is_control c || (c =? ch_space) || (c =? ch_tilde) || (c =? ch_caret) || (c =? ch_colon)
  || (c =? ch_slash) || (c =? ch_qmark) || (c =? ch_lbrack) || (c =? ch_star) || (c =? ch_del).

(* scan from char index [i]; returns the number of chars consumed before the break *)
Fixpoint pn_scan (i : nat) (s : str) : nat :=
  match s with
  | [] => O
  | c :: s' =>
      let next := hd_error s' in
      let brk :=
        if c =? ch_bslash then
          negb (Nat.eqb i 0 && match next with Some n => n =? ch_dash | None => false end)
        else
          pn_break_char c
          || ((c =? ch_dot)
              && (Nat.eqb i 0
                  || match next with Some n => n =? ch_dot | None => true end))
          || ((c =? ch_at) && match next with Some n => n =? ch_lbrace | None => false end)
      in
      if brk then O else S (pn_scan (S i) s')
  end.

Inductive pres (A : Type) : Type :=
| POk (a : A) (rest : str)
| PBack          (* ErrMode::Backtrack *)
| PCut.          (* ErrMode::Cut *)
Arguments POk {A} a rest.
Arguments PBack {A}.
Arguments PCut {A}.

Definition last_is_dot (s : str) : bool :=
  match rev s with c :: _ => c =? ch_dot | [] => false end.

Definition patch_name_p (input : str) : pres str :=
  let split := pn_scan 0 input in
  let escaped :=
    match input with
    | b :: d :: _ => (b =? ch_bslash) && (d =? ch_dash)
    | _ => false
    end in
  let '(input1, split1) := if escaped then (tl input, Nat.pred split) else (input, split) in
  let split2 := if last_is_dot (firstn split1 input1) then Nat.pred split1 else split1 in
  let name := firstn split2 input1 in
  let rest := skipn split2 input1 in
  match name with
  | [] => PBack
  | _ =>
      if ends_with s_dotlock name then PCut
      else if str_eqb name s_at || str_eqb name s_base then PBack
      else POk name rest
  end.
