(* The stack log as an abstract list (newest entry first) and the walk performed by
   find_undo_state (src/cmd/undo.rs), plus the specification of undo / redo in terms of the
   "effective timeline" and the "redo stack".  Executable definitions only. *)
From Coq Require Export List ZArith Bool.
Export ListNotations.

Section Log.
  Variable S : Type.                       (* a stack state *)

  Inductive entry : Type :=
  | EOp (s : S)                            (* any ordinary operation; s = state after it *)
  | EUndo (n : Z) (s : S)                  (* reflog message "undo n" *)
  | ERedo (n : Z) (s : S).                 (* reflog message "redo n" *)

  Definition state_of_entry (e : entry) : S :=
    match e with EOp s | EUndo _ s | ERedo _ s => s end.

  (* find_undo_state: the loop, structurally on the log *)
  Fixpoint walk (l : list entry) (steps : Z) : option S :=
    match l with
    | [] => None                           (* ran past the oldest entry *)
    | e :: rest =>
        if (steps =? 0)%Z then Some (state_of_entry e)
        else if (0 <? steps)%Z then
          match e with
          | EUndo n _ => walk rest (steps + n)%Z
          | _ => walk rest (steps - 1)%Z
          end
        else
          match e with
          | EUndo _ _ => walk rest (steps + 1)%Z
          | ERedo n _ => walk rest (steps - n)%Z
          | EOp _ => None                  (* "no more redo information available" *)
          end
    end.

  (* the timeline of states not undone, newest first: eff l = [current; before the last
     not-undone operation; ...] *)
  Fixpoint eff (l : list entry) : list S :=
    match l with
    | [] => []
    | EOp s :: rest => s :: eff rest
    | ERedo _ s :: rest => s :: eff rest
    | EUndo n _ :: rest => skipn (Z.to_nat n) (eff rest)
    end.

  (* the states that can be redone, most recent undo invocation first: redoing takes back
     whole `undo` invocations (whatever their -n), returning to the state that was current
     when the invocation ran *)
  Fixpoint redo_stack (l : list entry) : list S :=
    match l with
    | [] => []
    | EOp _ :: _ => []
    | EUndo _ _ :: rest =>
        match rest with
        | e :: _ => state_of_entry e :: redo_stack rest
        | [] => []
        end
    | ERedo n _ :: rest => skipn (Z.to_nat n) (redo_stack rest)
    end.

  (* every undo / redo entry records the state its walk returned when it was appended, and
     carries a positive count *)
  Fixpoint wf_log (l : list entry) : Prop :=
    match l with
    | [] => True
    | EOp _ :: rest => wf_log rest
    | EUndo n s :: rest => (1 <= n)%Z /\ walk rest n = Some s /\ wf_log rest
    | ERedo n s :: rest => (1 <= n)%Z /\ walk rest (- n)%Z = Some s /\ wf_log rest
    end.

  (* k single undos *)
  Fixpoint undo_times (l : list entry) (k : nat) : option (list entry) :=
    match k with
    | O => Some l
    | Datatypes.S k' =>
        match walk l 1 with
        | Some s => undo_times (EUndo 1 s :: l) k'
        | None => None
        end
    end.
End Log.

Arguments EOp {S} s.
Arguments EUndo {S} n s.
Arguments ERedo {S} n s.
