(* Specification-side definitions for C17 (branch administration). *)
From Coq Require Import List NArith Bool String.
From StgV Require Import Model.Chars Model.Branch Model.GenTypes.
Import ListNotations.

(* ---------------------------------------------------------------- ownership of refs / config *)

(* the refs StGit keeps for branch b *)
Definition stgit_ref_of (b k : str) : Prop :=
  k = stack_ref b \/ starts_with (patch_prefix b) k = true.

(* ... together with the branch itself *)
Definition ref_of_branch (b k : str) : Prop := k = head_ref b \/ stgit_ref_of b k.

(* two branch names that can coexist in a repository *)
Definition unrelated (b b' : str) : Prop := b <> b' /\ df_conflict b b' = false.

(* `branch.<b>.stgit` is also the plain git section of a branch literally called "<b>.stgit" *)
Definition no_twin (b b' : str) : Prop := b' <> stgit_sub b /\ b <> stgit_sub b'.

Definition same_refs_outside (P : str -> Prop) (r r' : brepo) : Prop :=
  forall k v, ~ P k -> (In (k, v) (b_refs r') <-> In (k, v) (b_refs r)).

Definition same_cfg_outside (P : str -> Prop) (r r' : brepo) : Prop :=
  forall e, ~ P (ce_sub e) -> (In e (b_cfg r') <-> In e (b_cfg r)).

(* the branches an operation names *)
Definition op_names (r : brepo) (o : bop) (b : str) : Prop :=
  match o with
  | BCreate n _ _ _ => b = n
  | BSwitch _ => False
  | BDescribe a _ => b = a
  | BClone n => b = n \/ b_head r = Some b
  | BRename a n => b = a \/ b = n
  | BDelete a _ | BCleanup a _ | BProtect a | BUnprotect a => b = a
  end.

(* ---------------------------------------------------------------- the regenerated command table *)

Open Scope string_scope.

Definition precheck_names : list string :=
  ["check_repository_state"; "check_conflicts"; "check_head_top_mismatch";
   "check_index_and_worktree_clean"; "check_index_clean"; "check_worktree_clean"; "is_protected"].

Definition is_precheck (n : string) : bool := existsb (String.eqb n) precheck_names.

(* is_protected is consulted before the first call that writes *)
Fixpoint protect_first (l : list (string * string)) : bool :=
  match l with
  | [] => false
  | (_, n) :: rest =>
      if String.eqb n "is_protected" then true
      else if is_precheck n then protect_first rest else false
  end.

(* the first writing call of function fn is w *)
Fixpoint first_write_is (fn w : string) (l : list (string * string)) : bool :=
  match l with
  | [] => false
  | (f, n) :: rest =>
      if negb (String.eqb f fn) || is_precheck n then first_write_is fn w rest
      else String.eqb n w
  end.

(* within function fn, the first call named a comes before the first call named b *)
Fixpoint seq_index (fn a : string) (l : list (string * string)) : option nat :=
  match l with
  | [] => None
  | (f, n) :: rest =>
      if String.eqb f fn && String.eqb n a then Some O
      else match seq_index fn a rest with Some i => Some (S i) | None => None end
  end.

Definition seq_before (fn a b : string) (l : list (string * string)) : bool :=
  match seq_index fn a l, seq_index fn b l with
  | Some i, Some j => Nat.ltb i j
  | _, _ => false
  end.

(* three-valued evaluation knowing only that --branch was given *)
Fixpoint eval3 (e : bexpr) : option bool :=
  match e with
  | BTrue => Some true
  | BFalse => Some false
  | BIsNone s => if String.eqb s "branch" then Some false else None
  | BIsSome s | BContains s => if String.eqb s "branch" then Some true else None
  | BFlag _ | BVar _ | BUnknown _ => None
  | BNot x => match eval3 x with Some b => Some (negb b) | None => None end
  | BAnd x y =>
      match eval3 x, eval3 y with
      | Some false, _ | _, Some false => Some false
      | Some true, Some true => Some true
      | _, _ => None
      end
  | BOr x y =>
      match eval3 x, eval3 y with
      | Some true, _ | _, Some true => Some true
      | Some false, Some false => Some false
      | _, _ => None
      end
  end.

(* a transaction site that cannot use the index and work tree once --branch is given
   (the builder's default is `use_index_and_worktree: false`) *)
Definition txn_iw_off_with_branch (t : txn_site) : bool :=
  match opt_lookup "use_index_and_worktree" (tx_opts t) with
  | None => true
  | Some e => match eval3 e with Some false => true | _ => false end
  end.

Definition branch_arg_ok (ci : cmd_info) : bool :=
  implb (ci_branch_arg ci) (forallb txn_iw_off_with_branch (ci_txns ci)).
