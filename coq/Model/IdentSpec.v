(* Specification-side definitions for C08 (authorship and message of a patch). *)
From Coq Require Import List NArith Bool.
From StgV Require Import Model.Chars Model.Name Model.Stack Model.Cmd Model.StackSpec.
Import ListNotations.

(* what C08 calls a patch's authorship and message: the model keeps the author name, e-mail,
   date and the message as one opaque identity [c_meta] plus the message text [c_subj] *)
Definition ident_of (objs : store) (o : oid) : option (N * str) :=
  match get objs o with Some c => Some (c_meta c, c_subj c) | None => None end.

Definition patch_commit (w : world) (n : name) : option oid :=
  match cur_state w with Some s => pm_get (s_patches s) n | None => None end.

(* stack manipulation (and refresh, which edits only the tree): every stg command of the
   model except `new` (creates an identity), `edit` (changes an identity on purpose), `pick`
   (copies the identity of its source, see C08_pick_identity),
   undo / redo / reset (restore recorded commits, see C08_restore_reuses_commits), repair, and
   `refresh -p <patch>`: when its second transaction stops (a conflicting push onto an applied
   patch further down, exit 3) or the change does not apply to an unapplied patch (exit 0), the
   temporary patch `refresh-temp` - a new identity - stays in the stack *)
Definition manip (c : cmd) : bool :=
  match c with
  | CRefresh (Some _)
  | CNew _ _ _ | CEdit _ _ _ | CSquash _ _ _ _ | CPick _ _ _ | CUndo _ _ | CRedo _ _ | CReset _ _ _ | CRepair
  | GEdit _ _ | GCommit _ _ | GAmend _ _ | GResetHard _ | GMerge _ | GConfigApc _ => false
  | _ => true
  end.

Definition is_rename (c : cmd) : bool := match c with CRename _ _ => true | _ => false end.
Definition is_uncommit (c : cmd) : bool := match c with CUncommit _ _ => true | _ => false end.
Definition is_restore (c : cmd) : bool :=
  match c with CUndo _ _ | CRedo _ _ | CReset _ _ _ => true | _ => false end.
