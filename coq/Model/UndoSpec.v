(* Specification-side definitions for the whole-command undo / redo theorems of C05
   (Properties/C05.v, second part): what `stg undo` / `stg redo` do to the WORLD, as opposed to
   the abstract walk over the log of Model/Log.v. *)
From StgV Require Export Model.StackSpec Model.Log Model.LogSpec.

(* the state commit [so] was written by an ordinary operation (its reflog message is neither
   "undo N" nor "redo N") *)
Definition logged_as_op (objs : store) (so : oid) : Prop :=
  exists c, get objs so = Some c /\ c_msg c = MOp.

(* commands of the stg command line that record their transactions as ordinary operations *)
Definition logs_plain_op (c : cmd) : bool :=
  is_stg c && match c with CUndo _ _ | CRedo _ _ => false | _ => true end.

(* the world's current stack is (observably) the recorded state [s] and the branch sits on the
   head that state records *)
Definition at_state (w : world) (s : sstate) : Prop :=
  exists so st, w_stack w = Some so /\ state_of (w_objs w) so = Some st
                /\ same_stack st s /\ w_branch w = s_head s.
