(* Specification-side definitions for the patch-name theorems (C14): what "legal git ref
   component" means, the invariant of sanitised names, and the Unicode table check.
   Executable definitions only. *)

From StgV Require Export Model.Name.

(* ---- git-check-ref-format(1), for the last component <n> of refs/patches/<b>/<n> ----
   Written independently of [validate] (sub-string tests instead of a peeking loop).
   Every rule is about ASCII characters, so the rules on bytes (git) and on scalar values
   (here) coincide: UTF-8 encodes non-ASCII scalar values with bytes >= 0x80 only. *)

Fixpoint contains_sub (p s : str) : bool :=
  match s with
  | [] => match p with [] => true | _ => false end
  | _ :: s' => starts_with p s || contains_sub p s'
  end.

Definition git_bad_char (c : N) : bool :=
  (c <? 32) || (c =? 127) || (c =? ch_space) || (c =? ch_tilde) || (c =? ch_caret)
  || (c =? ch_colon) || (c =? ch_qmark) || (c =? ch_star) || (c =? ch_lbrack)
  || (c =? ch_bslash) || (c =? ch_slash).

Definition git_component_ok (n : str) : bool :=
  match n with
  | [] => false                                           (* rule 6: no empty component *)
  | c :: _ =>
      negb (c =? ch_dot)                                  (* rule 1: no leading '.' *)
      && negb (ends_with s_dotlock n)                     (* rule 1: no ".lock" suffix *)
      && negb (contains_sub [ch_dot; ch_dot] n)           (* rule 3 *)
      && forallb (fun c => negb (git_bad_char c)) n       (* rules 4, 5, 6, 10 *)
      && negb (ends_with [ch_dot] n)                      (* rule 7 *)
      && negb (contains_sub [ch_at; ch_lbrace] n)         (* rule 8 *)
  end.

(* ---- the invariant of a sanitised (and lowercased) name ---- *)

Definition okchar (c : N) : bool :=
  is_ascii_alnum c || (c =? ch_uscore)
  || (negb (is_ascii c) && negb (is_whitespace c) && negb (is_control c))
  || (c =? ch_dash) || (c =? ch_dot).

Fixpoint no_dotdot (s : str) : bool :=
  match s with
  | a :: (b :: _) as t => negb ((a =? ch_dot) && (b =? ch_dot)) && no_dotdot t
  | _ => true
  end.

Definition clean (s : str) : bool := forallb okchar s && no_dotdot s.

(* What the proofs need from String::to_lowercase. *)
Definition LowerOK (lower_s : str -> str) : Prop :=
  forall s, clean s = true -> clean (lower_s s) = true.

(* ---- lowercase tables ---- *)

Definition ltable := list (N * list N).

Fixpoint lookup (tbl : ltable) (c : N) : list N :=
  match tbl with
  | [] => [c]
  | (k, v) :: tbl' => if k =? c then v else lookup tbl' c
  end.

Definition safe_out (c : N) : bool := okchar c && negb (c =? ch_dot).

Definition str_eqb_l (a b : list N) : bool := str_eqb a b.

Definition check_entry (e : N * list N) : bool :=
  let '(c, l) := e in
  match l with
  | [] => false
  | _ =>
      if is_ascii c then str_eqb l [ascii_lower c]
      else if okchar c then forallb safe_out l
      else true
  end.

Fixpoint N_upto (n : nat) : list N :=
  match n with O => [] | S n' => N_upto n' ++ [N.of_nat n'] end.

Definition check_table (tbl : ltable) : bool :=
  forallb check_entry tbl
  && forallb (fun c => str_eqb (lookup tbl c) [ascii_lower c]) (N_upto 128).

(* String::to_lowercase: per-character table, except that GREEK CAPITAL SIGMA (U+03A3)
   becomes final sigma U+03C2 in some positions ([choose] abstracts the context rule). *)
Fixpoint lower_of_table_from (tbl : ltable) (choose : nat -> bool) (i : nat) (s : str) : str :=
  match s with
  | [] => []
  | c :: s' =>
      (if (c =? 931) && choose i then [962] else lookup tbl c)
        ++ lower_of_table_from tbl choose (S i) s'
  end.

Definition lower_of_table (tbl : ltable) (choose : nat -> bool) (s : str) : str :=
  lower_of_table_from tbl choose 0 s.

Definition first_word (candidate : str) : str := hd s_patch (words candidate).
