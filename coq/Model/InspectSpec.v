(* C16: which command sources are inspection commands and what the regenerated table must
   say about them. *)
From Coq Require Import String.
From StgV Require Export Model.GenTypes.
Open Scope string_scope.

Definition readonly_policy_name (p : string) : bool :=
  String.eqb p "AllowUninitialized" || String.eqb p "RequireInitialized".

(* no transaction, only non-initialising policies, and no repository-writing call except
   those in [allowed_writes] guarded by the given flag *)
Definition inspection_ok (allowed_writes : list (string * string)) (ci : cmd_info) : bool :=
  match ci_txns ci with [] => true | _ => false end
  && forallb (fun p => readonly_policy_name (snd p)) (ci_policies ci)
  && match ci_hard_checkouts ci with [] => true | _ => false end
  && forallb (fun g =>
                existsb (fun aw => String.eqb (gc_name g) (fst aw)
                                   && existsb (fun e => bexpr_eqb e (BFlag (snd aw))) (gc_guards g))
                        allowed_writes)
             (ci_writes ci).
