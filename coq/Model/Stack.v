(* The stack model: object store, stack state, transactions (src/stack/transaction/mod.rs),
   state commits (src/stack/state.rs), and execute().  One branch; executable only.

   oids are positions in an append-only object store, so objects are never lost and
   every creation yields a fresh id.  A tree is its content (git trees are content
   addressed): a fixed-length vector of cell values, 0 = absent. *)

From Coq Require Export List NArith Bool Arith.
From StgV Require Export Model.Chars Model.Name.
Export ListNotations.

Definition oid := nat.
Definition name := str.
Definition tree := list N.

(* ---------------------------------------------------------------- small utilities *)

Fixpoint tree_eqb (a b : tree) : bool :=
  match a, b with
  | [], [] => true
  | x :: a', y :: b' => N.eqb x y && tree_eqb a' b'
  | _, _ => false
  end.

Definition name_eqb : name -> name -> bool := str_eqb.

Definition mem (n : name) (l : list name) : bool := existsb (name_eqb n) l.

Fixpoint position (f : name -> bool) (l : list name) : option nat :=
  match l with
  | [] => None
  | x :: l' => if f x then Some O else option_map S (position f l')
  end.

Fixpoint remove_first (n : name) (l : list name) : list name :=
  match l with
  | [] => []
  | x :: l' => if name_eqb x n then l' else x :: remove_first n l'
  end.

Fixpoint common_prefix_len (a b : list name) : nat :=
  match a, b with
  | x :: a', y :: b' => if name_eqb x y then S (common_prefix_len a' b') else O
  | _, _ => O
  end.

Fixpoint list_name_eqb (a b : list name) : bool :=
  match a, b with
  | [], [] => true
  | x :: a', y :: b' => name_eqb x y && list_name_eqb a' b'
  | _, _ => false
  end.

Fixpoint insert_at {A} (i : nat) (x : A) (l : list A) : list A :=
  match i, l with
  | O, _ => x :: l
  | S i', y :: l' => y :: insert_at i' x l'
  | S _, [] => [x]
  end.

(* ---------------------------------------------------------------- objects *)

Inductive msgkind : Type :=
| MOp                   (* any reflog message that is not "undo N" / "redo N" *)
| MUndo (n : Z)
| MRedo (n : Z)
| MGroup.               (* a "parent grouping" commit of StackState::commit *)

Record sstate : Type := mkState {
  s_prev : option oid;
  s_head : oid;
  s_applied : list name;
  s_unapplied : list name;
  s_hidden : list name;
  s_patches : list (name * oid)      (* BTreeMap<PatchName, PatchState>: unique keys *)
}.

Record commit : Type := mkCommit {
  c_parents : list oid;
  c_tree : tree;
  c_meta : N;                        (* author + message identity of a patch commit *)
  c_subj : str;                      (* message text (used to derive patch names) *)
  c_state : option sstate;           (* Some for stack state commits *)
  c_msg : msgkind                    (* state commits: classification of the message *)
}.

Definition store := list commit.

Definition get (objs : store) (o : oid) : option commit := nth_error objs o.

Definition put (objs : store) (c : commit) : store * oid := (objs ++ [c], length objs).

Definition plain (parents : list oid) (t : tree) (meta : N) (subj : str) : commit :=
  mkCommit parents t meta subj None MOp.

Definition subj_of (objs : store) (o : oid) : str :=
  match get objs o with Some c => c_subj c | None => [] end.

Definition tree_of (objs : store) (o : oid) : tree :=
  match get objs o with Some c => c_tree c | None => [] end.

Definition parents_of (objs : store) (o : oid) : list oid :=
  match get objs o with Some c => c_parents c | None => [] end.

Definition first_parent (objs : store) (o : oid) : option oid := hd_error (parents_of objs o).

(* ---------------------------------------------------------------- patch maps *)

Fixpoint pm_get (m : list (name * oid)) (n : name) : option oid :=
  match m with
  | [] => None
  | (k, v) :: m' => if name_eqb k n then Some v else pm_get m' n
  end.

Fixpoint pm_remove (m : list (name * oid)) (n : name) : list (name * oid) :=
  match m with
  | [] => []
  | (k, v) :: m' => if name_eqb k n then pm_remove m' n else (k, v) :: pm_remove m' n
  end.

Definition pm_set (m : list (name * oid)) (n : name) (o : oid) : list (name * oid) :=
  pm_remove m n ++ [(n, o)].

(* updated_patches: BTreeMap<PatchName, Option<PatchState>>, later insert wins *)
Definition upd := list (name * option oid).

Fixpoint up_get (u : upd) (n : name) : option (option oid) :=
  match u with
  | [] => None
  | (k, v) :: u' => if name_eqb k n then Some v else up_get u' n
  end.

Fixpoint up_remove (u : upd) (n : name) : upd :=
  match u with
  | [] => []
  | (k, v) :: u' => if name_eqb k n then up_remove u' n else (k, v) :: up_remove u' n
  end.

Definition up_set (u : upd) (n : name) (v : option oid) : upd := (n, v) :: up_remove u n.

Fixpoint pm_apply (m : list (name * oid)) (u : upd) : list (name * oid) :=
  match u with
  | [] => m
  | (k, Some o) :: u' => pm_set (pm_apply m u') k o
  | (k, None) :: u' => pm_remove (pm_apply m u') k
  end.

(* ---------------------------------------------------------------- the world *)

Record world : Type := mkWorld {
  w_objs : store;
  w_branch : oid;                     (* refs/heads/<b> *)
  w_stack : option oid;               (* refs/stacks/<b> *)
  w_prefs : list (name * oid);        (* refs/patches/<b>/<name> *)
  w_wt : tree;                        (* index = work tree content (clean model) *)
  w_unmerged : bool;                  (* index has unmerged entries *)
  w_base : oid;                       (* not a ref: bookkeeping for the harness *)
  w_apc : bool                        (* config stgit.push.allow-conflicts (default true) *)
}.

Definition state_of (objs : store) (so : oid) : option sstate :=
  match get objs so with Some c => c_state c | None => None end.

Definition cur_state (w : world) : option sstate :=
  match w_stack w with Some so => state_of (w_objs w) so | None => None end.

Definition empty_state (head : oid) : sstate := mkState None head [] [] [] [].

Definition all_of (s : sstate) : list name := s_applied s ++ s_unapplied s ++ s_hidden s.

Definition last_error {A} (l : list A) : option A := hd_error (rev l).

Definition s_top (s : sstate) : oid :=
  match last_error (s_applied s) with
  | Some n => match pm_get (s_patches s) n with Some o => o | None => s_head s end
  | None => s_head s
  end.

(* Stack::from_branch: base = parent of the first applied patch, else the branch head *)
Definition stack_base (objs : store) (branch_head : oid) (s : sstate) : option oid :=
  match s_applied s with
  | [] => Some branch_head
  | n :: _ =>
      match pm_get (s_patches s) n with
      | Some o => first_parent objs o
      | None => None
      end
  end.

(* ---------------------------------------------------------------- merging *)

Inductive mres : Type := MClean (t : tree) | MConflict.

Definition merge_cell (b o t : N) : option N :=
  if N.eqb t b then Some o
  else if N.eqb o b then Some t
  else if N.eqb o t then Some o
  else None.

Fixpoint merge3 (b o t : tree) : option tree :=
  match b, o, t with
  | [], [], [] => Some []
  | x :: b', y :: o', z :: t' =>
      match merge_cell x y z, merge3 b' o' t' with
      | Some c, Some r => Some (c :: r)
      | _, _ => None
      end
  | _, _, _ => None
  end.

(* `git apply --cached --3way` of diff(b -> t) onto the content o of a TEMPORARY index, run in
   the work tree w (what stg's apply_treediff_to_index does).  git tries a three-way merge per
   file first (base = the blob named in the patch, ours = the index entry), then the direct
   application: for a file that exists on both sides of the patch this is the cell-wise merge.
   Whole-file cells (the one-cell files after the multi-region files, 0 = absent) differ:
   a deletion has no three-way fallback (the file must be there unchanged); a CREATION of a
   file that is already in the index reads "our" version through the work tree even under
   --cached - a file that exists there is compared with the stat-less temporary index entry
   and refused ("does not match index"), an absent one is checked out (and left behind) and
   merged against an empty base, which is clean only when both sides created the same content. *)
Definition apply_cell (single : bool) (wc b o t : N) : option N :=
  if N.eqb t b then Some o
  else if single && N.eqb b 0 then
    (if N.eqb o 0 then Some t else if N.eqb wc 0 && N.eqb o t then Some t else None)
  else if single && N.eqb t 0 then (if N.eqb o b then Some t else None)
  else if single && N.eqb o 0 then None
  else merge_cell b o t.

Definition multi_cells : nat := 9.

Fixpoint apply3way_from (i : nat) (w b o t : tree) : option tree :=
  match w, b, o, t with
  | [], [], [], [] => Some []
  | wc :: w', x :: b', y :: o', z :: t' =>
      match apply_cell (Nat.leb multi_cells i) wc x y z, apply3way_from (S i) w' b' o' t' with
      | Some c, Some r => Some (c :: r)
      | _, _ => None
      end
  | _, _, _, _ => None
  end.

Definition apply3way (w b o t : tree) : option tree := apply3way_from 0 w b o t.

(* ---------------------------------------------------------------- transactions *)

Inductive conflict_mode : Type := CDisallow | CAllow | CAllowIfSameTop.

Record topts : Type := mkOpts {
  o_conflict_mode : conflict_mode;
  o_allow_push_conflicts : bool;      (* after resolving the Option with the config value *)
  o_discard_changes : bool;
  o_use_iw : bool;
  o_set_head : bool;
  o_allow_bad_head : bool
}.

Definition default_opts : topts := mkOpts CDisallow true false false true false.

Record txn : Type := mkTxn {
  t_stack : sstate;                   (* the Stack the transaction was set up from *)
  t_stack_base : oid;
  t_branch_head : oid;
  t_opts : topts;
  t_applied : list name;
  t_unapplied : list name;
  t_hidden : list name;
  t_updated : upd;
  t_head : option oid;
  t_base : option oid;
  t_cur_tree : tree;
  t_objs : store;
  t_tmp_id : option tree;             (* temp_index_tree_id (per push_patches call) *)
  t_tmp_content : tree;               (* actual content of the temp index *)
  t_wt : tree;                        (* real index/work tree, touched by the merge fallback *)
  t_wt_unmerged : bool
}.

Inductive halt : Type :=
| HConflict          (* TransactionHalt { conflicts: true } *)
| HNoConflict.       (* TransactionHalt { conflicts: false } *)

Inductive tres : Type :=
| TOk (t : txn)
| THalt (t : txn) (h : halt)
| TErr (t : txn)     (* any other anyhow error *)
| TPanic.

Definition tbind (r : tres) (f : txn -> tres) : tres :=
  match r with TOk t => f t | other => other end.

Definition t_all (t : txn) : list name := t_applied t ++ t_unapplied t ++ t_hidden t.

Definition t_has_patch (t : txn) (n : name) : bool :=
  match up_get (t_updated t) n with
  | Some v => match v with Some _ => true | None => false end
  | None => match pm_get (s_patches (t_stack t)) n with Some _ => true | None => false end
  end.

(* get_patch: Panic when the patch was deleted in this transaction or never existed *)
Definition t_patch (t : txn) (n : name) : option oid :=
  match up_get (t_updated t) n with
  | Some v => v
  | None => pm_get (s_patches (t_stack t)) n
  end.

Definition t_base_oid (t : txn) : oid :=
  match t_base t with Some b => b | None => t_stack_base t end.

Definition t_top (t : txn) : option oid :=
  match hd_error (rev (t_applied t)) with
  | Some n => t_patch t n
  | None => Some (t_base_oid t)
  end.

Definition t_head_oid (t : txn) : option oid :=
  match t_head t with Some h => Some h | None => t_top t end.

Definition set_lists (t : txn) (a u h : list name) : txn :=
  mkTxn (t_stack t) (t_stack_base t) (t_branch_head t) (t_opts t) a u h (t_updated t) (t_head t)
        (t_base t) (t_cur_tree t) (t_objs t) (t_tmp_id t) (t_tmp_content t) (t_wt t) (t_wt_unmerged t).

Definition set_updated (t : txn) (u : upd) : txn :=
  mkTxn (t_stack t) (t_stack_base t) (t_branch_head t) (t_opts t) (t_applied t) (t_unapplied t)
        (t_hidden t) u (t_head t) (t_base t) (t_cur_tree t) (t_objs t) (t_tmp_id t)
        (t_tmp_content t) (t_wt t) (t_wt_unmerged t).

Definition set_head (t : txn) (h : option oid) : txn :=
  mkTxn (t_stack t) (t_stack_base t) (t_branch_head t) (t_opts t) (t_applied t) (t_unapplied t)
        (t_hidden t) (t_updated t) h (t_base t) (t_cur_tree t) (t_objs t) (t_tmp_id t)
        (t_tmp_content t) (t_wt t) (t_wt_unmerged t).

Definition set_base (t : txn) (b : option oid) : txn :=
  mkTxn (t_stack t) (t_stack_base t) (t_branch_head t) (t_opts t) (t_applied t) (t_unapplied t)
        (t_hidden t) (t_updated t) (t_head t) b (t_cur_tree t) (t_objs t) (t_tmp_id t)
        (t_tmp_content t) (t_wt t) (t_wt_unmerged t).

Definition set_objs (t : txn) (o : store) : txn :=
  mkTxn (t_stack t) (t_stack_base t) (t_branch_head t) (t_opts t) (t_applied t) (t_unapplied t)
        (t_hidden t) (t_updated t) (t_head t) (t_base t) (t_cur_tree t) o (t_tmp_id t)
        (t_tmp_content t) (t_wt t) (t_wt_unmerged t).

Definition set_tmp (t : txn) (id : option tree) (content : tree) : txn :=
  mkTxn (t_stack t) (t_stack_base t) (t_branch_head t) (t_opts t) (t_applied t) (t_unapplied t)
        (t_hidden t) (t_updated t) (t_head t) (t_base t) (t_cur_tree t) (t_objs t) id content
        (t_wt t) (t_wt_unmerged t).

Definition set_wt (t : txn) (cur : tree) (wt : tree) (unmerged : bool) : txn :=
  mkTxn (t_stack t) (t_stack_base t) (t_branch_head t) (t_opts t) (t_applied t) (t_unapplied t)
        (t_hidden t) (t_updated t) (t_head t) (t_base t) cur (t_objs t) (t_tmp_id t)
        (t_tmp_content t) wt unmerged.

Definition set_conflict_mode (t : txn) (m : conflict_mode) : txn :=
  let o := t_opts t in
  mkTxn (t_stack t) (t_stack_base t) (t_branch_head t)
        (mkOpts m (o_allow_push_conflicts o) (o_discard_changes o) (o_use_iw o) (o_set_head o)
                (o_allow_bad_head o))
        (t_applied t) (t_unapplied t) (t_hidden t) (t_updated t) (t_head t) (t_base t)
        (t_cur_tree t) (t_objs t) (t_tmp_id t) (t_tmp_content t) (t_wt t) (t_wt_unmerged t).

(* ---- pop_patches / delete_patches ---- *)

Definition split_at_first (f : name -> bool) (l : list name) : list name * list name :=
  match position f l with
  | Some i => (firstn i l, skipn i l)
  | None => (l, [])
  end.

(* returns the new transaction and the incidental (popped but not requested) patches *)
Definition pop_patches (f : name -> bool) (t : txn) : txn * list name :=
  let '(keep, all_popped) := split_at_first f (t_applied t) in
  let incidental := filter (fun n => negb (f n)) all_popped in
  let requested := filter f all_popped in
  (set_lists t keep (incidental ++ requested ++ t_unapplied t) (t_hidden t), incidental).

Definition mark_deleted (u : upd) (ns : list name) : upd :=
  fold_left (fun u n => up_set u n None) ns u.

Definition delete_patches (f : name -> bool) (t : txn) : txn * list name :=
  let '(keep, all_popped) := split_at_first f (t_applied t) in
  let incidental := filter (fun n => negb (f n)) all_popped in
  let unapplied' := incidental ++ filter (fun n => negb (f n)) (t_unapplied t) in
  let hidden' := filter (fun n => negb (f n)) (t_hidden t) in
  let deleted := filter f all_popped ++ filter f (t_unapplied t) ++ filter f (t_hidden t) in
  (set_updated (set_lists t keep unapplied' hidden') (mark_deleted (t_updated t) deleted),
   incidental).

(* ---- the work tree: files and git's two-way merge (read-tree -m -u old new) ---- *)

(* cell layout of the scenario corpus: three files of three regions, then one-cell files *)
Definition file_sizes : list nat := [3; 3; 3]%nat.

Fixpoint chunks (sizes : list nat) (t : tree) : list tree :=
  match sizes with
  | [] => map (fun c => [c]) t
  | k :: sizes' => match t with
                   | [] => []
                   | _ => firstn k t :: chunks sizes' (skipn k t)
                   end
  end.

(* per file, with index = work tree = I: clean file -> new content; dirty file is kept when
   the file does not change between the two trees (or already has the new content);
   otherwise read-tree refuses and nothing is touched *)
Fixpoint twoway_files (hs ms is_ : list tree) : option tree :=
  match hs, ms, is_ with
  | [], [], [] => Some []
  | h :: hs', m :: ms', i :: is' =>
      match twoway_files hs' ms' is' with
      | None => None
      | Some r =>
          if tree_eqb i h then Some (m ++ r)
          else if tree_eqb h m then Some (i ++ r)
          else if tree_eqb i m then Some (i ++ r)
          else None
      end
  | _, _, _ => None
  end.

Definition twoway (cur target wt : tree) : option tree :=
  twoway_files (chunks file_sizes cur) (chunks file_sizes target) (chunks file_sizes wt).

(* ---- push_patch ---- *)

Definition move_to_applied (t : txn) (n : name) : txn :=
  if mem n (t_unapplied t) then
    set_lists t (t_applied t ++ [n]) (remove_first n (t_unapplied t)) (t_hidden t)
  else if mem n (t_hidden t) then
    set_lists t (t_applied t ++ [n]) (t_unapplied t) (remove_first n (t_hidden t))
  else
    set_lists t (t_applied t ++ [n]) (t_unapplied t) (t_hidden t).

Inductive pstatus : Type := PSNormal | PSMerged | PSConflict.

(* new commit for a pushed patch: same author/message (meta), given tree, one parent *)
Definition recommit (t : txn) (old : oid) (new_tree : tree) (parent : oid) : txn * oid :=
  let meta := match get (t_objs t) old with Some c => c_meta c | None => 0%N end in
  let '(objs', o) := put (t_objs t) (plain [parent] new_tree meta (subj_of (t_objs t) old)) in
  (set_objs t objs', o).

Definition push_patch (n : name) (already_merged : bool) (t : txn) : tres :=
  match t_patch t n, t_top t with
  | Some pc, Some new_parent =>
      match first_parent (t_objs t) pc with
      | None => TErr t                                  (* get_parent_commit()? *)
      | Some old_parent =>
          let ptree := tree_of (t_objs t) pc in
          let otree := tree_of (t_objs t) old_parent in
          let ntree := tree_of (t_objs t) new_parent in
          (* tree selection: four shortcuts, then the temp index, then the work tree *)
          let sel : (txn * tree * pstatus) + tres :=
            if already_merged then inl (t, ntree, PSMerged)
            else if tree_eqb otree ntree then inl (t, ptree, PSNormal)
            else if tree_eqb otree ptree then inl (t, ntree, PSNormal)
            else if tree_eqb ntree ptree then inl (t, ptree, PSNormal)
            else
              let swap := match t_tmp_id t with Some c => tree_eqb c ptree | None => false end in
              let ours := if swap then ptree else ntree in
              let theirs := if swap then ntree else ptree in
              let t1 :=
                match t_tmp_id t with
                | Some c => if tree_eqb c ours then t else set_tmp t (Some ours) ours
                | None => set_tmp t (Some ours) ours
                end in
              match apply3way (t_wt t1) otree (t_tmp_content t1) theirs with
              | Some merged =>
                  (* apply + write-tree succeeded: the temp index now holds [merged] *)
                  inl (set_tmp t1 (Some merged) merged, merged, PSNormal)
              | None =>
                  (* apply failed: the temp index content is unknown, the cached id is dropped *)
                  let t1 := set_tmp t1 None (t_tmp_content t1) in
                  if negb (o_use_iw (t_opts t1)) then inr (THalt t1 HNoConflict)
                  else if negb (o_allow_push_conflicts (t_opts t1)) then inr (THalt t1 HNoConflict)
                  else
                    (* read_tree_checkout(current, ours) on the real index/work tree; the
                       model's work tree is clean so this succeeds unless unmerged *)
                    if t_wt_unmerged t1 then inr (THalt t1 HNoConflict)
                    else
                      match twoway (t_cur_tree t1) ours (t_wt t1) with
                      | None => inr (THalt t1 HNoConflict)          (* index/worktree dirty *)
                      | Some wt1 =>
                          let t2 := set_wt t1 ours wt1 false in
                          match merge3 otree ours theirs with
                          | Some merged =>
                              match twoway ours merged wt1 with
                              | Some wt2 => inl (set_wt t2 merged wt2 false, merged, PSNormal)
                              | None => inr (THalt t2 HNoConflict)  (* merge-recursive refuses *)
                              end
                          | None => inl (set_wt t2 ours ours true, ours, PSConflict)
                          end
                      end
              end
          in
          match sel with
          | inr r => r
          | inl (t2, new_tree, st) =>
              let needs_commit := negb (tree_eqb new_tree ptree) || negb (Nat.eqb new_parent old_parent) in
              let t3 :=
                if needs_commit then
                  let '(t', o) := recommit t2 pc new_tree new_parent in
                  let t'' := match st with PSConflict => set_head t' (Some o) | _ => t' end in
                  set_updated t'' (up_set (t_updated t'') n (Some o))
                else t2 in
              let t4 := match st with PSConflict => set_conflict_mode t3 CAllow | _ => t3 end in
              let t5 := move_to_applied t4 n in
              match st with
              | PSConflict => THalt t5 HConflict
              | _ => TOk t5
              end
          end
      end
  | _, _ => TPanic                                      (* get_patch on a missing patch *)
  end.

(* plain `git apply --cached` (no --3way) of the diff from -> to: succeeds iff every
   touched cell currently holds the `from` value *)
Fixpoint apply_exact (from to content : tree) : option tree :=
  match from, to, content with
  | [], [], [] => Some []
  | f :: from', t :: to', c :: content' =>
      match apply_exact from' to' content' with
      | Some r => if N.eqb f t then Some (c :: r) else if N.eqb c f then Some (t :: r) else None
      | None => None
      end
  | _, _, _ => None
  end.

(* check_merged: reverse-apply each patch (last first) onto the head tree in the temp index *)
Fixpoint check_merged_loop (objs : store) (content : tree) (id : option tree)
         (patches_rev : list (name * oid)) : list name * tree * option tree :=
  match patches_rev with
  | [] => ([], content, id)
  | (n, pc) :: rest =>
      let ptree := tree_of objs pc in
      match first_parent objs pc with
      | None => check_merged_loop objs content id rest
      | Some par =>
          let partree := tree_of objs par in
          if (Nat.eqb (length (parents_of objs pc)) 1) && tree_eqb partree ptree then
            check_merged_loop objs content id rest        (* is_no_change: skip *)
          else
            match apply_exact ptree partree content with
            | Some c' =>
                let '(m, c'', id') := check_merged_loop objs c' None rest in
                (n :: m, c'', id')
            | None => check_merged_loop objs content id rest
            end
      end
  end.

Fixpoint push_list (ns : list name) (merged : list name) (t : txn) : tres :=
  match ns with
  | [] => TOk t
  | n :: ns' => tbind (push_patch n (mem n merged) t) (push_list ns' merged)
  end.

(* push_patches: a fresh temp index per call *)
Definition push_patches (ns : list name) (check_merged : bool) (t : txn) : tres :=
  let t0 := set_tmp t None [] in
  if check_merged then
    let head_tree := tree_of (t_objs t0) (t_branch_head t0) in
    let with_oids := map (fun n => (n, match t_patch t0 n with Some o => o | None => O end)) ns in
    let '(merged, content, id) :=
      check_merged_loop (t_objs t0) head_tree (Some head_tree) (rev with_oids) in
    push_list ns merged (set_tmp t0 id content)
  else push_list ns [] t0.

(* ---- push_tree ---- *)

Definition push_tree (n : name) (t : txn) : tres :=
  match t_patch t n, t_top t with
  | Some pc, Some top =>
      match first_parent (t_objs t) pc with
      | None => TErr t
      | Some par =>
          let t1 :=
            if Nat.eqb par top then t
            else
              let '(t', o) := recommit t pc (tree_of (t_objs t) pc) top in
              set_updated t' (up_set (t_updated t') n (Some o)) in
          if mem n (t_unapplied t1) || mem n (t_hidden t1) then TOk (move_to_applied t1 n)
          else TPanic
      end
  | _, _ => TPanic
  end.

Fixpoint push_tree_list (ns : list name) (t : txn) : tres :=
  match ns with
  | [] => TOk t
  | n :: ns' => tbind (push_tree n t) (push_tree_list ns')
  end.

(* ---- reorder_patches ---- *)

Definition reorder_patches (a u h : option (list name)) (t : txn) : tres :=
  let r1 :=
    match a with
    | None => TOk t
    | Some applied =>
        let k := common_prefix_len (t_applied t) applied in
        let to_pop := skipn k (t_applied t) in
        let '(t1, _) := pop_patches (fun n => mem n to_pop) t in
        tbind (push_patches (skipn k applied) false t1)
              (fun t2 => if list_name_eqb (t_applied t2) applied then TOk t2 else TPanic)
    end in
  tbind r1 (fun t3 =>
    let t4 := match u with Some ul => set_lists t3 (t_applied t3) ul (t_hidden t3) | None => t3 end in
    let t5 := match h with Some hl => set_lists t4 (t_applied t4) (t_unapplied t4) hl | None => t4 end in
    TOk t5).

(* ---- commit / uncommit / hide / unhide / rename / new ---- *)

Definition commit_patches (to_commit : list name) (t : txn) : tres :=
  let k := common_prefix_len (t_applied t) to_commit in
  let r1 :=
    if Nat.ltb k (length to_commit) then
      let to_push := filter (fun n => negb (mem n to_commit)) (skipn k (t_applied t)) in
      let '(t1, _) := pop_patches (fun n => mem n to_push) t in
      tbind (push_patches (skipn k to_commit) false t1) (fun t2 => TOk t2)
    else TOk t in
  let to_push :=
    if Nat.ltb k (length to_commit)
    then filter (fun n => negb (mem n to_commit)) (skipn k (t_applied t)) else [] in
  tbind r1 (fun t2 =>
    match hd_error (rev to_commit) with
    | None => TPanic                                    (* to_commit.last().unwrap() *)
    | Some lastn =>
        match t_patch t2 lastn with
        | None => TPanic
        | Some newbase =>
            let t3 := set_base t2 (Some newbase) in
            let t4 := set_updated t3 (mark_deleted (t_updated t3) to_commit) in
            if Nat.ltb (length (t_applied t4)) (length to_commit) then TPanic   (* split_off *)
            else
              let t5 := set_lists t4 (skipn (length to_commit) (t_applied t4)) (t_unapplied t4)
                                  (t_hidden t4) in
              push_patches to_push false t5
        end
    end).

(* patches in application order: furthest ancestor first *)
Definition uncommit_patches (ps : list (name * oid)) (t : txn) : tres :=
  let u := fold_left (fun u p => up_set u (fst p) (Some (snd p))) ps (t_updated t) in
  TOk (set_lists (set_updated t u) (map fst ps ++ t_applied t) (t_unapplied t) (t_hidden t)).

Definition hide_patches (to_hide : list name) (t : txn) : tres :=
  let a := filter (fun n => negb (mem n to_hide)) (t_applied t) in
  let u := filter (fun n => negb (mem n to_hide)) (t_unapplied t) in
  let h := to_hide ++ t_hidden t in
  reorder_patches (Some a) (Some u) (Some h) t.

Definition unhide_patches (to_unhide : list name) (t : txn) : tres :=
  let u := t_unapplied t ++ to_unhide in
  let h := filter (fun n => negb (mem n to_unhide)) (t_hidden t) in
  reorder_patches None (Some u) (Some h) t.

Definition stack_collides (s : sstate) (n : name) : option name :=
  find (fun m => collides n m) (all_of s).

Fixpoint replace_first (old new : name) (l : list name) : list name :=
  match l with
  | [] => []
  | x :: l' => if name_eqb x old then new :: l' else x :: replace_first old new l'
  end.

Definition rename_patch (old new : name) (t : txn) : tres :=
  if name_eqb new old then TOk t
  else
    let collision :=
      match stack_collides (t_stack t) new with
      | Some c => negb (name_eqb c old)
                  && match up_get (t_updated t) c with Some _ => true | None => false end
      | None => false
      end in
    if collision then TErr t
    else if negb (match pm_get (s_patches (t_stack t)) old with Some _ => true | None => false end)
    then TErr t
    else
      let lists :=
        if mem old (t_applied t) then Some (replace_first old new (t_applied t), t_unapplied t, t_hidden t)
        else if mem old (t_unapplied t) then Some (t_applied t, replace_first old new (t_unapplied t), t_hidden t)
        else if mem old (t_hidden t) then Some (t_applied t, t_unapplied t, replace_first old new (t_hidden t))
        else None in
      match lists with
      | None => TPanic
      | Some (a, u, h) =>
          let ps :=
            match up_get (t_updated t) old with
            | Some (Some o) => Some o
            | _ => pm_get (s_patches (t_stack t)) old
            end in
          match ps with
          | None => TPanic
          | Some o =>
              let upd1 := up_set (up_set (t_updated t) old None) new (Some o) in
              TOk (set_updated (set_lists t a u h) upd1)
          end
      end.

Definition new_applied (n : name) (o : oid) (t : txn) : tres :=
  match first_parent (t_objs t) o, t_top t with
  | Some par, Some top =>
      if Nat.eqb par top then
        TOk (set_updated (set_lists t (t_applied t ++ [n]) (t_unapplied t) (t_hidden t))
                         (up_set (t_updated t) n (Some o)))
      else TPanic                                       (* assert_eq! *)
  | _, _ => TPanic
  end.

Definition new_unapplied (n : name) (o : oid) (pos : nat) (t : txn) : tres :=
  if Nat.ltb (length (t_unapplied t)) pos then TPanic   (* Vec::insert out of bounds *)
  else TOk (set_updated (set_lists t (t_applied t) (insert_at pos n (t_unapplied t)) (t_hidden t))
                        (up_set (t_updated t) n (Some o))).

Definition update_patch (n : name) (o : oid) (t : txn) : tres :=
  match t_patch t n with
  | None => TPanic
  | Some _ => TOk (set_updated t (up_set (t_updated t) n (Some o)))
  end.

(* ---- repair_appliedness ---- *)

Fixpoint is_perm_of (new old : list name) : bool :=
  match new with
  | [] => match old with [] => true | _ => false end
  | n :: new' => mem n old && is_perm_of new' (remove_first n old)
  end.

Definition repair_appliedness (a u h : list name) (t : txn) : tres :=
  if is_perm_of (a ++ u ++ h) (t_all t) then TOk (set_lists t a u h) else TPanic.

(* ---- reset_to_state ---- *)

Definition reset_to_state (s : sstate) (t : txn) : tres :=
  let u0 := mark_deleted (t_updated t) (t_all t) in
  let newbase :=
    match s_applied s with
    | n :: _ =>
        match pm_get (s_patches s) n with
        | Some o => first_parent (t_objs t) o
        | None => None
        end
    | [] => Some (s_head s)
    end in
  match newbase with
  | None => TErr t
  | Some b =>
      let u1 := fold_left (fun u p => up_set u (fst p) (Some (snd p))) (s_patches s) u0 in
      let t1 := set_head (set_base (set_updated t u1) (Some b)) (Some (s_head s)) in
      TOk (set_lists t1 (s_applied s) (s_unapplied s) (s_hidden s))
  end.

Definition reset_to_state_partially (s : sstate) (only : list name) (t : txn) : tres :=
  let state_all := all_of s in
  let to_reset := filter (fun n => mem n only) state_all in
  let existing := t_all t in
  let original_applied := t_applied t in
  let to_delete := filter (fun n => mem n only) (filter (fun n => negb (mem n to_reset)) existing) in
  let matching :=
    map fst (filter (fun p => t_has_patch t (fst p)
                              && match t_patch t (fst p) with
                                 | Some o => Nat.eqb o (snd p) | None => false end)
                    (s_patches s)) in
  let '(t1, _) := pop_patches (fun n =>
      if negb (mem n only) then false
      else if negb (mem n to_delete) then true
      else negb (mem n matching)) t in
  let '(t2, _) := delete_patches (fun n => mem n to_delete) t1 in
  let t3 :=
    fold_left (fun t n =>
      if mem n existing then
        if mem n matching then t
        else match pm_get (s_patches s) n with
             | Some o => set_updated t (up_set (t_updated t) n (Some o))
             | None => t end
      else
        let t' := if mem n (s_hidden s)
                  then set_lists t (t_applied t) (t_unapplied t) (t_hidden t ++ [n])
                  else set_lists t (t_applied t) (t_unapplied t ++ [n]) (t_hidden t) in
        match pm_get (s_patches s) n with
        | Some o => set_updated t' (up_set (t_updated t') n (Some o))
        | None => t' end) to_reset t2 in
  let to_push := filter (fun n => mem n (t_unapplied t3) || mem n (t_hidden t3)) original_applied in
  push_patches to_push false t3.

(* ---------------------------------------------------------------- state commits *)

(* insertion-ordered set *)
Fixpoint oset_insert (l : list oid) (o : oid) : list oid :=
  match l with
  | [] => [o]
  | x :: l' => if Nat.eqb x o then l else x :: oset_insert l' o
  end.

Definition oset_remove (l : list oid) (o : oid) : list oid := filter (fun x => negb (Nat.eqb x o)) l.

Definition patch_oid (s : sstate) (n : name) : oid :=
  match pm_get (s_patches s) n with Some o => o | None => O end.

Definition parent_set (s : sstate) (prev : option (oid * sstate)) : list oid :=
  let l0 := oset_insert (oset_insert [] (s_head s)) (s_top s) in
  let l1 := fold_left (fun l n => oset_insert l (patch_oid s n)) (s_unapplied s) l0 in
  let l2 := fold_left (fun l n => oset_insert l (patch_oid s n)) (s_hidden s) l1 in
  match prev with
  | None => l2
  | Some (po, ps) =>
      let l3 := oset_insert l2 po in
      fold_left (fun l n => oset_remove l (patch_oid ps n)) (all_of ps) l3
  end.

(* while parent_oids.len() > MAX_PARENTS: fold the last MAX_PARENTS into a grouping commit *)
Fixpoint group_parents (fuel : nat) (maxp : nat) (objs : store) (state_tree : tree)
         (ps : list oid) : store * list oid :=
  match fuel with
  | O => (objs, ps)
  | S fuel' =>
      if Nat.ltb maxp (length ps) then
        let keep := firstn (length ps - maxp) ps in
        let grp := skipn (length ps - maxp) ps in
        let '(objs', g) := put objs (mkCommit grp state_tree 0%N [] None MGroup) in
        group_parents fuel' maxp objs' state_tree (keep ++ [g])
      else (objs, ps)
  end.

Definition max_parents_nat : nat := 16.

(* StackState::commit; returns the new store and the state commit's oid.  Panic (None)
   when the previous state commit has no parent or is not a state commit. *)
Definition state_commit (objs : store) (s : sstate) (msg : msgkind) : option (store * oid) :=
  let prev_info :=
    match s_prev s with
    | None => Some None
    | Some po =>
        match state_of objs po with
        | Some ps => Some (Some (po, ps))
        | None => None
        end
    end in
  match prev_info with
  | None => None
  | Some prev =>
      let simplified_parents :=
        match prev with
        | None => Some []
        | Some (po, _) => match first_parent objs po with Some p => Some [p] | None => None end
        end in
      match simplified_parents with
      | None => None
      | Some sp =>
          let '(objs1, simp) := put objs (mkCommit sp [] 0%N [] (Some s) msg) in
          let ps := parent_set s prev in
          let '(objs2, grouped) := group_parents (length ps) max_parents_nat objs1 [] ps in
          let '(objs3, so) := put objs2 (mkCommit (simp :: grouped) [] 0%N [] (Some s) msg) in
          Some (objs3, so)
      end
  end.

(* ---------------------------------------------------------------- opening a stack *)

Inductive policy : Type := PAuto | PMust | PForce | PRequire | PAllow.

Inductive exitc : Type := X0 | X1 | X2 | X3 | XPanic.

(* ensure_patch_refs: afterwards the patch refs mirror the state's patch map *)
Definition ensure_patch_refs (w : world) (s : sstate) : world :=
  mkWorld (w_objs w) (w_branch w) (w_stack w) (s_patches s) (w_wt w) (w_unmerged w) (w_base w) (w_apc w).

Record opened : Type := mkOpened {
  op_world : world;
  op_state : sstate;
  op_base : oid;
  op_initialized : bool
}.

Definition open_stack (p : policy) (w : world) : option opened :=
  let from_ref (so : oid) : option opened :=
    match state_of (w_objs w) so with
    | None => None
    | Some s =>
        match stack_base (w_objs w) (w_branch w) s with
        | None => None
        | Some b => Some (mkOpened (ensure_patch_refs w s) s b true)
        end
    end in
  let initialize (_ : unit) : option opened :=
    let s := empty_state (w_branch w) in
    match state_commit (w_objs w) s MOp with
    | None => None
    | Some (objs', so) =>
        let w' := mkWorld objs' (w_branch w) (Some so) (w_prefs w) (w_wt w) (w_unmerged w) (w_base w) (w_apc w) in
        Some (mkOpened (ensure_patch_refs w' s) s (w_branch w) true)
    end in
  match p, w_stack w with
  | PAuto, Some so => from_ref so
  | PAuto, None => initialize tt
  | PMust, Some _ => None
  | PMust, None => initialize tt
  | PForce, _ => initialize tt
  | PRequire, Some so => from_ref so
  | PRequire, None => None
  | PAllow, Some so => from_ref so
  | PAllow, None =>
      let s := empty_state (w_branch w) in
      Some (mkOpened (ensure_patch_refs w s) s (w_branch w) false)
  end.

Definition begin_txn (op : opened) (o : topts) : txn :=
  let w := op_world op in
  let s := op_state op in
  mkTxn s (op_base op) (w_branch w) o (s_applied s) (s_unapplied s) (s_hidden s) [] None None
        (tree_of (w_objs w) (w_branch w)) (w_objs w) None [] (w_wt w) (w_unmerged w).

(* ---------------------------------------------------------------- execute *)

Definition with_objs (w : world) (objs : store) : world :=
  mkWorld objs (w_branch w) (w_stack w) (w_prefs w) (w_wt w) (w_unmerged w) (w_base w) (w_apc w).

(* log_external_mods: new state commit with head := branch head, prev := current state ref *)
Definition log_external_mods (w : world) (s : sstate) : option (world * sstate) :=
  match w_stack w with
  | None => None
  | Some so =>
      let s' := mkState (Some so) (w_branch w) (s_applied s) (s_unapplied s) (s_hidden s) (s_patches s) in
      match state_commit (w_objs w) s' MOp with
      | None => None
      | Some (objs', so') =>
          Some (mkWorld objs' (w_branch w) (Some so') (w_prefs w) (w_wt w) (w_unmerged w) (w_base w) (w_apc w), s')
      end
  end.

(* checkout(): result is the new (work tree, unmerged flag) or an error *)
Definition checkout (o : topts) (stack_top trans_top : option name) (wt : tree) (unmerged : bool)
           (cur target : tree) : option (tree * bool) :=
  if tree_eqb cur target && negb (o_discard_changes o) then
    match o_conflict_mode o with
    | CAllow => Some (wt, unmerged)
    | CAllowIfSameTop =>
        let same := match trans_top, stack_top with
                    | Some a, Some b => name_eqb a b
                    | _, _ => false end in
        if same then Some (wt, unmerged) else if unmerged then None else Some (wt, unmerged)
    | CDisallow => if unmerged then None else Some (wt, unmerged)
    end
  else if o_discard_changes o then Some (target, false)
  else
    (* update-index --refresh; read-tree -m -u cur target: refuses on an unmerged index and
       when a locally modified file would be overwritten *)
    if unmerged then None
    else match twoway cur target wt with
         | Some wt' => Some (wt', false)
         | None => None
         end.

Inductive eres : Type :=
| EDone (w : world) (x : exitc).

(* [r] is the result of the transaction closure, [msg] the classification of the reflog
   message.  [w] is the world after the stack was opened. *)
Definition execute (w : world) (r : tres) (msg : msgkind) : world * exitc :=
  match r with
  | TPanic => (w, XPanic)
  | TErr t =>
      (* consistency asserts run first; then `return Err(error)`: objects created by the
         closure persist, refs are untouched, the work tree keeps whatever the merge
         fallback did to it *)
      (mkWorld (t_objs t) (w_branch w) (w_stack w) (w_prefs w) (t_wt t) (t_wt_unmerged t) (w_base w) (w_apc w), X2)
  | TOk t | THalt t _ =>
      let halted := match r with THalt _ h => Some h | _ => None end in
      let consistent :=
        forallb (fun p => match snd p with
                          | None => match pm_get (s_patches (t_stack t)) (fst p) with
                                    | Some _ => true | None => false end
                          | Some _ => mem (fst p) (t_all t)
                          end) (t_updated t) in
      if negb consistent then (w, XPanic)
      else
        match t_head_oid t with
        | None => (w, XPanic)
        | Some trans_head =>
            let trans_head_tree := tree_of (t_objs t) trans_head in
            let trans_top := hd_error (rev (t_applied t)) in
            let stack_top := hd_error (rev (s_applied (t_stack t))) in
            let w0 := mkWorld (t_objs t) (w_branch w) (w_stack w) (w_prefs w) (t_wt t)
                              (t_wt_unmerged t) (w_base w) (w_apc w) in
            (* log external modifications *)
            let logged :=
              if Nat.eqb (s_head (t_stack t)) (w_branch w) then Some (w0, t_stack t)
              else log_external_mods w0 (t_stack t) in
            match logged with
            | None => (w0, X2)
            | Some (w1, st1) =>
                let o := t_opts t in
                let co :=
                  if o_set_head o && o_use_iw o then
                    if negb (o_allow_bad_head o)
                       && negb (match s_applied st1 with [] => true | _ => false end)
                       && negb (Nat.eqb (s_top st1) (w_branch w1))
                    then inr (w_wt w1, w_unmerged w1, X2)
                    else
                      match checkout o stack_top trans_top (w_wt w1) (w_unmerged w1)
                                     (t_cur_tree t) trans_head_tree with
                      | Some (wt', um') => inl (wt', um')
                      | None =>
                          (* rollback(current_tree_id, e): check out the pre-transaction
                             tree again, then fail with a plain command error *)
                          let rollback_tree := tree_of (w_objs w1) (w_branch w1) in
                          match checkout o stack_top trans_top (w_wt w1) (w_unmerged w1)
                                         (t_cur_tree t) rollback_tree with
                          | Some (wt', um') => inr (wt', um', X2)
                          | None =>
                              inr (w_wt w1, w_unmerged w1,
                                   if tree_eqb (t_cur_tree t) rollback_tree then X2 else X3)
                          end
                      end
                  else inl (w_wt w1, w_unmerged w1) in
                match co with
                | inr (wt', um', x) =>
                    (mkWorld (w_objs w1) (w_branch w1) (w_stack w1) (w_prefs w1) wt' um' (w_base w1) (w_apc w1), x)
                | inl (wt', um') =>
                    match w_stack w1 with
                    | None => (w1, X2)                   (* find_reference fails *)
                    | Some prev =>
                        let patches' := pm_apply (s_patches st1) (t_updated t) in
                        let s' := mkState (Some prev) trans_head (t_applied t) (t_unapplied t)
                                          (t_hidden t) patches' in
                        match state_commit (w_objs w1) s' msg with
                        | None => (w1, XPanic)
                        | Some (objs', so) =>
                            let prefs' :=
                              fold_right (fun p prefs =>
                                            match snd p with
                                            | Some o' => pm_set prefs (fst p) o'
                                            | None => pm_remove prefs (fst p)
                                            end) (w_prefs w1) (t_updated t) in
                            let branch' := if o_set_head o then trans_head else w_branch w1 in
                            let w2 := mkWorld objs' branch' (Some so) prefs' wt' um'
                                              (match t_base t with Some b => b | None => w_base w1 end) (w_apc w1) in
                            match halted with
                            | Some _ => (w2, X3)
                            | None => (w2, X0)
                            end
                        end
                    end
                end
            end
        end
  end.
