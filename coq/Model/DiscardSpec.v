(* C10: what the regenerated command table must say about discarding local changes. *)
From Coq Require Import String.
From StgV Require Export Model.GenTypes.
Open Scope string_scope.

(* the argument of every `.discard_changes(..)` in a command's transactions is the --hard flag *)
Definition discard_only_on_hard (ci : cmd_info) : bool :=
  forallb (fun t => match opt_lookup "discard_changes" (tx_opts t) with
                    | None => true
                    | Some e => bexpr_eqb e (BFlag "hard")
                    end) (ci_txns ci).

(* hard checkouts (read-tree --reset -u) outside transactions *)
Definition hard_checkout_guarded_by (flag : string) (ci : cmd_info) : bool :=
  forallb (fun g => existsb (fun e => bexpr_eqb e (BFlag flag)) (gc_guards g)) (ci_hard_checkouts ci).

Definition no_hard_checkout (ci : cmd_info) : bool :=
  match ci_hard_checkouts ci with [] => true | _ => false end.

Definition has_unguarded (ci : cmd_info) (name : string) : bool :=
  existsb (fun g => String.eqb (gc_name g) name && match gc_guards g with [] => true | _ => false end)
          (ci_prechecks ci).
