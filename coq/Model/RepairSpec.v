(* Specification-side definitions for the whole-command repair theorems of C13
   (Properties/C13.v, second part). *)
From StgV Require Export Model.StackSpec Model.LogSpec.

(* the commits `stg repair` looks at: from [o] downwards along first parents, as long as the
   commit has exactly one parent (the walk stops at a merge or at the root) *)
Inductive walked (objs : store) : oid -> oid -> Prop :=
| walked_here : forall o p, parents_of objs o = [p] -> walked objs o o
| walked_down : forall o p x, parents_of objs o = [p] -> walked objs p x -> walked objs o x.

(* a stack that needs no repair: the branch sits on the recorded head, which is the top patch
   (or the base when nothing is applied), and no unapplied or hidden patch's commit is among
   the commits the walk visits (otherwise repair rightly makes that patch applied, e.g. after
   `stg rebase <a patch's commit>`) *)
Definition repair_consistent (w : world) (s : sstate) : Prop :=
  w_branch w = s_head s /\ s_top s = s_head s
  /\ (forall n o, In n (s_unapplied s ++ s_hidden s) -> pm_get (s_patches s) n = Some o ->
                  ~ walked (w_objs w) (w_branch w) o).
