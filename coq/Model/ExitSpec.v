(* Exit statuses (C20). *)
From Coq Require Import ZArith.
From StgV Require Export Model.StackSpec.
From StgV Require Import Gen.Consts.

(* exit_with_result: Ok -> 0; clap errors -> GENERAL_ERROR; TransactionHalt and
   CheckoutConflicts -> CONFLICT_ERROR; everything else -> COMMAND_ERROR *)
Definition exit_status (x : exitc) : option Z :=
  match x with
  | X0 => Some 0%Z
  | X1 => Some general_error
  | X2 => Some command_error
  | X3 => Some conflict_error
  | XPanic => None
  end.

Definition documented (z : Z) : Prop := (z = 0 \/ z = 1 \/ z = 2 \/ z = 3)%Z.

(* the branch head is the top patch (what check_head_top_mismatch now tests) *)
Definition head_is_top (w : world) : Prop :=
  match cur_state w with
  | Some s => s_applied s = [] \/ s_top s = w_branch w
  | None => True
  end.
