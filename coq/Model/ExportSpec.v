(* Specification-side definitions for C18 (export followed by import). *)
From Coq Require Import List NArith Bool.
From StgV Require Import Model.Chars Model.Export.
Import ListNotations.
Open Scope N_scope.

Definition no_nl (s : str) : bool := forallb (fun c => negb (c =? 10)) s.
Definition no_angle (s : str) : bool := forallb (fun c => negb ((c =? 60) || (c =? 62))) s.

(* a (trimmed) line that the header scanner of parse_message would consume or reject *)
Definition header_like (line : str) : bool :=
  match header_step line no_headers with HNone => false | _ => true end.

(* the first line of a description: what `stg import` can take back as the subject *)
Definition good_short (s : str) : Prop :=
  s <> [] /\ no_nl s = true /\ trim_by is_ws s = s /\ utf8_valid s = true
  /\ header_like s = false /\ is_git_show_commit s = false /\ is_sep_line (s ++ [10]) = false.

(* the rest of a description as export.rs cuts it (no leading newline, no trailing white
   space): no line looks like a message/diff separator, and the first line neither looks like
   a header nor has white space at either end *)
Definition good_long (l : str) : Prop :=
  l = [] \/
  (utrim_end l = l /\
   forallb (fun ln => negb (is_sep_line ln)) (lines_wt (l ++ [10])) = true /\
   exists first rest, lines_wt (l ++ [10]) = (first ++ [10]) :: rest
                      /\ no_nl first = true /\ first <> [] /\ trim_by is_ws first = first
                      /\ header_like first = false).

Definition good_ident (name email : str) : Prop :=
  no_nl name = true /\ no_nl email = true /\ no_angle name = true /\ no_angle email = true
  /\ utrim name = name /\ utrim email = email
  /\ utf8_valid name = true /\ utf8_valid email = true.

Definition body_of (long : str) : str := match long with [] => [] | _ => long ++ [10] end.
