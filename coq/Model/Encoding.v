(* Re-creation of a commit message (C08, the text side): what
     src/ext/commit.rs        message_ex
     src/wrap/message.rs      Message::encode_with
     src/ext/repository.rs    commit_with_options
   make of the raw message bytes and the `encoding` header of a patch commit when a stack
   operation writes the commit anew.  Executable definitions only.  Labels are taken as already
   resolved: encoding_rs::Encoding::for_label maps utf-8 labels to UTF-8 and - following the
   WHATWG registry - BOTH the latin-1 labels (iso-8859-1, latin1, l1, ascii, ...) and the
   windows-1252 labels to windows-1252; other single-byte and multi-byte encodings are outside
   this model (oracle: the end-to-end check).  git itself decodes with iconv, for which
   ISO-8859-1 is the identity on bytes. *)
From Coq Require Import List NArith Bool.
From StgV Require Import Model.Chars Model.Export.
Import ListNotations.
Open Scope N_scope.

(* the `encoding` header of a commit, by what the two decoders make of its label *)
Inductive header : Type :=
| HAbsent                     (* no header: git and stg read UTF-8 *)
| HUtf8                     (* a utf-8 label *)
| HLatin1                   (* a latin-1 label: git decodes ISO-8859-1, encoding_rs windows-1252 *)
| HW1252                    (* a windows-1252 label *)
| HUnknown.                 (* a label encoding_rs does not know *)

(* i18n.commitEncoding *)
Inductive config : Type := CfgNone | CfgUtf8 | CfgLatin1 | CfgW1252.

(* windows-1252 as encoding_rs (WHATWG index) decodes it: bytes 0x80-0x9f *)
Definition w1252_high : list N :=
  [8364; 129; 8218; 402; 8222; 8230; 8224; 8225; 710; 8240; 352; 8249; 338; 141; 381; 143;
   144; 8216; 8217; 8220; 8221; 8226; 8211; 8212; 732; 8482; 353; 8250; 339; 157; 382; 376].

Definition dec_w1252 (b : N) : N :=
  if (128 <=? b) && (b <=? 159) then nth (N.to_nat (b - 128)) w1252_high b else b.

Definition dec_latin1 (b : N) : N := b.

(* UTF-8 encoding of one scalar value *)
Definition utf8_of_cp (c : N) : list N :=
  if c <? 128 then [c]
  else if c <? 2048 then [192 + c / 64; 128 + c mod 64]
  else if c <? 65536 then [224 + c / 4096; 128 + (c / 64) mod 64; 128 + c mod 64]
  else [240 + c / 262144; 128 + (c / 4096) mod 64; 128 + (c / 64) mod 64; 128 + c mod 64].

Definition utf8_of_text (t : list N) : list N := concat (map utf8_of_cp t).

(* the internal form message_ex hands on *)
Inductive message : Type :=
| MStr (utf8 : list N)                      (* valid UTF-8, taken as text *)
| MRaw (bytes : list N) (h : header).       (* raw bytes with the label of the header *)

Definition declared_single_byte (h : header) : bool :=
  match h with HLatin1 | HW1252 => true | _ => false end.

Definition message_ex (h : header) (bytes : list N) : message :=
  if utf8_valid bytes && negb (declared_single_byte h) then MStr bytes else MRaw bytes h.

Inductive codec : Type := KUtf8 | KW1252.

Definition codec_of_header (h : header) : option codec :=
  match h with HUtf8 => Some KUtf8 | HLatin1 | HW1252 => Some KW1252 | _ => None end.

Definition codec_of_config (c : config) : option codec :=
  match c with CfgNone => None | CfgUtf8 => Some KUtf8 | CfgLatin1 | CfgW1252 => Some KW1252 end.

Definition codec_eqb (a b : codec) : bool :=
  match a, b with KUtf8, KUtf8 | KW1252, KW1252 => true | _, _ => false end.

(* encode text (code points) into windows-1252: the inverse of dec_w1252 where it exists *)
Fixpoint index_of (x : N) (l : list N) (i : N) : option N :=
  match l with [] => None | y :: r => if x =? y then Some i else index_of x r (i + 1) end.

Definition enc_w1252_cp (c : N) : option N :=
  if (c <? 128) || ((160 <=? c) && (c <=? 255)) then Some c
  else match index_of c w1252_high 0 with Some i => Some (128 + i) | None => None end.

Fixpoint enc_w1252 (t : list N) : option (list N) :=
  match t with
  | [] => Some []
  | c :: r => match enc_w1252_cp c, enc_w1252 r with
              | Some b, Some bs => Some (b :: bs) | _, _ => None end
  end.

(* decoding of valid UTF-8 into code points (used only to re-encode text into windows-1252) *)
Fixpoint utf8_to_text (fuel : nat) (s : list N) : list N :=
  match fuel with
  | O => []
  | S f =>
      match s with
      | [] => []
      | b0 :: r0 =>
          if b0 <? 128 then b0 :: utf8_to_text f r0
          else if b0 <? 224 then
            match r0 with b1 :: r1 => ((b0 - 192) * 64 + (b1 - 128)) :: utf8_to_text f r1 | _ => [] end
          else if b0 <? 240 then
            match r0 with
            | b1 :: b2 :: r2 => ((b0 - 224) * 4096 + (b1 - 128) * 64 + (b2 - 128)) :: utf8_to_text f r2
            | _ => [] end
          else
            match r0 with
            | b1 :: b2 :: b3 :: r3 =>
                ((b0 - 240) * 262144 + (b1 - 128) * 4096 + (b2 - 128) * 64 + (b3 - 128)) :: utf8_to_text f r3
            | _ => [] end
      end
  end.

(* Message::encode_with(target): None = the message cannot be encoded (the command fails) *)
Definition encode_with (m : message) (target : option codec) : option (list N) :=
  let tgt := match target with Some k => k | None => KUtf8 end in
  match m with
  | MStr u =>
      match tgt with
      | KUtf8 => Some u
      | KW1252 => enc_w1252 (utf8_to_text (length u) u)
      end
  | MRaw bytes h =>
      match h with
      | HAbsent =>
          match target with
          | None => Some bytes                       (* mystery encoding kept as it is *)
          | Some KUtf8 => if utf8_valid bytes then Some bytes else None
          | Some KW1252 => Some bytes                (* every byte decodes in a single-byte encoding *)
          end
      | HUnknown => None                             (* "unhandled commit message encoding" *)
      | _ =>
          match codec_of_header h with
          | None => None
          | Some cur =>
              if codec_eqb cur tgt then Some bytes
              else match cur, tgt with
                   | KW1252, KUtf8 => Some (utf8_of_text (map dec_w1252 bytes))
                   | KUtf8, KW1252 =>
                       if utf8_valid bytes then enc_w1252 (utf8_to_text (length bytes) bytes) else None
                   | _, _ => Some bytes
                   end
          end
      end
  end.

(* commit_with_options: the header and the message bytes of the commit that is written.  With
   a non-UTF-8 i18n.commitEncoding git commit-tree writes the header from that very config
   value; otherwise gitoxide writes "UTF-8" when the config says so and no header when unset.
   The author of the old commit is decoded first (author_strict), which refuses a label
   encoding_rs does not know whatever the message is. *)
Definition recreate (h : header) (bytes : list N) (c : config) : option (header * list N) :=
  match h with HUnknown => None | _ =>      (* author_strict: "unhandled commit encoding" *)
  match encode_with (message_ex h bytes) (codec_of_config c) with
  | None => None
  | Some out =>
      Some (match c with
            | CfgNone => HAbsent | CfgUtf8 => HUtf8 | CfgLatin1 => HLatin1 | CfgW1252 => HW1252
            end, out)
  end end.

(* ---- the author / committer names of the re-created commit ----
   author_strict decodes the bytes of the old commit with its declared encoding (no header:
   UTF-8; an unknown label or undecodable bytes: the command refuses); the text is written as
   UTF-8 by the gitoxide path (i18n.commitEncoding unset or UTF-8) and - since fix F44 - encoded
   with the configured single-byte encoding before it is handed to git commit-tree. *)
Definition recreate_name (h : header) (bytes : list N) (c : config) : option (list N) :=
  let text : option (list N) :=
    match h with
    | HAbsent | HUtf8 => if utf8_valid bytes then Some (utf8_to_text (length bytes) bytes) else None
    | HLatin1 | HW1252 => Some (map dec_w1252 bytes)
    | HUnknown => None
    end in
  match text with
  | None => None
  | Some t =>
      match codec_of_config c with
      | None | Some KUtf8 => Some (utf8_of_text t)
      | Some KW1252 => enc_w1252 t
      end
  end.

(* ---- what git shows (git log --encoding=UTF-8): None = git cannot decode ----
   glibc's CP1252 leaves five bytes undefined; iconv fails on them and git shows the raw bytes *)
Definition w1252_undefined (b : N) : bool :=
  (b =? 129) || (b =? 141) || (b =? 143) || (b =? 144) || (b =? 157).
Definition git_text (h : header) (bytes : list N) : option (list N) :=
  match h with
  | HAbsent | HUtf8 => if utf8_valid bytes then Some (utf8_to_text (length bytes) bytes) else None
  | HLatin1 => Some (map dec_latin1 bytes)
  | HW1252 => if existsb w1252_undefined bytes then None else Some (map dec_w1252 bytes)
  | HUnknown => None
  end.
