(* Command layer: the `run` functions of src/cmd/{init,new,refresh,push,pop,goto,float,sink,
   delete,hide,unhide,rename,commit,uncommit,clean,undo,redo,reset,repair,log --clear,spill}.rs
   over the world of Model/Stack.v, plus plain-git operations used by scenarios.
   Patch arguments are raw strings parsed by the model's own parsers (Model/Locator.v).
   Executable definitions only. *)

From StgV Require Export Model.Stack Model.Locator.

Open Scope N_scope.

(* ---------------------------------------------------------------- commands *)

Inductive cmd : Type :=
| CInit
| CNew (nm : str) (meta : N) (msg : str)                      (* stg new -m <msg> <name> *)
| CRefresh (patch : option str)                               (* stg refresh [-p <patch>] (whole work tree) *)
| CPush (ranges : option (list str)) (number : option Z)
        (all reverse noapply settree merged keep : bool) (conflicts : option bool)
| CPop (ranges : option (list str)) (number : option Z) (all keep spill : bool)
| CGoto (loc : str) (keep merged : bool) (conflicts : option bool)
| CFloat (ranges : list str) (noapply keep : bool)
| CSink (ranges : option (list str)) (target : option (bool * str)) (nopush keep : bool)
| CDelete (ranges : option (list str)) (top all a u h spill : bool) (conflicts : option bool)
| CHide (ranges : list str)
| CUnhide (ranges : list str)
| CRename (old : option str) (new : str)
| CCommit (ranges : option (list str)) (number : option N) (all allow_empty : bool)
| CUncommit (number : option N) (names : list str)
| CClean (a u : bool)
| CSpill
| CUndo (n : Z) (hard : bool)
| CRedo (n : N) (hard : bool)
| CReset (entry : option nat) (ranges : option (list str)) (hard : bool)
          (* entry = how many log entries back from the current one (refs/stacks/b~k) *)
| CRepair
| CLogClear
| CEdit (loc : option str) (meta : N) (msg : str)            (* stg edit -m <msg> [<patch>] *)
| CRebase (target : gtarget)                                  (* stg rebase <committish> *)
| CSquash (ranges : list str) (nm : str) (meta : N) (msg : str) (* stg squash -m <msg> -n <nm> <patches> *)
| CPick (src : gtarget) (nm : option str) (noapply : bool)      (* stg pick [--name <nm>] [--noapply] <source> *)
| CInspect                                                    (* series/id/top/... : open only *)
(* plain git, outside stg *)
| GEdit (cell : nat) (v : N)                                  (* modify the work tree + index *)
| GCommit (meta : N) (subj : str)                             (* git commit -a *)
| GAmend (meta : N) (subj : str)                              (* git commit --amend -a *)
| GResetHard (target : gtarget)
| GMerge (meta : N)                                           (* a merge commit on top (2 parents) *)
| GConfigApc (b : bool)                                       (* git config stgit.push.allow-conflicts <b> *)
with gtarget : Type :=
| TPatch (n : str)                                            (* the commit of a patch *)
| TBaseAncestor (k : nat)                                     (* base~k *)
| THeadAncestor (k : nat).                                    (* HEAD~k *)

(* ---------------------------------------------------------------- helpers *)

Definition view_of (s : sstate) : sview :=
  mkView (s_applied s) (s_unapplied s) (s_hidden s) (fun _ => []).

Fixpoint parse_ranges (l : list str) : option (list prange) :=
  match l with
  | [] => Some []
  | x :: l' =>
      match parse_range x, parse_ranges l' with
      | Some r, Some rs => Some (r :: rs)
      | _, _ => None
      end
  end.

Definition set_nth {A} (i : nat) (x : A) (l : list A) : list A :=
  firstn i l ++ match skipn i l with [] => [] | _ :: r => x :: r end.

Definition head_tree (w : world) : tree := tree_of (w_objs w) (w_branch w).

Definition dirty (w : world) : bool := negb (tree_eqb (w_wt w) (head_tree w)) || w_unmerged w.

Definition with_wt (w : world) (wt : tree) (um : bool) : world :=
  mkWorld (w_objs w) (w_branch w) (w_stack w) (w_prefs w) wt um (w_base w) (w_apc w).

Definition with_branch (w : world) (objs : store) (b : oid) : world :=
  mkWorld objs b (w_stack w) (w_prefs w) (w_wt w) (w_unmerged w) (w_base w) (w_apc w).

(* Stack::check_head_top_mismatch: the topmost applied patch must be the branch head *)
Definition head_top_ok (op : opened) : bool :=
  match s_applied (op_state op) with
  | [] => true
  | _ => Nat.eqb (s_top (op_state op)) (w_branch (op_world op))
  end.

(* resolve_allow_push_conflicts with stgit.push.allow-conflicts unset *)
(* argset::resolve_allow_push_conflicts: the --conflicts flag, else stgit.push.allow-conflicts *)
Definition allow_conf (cfg : bool) (c : option bool) : bool := match c with Some b => b | None => cfg end.

Definition is_no_change (objs : store) (o : oid) : bool :=
  match parents_of objs o with
  | [p] => tree_eqb (tree_of objs p) (tree_of objs o)
  | _ => false
  end.

Definition opts (cm : conflict_mode) (apc : bool) (discard use_iw set_head bad_head : bool) : topts :=
  mkOpts cm apc discard use_iw set_head bad_head.

(* run a transaction: execute() refuses (command error) when the stack is not initialized *)
Definition transact (op : opened) (o : topts) (f : txn -> tres) (msg : msgkind) : world * exitc :=
  if negb (op_initialized op) then
    match f (begin_txn op o) with
    | TPanic => (op_world op, XPanic)
    | _ => (op_world op, X2)
    end
  else execute (op_world op) (f (begin_txn op o)) msg.

Definition err2 (w : world) : world * exitc := (w, X2).
Definition ok0 (w : world) : world * exitc := (w, X0).

Definition rres_bind {A} (w : world) (r : rres A) (f : A -> world * exitc) : world * exitc :=
  match r with
  | ROk a => f a
  | RErr _ => (w, X2)
  | RPanic => (w, XPanic)
  end.

(* number handling shared by push and pop: Some k to take, None for "nothing to do" *)
Definition num_to_take (number : Z) (avail : nat) : option nat :=
  if (0 <=? number)%Z then Some (Nat.min (Z.to_nat number) avail)
  else if Nat.ltb (Z.to_nat (Z.opp number)) avail then Some (avail - Z.to_nat (Z.opp number))%nat
  else None.

(* ---------------------------------------------------------------- stg commands *)

Definition run_push (w : world) (ranges : option (list str)) (number : option Z)
           (all reverse noapply settree merged keep : bool) (conflicts : option bool)
  : world * exitc :=
  match open_stack PAllow w with
  | None => err2 w
  | Some op =>
      let w1 := op_world op in
      let s := op_state op in
      if match number with Some z => (z =? 0)%Z | None => false end then ok0 w1
      else
        let patches : (world * exitc) + list name :=
          match ranges with
          | Some rs =>
              match parse_ranges rs with
              | None => inl (w, X1)
              | Some prs =>
                  match resolve_names (view_of s) RCUnapplied prs with
                  | ROk l => inr l
                  | RErr _ => inl (w1, X2)
                  | RPanic => inl (w1, XPanic)
                  end
              end
          | None =>
              match s_unapplied s with
              | [] => inl (w1, X2)
              | _ =>
                  if all then inr (s_unapplied s)
                  else match number with
                       | Some z =>
                           inr (firstn (match num_to_take z (length (s_unapplied s)) with
                                        | Some k => k | None => O end) (s_unapplied s))
                       | None => inr (firstn 1 (s_unapplied s))
                       end
              end
          end in
        match patches with
        | inl r => r
        | inr [] => ok0 w1                                (* nothing to push *)
        | inr ps =>
            if w_unmerged w1 then err2 w1
            else if negb (head_top_ok op) then err2 w1
            else if negb keep && negb noapply && dirty w1 then err2 w1
            else
              let ps := if reverse then rev ps else ps in
              transact op (opts CDisallow (allow_conf (w_apc w1) conflicts) false true true false)
                (fun t =>
                   if settree then push_tree_list ps t
                   else if noapply then
                     reorder_patches None
                       (Some (ps ++ filter (fun n => negb (mem n ps)) (t_unapplied t))) None t
                   else push_patches ps merged t)
                MOp
        end
  end.

(* pop: the IndexSet of requested patches in request order; new lists by walking applied *)
Definition run_pop (w : world) (ranges : option (list str)) (number : option Z)
           (all keep spill : bool) : world * exitc :=
  match open_stack PAllow w with
  | None => err2 w
  | Some op =>
      let w1 := op_world op in
      let s := op_state op in
      if match number with Some z => (z =? 0)%Z | None => false end then ok0 w1
      else
        match s_applied s with
        | [] => err2 w1
        | _ =>
            let patches : (world * exitc) + list name :=
              if all then inr (s_applied s)
              else match number with
                   | Some z =>
                       match num_to_take z (length (s_applied s)) with
                       | Some k => inr (firstn k (rev (s_applied s)))
                       | None => inl (w1, X0)
                       end
                   | None =>
                       match ranges with
                       | Some rs =>
                           match parse_ranges rs with
                           | None => inl (w, X1)
                           | Some prs =>
                               match resolve_names (view_of s) RCApplied prs with
                               | ROk l => inr l
                               | RErr _ => inl (w1, X2)
                               | RPanic => inl (w1, XPanic)
                               end
                           end
                       | None => inr (firstn 1 (rev (s_applied s)))
                       end
                   end in
            match patches with
            | inl r => r
            | inr [] => (w1, XPanic)
            | inr ps =>
                if w_unmerged w1 then err2 w1
                else if negb (head_top_ok op) then err2 w1
                else if negb keep && negb spill && dirty w1 then err2 w1
                else
                  let new_unapplied := filter (fun n => mem n ps) (s_applied s) in
                  let new_applied := filter (fun n => negb (mem n ps)) (s_applied s) in
                  let topmost := skipn (length (s_applied s) - length new_unapplied) (s_applied s) in
                  if spill && negb (list_name_eqb new_unapplied topmost) then err2 w1
                  else
                    transact op (opts CDisallow (w_apc (op_world op)) false (negb spill) true false)
                      (reorder_patches (Some new_applied) (Some (new_unapplied ++ s_unapplied s)) None)
                      MOp
            end
        end
  end.

Definition run_goto (w : world) (loc : str) (keep merged : bool) (conflicts : option bool)
  : world * exitc :=
  match parse_locator loc with
  | None => (w, X1)
  | Some l =>
      match open_stack PAllow w with
      | None => err2 w
      | Some op =>
          let w1 := op_world op in
          let s := op_state op in
          if w_unmerged w1 then err2 w1
          else if negb (head_top_ok op) then err2 w1
          else if negb keep && dirty w1 then err2 w1
          else
            rres_bind w1 (resolve_constrained (view_of s) LCVisible l) (fun pn =>
              transact op (opts CDisallow (allow_conf (w_apc w1) conflicts) false true true false)
                (fun t =>
                   match position (name_eqb pn) (t_applied t) with
                   | Some pos =>
                       reorder_patches (Some (firstn (S pos) (t_applied t)))
                                       (Some (skipn (S pos) (t_applied t) ++ t_unapplied t)) None t
                   | None =>
                       match position (name_eqb pn) (t_unapplied t) with
                       | Some pos => push_patches (firstn (S pos) (t_unapplied t)) merged t
                       | None => TPanic
                       end
                   end)
                MOp)
      end
  end.

Definition run_float (w : world) (ranges : list str) (noapply keep : bool) : world * exitc :=
  match parse_ranges ranges with
  | None => (w, X1)
  | Some prs =>
      match open_stack PAllow w with
      | None => err2 w
      | Some op =>
          let w1 := op_world op in
          let s := op_state op in
          if w_unmerged w1 then err2 w1
          else if negb (head_top_ok op) then err2 w1
          else
            rres_bind w1 (resolve_names (view_of s) RCVisible prs) (fun ps =>
              match ps with
              | [] => err2 w1
              | _ =>
                  if negb keep && (negb noapply || existsb (fun n => mem n (s_applied s)) ps) && dirty w1
                  then err2 w1
                  else
                    let notin := fun n => negb (mem n ps) in
                    let '(a, u) :=
                      if noapply then (filter notin (s_applied s), ps ++ filter notin (s_unapplied s))
                      else (filter notin (s_applied s) ++ ps, filter notin (s_unapplied s)) in
                    transact op (opts CDisallow (w_apc (op_world op)) false true true false)
                      (reorder_patches (Some a) (Some u) None) MOp
              end)
      end
  end.

Definition run_sink (w : world) (ranges : option (list str)) (target : option (bool * str))
           (nopush keep_given : bool) : world * exitc :=
  (* `keep_flag = matches.contains_id("keep")` is true for a SetTrue flag whether or not it
     was given, so the cleanliness pre-check never runs *)
  let prs := match ranges with Some rs => parse_ranges rs | None => Some [] end in
  let tgt := match target with
             | Some (above, tl) => match parse_locator tl with Some l => Some (Some (above, l)) | None => None end
             | None => Some None end in
  match prs, tgt with
  | Some prs, Some tgt =>
      match open_stack PAllow w with
      | None => err2 w
      | Some op =>
          let w1 := op_world op in
          let s := op_state op in
          if w_unmerged w1 then err2 w1
          else if negb (head_top_ok op) then err2 w1
          else
            let target_r : rres (option name) :=
              match tgt with
              | None => ROk None
              | Some (_, l) =>
                  match resolve_name (view_of s) l with
                  | ROk n => match constrain (view_of s) LCApplied n with
                             | ROk n => ROk (Some n) | RErr e => RErr e | RPanic => RPanic end
                  | RErr e => RErr e
                  | RPanic => RPanic
                  end
              end in
            rres_bind w1 target_r (fun opt_target =>
              let patches_r : rres (list name) :=
                match ranges with
                | Some _ => resolve_names (view_of s) RCAll prs
                | None => match last_error (s_applied s) with
                          | Some n => ROk [n]
                          | None => RErr ENoLastPatch
                          end
                end in
              rres_bind w1 patches_r (fun ps =>
                if match opt_target with Some tn => mem tn ps | None => false end then err2 w1
                else
                  let notin := fun n => negb (mem n ps) in
                  let rem_u := filter notin (s_unapplied s) in
                  let rem_a := filter notin (s_applied s) in
                  let above := match tgt with Some (a, _) => a | None => false end in
                  let tpos : option nat :=
                    match opt_target with
                    | Some tn => match position (name_eqb tn) rem_a with
                                 | Some p => Some (if above then S p else p)
                                 | None => None end
                    | None => Some O
                    end in
                  match tpos with
                  | None => (w1, XPanic)
                  | Some tp =>
                      let '(a, u) :=
                        if nopush then (firstn tp rem_a ++ ps, skipn tp rem_a ++ rem_u)
                        else (firstn tp rem_a ++ ps ++ skipn tp rem_a, rem_u) in
                      transact op (opts CDisallow (w_apc (op_world op)) false true true false)
                        (reorder_patches (Some a) (Some u) None) MOp
                  end))
      end
  | _, _ => (w, X1)
  end.

Definition run_delete (w : world) (ranges : option (list str)) (top all fa fu fh spill : bool)
           (conflicts : option bool) : world * exitc :=
  let prs := match ranges with Some rs => parse_ranges rs | None => Some [] end in
  match prs with
  | None => (w, X1)
  | Some prs =>
      match open_stack PAllow w with
      | None => err2 w
      | Some op =>
          let w1 := op_world op in
          let s := op_state op in
          let patches_r : rres (list name) :=
            if top then match last_error (s_applied s) with
                        | Some n => ROk [n] | None => RErr ENoLastPatch end
            else match ranges with
                 | Some _ => resolve_names (view_of s) RCAllApplied prs
                 | None =>
                     if all then ROk (all_of s)
                     else ROk ((if fa then s_applied s else [])
                                 ++ (if fu then s_unapplied s else [])
                                 ++ (if fh then s_hidden s else []))
                 end in
          rres_bind w1 patches_r (fun ps =>
            if spill && existsb (fun n => negb (mem n ps)) (firstn (length ps) (rev (s_applied s)))
            then err2 w1
            else if w_unmerged w1 then err2 w1
            else if negb (head_top_ok op) then err2 w1
            else match ps with
                 | [] => ok0 w1
                 | _ =>
                     transact op (opts CDisallow (allow_conf (w_apc w1) conflicts) false (negb spill) true false)
                       (fun t =>
                          let '(t1, to_push) := delete_patches (fun n => mem n ps) t in
                          push_patches to_push false t1)
                       MOp
                 end)
      end
  end.

Definition run_hide (w : world) (ranges : list str) : world * exitc :=
  match parse_ranges ranges with
  | None => (w, X1)
  | Some prs =>
      match open_stack PAllow w with
      | None => err2 w
      | Some op =>
          let w1 := op_world op in
          let s := op_state op in
          if negb (head_top_ok op) then err2 w1
          else
            rres_bind w1 (resolve_names (view_of s) RCAll prs) (fun ps =>
              let to_hide := filter (fun n => negb (mem n (s_hidden s))) ps in
              transact op default_opts (hide_patches to_hide) MOp)
      end
  end.

Definition run_unhide (w : world) (ranges : list str) : world * exitc :=
  match parse_ranges ranges with
  | None => (w, X1)
  | Some prs =>
      match open_stack PAllow w with
      | None => err2 w
      | Some op =>
          let w1 := op_world op in
          let s := op_state op in
          if negb (head_top_ok op) then err2 w1
          else
            rres_bind w1 (resolve_names (view_of s) RCHidden prs) (fun ps =>
              transact op (opts CAllow (w_apc (op_world op)) false false true false) (unhide_patches ps) MOp)
      end
  end.

Definition run_rename (w : world) (old : option str) (new : str) : world * exitc :=
  match from_str new with
  | None => (w, X1)
  | Some newn =>
      let old_l := match old with
                   | Some o => match parse_locator o with Some l => Some (Some l) | None => None end
                   | None => Some None end in
      match old_l with
      | None => (w, X1)
      | Some old_l =>
          match open_stack PAllow w with
          | None => err2 w
          | Some op =>
              let w1 := op_world op in
              let s := op_state op in
              let old_r : rres name :=
                match old_l with
                | Some l => resolve_name (view_of s) l
                | None => match last_error (s_applied s) with
                          | Some n => ROk n | None => RErr ENoLastPatch end
                end in
              rres_bind w1 old_r (fun oldn =>
                match stack_collides s newn with
                | Some c =>
                    if mem newn (all_of s) then err2 w1
                    else if negb (name_eqb c oldn) then err2 w1
                    else transact op (opts CAllow (w_apc (op_world op)) false false true false)
                                  (rename_patch oldn newn) MOp
                | None =>
                    transact op (opts CAllow (w_apc (op_world op)) false false true false)
                             (rename_patch oldn newn) MOp
                end)
          end
      end
  end.

(* stable sort of the requested patches by their position in applied ++ unapplied *)
Definition sort_by_position (order ps : list name) : list name :=
  filter (fun n => mem n ps) order.

Definition run_commit (w : world) (ranges : option (list str)) (number : option N)
           (all allow_empty : bool) : world * exitc :=
  let prs := match ranges with Some rs => parse_ranges rs | None => Some [] end in
  match prs with
  | None => (w, X1)
  | Some prs =>
      match open_stack PAllow w with
      | None => err2 w
      | Some op =>
          let w1 := op_world op in
          let s := op_state op in
          let patches : (world * exitc) + list name :=
            match ranges with
            | Some _ =>
                match resolve_names (view_of s) RCVisibleApplied prs with
                | ROk l => inr (sort_by_position (s_applied s ++ s_unapplied s) l)
                | RErr _ => inl (w1, X2)
                | RPanic => inl (w1, XPanic)
                end
            | None =>
                match number with
                | Some k =>
                    if k =? 0 then inl (w1, X0)
                    else if Nat.ltb (length (s_applied s)) (N.to_nat k) then inl (w1, X2)
                    else inr (firstn (N.to_nat k) (s_applied s))
                | None =>
                    match s_applied s with
                    | [] => inl (w1, X2)
                    | first :: _ => if all then inr (s_applied s) else inr [first]
                    end
                end
            end in
          match patches with
          | inl r => r
          | inr [] => err2 w1                              (* no patches applied *)
          | inr ps =>
              let empties := filter (fun n => match pm_get (s_patches s) n with
                                              | Some o =>
                                                  match first_parent (w_objs w1) o with
                                                  | Some p => tree_eqb (tree_of (w_objs w1) p)
                                                                       (tree_of (w_objs w1) o)
                                                  | None => false end
                                              | None => false end) ps in
              if negb allow_empty && negb (match empties with [] => true | _ => false end) then err2 w1
              else if negb (head_top_ok op) then err2 w1
              else transact op (opts CAllowIfSameTop (w_apc (op_world op)) false true true false)
                            (commit_patches ps) MOp
          end
      end
  end.

(* uncommit with explicit names: `-n k <prefix>` or `<name>...`; default naming is covered
   by the C14 checks, here names are always supplied by the scenario *)
Fixpoint walk_down (objs : store) (o : oid) (k : nat) : option (list oid) :=
  match k with
  | O => Some []
  | S k' =>
      match parents_of objs o with
      | [p] => match walk_down objs p k' with Some l => Some (o :: l) | None => None end
      | _ => None                                          (* check_commit fails *)
      end
  end.

Definition check_patchnames (s : sstate) (names : list name) : bool :=
  (fix go (taken names : list name) : bool :=
     match names with
     | [] => true
     | n :: rest =>
         match stack_collides s n with
         | Some _ => false
         | None => if existsb (fun m => collides n m) taken then false else go (taken ++ [n]) rest
         end
     end) [] names.

Section Uncommit.
  Variable lower_s : str -> str.

  (* make_patchnames: from the oldest commit to the newest, the name made from the message
     (lower-cased, at most 30 characters) is made unique against every patch of the stack and
     the names given out so far; None = a panic inside make / uniquify *)
  Definition make_patchnames (objs : store) (s : sstate) (commits : list oid) : option (list name) :=
    let one (acc : option (list name * list name)) (c : oid) :=
      match acc with
      | None => None
      | Some (taken, out) =>
          match make lower_s (subj_of objs c) true (Some 30) with
          | Ok nm => match uniquify nm [] taken with
                     | UOk pn => Some (taken ++ [pn], pn :: out)
                     | UFuel => None
                     end
          | _ => None
          end
      end in
    match fold_left one (rev commits) (Some (all_of s, [])) with
    | Some (_, out) => Some out
    | None => None
    end.

  Definition run_uncommit (w : world) (number : option N) (names : list str) : world * exitc :=
    let parsed := fold_right (fun x acc => match from_str x, acc with
                                           | Some n, Some l => Some (n :: l)
                                           | _, _ => None end) (Some []) names in
    match parsed with
    | None => (w, X1)
    | Some names =>
        match open_stack PAuto w with
        | None => err2 w
        | Some op =>
            let w1 := op_world op in
            let s := op_state op in
            if negb (head_top_ok op) then err2 w1
            else
              let generated (commits : list oid) : (world * exitc) + (list oid * list name) :=
                match make_patchnames (w_objs w1) s commits with
                | Some pns => inr (commits, pns)
                | None => inl (w1, XPanic)
                end in
              let plan : (world * exitc) + (list oid * list name) :=
                match number with
                | Some k =>
                    match walk_down (w_objs w1) (op_base op) (N.to_nat k) with
                    | None => inl (w1, X2)
                    | Some commits =>
                        match names with
                        | [] => generated commits
                        | [prefix] =>
                            let pns := map (fun i => prefix ++ dec_of_N (N.of_nat i))
                                           (rev (seq 1 (N.to_nat k))) in
                            if forallb (fun n => validate n) pns
                            then (if check_patchnames s pns then inr (commits, pns) else inl (w1, X2))
                            else inl (w1, X2)
                        | _ => inl (w1, X2)
                        end
                    end
                | None =>
                    match names with
                    | [] =>
                        match walk_down (w_objs w1) (op_base op) 1 with
                        | None => inl (w1, X2)
                        | Some commits => generated commits
                        end
                    | _ =>
                        if negb (check_patchnames s names) then inl (w1, X2)
                        else match walk_down (w_objs w1) (op_base op) (length names) with
                             | None => inl (w1, X2)
                             | Some commits => inr (commits, names)
                             end
                    end
                end in
              match plan with
              | inl r => r
              | inr (commits, pns) =>
                  if negb (Nat.eqb (length commits) (length pns)) then (w1, XPanic)
                  else transact op (opts CAllow (w_apc (op_world op)) false false false false)
                         (uncommit_patches (rev (combine pns commits))) MOp
              end
        end
    end.
End Uncommit.

Definition run_clean (w : world) (fa fu : bool) : world * exitc :=
  match open_stack PAllow w with
  | None => err2 w
  | Some op =>
      let w1 := op_world op in
      let s := op_state op in
      if negb (head_top_ok op) then err2 w1
      else
        let '(ca, cu) := if negb fa && negb fu then (true, true) else (fa, fu) in
        let empty n := match pm_get (s_patches s) n with
                       | Some o => is_no_change (w_objs w1) o | None => false end in
        let napp := length (s_applied s) in
        let del_a :=
          if ca then
            filter (fun n => empty n
                             && (negb (match last_error (s_applied s) with
                                       | Some l => name_eqb l n | None => false end)
                                 || negb (w_unmerged w1)))
                   (s_applied s)
          else [] in
        let del_u := if cu then filter empty (s_unapplied s) else [] in
        let to_delete := del_a ++ del_u in
        match to_delete with
        | [] => ok0 w1
        | _ =>
            transact op (opts CAllow (w_apc (op_world op)) false false true false)
              (fun t => let '(t1, to_push) := delete_patches (fun n => mem n to_delete) t in
                        push_patches to_push false t1)
              MOp
        end
  end.

(* ---- new / refresh / spill ---- *)

Definition run_new (w : world) (nm : str) (meta : N) (msg : str) : world * exitc :=
  match from_str nm with
  | None => (w, X1)
  | Some pn =>
      match open_stack PAuto w with
      | None => err2 w
      | Some op =>
          let w1 := op_world op in
          let s := op_state op in
          if w_unmerged w1 then err2 w1
          else if negb (head_top_ok op) then err2 w1
          else
            match stack_collides s pn with
            | Some _ => err2 w1
            | None =>
                let '(objs', o) := put (w_objs w1) (plain [w_branch w1] (head_tree w1) meta msg) in
                let op' := mkOpened (with_objs w1 objs') s (op_base op) (op_initialized op) in
                transact op' default_opts (new_applied pn o) MOp
            end
      end
  end.

Definition s_refresh_temp : str := [114;101;102;114;101;115;104;45;116;101;109;112].
Definition s_refresh_of : str := [82;101;102;114;101;115;104;32;111;102;32].      (* "Refresh of " *)

(* the applied patches above n (empty when n is not applied) *)
Fixpoint after_name (n : name) (l : list name) : list name :=
  match l with
  | [] => []
  | x :: r => if name_eqb x n then r else after_name n r
  end.

(* EditBuilder with an overriding tree: a new commit for the patch unless nothing changes *)
Definition refresh_commit (t : txn) (pc : oid) (new_tree : tree) : txn * option oid :=
  if tree_eqb new_tree (tree_of (t_objs t) pc) then (t, None)
  else
    let '(objs', o) :=
      put (t_objs t)
          (plain (parents_of (t_objs t) pc) new_tree
                 (match get (t_objs t) pc with Some c => c_meta c | None => 0 end)
                 (subj_of (t_objs t) pc)) in
    (set_objs t objs', Some o).

(* the second transaction of stg refresh: absorb the temporary patch into pn *)
Definition refresh_absorb (pn tmpname : name) (t : txn) : tres :=
  if mem pn (t_applied t) then
    (* an applied patch: everything above it (the temporary patch included) is popped, the
       temporary patch alone is pushed onto it, its tree becomes the patch's, and the rest is
       pushed back *)
    let to_pop := after_name pn (t_applied t) in
    let step1 : tres :=
      if Nat.ltb 1 (length to_pop) then
        let '(t1, extra) := pop_patches (fun n => mem n to_pop) t in
        match extra with
        | _ :: _ => TPanic
        | [] => push_patches [tmpname] false t1
        end
      else TOk t in
    tbind step1 (fun t1 =>
      match t_patch t1 pn, t_patch t1 tmpname with
      | Some pc, Some tc =>
          match last_error to_pop with
          | Some top =>
              if negb (name_eqb top tmpname) then TPanic      (* assert_eq!(top_name, Some(temp)) *)
              else
                let '(t2, newc) := refresh_commit t1 pc (tree_of (t_objs t1) tc) in
                let '(t3, _) := delete_patches (fun n => name_eqb n tmpname) t2 in
                tbind (match newc with Some o => update_patch pn o t3 | None => TOk t3 end)
                      (push_patches (removelast to_pop) false)
          | None => TPanic
          end
      | _, _ => TPanic
      end)
  else
    (* an unapplied patch: the temporary patch is popped and its change applied to the patch's
       tree in a temporary index; when that fails the changes stay in the temporary patch *)
    let '(t1, extra) := pop_patches (fun n => name_eqb n tmpname) t in
    match extra with
    | _ :: _ => TPanic
    | [] =>
        match t_patch t1 pn, t_patch t1 tmpname with
        | Some pc, Some tc =>
            match first_parent (t_objs t1) tc with
            | None => TErr t1
            | Some tpar =>
                match apply3way (t_wt t1) (tree_of (t_objs t1) tpar) (tree_of (t_objs t1) pc)
                                (tree_of (t_objs t1) tc) with
                | Some tree' =>
                    let '(t2, newc) := refresh_commit t1 pc tree' in
                    tbind (match newc with Some o => update_patch pn o t2 | None => TOk t2 end)
                          (fun t3 => TOk (fst (delete_patches (fun n => name_eqb n tmpname) t3)))
                | None => TOk t1
                end
            end
        | _, _ => TPanic
        end
    end.

(* stg refresh [-p <patch>]: absorb the whole work tree into the top patch or into the named
   visible patch.  Two transactions, hence two log entries. *)
Definition run_refresh (w : world) (patch : option str) : world * exitc :=
  let loc_l := match patch with
               | Some o => match parse_locator o with Some l => Some (Some l) | None => None end
               | None => Some None end in
  match loc_l with
  | None => (w, X1)
  | Some loc_l =>
  match open_stack PAllow w with
  | None => err2 w
  | Some op =>
      let w1 := op_world op in
      let s := op_state op in
      if negb (head_top_ok op) then err2 w1
      else
        let pn_r : rres name :=
          match loc_l with
          | Some l => resolve_constrained (view_of s) LCVisible l
          | None => match last_error (s_applied s) with
                    | Some n => ROk n | None => RErr ENoLastPatch end
          end in
        rres_bind w1 pn_r (fun pn =>
            if w_unmerged w1 then err2 w1            (* write-tree of an unmerged index fails *)
            else
              let '(objs1, tmpc) := put (w_objs w1) (plain [w_branch w1] (w_wt w1) 0 (s_refresh_of ++ pn)) in
              let tmpname :=
                match uniquify s_refresh_temp [] (all_of s) with UOk n => n | UFuel => s_refresh_temp end in
              let op1 := mkOpened (with_objs w1 objs1) s (op_base op) (op_initialized op) in
              match transact op1 default_opts (new_applied tmpname tmpc) MOp with
              | (w2, X0) =>
                  match open_stack PAllow w2 with
                  | None => err2 w2
                  | Some op2 =>
                      (* re-opened stack as returned by execute *)
                      transact op2 (opts CDisallow (w_apc (op_world op2)) false true true false)
                        (refresh_absorb pn tmpname) MOp
                  end
              | other => other
              end)
  end
  end.

Definition run_spill (w : world) : world * exitc :=
  match open_stack PAllow w with
  | None => err2 w
  | Some op =>
      let w1 := op_world op in
      let s := op_state op in
      if w_unmerged w1 then err2 w1
      else if dirty w1 then err2 w1                        (* check_index_clean *)
      else if negb (head_top_ok op) then err2 w1
      else
        match last_error (s_applied s) with
        | None => err2 w1
        | Some pn =>
            match pm_get (s_patches s) pn with
            | None => (w1, XPanic)
            | Some pc =>
                match first_parent (w_objs w1) pc with
                | None => err2 w1
                | Some par =>
                    let c := get (w_objs w1) pc in
                    let '(objs', o) :=
                      put (w_objs w1)
                          (plain (parents_of (w_objs w1) pc) (tree_of (w_objs w1) par)
                                 (match c with Some c => c_meta c | None => 0 end)
                                 (subj_of (w_objs w1) pc)) in
                    let op' := mkOpened (with_objs w1 objs') s (op_base op) (op_initialized op) in
                    transact op' (opts CDisallow (w_apc (op_world op')) false false true false) (update_patch pn o) MOp
                end
            end
        end
  end.

(* ---- undo / redo / reset ---- *)

(* find_undo_state: the loop, with fuel = length of the store (each step follows a prev
   link to a strictly older object) *)
Fixpoint find_undo_state (fuel : nat) (objs : store) (so : oid) (steps : Z) : option sstate :=
  match fuel with
  | O => None
  | S fuel' =>
      match get objs so with
      | None => None
      | Some c =>
          match c_state c with
          | None => None
          | Some st =>
              if (steps =? 0)%Z then Some st
              else
                let next : option Z :=
                  if (0 <? steps)%Z then
                    match c_msg c with
                    | MUndo n => Some (steps + n)%Z
                    | _ => Some (steps - 1)%Z
                    end
                  else
                    match c_msg c with
                    | MUndo _ => Some (steps + 1)%Z
                    | MRedo n => Some (steps - n)%Z
                    | _ => None                          (* no more redo information *)
                    end in
                match next, s_prev st with
                | Some steps', Some prev => find_undo_state fuel' objs prev steps'
                | _, _ => None                          (* not enough undo information *)
                end
          end
      end
  end.

(* modifications by other tools are logged before the walk through the log starts *)
Definition log_extmods_first (op : opened) : option opened :=
  if Nat.eqb (s_head (op_state op)) (w_branch (op_world op)) then Some op
  else
    match log_external_mods (op_world op) (op_state op) with
    | Some (w', s') => Some (mkOpened w' s' (op_base op) (op_initialized op))
    | None => None
    end.

Definition run_undo_like (w : world) (steps : Z) (hard : bool) (msg : msgkind) : world * exitc :=
  match open_stack PRequire w with
  | None => err2 w
  | Some op0 =>
    match log_extmods_first op0 with
    | None => err2 (op_world op0)
    | Some op =>
      let w1 := op_world op in
      transact op (opts CDisallow (w_apc (op_world op)) hard true true true)
        (fun t =>
           match w_stack w1 with
           | None => TErr t
           | Some so =>
               match find_undo_state (S (length (t_objs t))) (t_objs t) so steps with
               | Some st => reset_to_state st t
               | None => TErr t
               end
           end)
        msg
    end
  end.

Definition run_undo (w : world) (n : Z) (hard : bool) : world * exitc :=
  if (n <? 1)%Z then (w, X1) else run_undo_like w n hard (MUndo n).

Definition run_redo (w : world) (n : N) (hard : bool) : world * exitc :=
  if n =? 0 then (w, X1)
  else if isize_max <? n then (w, X1)                 (* value parser: must fit in isize *)
  else run_undo_like w (Z.opp (Z.of_N n)) hard (MRedo (Z.of_N n)).

(* the k-th ancestor of the state ref along first parents (simplified log) corresponds to
   `refs/stacks/<b>~k`; its tree is the k-th previous state *)
Fixpoint nth_prev_state (fuel : nat) (objs : store) (so : oid) (k : nat) : option sstate :=
  match fuel with
  | O => None
  | S fuel' =>
      match state_of objs so with
      | None => None
      | Some st =>
          match k with
          | O => Some st
          | S k' => match s_prev st with
                    | Some p => nth_prev_state fuel' objs p k'
                    | None => None end
          end
      end
  end.

Definition run_reset (w : world) (entry : option nat) (ranges : option (list str)) (hard : bool)
  : world * exitc :=
  match entry with
  | None =>
      if hard then (with_wt w (head_tree w) false, X0) else (w, X1)
  | Some k =>
      let prs := match ranges with Some rs => parse_ranges rs | None => Some [] end in
      match prs with
      | None => (w, X1)
      | Some prs =>
          match open_stack PRequire w with
          | None => err2 w
          | Some op =>
              let w1 := op_world op in
              match w_stack w1 with
              | None => err2 w1
              | Some so =>
                  (* refs/stacks/<b>~k follows first parents: ~1 is the simplified copy of the
                     current state, ~(k+1) the simplified copy of the k-th previous state *)
                  match nth_prev_state (S (length (w_objs w1))) (w_objs w1) so (Nat.pred k) with
                  | None => err2 w1                      (* invalid committish *)
                  | Some st =>
                      transact op
                        (opts CDisallow (w_apc w1) hard true true
                              (match ranges with None => true | Some _ => false end))
                        (fun t =>
                           match ranges with
                           | Some _ =>
                               match resolve_names (view_of st) RCAll prs with
                               | ROk names => reset_to_state_partially st names t
                               | RErr _ => TErr t
                               | RPanic => TPanic
                               end
                           | None => reset_to_state st t
                           end)
                        MOp
                  end
              end
          end
      end
  end.

(* ---- repair ---- *)

Definition patch_of_commit (s : sstate) (o : oid) : option name :=
  find (fun n => match pm_get (s_patches s) n with Some po => Nat.eqb po o | None => false end)
       (all_of s).

(* the first-parent walk: returns (applied (top first), patchify (top first), stop commit) *)
Fixpoint repair_walk (fuel : nat) (objs : store) (s : sstate) (base : oid) (commit : oid)
         (applied : list name) (patchify maybe : list oid) : list name * list oid * oid :=
  match fuel with
  | O => (applied, patchify, commit)
  | S fuel' =>
      match parents_of objs commit with
      | [parent] =>
          let '(applied', patchify', maybe') :=
            match patch_of_commit s commit with
            | Some pn => (applied ++ [pn], patchify ++ maybe, [])
            | None => (applied, patchify, maybe ++ [commit])
            end in
          if Nat.eqb base parent then (applied', patchify' ++ maybe', parent)
          else repair_walk fuel' objs s base parent applied' patchify' maybe'
      | _ => (applied, patchify, commit)
      end
  end.

(* the new stack base: the commit below the bottommost commit on the path that is, or is to
   become, an applied patch; the branch head when there is none *)
Fixpoint repair_base (fuel : nat) (objs : store) (s : sstate) (base : oid) (commit : oid)
         (nb : oid) (maybe_nonempty : bool) : oid :=
  match fuel with
  | O => nb
  | S fuel' =>
      match parents_of objs commit with
      | [parent] =>
          let '(nb', maybe') :=
            match patch_of_commit s commit with
            | Some _ => (parent, false)
            | None => (nb, true)
            end in
          if Nat.eqb base parent then (if maybe' then parent else nb')
          else repair_base fuel' objs s base parent nb' maybe'
      | _ => nb
      end
  end.

Section Repair.
  Variable lower_s : str -> str.

  Definition run_repair (w : world) : world * exitc :=
    match open_stack PRequire w with
    | None => err2 w
    | Some op =>
        let w1 := op_world op in
        let s := op_state op in
        let '(applied_rev, patchify_rev, _) :=
          repair_walk (S (length (w_objs w1))) (w_objs w1) s (op_base op) (w_branch w1) [] [] [] in
        let new_base :=
          repair_base (S (length (w_objs w1))) (w_objs w1) s (op_base op) (w_branch w1) (w_branch w1) false in
        let applied := rev applied_rev in
        let patchify := rev patchify_rev in
        let notin := fun n => negb (mem n applied) in
        let unapplied := filter notin (s_applied s) ++ filter notin (s_unapplied s) in
        let hidden := filter notin (s_hidden s) in
        transact op (opts CDisallow (w_apc (op_world op)) false false true false)
          (fun t =>
             tbind (repair_appliedness applied unapplied hidden t)
               (fun t0 =>
                  (* trans.set_base(new_base_id) *)
                  let t1 := set_base t0 (Some new_base) in
                  fold_left
                    (fun r c =>
                       tbind r (fun t =>
                         match make lower_s (subj_of (t_objs t) c) true (Some 30) with
                         | Ok nm =>
                             match uniquify nm [] (t_all t) with
                             | UOk pn => new_applied pn c t
                             | UFuel => TPanic
                             end
                         | _ => TPanic
                         end))
                    patchify (TOk t1)))
          MOp
    end.
End Repair.

Definition run_log_clear (w : world) : world * exitc :=
  match open_stack PRequire w with
  | None => err2 w
  | Some op =>
      let w1 := op_world op in
      let s := op_state op in
      let s' := mkState None (s_head s) (s_applied s) (s_unapplied s) (s_hidden s) (s_patches s) in
      match state_commit (w_objs w1) s' MOp with
      | None => (w1, XPanic)
      | Some (objs', so) =>
          (mkWorld objs' (w_branch w1) (Some so) (w_prefs w1) (w_wt w1) (w_unmerged w1) (w_base w1) (w_apc w1), X0)
      end
  end.

(* ---------------------------------------------------------------- plain git *)

Fixpoint ancestor (objs : store) (o : oid) (k : nat) : option oid :=
  match k with
  | O => Some o
  | S k' => match first_parent objs o with Some p => ancestor objs p k' | None => None end
  end.

Definition run_git (w : world) (c : cmd) : world * exitc :=
  match c with
  | GEdit cell v => (with_wt w (set_nth cell v (w_wt w)) (w_unmerged w), X0)
  | GCommit meta subj =>
      let '(objs', o) := put (w_objs w) (plain [w_branch w] (w_wt w) meta subj) in
      (with_branch w objs' o, X0)
  | GAmend meta subj =>
      let '(objs', o) := put (w_objs w) (plain (parents_of (w_objs w) (w_branch w)) (w_wt w) meta subj) in
      (with_branch w objs' o, X0)
  | GMerge meta =>
      match first_parent (w_objs w) (w_branch w) with
      | Some p =>
          let '(objs', o) := put (w_objs w) (plain [w_branch w; p] (head_tree w) meta []) in
          (mkWorld objs' o (w_stack w) (w_prefs w) (head_tree w) false (w_base w) (w_apc w), X0)
      | None => (w, X2)
      end
  | GResetHard tgt =>
      let target : option oid :=
        match tgt with
        | TPatch n => match cur_state w with Some s => pm_get (s_patches s) n | None => None end
        | TBaseAncestor k =>
            match cur_state w with
            | Some s => match stack_base (w_objs w) (w_branch w) s with
                        | Some b => ancestor (w_objs w) b k | None => None end
            | None => None end
        | THeadAncestor k => ancestor (w_objs w) (w_branch w) k
        end in
      match target with
      | Some o =>
          (mkWorld (w_objs w) o (w_stack w) (w_prefs w) (tree_of (w_objs w) o) false (w_base w) (w_apc w), X0)
      | None => (w, X2)
      end
  | GConfigApc b =>
      (mkWorld (w_objs w) (w_branch w) (w_stack w) (w_prefs w) (w_wt w) (w_unmerged w) (w_base w) b, X0)
  | _ => (w, X2)
  end.

(* ---------------------------------------------------------------- edit / rebase *)

(* stg edit -m <msg> [<patch>] without an editor: EditBuilder makes a new commit (same
   parents, same tree) unless nothing changed, in which case no transaction runs at all; the
   patches above are popped and pushed back *)
Definition run_edit (w : world) (loc : option str) (meta : N) (msg : str) : world * exitc :=
  let loc_l := match loc with
               | Some o => match parse_locator o with Some l => Some (Some l) | None => None end
               | None => Some None end in
  match loc_l with
  | None => (w, X1)
  | Some loc_l =>
      match open_stack PAllow w with
      | None => err2 w
      | Some op =>
          let w1 := op_world op in
          let s := op_state op in
          if negb (head_top_ok op) then err2 w1
          else
            let pn_r : rres name :=
              match loc_l with
              | Some l => resolve_name (view_of s) l
              | None => match last_error (s_applied s) with
                        | Some n => ROk n | None => RErr ENoLastPatch end
              end in
            rres_bind w1 pn_r (fun pn =>
              match pm_get (s_patches s) pn with
              | None => (w1, XPanic)
              | Some pc =>
                  match get (w_objs w1) pc with
                  | None => (w1, XPanic)
                  | Some old =>
                      if (c_meta old =? meta)%N && str_eqb (c_subj old) msg then ok0 w1
                      else
                        let '(objs1, o) := put (w_objs w1) (plain (c_parents old) (c_tree old) meta msg) in
                        let op1 := mkOpened (with_objs w1 objs1) s (op_base op) (op_initialized op) in
                        transact op1 (opts CAllow (w_apc (op_world op1)) false true true false)
                          (fun t =>
                             let above := after_name pn (t_applied t) in
                             let '(t1, extra) := pop_patches (fun n => mem n above) t in
                             match extra with
                             | _ :: _ => TPanic
                             | [] => tbind (update_patch pn o t1) (push_patches above false)
                             end)
                          MOp
                  end
              end)
      end
  end.

Definition resolve_gtarget (w : world) (tgt : gtarget) : option oid :=
  match tgt with
  | TPatch n => match cur_state w with Some s => pm_get (s_patches s) n | None => None end
  | TBaseAncestor k =>
      match cur_state w with
      | Some s => match stack_base (w_objs w) (w_branch w) s with
                  | Some b => ancestor (w_objs w) b k | None => None end
      | None => None end
  | THeadAncestor k => ancestor (w_objs w) (w_branch w) k
  end.

(* stg rebase <committish> (no --interactive / --nopush / --merged / --autostash): pop
   everything, `git reset --hard <target>`, record the moved head, push everything back *)
Definition run_rebase (w : world) (tgt : gtarget) : world * exitc :=
  match open_stack PRequire w with
  | None => err2 w
  | Some op =>
      let w1 := op_world op in
      let s := op_state op in
      match resolve_gtarget w1 tgt with
      | None => err2 w1
      | Some target =>
          if Nat.eqb target (op_base op) then ok0 w1
          else if negb (head_top_ok op) then err2 w1
          else if dirty w1 then err2 w1
          else
            let applied := s_applied s in
            match transact op (opts CDisallow (w_apc (op_world op)) false true true false)
                           (fun t => TOk (fst (pop_patches (fun n => mem n applied) t))) MOp with
            | (w2, X0) =>
                let w3 := mkWorld (w_objs w2) target (w_stack w2) (w_prefs w2)
                                  (tree_of (w_objs w2) target) false (w_base w2) (w_apc w2) in
                match open_stack PRequire w3 with
                | None => err2 w3
                | Some op3 =>
                    match log_extmods_first op3 with
                    | None => err2 (op_world op3)
                    | Some op4 =>
                        if negb (head_top_ok op4) then err2 (op_world op4)
                        else transact op4 (opts CDisallow (w_apc (op_world op4)) false true true false)
                                      (push_patches applied false) MOp
                    end
                end
            | r => r
            end
      end
  end.

(* ---------------------------------------------------------------- squash *)

(* try_squash: starting from the tree of the first patch, apply the change of every further
   patch (git apply --3way in a temporary index); on success the squashed commit sits on the
   first patch's parent and carries the identity that was asked for *)
Fixpoint squash_tree (objs : store) (t : txn) (rest : list name) (acc : tree) : option tree :=
  match rest with
  | [] => Some acc
  | p :: rest' =>
      match t_patch t p with
      | None => None
      | Some pc =>
          match first_parent objs pc with
          | None => None
          | Some par =>
              let pt := tree_of objs par in
              let ct := tree_of objs pc in
              if tree_eqb pt ct then squash_tree objs t rest' acc
              else match apply3way (t_wt t) pt ct acc with
                   | Some acc' => squash_tree objs t rest' acc'
                   | None => None
                   end
          end
      end
  end.

Definition try_squash (t : txn) (ps : list name) (meta : N) (msg : str) : option (txn * oid) :=
  match ps with
  | [] => None
  | b :: rest =>
      match t_patch t b with
      | None => None
      | Some bc =>
          match squash_tree (t_objs t) t rest (tree_of (t_objs t) bc) with
          | None => None
          | Some tr =>
              let '(objs', o) := put (t_objs t) (plain (parents_of (t_objs t) bc) tr meta msg) in
              Some (set_objs t objs', o)
          end
      end
  end.

(* the tail shared by both paths of squash(): the squashed patch becomes the first unapplied
   patch and is pushed back together with whatever had to be popped *)
Definition squash_finish (newn : name) (o : oid) (to_push : list name) (should_push : bool) (t : txn) : tres :=
  tbind (new_unapplied newn o 0 t)
        (push_patches (if should_push then newn :: to_push else to_push) false).

Definition squash_closure (ps : list name) (newn : name) (meta : N) (msg : str) (should_push : bool)
           (t : txn) : tres :=
  match try_squash t ps meta msg with
  | Some (t1, o) =>
      let '(t2, to_push) := delete_patches (fun n => mem n ps) t1 in
      squash_finish newn o to_push should_push t2
  | None =>
      let '(t1, to_push) := pop_patches (fun n => mem n ps) t in
      tbind (push_patches ps false t1)
            (fun t2 =>
               match try_squash t2 ps meta msg with
               | Some (t3, o) =>
                   let '(t4, extra) := delete_patches (fun n => mem n ps) t3 in
                   match extra with
                   | _ :: _ => TPanic                        (* assert!(popped_extra.is_empty()) *)
                   | [] => squash_finish newn o to_push should_push t4
                   end
               | None => TErr t2                             (* Error::CausedConflicts *)
               end)
  end.

(* did the closure end in "conflicts while squashing" (exit status 3 without a recorded state) *)
Definition squash_conflicts (ps : list name) (meta : N) (msg : str) (t : txn) : bool :=
  match try_squash t ps meta msg with
  | Some _ => false
  | None =>
      let '(t1, _) := pop_patches (fun n => mem n ps) t in
      match push_patches ps false t1 with
      | TOk t2 => match try_squash t2 ps meta msg with Some _ => false | None => true end
      | _ => false
      end
  end.

(* stg squash -m <msg> -n <name> <patches> *)
Definition run_squash (w : world) (ranges : list str) (nm : str) (meta : N) (msg : str) : world * exitc :=
  match parse_ranges ranges, from_str nm with
  | None, _ | _, None => (w, X1)
  | Some prs, Some newn =>
      match open_stack PAllow w with
      | None => err2 w
      | Some op =>
          let w1 := op_world op in
          let s := op_state op in
          if w_unmerged w1 then err2 w1
          else if negb (head_top_ok op) then err2 w1
          else
            rres_bind w1 (resolve_names (view_of s) RCAll prs) (fun ps =>
              if negb (mem newn ps) && (match stack_collides s newn with Some _ => true | None => false end)
              then err2 w1
              else if Nat.ltb (length ps) 2 then err2 w1
              else
                let should_push := existsb (fun n => mem n ps) (s_applied s) in
                let o := opts CAllow (w_apc w1) false true true false in
                let '(w', x) := transact op o (squash_closure ps newn meta msg should_push) MOp in
                if op_initialized op && squash_conflicts ps meta msg (begin_txn op o) then (w', X3) else (w', x))
      end
  end.

(* ---------------------------------------------------------------- pick *)

(* the source of a pick: a patch of this stack (a single locator may name any patch, hidden
   ones included) or a commit *)
Definition pick_source (op : opened) (src : gtarget) : option oid :=
  let w := op_world op in
  match src with
  | TPatch n => pm_get (s_patches (op_state op)) n
  | TBaseAncestor k => ancestor (w_objs w) (op_base op) k
  | THeadAncestor k => ancestor (w_objs w) (w_branch w) k
  end.

Section Pick.
  Variable lower_s : str -> str.

  (* stg pick [--name <nm>] [--noapply] <source> (one source; no --fold / --update / --revert /
     --expose / --parent / --ref-branch): a new commit with the source's tree, first parent,
     author and message becomes the first unapplied patch under a name made unique, and is
     pushed unless --noapply *)
  Definition run_pick (w : world) (src : gtarget) (nm : option str) (noapply : bool) : world * exitc :=
    let nm_ok := match nm with
                 | Some x => match from_str x with Some n => Some (Some n) | None => None end
                 | None => Some None end in
    match nm_ok with
    | None => (w, X1)
    | Some given =>
        match open_stack PAuto w with
        | None => err2 w
        | Some op =>
            let w1 := op_world op in
            let s := op_state op in
            if negb noapply && dirty w1 then err2 w1
            else if negb noapply && negb (head_top_ok op) then err2 w1
            else
              match pick_source op src with
              | None => err2 w1
              | Some o =>
                  let cand : res name :=
                    match given with
                    | Some n => Ok n
                    | None => match src with
                              | TPatch n => Ok n
                              | _ => make lower_s (subj_of (w_objs w1) o) false (Some 30)
                              end
                    end in
                  match cand with
                  | Ok pn0 =>
                      match uniquify pn0 [] (all_of s) with
                      | UFuel => (w1, XPanic)
                      | UOk pn =>
                          match get (w_objs w1) o, first_parent (w_objs w1) o with
                          | Some c, Some par =>
                              let '(objs', o') :=
                                put (w_objs w1) (plain [par] (c_tree c) (c_meta c) (c_subj c)) in
                              let op' := mkOpened (with_objs w1 objs') s (op_base op) (op_initialized op) in
                              transact op' (opts CDisallow (w_apc (op_world op')) false true true false)
                                (fun t => tbind (new_unapplied pn o' 0 t)
                                            (fun t1 => if noapply then TOk t1
                                                       else push_patches [pn] false t1))
                                MOp
                          | _, _ => err2 w1
                          end
                      end
                  | _ => (w1, XPanic)
                  end
              end
        end
    end.
End Pick.

(* ---------------------------------------------------------------- dispatcher *)

Section Step.
  Variable lower_s : str -> str.

  Definition step (w : world) (c : cmd) : world * exitc :=
    match c with
    | CInit => match open_stack PMust w with
               | Some op => (op_world op, X0) | None => err2 w end
    | CNew nm meta msg => run_new w nm meta msg
    | CRefresh p => run_refresh w p
    | CPush r n all rv na st mg kp cf => run_push w r n all rv na st mg kp cf
    | CPop r n all kp sp => run_pop w r n all kp sp
    | CGoto l kp mg cf => run_goto w l kp mg cf
    | CFloat r na kp => run_float w r na kp
    | CSink r t np kp => run_sink w r t np kp
    | CDelete r tp al a u h sp cf => run_delete w r tp al a u h sp cf
    | CHide r => run_hide w r
    | CUnhide r => run_unhide w r
    | CRename o n => run_rename w o n
    | CCommit r n al ae => run_commit w r n al ae
    | CUncommit n names => run_uncommit lower_s w n names
    | CClean a u => run_clean w a u
    | CSpill => run_spill w
    | CUndo n h => run_undo w n h
    | CRedo n h => run_redo w n h
    | CReset e r h => run_reset w e r h
    | CRepair => run_repair lower_s w
    | CLogClear => run_log_clear w
    | CEdit l m msg => run_edit w l m msg
    | CRebase t => run_rebase w t
    | CSquash r n m msg => run_squash w r n m msg
    | CPick src n na => run_pick lower_s w src n na
    | CInspect => match open_stack PAllow w with
                  | Some op => (op_world op, X0) | None => err2 w end
    | GEdit _ _ | GCommit _ _ | GAmend _ _ | GResetHard _ | GMerge _ | GConfigApc _ => run_git w c
    end.

  Definition run (w : world) (cs : list cmd) : world := fold_left (fun w c => fst (step w c)) cs w.
End Step.

(* the initial world: one root commit with the given tree, branch on it, clean work tree *)
Definition init_world (t : tree) : world :=
  mkWorld [plain [] t 0 []] O None [] t false O true.
