(* Patch locators and ranges: transcription of src/patch/parse/{locator,numbers,range}.rs
   (winnow parsers), src/patch/{locator,range,offset,identifier}.rs (display,
   disambiguation, resolve_name, resolve_names, resolve_names_contiguous).
   Executable definitions only. *)

From Coq Require Export ZArith.
From StgV Require Export Model.Chars Model.Name.

Open Scope N_scope.

Definition isize_max : N := 9223372036854775807.

(* ---------------------------------------------------------------- numbers *)

Fixpoint take_while (f : N -> bool) (s : str) : str :=
  match s with
  | c :: s' => if f c then c :: take_while f s' else []
  | [] => []
  end.

(* digit1 then parse::<isize>: Some (value, rest); None = Backtrack *)
Definition unsigned_int (s : str) : option (N * str) :=
  let ds := take_while is_ascii_digit s in
  match ds with
  | [] => None
  | _ => let n := parse_dec ds in
         if n <=? isize_max then Some (n, drop_while is_ascii_digit s) else None
  end.

(* ('-', digit1).take().try_map(parse::<isize>) *)
Definition negative_int (s : str) : option (Z * str) :=
  match s with
  | c :: s' =>
      if c =? ch_dash then
        let ds := take_while is_ascii_digit s' in
        match ds with
        | [] => None
        | _ => let n := parse_dec ds in
               if n <=? isize_max + 1 then Some (Z.opp (Z.of_N n), drop_while is_ascii_digit s')
               else None
        end
      else None
  | [] => None
  end.

Definition plusative_int (s : str) : option (Z * str) :=
  match s with
  | c :: s' =>
      if c =? ch_plus then
        match unsigned_int s' with
        | Some (n, r) => Some (Z.of_N n, r)
        | None => None
        end
      else None
  | [] => None
  end.

(* (opt('-'), digit1) *)
Definition nonplussed_int (s : str) : option (Z * str) :=
  match negative_int s with
  | Some r => Some r
  | None =>
      match s with
      | c :: _ => if c =? ch_dash then None
                  else match unsigned_int s with
                       | Some (n, r) => Some (Z.of_N n, r)
                       | None => None end
      | [] => None
      end
  end.

(* ---------------------------------------------------------------- AST *)

Inductive atom : Type := APlus (n : option N) | ATilde (n : option N).

Inductive pid : Type :=
| IdName (n : str)
| IdBase
| IdTop
| IdBelowLast (n : option Z)
| IdBelowTop (n : option N).

Record ploc : Type := mkLoc { l_id : pid; l_offs : str (* raw offsets text *) }.

Inductive prange : Type :=
| RSingle (l : ploc)
| RRange (b e : option ploc).

(* ---------------------------------------------------------------- offsets *)

(* one atom: '+' opt(uint) | '~' opt(uint) *)
Definition offset_atom (s : str) : option (atom * str) :=
  match s with
  | c :: s' =>
      if c =? ch_plus then
        match unsigned_int s' with
        | Some (n, r) => Some (APlus (Some n), r)
        | None => Some (APlus None, s')
        end
      else if c =? ch_tilde then
        match unsigned_int s' with
        | Some (n, r) => Some (ATilde (Some n), r)
        | None => Some (ATilde None, s')
        end
      else None
  | [] => None
  end.

(* repeat(0.., atom): every atom consumes at least one char, fuel = length *)
Fixpoint offset_atoms_fuel (fuel : nat) (s : str) : list atom * str :=
  match fuel with
  | O => ([], s)
  | S fuel' =>
      match offset_atom s with
      | Some (a, r) => let '(l, r') := offset_atoms_fuel fuel' r in (a :: l, r')
      | None => ([], s)
      end
  end.

Definition offset_atoms (s : str) : list atom * str := offset_atoms_fuel (length s) s.

(* patch_offsets: the consumed text (raw) and the rest *)
Definition patch_offsets (s : str) : str * str :=
  let '(_, rest) := offset_atoms s in
  (firstn (length s - length rest) s, rest).

(* PatchOffsets::from_str / `.parse(s)`: whole input must be consumed *)
Definition offsets_full (s : str) : option str :=
  let '(o, rest) := patch_offsets s in
  match rest with [] => Some o | _ => None end.

(* ---------------------------------------------------------------- locator parser *)

Definition loc_name (s : str) : pres ploc :=
  match patch_name_p s with
  | POk n rest => let '(o, rest') := patch_offsets rest in POk (mkLoc (IdName n) o) rest'
  | PBack => PBack
  | PCut => PCut
  end.

Definition loc_from_last (s : str) : pres ploc :=
  match s with
  | c :: s' =>
      if c =? ch_caret then
        let '(n, r) := match nonplussed_int s' with
                       | Some (n, r) => (Some n, r)
                       | None => (None, s') end in
        let '(o, r') := patch_offsets r in
        POk (mkLoc (IdBelowLast n) o) r'
      else PBack
  | [] => PBack
  end.

Definition loc_top (s : str) : pres ploc :=
  match s with
  | c :: s' =>
      if c =? ch_at then
        let '(o, r') := patch_offsets s' in POk (mkLoc IdTop o) r'
      else if c =? ch_tilde then
        let '(n, r) := match unsigned_int s' with
                       | Some (n, r) => (Some n, r)
                       | None => (None, s') end in
        let '(o, r') := patch_offsets r in
        POk (mkLoc (IdBelowTop n) o) r'
      else PBack
  | [] => PBack
  end.

Definition loc_base (s : str) : pres ploc :=
  if starts_with s_base s then
    let '(o, r') := patch_offsets (skipn 6 s) in POk (mkLoc IdBase o) r'
  else PBack.

Definition alt2 {A} (p q : str -> pres A) (s : str) : pres A :=
  match p s with
  | PBack => q s
  | other => other
  end.

Definition patch_locator_p : str -> pres ploc :=
  alt2 loc_name (alt2 loc_from_last (alt2 loc_top loc_base)).

(* PatchLocator::from_str *)
Definition parse_locator (s : str) : option ploc :=
  match patch_locator_p s with
  | POk l [] => Some l
  | _ => None
  end.

(* ---------------------------------------------------------------- range parser *)

(* opt(p): Backtrack -> None with input reset; Cut propagates *)
Definition opt_loc (s : str) : pres (option ploc) :=
  match patch_locator_p s with
  | POk l r => POk (Some l) r
  | PBack => POk None s
  | PCut => PCut
  end.

Definition range_bounds (s : str) : pres (option ploc * option ploc) :=
  match opt_loc s with
  | POk b r =>
      match r with
      | d1 :: d2 :: r2 =>
          if (d1 =? ch_dot) && (d2 =? ch_dot) then
            match opt_loc r2 with
            | POk e r3 => POk (b, e) r3
            | PBack => PBack
            | PCut => PCut
            end
          else PBack
      | _ => PBack
      end
  | PBack => PBack
  | PCut => PCut
  end.

Definition patch_range_p (s : str) : pres prange :=
  match range_bounds s with
  | POk (b, e) r => POk (RRange b e) r
  | PCut => PCut
  | PBack =>
      match patch_locator_p s with
      | POk l r => POk (RSingle l) r
      | PBack => PBack
      | PCut => PCut
      end
  end.

Definition parse_range (s : str) : option prange :=
  match patch_range_p s with
  | POk r [] => Some r
  | _ => None
  end.

(* ---------------------------------------------------------------- display *)

Definition dec_of_Z (z : Z) : str :=
  match z with
  | Z0 => [48]
  | Zpos p => dec_of_N (Npos p)
  | Zneg p => ch_dash :: dec_of_N (Npos p)
  end.

Definition display_id (i : pid) : str :=
  match i with
  | IdName n => n
  | IdBase => s_base
  | IdTop => [ch_at]
  | IdBelowTop (Some n) => ch_tilde :: dec_of_N n
  | IdBelowTop None => [ch_tilde]
  | IdBelowLast None => [ch_caret]
  | IdBelowLast (Some n) => ch_caret :: dec_of_Z n
  end.

Definition display_loc (l : ploc) : str := display_id (l_id l) ++ l_offs l.

Definition display_range (r : prange) : str :=
  match r with
  | RSingle l => display_loc l
  | RRange b e =>
      (match b with Some l => display_loc l | None => [] end)
        ++ [ch_dot; ch_dot]
        ++ (match e with Some l => display_loc l | None => [] end)
  end.

(* ---------------------------------------------------------------- the stack view *)

Record sview : Type := mkView {
  v_applied : list str;
  v_unapplied : list str;
  v_hidden : list str;
  v_oidhex : str -> str           (* 40 lowercase hex digits of a patch's commit id *)
}.

Definition v_all (v : sview) : list str := v_applied v ++ v_unapplied v ++ v_hidden v.
Definition v_has (v : sview) (n : str) : bool := existsb (str_eqb n) (v_all v).

Fixpoint index_of_str (n : str) (l : list str) : option nat :=
  match l with
  | [] => None
  | x :: l' => if str_eqb x n then Some O else option_map S (index_of_str n l')
  end.

(* ---------------------------------------------------------------- disambiguation *)

Inductive did : Type :=
| DName (n : str)
| DCommitId (prefix : str)
| DTop
| DBase
| DIndex (i : N)
| DFromTop (o : Z)
| DFromBase (o : Z)
| DFromLast (o : Z).

Definition strip_prefix (p s : str) : option str :=
  if starts_with p s then Some (skipn (length p) s) else None.

(* the longest stack patch name that is a prefix of [name] with an offsets-only rest;
   max_by_key returns the LAST maximal element *)
Definition best_prefix (v : sview) (name : str) : option (str * str) :=
  fold_left
    (fun best pn =>
       match strip_prefix pn name with
       | Some rest =>
           match offsets_full rest with
           | Some o =>
               match best with
               | Some (bpn, _) =>
                   if utf8_len bpn <=? utf8_len pn then Some (pn, o) else best
               | None => Some (pn, o)
               end
           | None => best
           end
       | None => best
       end)
    (v_all v) None.

Definition hex_lower (c : N) : N := ascii_lower c.

(* gix::hash::Prefix::from_hex: 4..=40 hex digits *)
Definition oid_prefix_offsets (s : str) : option (str * str) :=
  let hx := take_while is_ascii_hexdigit s in
  let n := length hx in
  if (Nat.leb 4 n) && (Nat.leb n 40) then
    match offsets_full (drop_while is_ascii_hexdigit s) with
    | Some o => Some (map hex_lower hx, o)
    | None => None
    end
  else None.

Definition prefix_matches (v : sview) (prefix : str) (pn : str) : bool :=
  starts_with prefix (v_oidhex v pn).

Inductive sign : Type := SPlus | SMinus.

(* sign_number_offsets(..).parse(name): full consumption *)
Definition sign_number_offsets (s : str) : option (option sign * option N * str) :=
  let finish (sg : option sign) (n : option N) (r : str) :=
    match offsets_full r with
    | Some o => Some (sg, n, o)
    | None => None
    end in
  match negative_int s with
  | Some (z, r) => finish (Some SMinus) (Some (Z.abs_N z)) r
  | None =>
      match plusative_int s with
      | Some (z, r) => finish (Some SPlus) (Some (Z.abs_N z)) r
      | None =>
          match unsigned_int s with
          | Some (n, r) => finish None (Some n) r
          | None =>
              match s with
              | c :: r =>
                  if c =? ch_dash then finish (Some SMinus) None r
                  else if c =? ch_plus then finish (Some SPlus) None r
                  else None
              | [] => None
              end
          end
      end
  end.

(* NB: winnow's `alt` commits to the first alternative that succeeds even if the overall
   `.parse()` then fails on leftover input; [sign_number_offsets] above therefore tries
   the alternatives in order and fails if the chosen one leaves input. *)

Definition neg_of_N (n : N) : Z := Z.opp (Z.of_N n).

Definition disambiguate (v : sview) (l : ploc) : did * str :=
  match l_id l with
  | IdBase => (DBase, l_offs l)
  | IdTop => (match v_applied v with [] => DBase | _ => DTop end, l_offs l)
  | IdBelowTop n => (DFromTop (match n with Some n => neg_of_N n | None => (-1)%Z end), l_offs l)
  | IdBelowLast n => (DFromLast (match n with Some z => Z.opp z | None => 0%Z end), l_offs l)
  | IdName name =>
      if v_has v name then (DName name, l_offs l)
      else
        match best_prefix v name with
        | Some (pn, o) => (DName pn, o ++ l_offs l)
        | None =>
            match (match loc_top name with POk t [] => Some t | _ => None end) with
            | Some t =>
                (match l_id t with
                 | IdTop => DTop
                 | IdBelowTop n => DFromTop (match n with Some n => neg_of_N n | None => (-1)%Z end)
                 | _ => DTop
                 end, l_offs t ++ l_offs l)
            | None =>
                match (match loc_base name with POk t [] => Some t | _ => None end) with
                | Some t => (DBase, l_offs t ++ l_offs l)
                | None =>
                    match (match oid_prefix_offsets name with
                           | Some (p, o) =>
                               if existsb (prefix_matches v p) (v_all v) then Some (p, o) else None
                           | None => None end) with
                    | Some (p, o) => (DCommitId p, o ++ l_offs l)
                    | None =>
                        match sign_number_offsets name with
                        | Some (Some sg, n, o) =>
                            let m := Z.of_N (match n with Some n => n | None => 1 end) in
                            let z := match sg with SPlus => m | SMinus => Z.opp m end in
                            (match v_applied v with [] => DFromBase z | _ => DFromTop z end,
                             o ++ l_offs l)
                        | Some (None, Some n, o) => (DIndex n, o ++ l_offs l)
                        | Some (None, None, o) => (DName name, l_offs l)   (* unreachable *)
                        | None => (DName name, l_offs l)
                        end
                    end
                end
            end
        end
  end.

(* ---------------------------------------------------------------- resolve_name *)

Inductive lerr : Type :=
| EPatchNotKnown | EInvalidPatchIndex | EInvalidPatchOffset | EInvalidOffsetFrom
| EBaseNeedsOffset | EBaseNeedsPositiveOffset | ENoLastPatch | EAmbiguousCommitId
| EPatchNotAllowed | EDuplicate | ENotContiguous | EBoundaryOrder.

Inductive rres (A : Type) : Type :=
| ROk (a : A)
| RErr (e : lerr)
| RPanic.
Arguments ROk {A} a.
Arguments RErr {A} e.
Arguments RPanic {A}.

Definition isize_min_z : Z := (-9223372036854775808)%Z.
Definition isize_max_z : Z := 9223372036854775807%Z.
Definition fits_isize (z : Z) : bool := (isize_min_z <=? z)%Z && (z <=? isize_max_z)%Z.

Definition start_index (v : sview) (d : did) (offs : str) : rres Z :=
  let npatches := Z.of_nat (length (v_all v)) in
  let napplied := Z.of_nat (length (v_applied v)) in
  match d with
  | DName pn =>
      match index_of_str pn (v_all v) with
      | Some i => ROk (Z.of_nat i)
      | None => RErr EPatchNotKnown
      end
  | DCommitId p =>
      match filter (prefix_matches v p) (v_all v) with
      | [] => RPanic
      | [pn] => match index_of_str pn (v_all v) with Some i => ROk (Z.of_nat i) | None => RPanic end
      | _ => RErr EAmbiguousCommitId
      end
  | DTop => ROk (napplied - 1)%Z
  | DBase => match offs with [] => RErr EBaseNeedsOffset | _ => ROk (-1)%Z end
  | DIndex i => if (Z.of_N i <? npatches)%Z then ROk (Z.of_N i) else RErr EInvalidPatchIndex
  | DFromTop o =>
      let idx := (napplied - 1 + o)%Z in
      if fits_isize idx && (0 <=? idx)%Z && (idx <? npatches)%Z then ROk idx
      else RErr EInvalidOffsetFrom
  | DFromBase o =>
      if (o <? 1)%Z then RErr EBaseNeedsPositiveOffset
      else let idx := (o - 1)%Z in
           if (idx <? npatches)%Z then ROk idx else RErr EInvalidOffsetFrom
  | DFromLast o =>
      if (npatches =? 0)%Z then RErr ENoLastPatch
      else
        let visible := Z.of_nat (length (v_applied v) + length (v_unapplied v)) in
        let idx := (visible - 1 + o)%Z in
        if (1 <=? visible)%Z && (0 <=? idx)%Z && (idx <? npatches)%Z then ROk idx
        else RErr EInvalidOffsetFrom
  end.

Definition atom_amount (n : option N) : Z := Z.of_N (match n with Some n => n | None => 1 end).

Fixpoint apply_atoms (npatches : Z) (idx : Z) (atoms : list atom) : option Z :=
  match atoms with
  | [] => Some idx
  | a :: rest =>
      let idx' := match a with
                  | APlus n => (idx + atom_amount n)%Z
                  | ATilde n => (idx - atom_amount n)%Z
                  end in
      if fits_isize idx' && (0 <=? idx')%Z && (idx' <? npatches)%Z
      then apply_atoms npatches idx' rest
      else None
  end.

Definition resolve_name (v : sview) (l : ploc) : rres str :=
  let '(d, offs) := disambiguate v l in
  match start_index v d offs with
  | ROk idx =>
      let '(atoms, rest) := offset_atoms offs in
      match rest with
      | _ :: _ => RPanic                       (* atoms(): "previously validated" *)
      | [] =>
          match apply_atoms (Z.of_nat (length (v_all v))) idx atoms with
          | Some i =>
              match nth_error (v_all v) (Z.to_nat i) with
              | Some pn => if (0 <=? i)%Z then ROk pn else RPanic
              | None => RPanic
              end
          | None => RErr EInvalidPatchOffset
          end
      end
  | RErr e => RErr e
  | RPanic => RPanic
  end.

(* ---------------------------------------------------------------- ranges *)

Inductive rconstraint : Type :=
| RCAll | RCAllApplied | RCVisible | RCVisibleApplied | RCApplied | RCUnapplied | RCHidden.

Inductive lconstraint : Type := LCAll | LCVisible | LCApplied | LCUnapplied | LCHidden.

Definition lc_of (r : rconstraint) : lconstraint :=
  match r with
  | RCAll | RCAllApplied => LCAll
  | RCVisible | RCVisibleApplied => LCVisible
  | RCApplied => LCApplied
  | RCUnapplied => LCUnapplied
  | RCHidden => LCHidden
  end.

Definition use_applied_boundary (r : rconstraint) : bool :=
  match r with RCAllApplied | RCVisibleApplied => true | _ => false end.

Definition allowed (v : sview) (c : lconstraint) : list str :=
  match c with
  | LCAll => v_all v
  | LCVisible => v_applied v ++ v_unapplied v
  | LCApplied => v_applied v
  | LCUnapplied => v_unapplied v
  | LCHidden => v_hidden v
  end.

Definition in_list (n : str) (l : list str) : bool := existsb (str_eqb n) l.

(* PatchName::constrain; location_group panics on an unknown name *)
Definition constrain (v : sview) (c : lconstraint) (n : str) : rres str :=
  let ga := in_list n (v_applied v) in
  let gu := in_list n (v_unapplied v) in
  let gh := in_list n (v_hidden v) in
  if negb (ga || gu || gh) then RPanic
  else
    let ok := match c with
              | LCAll => true
              | LCVisible => ga || gu
              | LCApplied => ga
              | LCUnapplied => negb ga && gu
              | LCHidden => negb ga && negb gu && gh
              end in
    if ok then ROk n else RErr EPatchNotAllowed.

Definition resolve_constrained (v : sview) (c : lconstraint) (l : ploc) : rres str :=
  match resolve_name v l with
  | ROk n => constrain v c n
  | other => other
  end.

Definition resolve_opt (v : sview) (c : lconstraint) (l : option ploc) : rres (option str) :=
  match l with
  | None => ROk None
  | Some l =>
      match resolve_constrained v c l with
      | ROk n => ROk (Some n)
      | RErr e => RErr e
      | RPanic => RPanic
      end
  end.

Definition slice {A} (from to_incl : nat) (l : list A) : list A :=
  firstn (S to_incl - from) (skipn from l).

(* append the selected patches, rejecting duplicates *)
Fixpoint add_unique (acc sel : list str) : rres (list str) :=
  match sel with
  | [] => ROk acc
  | n :: sel' => if in_list n acc then RErr EDuplicate else add_unique (acc ++ [n]) sel'
  end.

Definition end_position (v : sview) (rc : rconstraint) (allowed_l : list str)
           (begin_pos : nat) (e : option str) : rres (option nat) :=
  match e with
  | Some n =>
      match index_of_str n allowed_l with
      | Some i => ROk (Some i)
      | None => RPanic
      end
  | None =>
      if use_applied_boundary rc
         && negb (match v_applied v with [] => true | _ => false end)
         && Nat.ltb begin_pos (length (v_applied v))
      then ROk (Some (length (v_applied v) - 1)%nat)
      else match allowed_l with
           | [] => ROk None                      (* `continue` *)
           | _ => ROk (Some (length allowed_l - 1)%nat)
           end
  end.

Fixpoint resolve_names_loop (v : sview) (rc : rconstraint) (ranges : list prange)
         (acc : list str) : rres (list str) :=
  match ranges with
  | [] => ROk acc
  | RSingle l :: rest =>
      match resolve_constrained v (lc_of rc) l with
      | ROk n => if in_list n acc then RErr EDuplicate
                 else resolve_names_loop v rc rest (acc ++ [n])
      | RErr e => RErr e
      | RPanic => RPanic
      end
  | RRange b e :: rest =>
      let al := allowed v (lc_of rc) in
      match resolve_opt v (lc_of rc) b with
      | RErr err => RErr err
      | RPanic => RPanic
      | ROk bn =>
          match resolve_opt v (lc_of rc) e with
          | RErr err => RErr err
          | RPanic => RPanic
          | ROk en =>
              let bpos := match bn with
                          | Some n => index_of_str n al
                          | None => Some O end in
              match bpos with
              | None => RPanic
              | Some bp =>
                  match end_position v rc al bp en with
                  | RErr err => RErr err
                  | RPanic => RPanic
                  | ROk None => resolve_names_loop v rc rest acc
                  | ROk (Some ep) =>
                      if Nat.ltb (length al) (S (Nat.max bp ep)) then RPanic   (* slice out of range *)
                      else
                        let sel := if Nat.leb bp ep then slice bp ep al
                                   else rev (slice ep bp al) in
                        match add_unique acc sel with
                        | ROk acc' => resolve_names_loop v rc rest acc'
                        | RErr err => RErr err
                        | RPanic => RPanic
                        end
                  end
              end
          end
      end
  end.

Definition resolve_names (v : sview) (rc : rconstraint) (ranges : list prange) : rres (list str) :=
  resolve_names_loop v rc ranges [].

Fixpoint resolve_contig_loop (v : sview) (rc : rconstraint) (ranges : list prange)
         (acc : list str) (next_pos : option nat) : rres (list str) :=
  match ranges with
  | [] => ROk acc
  | RSingle l :: rest =>
      match resolve_constrained v (lc_of rc) l with
      | ROk n =>
          if in_list n acc then RErr EDuplicate
          else
            match index_of_str n (allowed v (lc_of rc)) with
            | None => RPanic
            | Some pos =>
                match next_pos with
                | Some np => if Nat.eqb pos np
                             then resolve_contig_loop v rc rest (acc ++ [n]) (Some (S pos))
                             else RErr ENotContiguous
                | None => resolve_contig_loop v rc rest (acc ++ [n]) (Some (S pos))
                end
            end
      | RErr e => RErr e
      | RPanic => RPanic
      end
  | RRange b e :: rest =>
      let al := allowed v (lc_of rc) in
      match resolve_opt v (lc_of rc) b with
      | RErr err => RErr err
      | RPanic => RPanic
      | ROk bn =>
          match resolve_opt v (lc_of rc) e with
          | RErr err => RErr err
          | RPanic => RPanic
          | ROk en =>
              let bpos := match bn with
                          | Some n => index_of_str n al
                          | None => Some O end in
              match bpos with
              | None => RPanic
              | Some bp =>
                  let contiguous := match next_pos with
                                    | Some np => Nat.eqb bp np
                                    | None => true end in
                  if negb contiguous then RErr ENotContiguous
                  else
                    let order_ok :=
                      match en with
                      | Some n => match index_of_str n al with
                                  | Some ep => negb (Nat.ltb ep bp)
                                  | None => true end
                      | None => true
                      end in
                    if negb order_ok then
                      (* BoundaryOrder evaluates allowed_patches[begin_pos] *)
                      (if Nat.ltb bp (length al) then RErr EBoundaryOrder else RPanic)
                    else
                      match end_position v rc al bp en with
                      | RErr err => RErr err
                      | RPanic => RPanic
                      | ROk None => resolve_contig_loop v rc rest acc next_pos
                      | ROk (Some ep) =>
                          if Nat.ltb (length al) (S ep) || Nat.ltb (S ep) bp then RPanic
                          else
                            match add_unique acc (slice bp ep al) with
                            | ROk acc' => resolve_contig_loop v rc rest acc' (Some (S ep))
                            | RErr err => RErr err
                            | RPanic => RPanic
                            end
                      end
              end
          end
      end
  end.

Definition resolve_names_contiguous (v : sview) (rc : rconstraint) (ranges : list prange)
  : rres (list str) :=
  resolve_contig_loop v rc ranges [] None.
