(* Classification of the potential panic sites (unwrap / expect / assert* / panic! /
   unreachable! / indexing) of the modules the model covers.  The translator regenerates the
   current list from /repo/src on every run (Gen/PanicSites.v); theorem C20_sites_classified
   requires every current site to be in this reviewed list, so a new site (or a changed
   expression at an old site) breaks the obligation and triggers the search.

   Review notes (by module):
   - patch/name.rs, patch/parse/*, patch/locator.rs, patch/range.rs, patch/offset.rs,
     stack/access.rs: transcribed in Model/Name.v / Model/Locator.v; reachability of each
     `Panic`/`RPanic` outcome is decided by C14_make_valid, C15_resolve_sound,
     C15_ranges_sound (never reached for well-formed input).
   - stack/transaction/mod.rs, stack/stack.rs, stack/state.rs, cmd/*.rs: transcribed as TPanic /
     XPanic outcomes in Model/Stack.v / Model/Cmd.v; reachability decided by C20_step_no_panic
     outside the known class F6.
   - signal.rs, builder.rs: start-up invariants (`with_output_stream` always called). *)
From Coq Require Import List String.
Import ListNotations.
Open Scope string_scope.

Definition classified_sites : list (string * string * string * string) := [("patch/name.rs", "make", "unwrap", "len_limit");
     ("patch/name.rs", "make", "expect", "Self :: from_str (short)");
     ("patch/name.rs", "make", "expect", "Self :: from_str (candidate)");
     ("patch/name.rs", "uniquify", "index", "inner [inner . len () - num_digits ..]");
     ("patch/name.rs", "from_str", "unwrap", "name . strip_prefix ('\\')");
     ("patch/locator.rs", "resolve_name", "panic", """disambiguation should prevent this""");
     ("patch/locator.rs", "resolve_name", "index", "matching_names [0]");
     ("patch/locator.rs", "resolve_name", "unwrap", "patchnames_string (& matching_names)");
     ("patch/locator.rs", "resolve_name", "unwrap", "new_index");
     ("patch/locator.rs", "resolve_name", "index", "patches [index as usize]");
     ("patch/locator.rs", "resolve_revision", "panic", """disambiguation should prevent this""");
     ("patch/locator.rs", "resolve_revision", "index", "matching_names [0]");
     ("patch/locator.rs", "resolve_revision", "unwrap", "patchnames_string (& matching_names)");
     ("patch/locator.rs", "resolve_revision", "unwrap", "new_index");
     ("patch/locator.rs", "resolve_revision", "index", "patches [index as usize]");
     ("patch/locator.rs", "resolve_revision", "unwrap", "index . unsigned_abs () . checked_sub (1)");
     ("patch/locator.rs", "disambiguate", "panic", "");
     ("patch/locator.rs", "disambiguate", "expect", "isize :: try_from (n)");
     ("patch/locator.rs", "disambiguate", "expect", "0isize . checked_sub_unsigned (n)");
     ("patch/locator.rs", "disambiguate", "expect", "maybe_n");
     ("patch/locator.rs", "patchnames_string", "unwrap", "write ! (& mut s , ""`{pn}`, "")");
     ("patch/locator.rs", "patchnames_string", "unwrap", "patchnames . last ()");
     ("patch/locator.rs", "patchnames_string", "unwrap", "write ! (& mut s , ""and `{last_pn}`"")");
     ("patch/range.rs", "resolve_names", "expect", "allowed_patches . iter () . position (| & pn | pn == & patchname)");
     ("patch/range.rs", "resolve_names", "expect", "allowed_patches . iter () . position (| & pn | pn == & patchname)");
     ("patch/range.rs", "resolve_names", "index", "allowed_patches [begin_pos ..= end_pos]");
     ("patch/range.rs", "resolve_names", "index", "allowed_patches [end_pos ..= begin_pos]");
     ("patch/range.rs", "resolve_names_contiguous", "expect", "allowed_patches . iter () . position (| & pn | pn == & patchname)");
     ("patch/range.rs", "resolve_names_contiguous", "unwrap", "prev_range");
     ("patch/range.rs", "resolve_names_contiguous", "expect", "allowed_patches . iter () . position (| & pn | pn == & patchname)");
     ("patch/range.rs", "resolve_names_contiguous", "index", "allowed_patches [begin_pos]");
     ("patch/range.rs", "resolve_names_contiguous", "index", "allowed_patches [begin_pos ..= end_pos]");
     ("patch/range.rs", "resolve_names_contiguous", "expect", "allowed_patches . iter () . position (| & pn | pn == & patchname)");
     ("patch/range.rs", "resolve_names_contiguous", "unwrap", "prev_range");
     ("patch/offset.rs", "atoms", "expect", "super :: parse :: patch_offset_atoms . parse_peek (& self . 0)");
     ("patch/parse/name.rs", "patch_name", "index", "input [.. split_offset]");
     ("stack/access.rs", "", "expect", "self . all_patches () . position (| pn | pn == patchname)");
     ("stack/access.rs", "", "expect", "iter . find_map (| (i , pn) | { if pn == patchname { Some ((i , true))");
     ("stack/access.rs", "", "expect", "iter . find_map (| (i , pn) | (pn == ref_patchname) . then_some (i))");
     ("stack/access.rs", "", "expect", "(index1 - index0) . try_into ()");
     ("stack/access.rs", "", "expect", "(index0 + 1) . try_into ()");
     ("stack/access.rs", "", "expect", "iter . find_map (| (i , pn) | (pn == patchname) . then_some (i))");
     ("stack/access.rs", "", "expect", "(index1 - index0) . try_into ()");
     ("stack/access.rs", "", "panic", """BUG: location_group() must be called with known patch name""");
     ("stack/state.rs", "get_patch", "index", "self . patches [patchname]");
     ("stack/state.rs", "top", "index", "self . patches [patchname]");
     ("stack/state.rs", "top", "index", "self . patches [patchname]");
     ("stack/state.rs", "commit", "index", "self . patches [patchname]");
     ("stack/state.rs", "commit", "index", "self . patches [patchname]");
     ("stack/state.rs", "commit", "unwrap", "prev_state . as_ref ()");
     ("stack/state.rs", "commit", "index", "prev_state . patches [patchname]");
     ("stack/state.rs", "make_patch_meta", "index", "self . patches [patchname]");
     ("stack/stack.rs", "from_branch", "unwrap", "state . patches [first_patchname] . commit . parent_ids () . next ()");
     ("stack/stack.rs", "from_branch", "index", "state . patches [first_patchname]");
     ("stack/stack.rs", "log_external_mods", "assert", "self . is_initialized , ""Attempt to log stack state when uninitialized");
     ("stack/stack.rs", "ensure_patch_refs", "expect", "existing_refname . strip_prefix (& patch_ref_prefix)");
     ("stack/transaction/mod.rs", "execute", "assert", "transaction . stack . has_patch (patchname)");
     ("stack/transaction/mod.rs", "execute", "assert", "transaction . all_patches () . any (| pn | pn == patchname)");
     ("stack/transaction/mod.rs", "execute", "unwrap", "error");
     ("stack/transaction/mod.rs", "execute", "expect", "gix :: refs :: FullName :: try_from (stack . patch_refname (patchname)");
     ("stack/transaction/mod.rs", "execute", "expect", "gix :: refs :: FullName :: try_from (stack . get_stack_refname ())");
     ("stack/transaction/mod.rs", "reset_to_state", "index", "patches [pn]");
     ("stack/transaction/mod.rs", "reset_to_state_partially", "index", "state . patches [pn]");
     ("stack/transaction/mod.rs", "new_applied", "assert_eq", "commit . parent_ids () . next () . unwrap () . detach () , self . top ");
     ("stack/transaction/mod.rs", "push_tree", "unwrap", "patch_commit . parent_ids () . next ()");
     ("stack/transaction/mod.rs", "push_tree", "panic", """push_tree `{patchname}` was not in unapplied or hidden""");
     ("stack/transaction/mod.rs", "repair_appliedness", "expect", "old . shift_take (pn)");
     ("stack/transaction/mod.rs", "repair_appliedness", "assert", "old . is_empty () , ""all old patchnames must be in the new applied/una");
     ("stack/transaction/mod.rs", "reorder_patches", "index", "self . applied [num_common ..]");
     ("stack/transaction/mod.rs", "reorder_patches", "index", "applied [num_common ..]");
     ("stack/transaction/mod.rs", "reorder_patches", "assert_eq", "self . applied , applied");
     ("stack/transaction/mod.rs", "commit_patches", "index", "self . applied () [num_common ..]");
     ("stack/transaction/mod.rs", "commit_patches", "index", "to_commit [num_common ..]");
     ("stack/transaction/mod.rs", "commit_patches", "unwrap", "to_commit . last ()");
     ("stack/transaction/mod.rs", "rename_patch", "index", "self . applied [pos]");
     ("stack/transaction/mod.rs", "rename_patch", "index", "self . unapplied [pos]");
     ("stack/transaction/mod.rs", "rename_patch", "index", "self . hidden [pos]");
     ("stack/transaction/mod.rs", "rename_patch", "panic", """old `{old_patchname}` not found in applied, unapplied, or hidden""");
     ("stack/transaction/mod.rs", "delete_patches", "index", "self . hidden [i]");
     ("stack/transaction/mod.rs", "get_patch", "expect", "maybe_patch . as_ref ()");
     ("stack/transaction/builder.rs", "transact", "expect", "output");
     ("stack/transaction/builder.rs", "transact", "expect", "stack . get_branch_head () . tree_id ()");
     ("cmd/pop.rs", "run", "assert", "! patches . is_empty ()");
     ("cmd/goto.rs", "run", "expect", "matches . get_one :: < PatchLocator > (""patch"")");
     ("cmd/goto.rs", "run", "index", "trans . applied () [0 ..= pos]");
     ("cmd/goto.rs", "run", "index", "trans . applied () [pos + 1 ..]");
     ("cmd/goto.rs", "run", "expect", "trans . unapplied () . iter () . position (| pn | pn == & patchname)");
     ("cmd/goto.rs", "run", "index", "trans . unapplied () [0 ..= pos]");
     ("cmd/float.rs", "run", "expect", "matches . get_many :: < PatchRange > (""patchranges"")");
     ("cmd/sink.rs", "run", "expect", "remaining_applied . iter () . position (| pn | pn == target_patch)");
     ("cmd/hide.rs", "run", "expect", "matches . get_many :: < PatchRange > (""patchranges"")");
     ("cmd/unhide.rs", "run", "expect", "matches . get_many :: < PatchRange > (""patchranges-hidden"")");
     ("cmd/commit.rs", "run", "unwrap", "applied_and_unapplied . iter () . position (| pn1 | & pn0 == pn1)");
     ("cmd/commit.rs", "run", "index", "stack . applied () [0 .. number]");
     ("cmd/uncommit.rs", "run", "index", "bases [0]");
     ("cmd/uncommit.rs", "run", "unwrap", "prefixes . next ()");
     ("cmd/uncommit.rs", "run", "assert_eq", "commits . len () , patchnames . len ()");
     ("cmd/repair.rs", "run", "unwrap", "todo . pop ()");
     ("cmd/undo.rs", "parse_undo_redo_message", "index", "fields [1]");
     ("cmd/undo.rs", "parse_undo_redo_message", "index", "fields [0]");
     ("cmd/undo.rs", "parse_undo_redo_message", "index", "fields [0]");
     ("cmd/reset.rs", "run", "unreachable", "");
     ("cmd/rename.rs", "run", "expect", "matches . get_many :: < String > (""patches"")");
     ("cmd/rename.rs", "run", "index", "patch_args [0]");
     ("cmd/rename.rs", "run", "index", "patch_args [0]");
     ("cmd/rename.rs", "run", "index", "patch_args [0]");
     ("cmd/rename.rs", "run", "index", "patch_args [1]");
     ("cmd/rename.rs", "run", "unreachable", "");
     ("cmd/new.rs", "run", "expect", "new_patchname . or (patchname)");
     ("cmd/new.rs", "run", "expect", "new_commit_id")].

Definition site_eqb (a b : string * string * string * string) : bool :=
  let '(a1, a2, a3, a4) := a in
  let '(b1, b2, b3, b4) := b in
  String.eqb a1 b1 && String.eqb a2 b2 && String.eqb a3 b3 && String.eqb a4 b4.

Definition all_classified (sites : list (string * string * string * string)) : bool :=
  forallb (fun s => existsb (site_eqb s) classified_sites) sites.
