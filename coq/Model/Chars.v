(* Characters and strings as the Rust code sees them.

   A Rust `char` is a Unicode scalar value: modelled as [N].  A Rust `str`/`String` is a
   sequence of chars: modelled as [list N].  Byte lengths (`str::len`) are computed with
   [utf8_len].  Only executable definitions live here (no proofs). *)

From Coq Require Export List NArith Bool.
Export ListNotations.
Open Scope N_scope.

Definition str := list N.

(* ---- single character classes, exactly the Rust std predicates used by stgit ---- *)

Definition is_ascii (c : N) : bool := c <? 128.

Definition is_ascii_digit (c : N) : bool := (48 <=? c) && (c <=? 57).
Definition is_ascii_upper (c : N) : bool := (65 <=? c) && (c <=? 90).
Definition is_ascii_lower (c : N) : bool := (97 <=? c) && (c <=? 122).
Definition is_ascii_alnum (c : N) : bool :=
  is_ascii_digit c || is_ascii_upper c || is_ascii_lower c.
Definition is_ascii_hexdigit (c : N) : bool :=
  is_ascii_digit c || ((65 <=? c) && (c <=? 70)) || ((97 <=? c) && (c <=? 102)).

(* char::is_ascii_whitespace: space, \t, \n, \x0C, \r  (NOT \x0B) *)
Definition is_ascii_whitespace (c : N) : bool :=
  (c =? 32) || (c =? 9) || (c =? 10) || (c =? 12) || (c =? 13).

(* char::is_control: general category Cc = U+0000..U+001F, U+007F..U+009F *)
Definition is_control (c : N) : bool := (c <=? 31) || ((127 <=? c) && (c <=? 159)).

(* char::is_whitespace: the Unicode White_Space property *)
Definition is_whitespace (c : N) : bool :=
  ((9 <=? c) && (c <=? 13)) || (c =? 32) || (c =? 133) || (c =? 160) || (c =? 5760)
  || ((8192 <=? c) && (c <=? 8202)) || (c =? 8232) || (c =? 8233) || (c =? 8239)
  || (c =? 8287) || (c =? 12288).

(* ASCII case mapping: what to_ascii_lowercase / eq_ignore_ascii_case use, and what
   char::to_lowercase does on ASCII. *)
Definition ascii_lower (c : N) : N := if is_ascii_upper c then c + 32 else c.

(* ---- named characters ---- *)
Definition ch_nl := 10.   Definition ch_cr := 13.   Definition ch_space := 32.
Definition ch_dash := 45. Definition ch_dot := 46.  Definition ch_slash := 47.
Definition ch_colon := 58. Definition ch_qmark := 63. Definition ch_at := 64.
Definition ch_lbrack := 91. Definition ch_bslash := 92. Definition ch_caret := 94.
Definition ch_uscore := 95. Definition ch_lbrace := 123. Definition ch_rbrace := 125.
Definition ch_tilde := 126. Definition ch_del := 127. Definition ch_star := 42.
Definition ch_plus := 43.

(* "patch", ".lock", "{base}", "@", "-1" *)
Definition s_patch : str := [112; 97; 116; 99; 104].
Definition s_dotlock : str := [46; 108; 111; 99; 107].
Definition s_base : str := [123; 98; 97; 115; 101; 125].
Definition s_at : str := [64].

(* ---- strings ---- *)

Fixpoint str_eqb (a b : str) : bool :=
  match a, b with
  | [], [] => true
  | x :: a', y :: b' => (x =? y) && str_eqb a' b'
  | _, _ => false
  end.

Definition utf8_width (c : N) : N :=
  if c <? 128 then 1 else if c <? 2048 then 2 else if c <? 65536 then 3 else 4.

Fixpoint utf8_len (s : str) : N :=
  match s with
  | [] => 0
  | c :: s' => utf8_width c + utf8_len s'
  end.

Fixpoint starts_with (p s : str) : bool :=
  match p, s with
  | [], _ => true
  | x :: p', y :: s' => (x =? y) && starts_with p' s'
  | _ :: _, [] => false
  end.

Definition ends_with (suffix s : str) : bool := starts_with (rev suffix) (rev s).

(* drop elements satisfying f from the front *)
Fixpoint drop_while (f : N -> bool) (s : str) : str :=
  match s with
  | [] => []
  | c :: s' => if f c then drop_while f s' else s
  end.

Definition trim_start_by (f : N -> bool) (s : str) : str := drop_while f s.
Definition trim_end_by (f : N -> bool) (s : str) : str := rev (drop_while f (rev s)).
Definition trim_by (f : N -> bool) (s : str) : str := trim_end_by f (trim_start_by f s).

(* str::trim *)
Definition trim (s : str) : str := trim_by is_whitespace s.

(* str::trim_end_matches(pat: &str): remove every trailing repetition of pat.
   Operates on the reversed string so that recursion is structural on fuel = length. *)
Fixpoint strip_prefix_rep (fuel : nat) (p s : str) : str :=
  match fuel with
  | O => s
  | S fuel' =>
      match p with
      | [] => s
      | _ => if starts_with p s then strip_prefix_rep fuel' p (skipn (length p) s) else s
      end
  end.

Definition trim_end_matches_str (pat s : str) : str :=
  rev (strip_prefix_rep (length s) (rev pat) (rev s)).

(* split on a separator character (str::split(char)): always at least one piece *)
Fixpoint split_on_aux (sep : N) (s : str) (cur : str) : list str :=
  match s with
  | [] => [rev cur]
  | c :: s' => if c =? sep then rev cur :: split_on_aux sep s' [] else split_on_aux sep s' (c :: cur)
  end.
Definition split_on (sep : N) (s : str) : list str := split_on_aux sep s [].

(* str::lines(): split_inclusive on \n; a piece that ended in \n loses it and then one
   trailing \r; the final piece (not newline-terminated) is yielded as is unless empty. *)
Definition strip_cr (l : str) : str :=
  match rev l with
  | c :: r => if c =? ch_cr then rev r else l
  | [] => l
  end.

Definition lines (s : str) : list str :=
  match rev (split_on ch_nl s) with
  | [] => []
  | last :: rinit =>
      map strip_cr (rev rinit) ++ match last with [] => [] | _ => [last] end
  end.

Fixpoint join_with (sep : N) (l : list str) : str :=
  match l with
  | [] => []
  | [w] => w
  | w :: l' => w ++ sep :: join_with sep l'
  end.

(* decimal rendering of a natural number (Rust `{n}` for unsigned integers) *)
Definition digit_char (d : N) : N := 48 + d.

Fixpoint dec_digits_fuel (fuel : nat) (n : N) (acc : str) : str :=
  match fuel with
  | O => acc
  | S fuel' =>
      let acc' := digit_char (n mod 10) :: acc in
      if n <? 10 then acc' else dec_digits_fuel fuel' (n / 10) acc'
  end.

Definition dec_of_N (n : N) : str := dec_digits_fuel (S (N.to_nat (N.log2 n))) n [].

(* value of a decimal digit string, most significant digit first *)
Definition parse_dec (s : str) : N := fold_left (fun acc c => acc * 10 + (c - 48)) s 0.

Definition all_digits (s : str) : bool := forallb is_ascii_digit s.
