(* The order of the publication-relevant events in the stgit sources that the hand-written
   protocol / state-commit model assumes (Model/Protocol.v, Model/Stack.v state_commit,
   log_external_mods, checkout).  The translator regenerates the same lists from
   /repo/src on every run (Gen/ExecOrder.v); theorems of the form
   `Gen.execute_events = expected_execute_events` tie the model to the current source.

   How to read execute_events (src/stack/transaction/mod.rs, fn execute):
   early return on a non-halt error; log_external_mods when head != top; the rollback closure
   (checkout old_tree -> rollback_tree); checkout(current -> trans head) guarded by
   set_head && use_index_and_worktree with map_err(rollback(current_tree_id)); then
   signal::critical { read the state ref; fill the state; state.commit (all objects);
   build ref edits: patch refs (expected Any), state ref (ExistingMustMatch(prev just
   read) | MustNotExist), branch ref (Any) if set_head; edit_references; update_head }
   with map_err(rollback(trans_head_tree_id)). *)
From Coq Require Import List String.
Import ListNotations.
Open Scope string_scope.
Definition expected_execute_events : list string := ["return Err(anyhow!(""StGitstacknotin";
     "return Err(error.unwrap())";
     "is_head_top()";
     "log_external_mods()";
     "call checkout(old_tree_id->rollback_tree_id)";
     "return checkout_err";
     "print_rolled_back()";
     "return print_err";
     "if options . set_head && options . use_index_and_worktree";
     "if ! options . allow_bad_head";
     "check_head_top_mismatch()";
     "call checkout(current_tree_id->trans_head_tree_id)";
     "call rollback(current_tree_id)";
     "call crate::signal::critical";
     "find_reference(state-ref)";
     "insert(state.patches<-patchname.clone(),patch.clone())";
     "commit(repo,None,state_reflog_msg)";
     "Change::Update expected=Any";
     "Change::Delete expected=Any";
     "ref_edits.push patch update expected=";
     "ref_edits.push state update expected=ExistingMustMatch|MustNotExist";
     "Change::Update expected=ExistingMustMatch|MustNotExist";
     "if options . set_head";
     "ref_edits.push branch update expected=Any";
     "Change::Update expected=Any";
     "edit_references()";
     "if options . set_head";
     "update_head()";
     "find_reference(branch-ref)";
     "call rollback(trans_head_tree_id)"].
Definition expected_checkout_events : list string := ["if current_tree_id == tree_id && ! options . discard_changes";
     "check_conflicts()";
     "check_conflicts()";
     "if options . discard_changes";
     "read_tree_checkout_hard()";
     "update_index_refresh()";
     "read_tree_checkout(current_tree_id,tree_id)"].
Definition expected_critical_events : list string := ["store(CRITICAL<-true,Ordering::SeqCst)";
     "store(CRITICAL<-false,Ordering::SeqCst)";
     "if SIGNALED . load (Ordering :: SeqCst)";
     "load(SIGNALED<-Ordering::SeqCst)";
     "store(SIGNALED<-false,Ordering::SeqCst)";
     "if result . is_ok ()";
     "call std::process::exit"].
Definition expected_signal_setup_events : list string := ["if SIGNALED . load (Ordering :: SeqCst) || ! CRITICAL . load (Ordering :: SeqCst)";
     "load(SIGNALED<-Ordering::SeqCst)";
     "load(CRITICAL<-Ordering::SeqCst)";
     "call std::process::exit";
     "store(SIGNALED<-true,Ordering::SeqCst)"].
Definition expected_log_external_mods_events : list string := ["find_reference(state-ref)";
     "advance_head(self.branch_head.clone(),Rc::new(prev_state_commit))";
     "commit(self.repo,None,message)";
     "edit_reference()";
     "Change::Update expected=ExistingMustMatch"].
Definition expected_state_commit_events : list string := ["make_tree(repo,Some((&prev_state,prev_commit.tree()?)))";
     "make_tree(repo,None)";
     "commit_with_options(author,committer,&message,state_tree_id,simplified_parents,&commit_opt)";
     "insert(parent_set<-self.head.id)";
     "insert(parent_set<-self.top().id)";
     "insert(parent_set<-self.patches[patchname].commit.id)";
     "insert(parent_set<-self.patches[patchname].commit.id)";
     "insert(parent_set<-prev_commit.id)";
     "shift_remove(parent_set<-&prev_state.patches[patchname].commit.id)";
     "while parent_oids . len () > MAX_PARENTS";
     "drain(parent_oids<-parent_oids.len()-MAX_PARENTS..parent_oids.len())";
     "commit_with_options(author,committer,&Message::from(""parentgrouping""),state_tree_id,parent)";
     "insert(parent_oids<-0,simplified_parent_id)";
     "commit_with_options(author,committer,&message,state_tree_id,parent_oids,&commit_opts)";
     "reference(refname,commit_oid,gix::refs::transaction::PreviousValue::Any,message.)"].
