(* Specification-side definitions for the protocol theorems (C03, C04, C11, C19). *)
From StgV Require Export Model.Protocol.

Definition unchanged (w0 w : pworld) : Prop := pw_refs w = pw_refs w0 /\ pw_wt w = pw_wt w0.

(* Known classes of fault positions where a command error does NOT leave everything as it
   was (see DESIGN.md / known_findings.json): a fault after the closure's work-tree merge,
   a fault after log_external_mods has published, a failure after publication.
   PtAfterCheckout has no fallible operation in the real code (hook-only position). *)
Definition known_c03 (pl : txplan) (p : point) : Prop :=
  (p_wt_merge pl <> None /\ (2 <= point_index p)%nat)
  \/ (p_extmods pl <> None /\ (extmods_index pl <= point_index p)%nat)
  \/ p = PtAfterCheckout \/ p = PtCritAfterEdit \/ p = PtAfterCrit.

(* the values the state ref may hold after a crash *)
Definition stack_ref_two_valued (pl : txplan) (w0 w : pworld) : Prop :=
  ref_get (pw_refs w) RStack = ref_get (pw_refs w0) RStack
  \/ ref_get (pw_refs w) RStack = p_extmods pl
  \/ ref_get (pw_refs w) RStack = Some (p_new_state pl).

(* every ref either keeps its old value or holds a value the plan wants to publish; no ref
   ever points at anything else (objects are all written before the first ref moves) *)
Definition plan_values (pl : txplan) : list N :=
  p_new_state pl :: p_new_head pl
  :: (match p_extmods pl with Some s => [s] | None => [] end)
  ++ flat_map (fun pu => match snd pu with Some v => [v] | None => [] end) (p_patch_updates pl).

Definition no_foreign_value (pl : txplan) (w0 w : pworld) : Prop :=
  forall n v, ref_get (pw_refs w) n = Some v ->
    ref_get (pw_refs w0) n = Some v \/ In v (plan_values pl).

(* a process published a state computed from a stale load *)
Definition lost_update (p : proc) : Prop :=
  pr_done p = true /\ pr_failed p = false /\ pr_loaded p <> pr_prev_read p.
