(* Connecting the abstract log (Model/Log.v) with the object store of Model/Stack.v. *)
From StgV Require Export Model.Log Model.Stack Model.Cmd.

(* the log of state commit [so]: follow s_prev; fuel bounds the walk (prev links point to
   strictly older objects in every reachable world) *)
Fixpoint log_of (fuel : nat) (objs : store) (so : oid) : list (entry sstate) :=
  match fuel with
  | O => []
  | S fuel' =>
      match get objs so with
      | Some c =>
          match c_state c with
          | Some st =>
              let e := match c_msg c with
                       | MUndo n => EUndo n st
                       | MRedo n => ERedo n st
                       | _ => EOp st
                       end in
              e :: match s_prev st with
                   | Some p => log_of fuel' objs p
                   | None => []
                   end
          | None => []
          end
      | None => []
      end
  end.

(* prev links of state commits point to strictly older objects *)
Definition prev_decreasing (objs : store) : Prop :=
  forall so s p, state_of objs so = Some s -> s_prev s = Some p -> (p < so)%nat.

(* observable equality of states: the three lists, every patch's commit, the head *)
Definition same_stack (a b : sstate) : Prop :=
  s_applied a = s_applied b /\ s_unapplied a = s_unapplied b /\ s_hidden a = s_hidden b
  /\ s_head a = s_head b
  /\ (forall n, pm_get (s_patches a) n = pm_get (s_patches b) n).
