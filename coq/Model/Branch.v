(* Branch administration (C17): the three ref namespaces keyed by branch name and the
   `branch.<name>[.stgit]` config sections, as manipulated by
     src/stack/stack.rs      deinitialize, ensure_patch_refs, is_protected, set_protected
     src/cmd/branch/*.rs     clone, rename, delete, cleanup, protect, unprotect
   Executable definitions only.  The object store is immutable here: a stack state commit
   is identified by its id, `b_states` gives the patches (all three lists) it records.  git's
   own behaviour (branch --move/--copy, ref deletion, directory/file conflicts between ref
   names, config section rename) is modelled, not verified. *)
From Coq Require Import List NArith Bool.
From StgV Require Import Model.Chars.
Import ListNotations.
Open Scope N_scope.

Definition s_refs_heads : str :=
  [114; 101; 102; 115; 47; 104; 101; 97; 100; 115; 47].             (* refs/heads/ *)
Definition s_refs_stacks : str :=
  [114; 101; 102; 115; 47; 115; 116; 97; 99; 107; 115; 47].         (* refs/stacks/ *)
Definition s_refs_patches : str :=
  [114; 101; 102; 115; 47; 112; 97; 116; 99; 104; 101; 115; 47].    (* refs/patches/ *)
Definition s_dot_stgit : str := [46; 115; 116; 103; 105; 116].      (* .stgit *)
Definition s_protect : str := [112; 114; 111; 116; 101; 99; 116].   (* protect *)
Definition s_true : str := [116; 114; 117; 101].                    (* true *)
Definition s_parentbranch : str :=
  [112; 97; 114; 101; 110; 116; 98; 114; 97; 110; 99; 104].         (* parentbranch *)
Definition s_description : str :=
  [100; 101; 115; 99; 114; 105; 112; 116; 105; 111; 110].           (* description *)
Definition s_clone_of : str := [99; 108; 111; 110; 101; 32; 111; 102; 32].  (* "clone of " *)

Definition head_ref (b : str) : str := s_refs_heads ++ b.
Definition stack_ref (b : str) : str := s_refs_stacks ++ b.
Definition patch_prefix (b : str) : str := s_refs_patches ++ b ++ [ch_slash].
Definition patch_ref (b n : str) : str := patch_prefix b ++ n.
Definition stgit_sub (b : str) : str := b ++ s_dot_stgit.

Definition cfgent : Type := (str * str * str)%type.   (* subsection of [branch], key, value *)
Definition ce_sub (e : cfgent) : str := fst (fst e).
Definition ce_key (e : cfgent) : str := snd (fst e).
Definition ce_val (e : cfgent) : str := snd e.

Record brepo : Type := mkB {
  b_refs : list (str * N);                    (* full ref name -> object id, names unique *)
  b_cfg : list cfgent;                        (* local config, [branch "<sub>"] sections *)
  b_head : option str;                        (* current branch, None when detached *)
  b_states : list (N * list (str * N))        (* state commit id -> every patch it records *)
}.

(* ---------------------------------------------------------------- refs and config *)

Fixpoint ref_get (r : list (str * N)) (k : str) : option N :=
  match r with
  | [] => None
  | (k', v) :: r' => if str_eqb k' k then Some v else ref_get r' k
  end.

Definition ref_del (r : list (str * N)) (k : str) : list (str * N) :=
  filter (fun kv => negb (str_eqb (fst kv) k)) r.

Definition ref_del_prefix (r : list (str * N)) (p : str) : list (str * N) :=
  filter (fun kv => negb (starts_with p (fst kv))) r.

Definition ref_set (r : list (str * N)) (k : str) (v : N) : list (str * N) :=
  ref_del r k ++ [(k, v)].

Definition cfg_get (c : list cfgent) (sub key : str) : option str :=
  match filter (fun e => str_eqb (ce_sub e) sub && str_eqb (ce_key e) key) c with
  | [] => None
  | e :: _ => Some (ce_val e)
  end.

Definition cfg_del_key (c : list cfgent) (sub key : str) : list cfgent :=
  filter (fun e => negb (str_eqb (ce_sub e) sub && str_eqb (ce_key e) key)) c.

Definition cfg_set (c : list cfgent) (sub key v : str) : list cfgent :=
  cfg_del_key c sub key ++ [(sub, key, v)].

Definition cfg_remove_section (c : list cfgent) (sub : str) : list cfgent :=
  filter (fun e => negb (str_eqb (ce_sub e) sub)) c.

Definition cfg_has_section (c : list cfgent) (sub : str) : bool :=
  existsb (fun e => str_eqb (ce_sub e) sub) c.

Definition cfg_rename_section (c : list cfgent) (old new : str) : list cfgent :=
  map (fun e => if str_eqb (ce_sub e) old then (new, ce_key e, ce_val e) else e) c.

(* git branch --copy: the new section is a copy of the old one (an existing one is replaced) *)
Definition cfg_copy_section (c : list cfgent) (old new : str) : list cfgent :=
  cfg_remove_section c new ++
  map (fun e => (new, ce_key e, ce_val e)) (filter (fun e => str_eqb (ce_sub e) old) c).

(* ---------------------------------------------------------------- git's ref-name rules *)

(* a and b cannot both be loose refs below the same namespace *)
Definition df_conflict (a b : str) : bool :=
  starts_with (a ++ [ch_slash]) b || starts_with (b ++ [ch_slash]) a.

(* names (below namespace ns) of the existing refs *)
Definition names_under (ns : str) (r : list (str * N)) : list str :=
  map (fun kv => skipn (length ns) (fst kv)) (filter (fun kv => starts_with ns (fst kv)) r).

(* may `name` be created below ns, ignoring directory/file conflicts with the ref called
   `except` (about to be moved away); renaming a branch to itself is refused (fix F34) *)
Definition name_free (ns : str) (r : list (str * N)) (except : option str) (name : str) : bool :=
  forallb (fun x =>
             match except with
             | Some e => if str_eqb x e then negb (str_eqb x name) else
                           negb (str_eqb x name) && negb (df_conflict x name)
             | None => negb (str_eqb x name) && negb (df_conflict x name)
             end) (names_under ns r).

(* ---------------------------------------------------------------- stack bookkeeping *)

Fixpoint state_get (s : list (N * list (str * N))) (id : N) : option (list (str * N)) :=
  match s with
  | [] => None
  | (i, ps) :: s' => if i =? id then Some ps else state_get s' id
  end.

(* the patches of branch b's stack, when it has one *)
Definition stack_patches (r : brepo) (b : str) : option (list (str * N)) :=
  match ref_get (b_refs r) (stack_ref b) with
  | Some id => state_get (b_states r) id
  | None => None
  end.

Definition has_stack (r : brepo) (b : str) : bool :=
  match ref_get (b_refs r) (head_ref b), stack_patches r b with
  | Some _, Some _ => true
  | _, _ => false
  end.

(* ensure_patch_refs: afterwards the refs below refs/patches/<b>/ are exactly the patches *)
Definition ensure_patch_refs (refs : list (str * N)) (b : str) (ps : list (str * N))
  : list (str * N) :=
  ref_del_prefix refs (patch_prefix b) ++ map (fun p => (patch_ref b (fst p), snd p)) ps.

(* Stack::from_branch_name(.., RequireInitialized) *)
Definition open_stack (r : brepo) (b : str) : option brepo :=
  match ref_get (b_refs r) (head_ref b), stack_patches r b with
  | Some _, Some ps =>
      Some (mkB (ensure_patch_refs (b_refs r) b ps) (b_cfg r) (b_head r) (b_states r))
  | _, _ => None
  end.

Definition is_protected (r : brepo) (b : str) : bool :=
  match cfg_get (b_cfg r) (stgit_sub b) s_protect with
  | Some v => str_eqb v s_true
  | None => false
  end.

(* Stack::deinitialize *)
Definition deinitialize (r : brepo) (b : str) : brepo :=
  mkB (ref_del (ref_del_prefix (b_refs r) (patch_prefix b)) (stack_ref b))
      (cfg_remove_section (b_cfg r) (stgit_sub b))
      (b_head r) (b_states r).

Definition set_parent (c : list cfgent) (b : str) (parent : option str) : list cfgent :=
  match parent with
  | Some p => cfg_set c (stgit_sub b) s_parentbranch p
  | None => cfg_del_key c (stgit_sub b) s_parentbranch
  end.

(* ---------------------------------------------------------------- the sub-commands *)

(* every operation returns the new repository and whether the command succeeded; a refused
   command returns the repository it was given *)
Definition refuse (r : brepo) : brepo * bool := (r, false).

(* stg branch --cleanup [--force] b *)
Definition cleanup (r : brepo) (b : str) (force : bool) : brepo * bool :=
  match open_stack r b with
  | None => refuse r
  | Some r1 =>
      if is_protected r1 b then (r1, false)
      else match stack_patches r1 b with
           | Some ps =>
               if negb force && negb (Nat.eqb (length ps) 0) then (r1, false)
               else (deinitialize r1 b, true)
           | None => (r1, false)
           end
  end.

(* stg branch --delete [--force] b *)
Definition delete (r : brepo) (b : str) (force : bool) : brepo * bool :=
  match ref_get (b_refs r) (head_ref b) with
  | None => refuse r
  | Some _ =>
      let switch : option (option str) :=       (* None: refuse; Some None: no switch *)
        match b_head r with
        | Some cur =>
            if str_eqb cur b then
              match cfg_get (b_cfg r) (stgit_sub b) s_parentbranch with
              | Some p => Some (Some p)
              | None => None
              end
            else Some None
        | None => Some None
        end in
      match switch with
      | None => refuse r
      | Some sw =>
          let after_stack : option brepo :=
            match open_stack r b with
            | Some r1 =>
                if is_protected r1 b then None
                else match stack_patches r1 b with
                     | Some ps =>
                         if negb force && negb (Nat.eqb (length ps) 0) then None
                         else Some (deinitialize r1 b)
                     | None => None
                     end
            | None => Some r
            end in
          match after_stack with
          | None => (match open_stack r b with Some r1 => r1 | None => r end, false)
          | Some r2 =>
              let head' := match sw with Some p => Some p | None => b_head r2 end in
              (mkB (ref_del (b_refs r2) (head_ref b))
                   (cfg_remove_section (b_cfg r2) b)
                   head' (b_states r2), true)
          end
      end
  end.

(* stg branch --rename old new *)
Definition rename (r : brepo) (old new : str) : brepo * bool :=
  match ref_get (b_refs r) (head_ref old) with
  | None => refuse r
  | Some hid =>
      let parent := cfg_get (b_cfg r) (stgit_sub old) s_parentbranch in
      let move_head (r0 : brepo) : brepo :=
        mkB (ref_set (ref_del (b_refs r0) (head_ref old)) (head_ref new) hid)
            (cfg_rename_section (b_cfg r0) old new)
            (match b_head r0 with
             | Some cur => if str_eqb cur old then Some new else Some cur
             | None => None end)
            (b_states r0) in
      match open_stack r old, stack_patches r old, ref_get (b_refs r) (stack_ref old) with
      | Some r1, Some ps, Some sid =>
          if negb (name_free s_refs_stacks (b_refs r1) None new) then (r1, false)
          else if negb (name_free s_refs_heads (b_refs r1) (Some old) new) then (r1, false)
          else
            let r2 := move_head r1 in
            let r3 := mkB (ref_set (b_refs r2) (stack_ref new) sid)
                          (cfg_rename_section (b_cfg r2) (stgit_sub old) (stgit_sub new))
                          (b_head r2) (b_states r2) in
            let r4 := deinitialize r3 old in
            (* opening the renamed stack creates its patch refs *)
            (mkB (ensure_patch_refs (b_refs r4) new ps) (set_parent (b_cfg r4) new parent)
                 (b_head r4) (b_states r4), true)
      | _, _, _ =>
          if negb (name_free s_refs_heads (b_refs r) (Some old) new) then refuse r
          else
            let r2 := move_head r in
            (mkB (b_refs r2) (set_parent (b_cfg r2) new parent) (b_head r2) (b_states r2), true)
      end
  end.

(* stg branch --clone new, on a current branch that has a stack *)
Definition clone (r : brepo) (new : str) : brepo * bool :=
  match b_head r with
  | None => refuse r
  | Some cur =>
      match ref_get (b_refs r) (head_ref cur), open_stack r cur with
      | Some hid, Some r1 =>
          match stack_patches r cur, ref_get (b_refs r) (stack_ref cur) with
          | Some ps, Some sid =>
              if negb (name_free s_refs_heads (b_refs r1) None new) then (r1, false)
              else if existsb (fun x => df_conflict x new) (names_under s_refs_stacks (b_refs r1))
              then (r1, false)       (* the state ref cannot be written: the copied branch is taken back *)
              else
                let refs2 := ref_set (ref_set (b_refs r1) (head_ref new) hid) (stack_ref new) sid in
                let c0 := cfg_copy_section (b_cfg r1) cur new in
                let c1 := set_parent c0 new (Some cur) in
                let c2 := cfg_set c1 new s_description (s_clone_of ++ cur) in
                (mkB (ensure_patch_refs refs2 new ps) c2 (Some new) (b_states r1), true)
          | _, _ => (r1, false)
          end
      | _, _ => refuse r
      end
  end.

(* stg branch --protect / --unprotect b *)
Definition protect (r : brepo) (b : str) : brepo * bool :=
  match open_stack r b with
  | None => refuse r
  | Some r1 =>
      (mkB (b_refs r1) (cfg_set (b_cfg r1) (stgit_sub b) s_protect s_true)
           (b_head r1) (b_states r1), true)
  end.

Definition unprotect (r : brepo) (b : str) : brepo * bool :=
  match open_stack r b with
  | None => refuse r
  | Some r1 =>
      (mkB (b_refs r1) (cfg_del_key (b_cfg r1) (stgit_sub b) s_protect)
           (b_head r1) (b_states r1), true)
  end.

(* stg branch --create new [from]: `from` is an existing local branch when given; hid is the
   commit HEAD points at (used when no `from` is given), sid the id of the state commit the
   initialisation writes (a fresh object).  The new branch starts at the parent's head, gets an
   empty stack - whatever refs/stacks/new or refs/patches/new/* were left behind by plain git are
   overwritten / removed by the initialisation -, records its parent, inherits the parent's
   remote / merge settings, and is checked out. *)
Definition s_remote : str := [114; 101; 109; 111; 116; 101].        (* remote *)
Definition s_merge : str := [109; 101; 114; 103; 101].              (* merge *)

Definition create (r : brepo) (new : str) (from : option str) (hid sid : N) : brepo * bool :=
  match ref_get (b_refs r) (head_ref new) with
  | Some _ => refuse r                                   (* "branch already exists" *)
  | None =>
      let parent : option str := match from with Some f => Some f | None => b_head r end in
      let target : option N :=
        match from with
        | Some f => ref_get (b_refs r) (head_ref f)
        | None => Some hid
        end in
      match target with
      | None => refuse r
      | Some tid =>
          if negb (name_free s_refs_heads (b_refs r) None new) then refuse r    (* the ref cannot be created *)
          else if existsb (fun x => df_conflict x new) (names_under s_refs_stacks (b_refs r))
          then refuse r                                  (* the state ref cannot be written: branch deleted again *)
          else
            let refs1 := ref_set (b_refs r) (head_ref new) tid in
            let refs2 := ref_set refs1 (stack_ref new) sid in
            let refs3 := ensure_patch_refs refs2 new [] in
            let c1 := match parent with
                      | Some p => cfg_set (b_cfg r) (stgit_sub new) s_parentbranch p
                      | None => b_cfg r
                      end in
            let c2 := match parent with
                      | Some p =>
                          match cfg_get (b_cfg r) p s_remote, cfg_get (b_cfg r) p s_merge with
                          | Some rem, Some mrg => cfg_set (cfg_set c1 new s_remote rem) new s_merge mrg
                          | _, _ => c1
                          end
                      | None => c1
                      end in
            (mkB refs3 c2 (Some new) ((sid, []) :: b_states r), true)
      end
  end.

(* stg branch <b>: switch (the work tree is assumed clean) *)
Definition switch (r : brepo) (b : str) : brepo * bool :=
  match ref_get (b_refs r) (head_ref b) with
  | None => refuse r
  | Some _ =>
      match b_head r with
      | Some cur => if str_eqb cur b then refuse r        (* "already the current branch" *)
                    else (mkB (b_refs r) (b_cfg r) (Some b) (b_states r), true)
      | None => (mkB (b_refs r) (b_cfg r) (Some b) (b_states r), true)
      end
  end.

(* stg branch --describe <text> [b]: branch.<b>.description (removed when the text is empty) *)
Definition describe (r : brepo) (b : str) (text : str) : brepo * bool :=
  match ref_get (b_refs r) (head_ref b) with
  | None => refuse r
  | Some _ =>
      (mkB (b_refs r)
           (match text with
            | [] => cfg_del_key (b_cfg r) b s_description
            | _ => cfg_set (b_cfg r) b s_description text
            end)
           (b_head r) (b_states r), true)
  end.

Inductive bop : Type :=
| BCreate (new : str) (from : option str) (hid sid : N)
| BSwitch (b : str)
| BDescribe (b : str) (text : str)
| BClone (new : str)
| BRename (old new : str)
| BDelete (b : str) (force : bool)
| BCleanup (b : str) (force : bool)
| BProtect (b : str)
| BUnprotect (b : str).

Definition bstep (r : brepo) (o : bop) : brepo * bool :=
  match o with
  | BCreate n f hid sid => create r n f hid sid
  | BSwitch b => switch r b
  | BDescribe b t => describe r b t
  | BClone n => clone r n
  | BRename a b => rename r a b
  | BDelete b f => delete r b f
  | BCleanup b f => cleanup r b f
  | BProtect b => protect r b
  | BUnprotect b => unprotect r b
  end.
