(* Types of the data the translator (/verif/translator) regenerates from /repo/src into
   coq/Gen/*.v on every run. *)
From Coq Require Export List String Bool.
Export ListNotations.

(* boolean arguments of transaction-builder options and guards, normalised *)
Inductive bexpr : Type :=
| BTrue | BFalse
| BFlag (s : string)          (* matches.get_flag("s") *)
| BContains (s : string)      (* matches.contains_id("s") *)
| BIsNone (s : string)        (* matches.get_one::<T>("s").is_none() *)
| BIsSome (s : string)
| BNot (e : bexpr)
| BAnd (a b : bexpr)
| BOr (a b : bexpr)
| BVar (s : string)           (* a local the translator could not resolve *)
| BUnknown (s : string).      (* source text the translator does not understand *)

Fixpoint bexpr_eqb (a b : bexpr) : bool :=
  match a, b with
  | BTrue, BTrue | BFalse, BFalse => true
  | BFlag x, BFlag y | BContains x, BContains y | BIsNone x, BIsNone y
  | BIsSome x, BIsSome y | BVar x, BVar y | BUnknown x, BUnknown y => String.eqb x y
  | BNot x, BNot y => bexpr_eqb x y
  | BAnd x1 x2, BAnd y1 y2 | BOr x1 x2, BOr y1 y2 => bexpr_eqb x1 y1 && bexpr_eqb x2 y2
  | _, _ => false
  end.

Fixpoint bexpr_known (e : bexpr) : bool :=
  match e with
  | BUnknown _ | BVar _ => false
  | BNot x => bexpr_known x
  | BAnd x y | BOr x y => bexpr_known x && bexpr_known y
  | _ => true
  end.

(* evaluation under an assignment of flags / option presence *)
Fixpoint bexpr_eval (flag : string -> bool) (present : string -> bool) (e : bexpr) : bool :=
  match e with
  | BTrue => true
  | BFalse => false
  | BFlag s => flag s
  | BContains s => present s
  | BIsNone s => negb (present s)
  | BIsSome s => present s
  | BNot x => negb (bexpr_eval flag present x)
  | BAnd x y => bexpr_eval flag present x && bexpr_eval flag present y
  | BOr x y => bexpr_eval flag present x || bexpr_eval flag present y
  | BVar _ | BUnknown _ => false
  end.

Record txn_site : Type := mkTxn {
  tx_fn : string;
  tx_opts : list (string * bexpr);     (* builder calls in source order *)
  tx_reflog : string                    (* token text of execute()'s argument *)
}.

Record guarded_call : Type := mkGuarded {
  gc_fn : string;
  gc_name : string;
  gc_guards : list bexpr                (* enclosing `if` conditions, outermost first *)
}.

Record cmd_info : Type := {
  ci_file : string;
  ci_policies : list (string * string);  (* (function, InitializationPolicy variant) *)
  ci_txns : list txn_site;
  ci_prechecks : list guarded_call;
  ci_writes : list guarded_call;
  ci_hard_checkouts : list guarded_call;
  ci_seq : list (string * string);       (* (function, call) of prechecks and writes, source order *)
  ci_branch_arg : bool                   (* the command takes --branch (argset::branch_arg()) *)
}.

(* the last setting of an option in a builder chain; None = option not mentioned *)
Fixpoint opt_lookup (name : string) (opts : list (string * bexpr)) : option bexpr :=
  match opts with
  | [] => None
  | (n, e) :: rest =>
      match opt_lookup name rest with
      | Some e' => Some e'
      | None => if String.eqb n name then Some e else None
      end
  end.
