(* C02 proofs, part 2: the transaction invariant and its preservation by the operations. *)
From Coq Require Import List Arith Bool Lia.
From StgV Require Import Model.StackSpec Proofs.CharsProofs Proofs.ChainBasics.
Import ListNotations.
Local Open Scope nat_scope.

(* the parts of a transaction that matter for the stack (everything but the temp index,
   the work tree and the conflict mode) *)
Definition core_eq (t t' : txn) : Prop :=
  t_stack t' = t_stack t /\ t_stack_base t' = t_stack_base t
  /\ t_applied t' = t_applied t
  /\ t_updated t' = t_updated t /\ t_head t' = t_head t /\ t_base t' = t_base t
  /\ t_objs t' = t_objs t /\ o_set_head (t_opts t') = o_set_head (t_opts t).

Lemma core_eq_refl : forall t, core_eq t t.
Proof. intros t. repeat split. Qed.

Lemma core_eq_trans : forall a b c, core_eq a b -> core_eq b c -> core_eq a c.
Proof. unfold core_eq. intros a b c H1 H2. intuition congruence. Qed.

Definition push_sel (t : txn) (pc old_parent new_parent : oid) (already_merged : bool)
  : (txn * tree * pstatus) + tres :=
  let ptree := tree_of (t_objs t) pc in
  let otree := tree_of (t_objs t) old_parent in
  let ntree := tree_of (t_objs t) new_parent in
  if already_merged then inl (t, ntree, PSMerged)
  else if tree_eqb otree ntree then inl (t, ptree, PSNormal)
  else if tree_eqb otree ptree then inl (t, ntree, PSNormal)
  else if tree_eqb ntree ptree then inl (t, ptree, PSNormal)
  else
    let swap := match t_tmp_id t with Some c => tree_eqb c ptree | None => false end in
    let ours := if swap then ptree else ntree in
    let theirs := if swap then ntree else ptree in
    let t1 :=
      match t_tmp_id t with
      | Some c => if tree_eqb c ours then t else set_tmp t (Some ours) ours
      | None => set_tmp t (Some ours) ours
      end in
    match apply3way (t_wt t1) otree (t_tmp_content t1) theirs with
    | Some merged => inl (set_tmp t1 (Some merged) merged, merged, PSNormal)
    | None =>
        let t1 := set_tmp t1 None (t_tmp_content t1) in
        if negb (o_use_iw (t_opts t1)) then inr (THalt t1 HNoConflict)
        else if negb (o_allow_push_conflicts (t_opts t1)) then inr (THalt t1 HNoConflict)
        else
          if t_wt_unmerged t1 then inr (THalt t1 HNoConflict)
          else
            match twoway (t_cur_tree t1) ours (t_wt t1) with
            | None => inr (THalt t1 HNoConflict)
            | Some wt1 =>
                let t2 := set_wt t1 ours wt1 false in
                match merge3 otree ours theirs with
                | Some merged =>
                    match twoway ours merged wt1 with
                    | Some wt2 => inl (set_wt t2 merged wt2 false, merged, PSNormal)
                    | None => inr (THalt t2 HNoConflict)
                    end
                | None => inl (set_wt t2 ours ours true, ours, PSConflict)
                end
            end
    end.

Definition push_fin (n : name) (pc old_parent new_parent : oid)
           (sel : (txn * tree * pstatus) + tres) (ptree : tree) : tres :=
  match sel with
  | inr r => r
  | inl (t2, new_tree, st) =>
      let needs_commit := negb (tree_eqb new_tree ptree) || negb (Nat.eqb new_parent old_parent) in
      let t3 :=
        if needs_commit then
          let '(t', o) := recommit t2 pc new_tree new_parent in
          let t'' := match st with PSConflict => set_head t' (Some o) | _ => t' end in
          set_updated t'' (up_set (t_updated t'') n (Some o))
        else t2 in
      let t4 := match st with PSConflict => set_conflict_mode t3 CAllow | _ => t3 end in
      let t5 := move_to_applied t4 n in
      match st with
      | PSConflict => THalt t5 HConflict
      | _ => TOk t5
      end
  end.

Lemma push_patch_eq : forall n am t,
  push_patch n am t =
  match t_patch t n, t_top t with
  | Some pc, Some np =>
      match first_parent (t_objs t) pc with
      | None => TErr t
      | Some op => push_fin n pc op np (push_sel t pc op np am) (tree_of (t_objs t) pc)
      end
  | _, _ => TPanic
  end.
Proof. reflexivity. Qed.

Lemma push_sel_spec : forall t pc op np am,
  match push_sel t pc op np am with
  | inl (t2, tr, st) =>
      core_eq t t2
      /\ (st = PSConflict ->
          am = false /\ tree_eqb (tree_of (t_objs t) np) (tree_of (t_objs t) pc) = false
          /\ (t_tmp_id t <> Some (tree_of (t_objs t) pc) -> tr = tree_of (t_objs t) np))
  | inr r => exists t1, r = THalt t1 HNoConflict /\ core_eq t t1
  end.
Proof.
  intros t pc op np am. unfold push_sel.
  destruct am; [split; [apply core_eq_refl|discriminate]|].
  destruct (tree_eqb (tree_of (t_objs t) op) (tree_of (t_objs t) np)); [split; [apply core_eq_refl|discriminate]|].
  destruct (tree_eqb (tree_of (t_objs t) op) (tree_of (t_objs t) pc)); [split; [apply core_eq_refl|discriminate]|].
  destruct (tree_eqb (tree_of (t_objs t) np) (tree_of (t_objs t) pc)) eqn:E3; [split; [apply core_eq_refl|discriminate]|].
  cbv zeta.
  set (swap := match t_tmp_id t with Some c => tree_eqb c (tree_of (t_objs t) pc) | None => false end).
  set (ours := if swap then tree_of (t_objs t) pc else tree_of (t_objs t) np).
  set (theirs := if swap then tree_of (t_objs t) np else tree_of (t_objs t) pc).
  set (t1 := match t_tmp_id t with
             | Some c => if tree_eqb c ours then t else set_tmp t (Some ours) ours
             | None => set_tmp t (Some ours) ours end).
  assert (H1 : core_eq t t1).
  { unfold t1. destruct (t_tmp_id t) as [c|]; [destruct (tree_eqb c ours)|]; repeat split. }
  destruct (apply3way _ _ _ _) as [merged|].
  { split; [|discriminate]. eapply core_eq_trans; [exact H1|]. repeat split. }
  set (t1' := set_tmp t1 None (t_tmp_content t1)).
  assert (H1' : core_eq t t1').
  { eapply core_eq_trans; [exact H1|]. repeat split. }
  destruct (negb (o_use_iw (t_opts t1'))); [now exists t1'|].
  destruct (negb (o_allow_push_conflicts (t_opts t1'))); [now exists t1'|].
  destruct (t_wt_unmerged t1'); [now exists t1'|].
  destruct (twoway _ _ _) as [wt1|]; [|now exists t1'].
  destruct (merge3 _ _ _) as [merged|].
  - destruct (twoway _ _ _) as [wt2|].
    + split; [|discriminate]. eapply core_eq_trans; [exact H1'|]. repeat split.
    + eexists. split; [reflexivity|]. eapply core_eq_trans; [exact H1'|]. repeat split.
  - split; [eapply core_eq_trans; [exact H1'|]; repeat split|].
    intros _. repeat split. intros Hns. unfold ours.
    assert (Hsw : swap = false); [|now rewrite Hsw].
    unfold swap. destruct (t_tmp_id t) as [c|]; [|reflexivity].
    destruct (tree_eqb c _) eqn:E; [|reflexivity]. apply tree_eqb_eq in E. subst. congruence.
Qed.

Lemma move_to_applied_applied : forall t n, t_applied (move_to_applied t n) = t_applied t ++ [n].
Proof.
  intros t n. unfold move_to_applied. destruct (mem n (t_unapplied t)); [reflexivity|].
  destruct (mem n (t_hidden t)); reflexivity.
Qed.

Lemma move_to_applied_core : forall t n,
  t_stack (move_to_applied t n) = t_stack t /\ t_stack_base (move_to_applied t n) = t_stack_base t
  /\ t_updated (move_to_applied t n) = t_updated t /\ t_head (move_to_applied t n) = t_head t
  /\ t_base (move_to_applied t n) = t_base t /\ t_objs (move_to_applied t n) = t_objs t
  /\ t_opts (move_to_applied t n) = t_opts t.
Proof.
  intros t n. unfold move_to_applied. destruct (mem n (t_unapplied t)); [repeat split|].
  destruct (mem n (t_hidden t)); repeat split.
Qed.

Lemma conflict_on_top_partial :
  forall n t t',
    (forall pc, t_patch t n = Some pc -> t_tmp_id t <> Some (tree_of (t_objs t) pc)) ->
    push_patch n false t = THalt t' HConflict ->
    exists o top, t_patch t' n = Some o /\ t_top t = Some top
      /\ parents_of (t_objs t') o = [top]
      /\ tree_of (t_objs t') o = tree_of (t_objs t) top
      /\ t_head t' = Some o /\ hd_error (rev (t_applied t')) = Some n.
Proof.
  intros n t t' Hns H. rewrite push_patch_eq in H.
  destruct (t_patch t n) as [pc|] eqn:Epc; [|discriminate].
  destruct (t_top t) as [np|] eqn:Etop; [|discriminate].
  destruct (first_parent (t_objs t) pc) as [op|] eqn:Efp; [|discriminate].
  specialize (Hns pc eq_refl).
  pose proof (push_sel_spec t pc op np false) as Hs.
  destruct (push_sel t pc op np false) as [[[t2 tr] st]|r].
  - destruct Hs as [Hc Hst]. unfold push_fin in H. destruct st; try discriminate.
    destruct (Hst eq_refl) as [_ [E3 Htr]]. specialize (Htr Hns). subst tr.
    rewrite E3 in H. cbn [negb orb] in H. unfold recommit, put in H.
    match type of H with THalt (move_to_applied ?X n) _ = _ => set (tx := X) in H end.
    injection H as <-.
    destruct Hc as (_ & _ & _ & _ & _ & _ & Hobjs & _).
    exists (length (t_objs t2)), np.
    destruct (move_to_applied_core tx n) as (M1 & M2 & M3 & M4 & M5 & M6 & M7).
    repeat split.
    + unfold t_patch. rewrite M3. unfold tx. cbn [t_updated set_conflict_mode set_updated].
      now rewrite up_get_set, name_eqb_refl.
    + rewrite M6. unfold tx. cbn [t_objs set_conflict_mode set_updated set_head set_objs].
      unfold parents_of. now rewrite get_put_new.
    + rewrite M6. unfold tx. cbn [t_objs set_conflict_mode set_updated set_head set_objs].
      unfold tree_of at 1. now rewrite get_put_new.
    + rewrite M4. reflexivity.
    + rewrite move_to_applied_applied. apply hd_error_rev_snoc.
  - destruct Hs as [t1 [-> _]]. cbn in H. discriminate.
Qed.

(* ---------------------------------------------------------------- the invariant *)

Definition toid (t : txn) (n : name) : oid := match t_patch t n with Some o => o | None => O end.
Definition toids (t : txn) : list oid := map (toid t) (t_applied t).

Record kctx : Type := mkK {
  k_objs : store;          (* the store the transaction started from *)
  k_stack : sstate;        (* t_stack *)
  k_sbase : oid;           (* t_stack_base *)
  k_base : option oid;     (* t_base *)
  k_sh : bool              (* o_set_head *)
}.

Record tinv (K : kctx) (t : txn) : Prop := mkTinv {
  ti_ext : ns_extends (k_objs K) (t_objs t);
  ti_stack : t_stack t = k_stack K;
  ti_sbase : t_stack_base t = k_sbase K;
  ti_base : t_base t = k_base K;
  ti_sh : o_set_head (t_opts t) = k_sh K;
  ti_nodup : NoDup (t_applied t);
  ti_has : forall n, In n (t_applied t) -> t_patch t n <> None;
  ti_single : forall n o, t_patch t n = Some o -> exists p, parents_of (t_objs t) o = [p];
  ti_chain : chainl (t_objs t) (t_base_oid t) (toids t);
  ti_head : t_head t = None \/ t_head t = t_top t
}.

Definition rinvP (K : kctx) (P : txn -> Prop) (r : tres) : Prop :=
  match r with
  | TOk t => tinv K t /\ t_head t = None /\ P t
  | THalt t _ => tinv K t
  | TErr t => ns_extends (k_objs K) (t_objs t)
  | TPanic => True
  end.

Definition rinv (K : kctx) (r : tres) : Prop := rinvP K (fun _ => True) r.

Lemma rinvP_weaken : forall K (P Q : txn -> Prop) r,
  (forall t, P t -> Q t) -> rinvP K P r -> rinvP K Q r.
Proof. intros K P Q [t|t h|t|] H; cbn; intuition. Qed.

Lemma rinvP_bind : forall K (P Q : txn -> Prop) r f,
  rinvP K P r ->
  (forall t, tinv K t -> t_head t = None -> P t -> rinvP K Q (f t)) ->
  rinvP K Q (tbind r f).
Proof. intros K P Q [t|t h|t|] f H Hf; cbn in *; intuition. Qed.

Lemma t_patch_eq : forall t t' n,
  t_updated t' = t_updated t -> t_stack t' = t_stack t -> t_patch t' n = t_patch t n.
Proof. intros t t' n H1 H2. unfold t_patch. now rewrite H1, H2. Qed.

Lemma t_top_spec : forall t,
  (forall n, In n (t_applied t) -> t_patch t n <> None) ->
  t_top t = Some (last (toids t) (t_base_oid t)).
Proof.
  intros t Hhas. unfold t_top, toids. destruct (t_applied t) as [|n l] eqn:E; [reflexivity|].
  assert (Hne : n :: l <> []) by discriminate.
  rewrite (hd_error_rev_last _ _ n Hne). rewrite (last_map_ne _ _ (toid t) _ n _ Hne).
  unfold toid. specialize (Hhas _ (last_in _ _ n Hne)).
  now destruct (t_patch t (last (n :: l) n)).
Qed.

Lemma tinv_top : forall K t, tinv K t -> t_top t = Some (last (toids t) (t_base_oid t)).
Proof. intros K t H. apply t_top_spec. apply (ti_has K t H). Qed.

Lemma core_eq_derived : forall t t', core_eq t t' ->
  (forall n, t_patch t' n = t_patch t n) /\ t_base_oid t' = t_base_oid t
  /\ toids t' = toids t /\ t_top t' = t_top t.
Proof.
  intros t t' (H1 & H2 & H3 & H4 & H5 & H6 & H7 & H8).
  assert (Hp : forall n, t_patch t' n = t_patch t n) by (intros n; now apply t_patch_eq).
  split; [|split; [|split]].
  - exact Hp.
  - unfold t_base_oid. now rewrite H6, H2.
  - unfold toids, toid. rewrite H3. apply map_ext. intros n. now rewrite Hp.
  - unfold t_top, t_base_oid. rewrite H3, H6, H2. destruct (hd_error (rev (t_applied t))); [apply Hp|reflexivity].
Qed.

Lemma tinv_core_eq : forall K t t', core_eq t t' -> tinv K t -> tinv K t'.
Proof.
  intros K t t' Hc H. destruct (core_eq_derived t t' Hc) as (Hp & Hb & Ho & Ht).
  destruct Hc as (H1 & H2 & H3 & H4 & H5 & H6 & H7 & H8). destruct H.
  constructor.
  - congruence.
  - congruence.
  - congruence.
  - congruence.
  - congruence.
  - congruence.
  - intros n Hn. rewrite Hp. apply ti_has0. congruence.
  - intros n o Hn. rewrite Hp in Hn. rewrite H7. eauto.
  - rewrite H7, Hb, Ho. exact ti_chain0.
  - rewrite H5, Ht. exact ti_head0.
Qed.

(* appending a name whose commit sits on the current top *)
Lemma tinv_push_name : forall K t t' n o np,
  tinv K t -> ~ In n (t_applied t) -> t_top t = Some np ->
  t_stack t' = t_stack t -> t_stack_base t' = t_stack_base t -> t_base t' = t_base t ->
  o_set_head (t_opts t') = o_set_head (t_opts t) ->
  ns_extends (t_objs t) (t_objs t') ->
  t_applied t' = t_applied t ++ [n] ->
  (forall m, m <> n -> t_patch t' m = t_patch t m) ->
  t_patch t' n = Some o -> parents_of (t_objs t') o = [np] ->
  (t_head t' = None \/ t_head t' = Some o) ->
  tinv K t'.
Proof.
  intros K t t' n o np H Hn Htop Hs Hsb Hb Hsh He Ha Hm Hpn Hpar Hh.
  pose proof (tinv_top K t H) as Htop'. rewrite Htop in Htop'. injection Htop' as Hnp.
  assert (Hbo : t_base_oid t' = t_base_oid t) by (unfold t_base_oid; now rewrite Hb, Hsb).
  assert (Hoids : toids t' = toids t ++ [o]).
  { unfold toids. rewrite Ha, map_app. cbn. unfold toid at 2. rewrite Hpn. f_equal.
    apply map_ext_in. intros m Hin. unfold toid. rewrite Hm; [reflexivity|]. intros ->. contradiction. }
  destruct H. constructor.
  - eapply ns_extends_trans; eassumption.
  - congruence.
  - congruence.
  - congruence.
  - congruence.
  - rewrite Ha. apply nodup_app. repeat split; [exact ti_nodup0|constructor; [tauto|constructor]|].
    intros x Hx [<-|[]]. contradiction.
  - intros m Hin. rewrite Ha in Hin. apply in_app_or in Hin as [Hin|[<-|[]]]; [|congruence].
    rewrite Hm; [now apply ti_has0|]. intros ->. contradiction.
  - intros m o' Hmo. destruct (name_eq_dec m n) as [->|Hne].
    + rewrite Hpn in Hmo. injection Hmo as <-. now exists np.
    + rewrite Hm in Hmo by exact Hne. destruct (ti_single0 _ _ Hmo) as [p Hp]. exists p.
      apply (parents_of_ext (t_objs t) (t_objs t')); [now apply ns_store|exact Hp].
  - rewrite Hbo, Hoids. apply chainl_snoc; [apply (chainl_ext (t_objs t)); [now apply ns_store|assumption]|]. now rewrite <- Hnp.
  - destruct Hh as [Hh|Hh]; [now left|right]. rewrite Hh. unfold t_top. rewrite Ha, hd_error_rev_snoc. now symmetry.
Qed.

(* keeping a prefix of the applied list *)
Lemma tinv_prefix : forall K t t' keep popped,
  tinv K t -> t_head t = None -> t_applied t = keep ++ popped ->
  t_stack t' = t_stack t -> t_stack_base t' = t_stack_base t -> t_base t' = t_base t ->
  o_set_head (t_opts t') = o_set_head (t_opts t) -> t_objs t' = t_objs t -> t_head t' = t_head t ->
  t_applied t' = keep ->
  (forall m, In m keep -> t_patch t' m = t_patch t m) ->
  (forall m o, t_patch t' m = Some o -> t_patch t m = Some o) ->
  tinv K t'.
Proof.
  intros K t t' keep popped H Hh Ha Hs Hsb Hb Hsh Ho Hh' Ha' Hk Hsome.
  assert (Hbo : t_base_oid t' = t_base_oid t) by (unfold t_base_oid; now rewrite Hb, Hsb).
  assert (Hoids : toids t = toids t' ++ map (toid t) popped).
  { unfold toids. rewrite Ha, Ha', map_app. f_equal. apply map_ext_in. intros m Hin.
    unfold toid. now rewrite Hk. }
  destruct H. constructor.
  - congruence.
  - congruence.
  - congruence.
  - congruence.
  - congruence.
  - rewrite Ha'. rewrite Ha in ti_nodup0. now apply nodup_app in ti_nodup0 as [? _].
  - intros m Hin. rewrite Ha' in Hin. rewrite Hk by exact Hin. apply ti_has0. rewrite Ha.
    apply in_or_app. now left.
  - intros m o Hm. rewrite Ho. apply Hsome in Hm. eauto.
  - rewrite Ho, Hbo. rewrite Hoids in ti_chain0. now apply chainl_app in ti_chain0 as [? _].
  - left. congruence.
Qed.
Ltac tproj :=
  cbn [t_stack t_stack_base t_branch_head t_opts t_applied t_unapplied t_hidden t_updated t_head
       t_base t_cur_tree t_objs t_tmp_id t_tmp_content t_wt t_wt_unmerged
       set_lists set_updated set_head set_base set_objs set_tmp set_wt set_conflict_mode
       o_set_head o_conflict_mode o_allow_push_conflicts o_discard_changes o_use_iw o_allow_bad_head].

Lemma tinv_push_move : forall K t t4 n o np,
  tinv K t -> ~ In n (t_applied t) -> t_top t = Some np ->
  t_stack t4 = t_stack t -> t_stack_base t4 = t_stack_base t -> t_base t4 = t_base t ->
  o_set_head (t_opts t4) = o_set_head (t_opts t) ->
  ns_extends (t_objs t) (t_objs t4) ->
  t_applied t4 = t_applied t ->
  (forall m, m <> n -> t_patch t4 m = t_patch t m) ->
  t_patch t4 n = Some o -> parents_of (t_objs t4) o = [np] ->
  (t_head t4 = None \/ t_head t4 = Some o) ->
  tinv K (move_to_applied t4 n)
  /\ t_applied (move_to_applied t4 n) = t_applied t ++ [n]
  /\ t_head (move_to_applied t4 n) = t_head t4.
Proof.
  intros K t t4 n o np H Hn Htop Hs Hsb Hb Hsh He Ha Hm Hpn Hpar Hh.
  destruct (move_to_applied_core t4 n) as (M1 & M2 & M3 & M4 & M5 & M6 & M7).
  assert (Hp : forall m, t_patch (move_to_applied t4 n) m = t_patch t4 m)
    by (intros m; now apply t_patch_eq).
  split; [|split; [rewrite move_to_applied_applied; now rewrite Ha|exact M4]].
  apply (tinv_push_name K t _ n o np);
    [exact H|exact Hn|exact Htop|congruence|congruence|congruence|now rewrite M7|now rewrite M6
    |rewrite move_to_applied_applied; now rewrite Ha
    |intros m Hne; rewrite Hp; now apply Hm|now rewrite Hp|now rewrite M6|now rewrite M4].
Qed.

Lemma push_fin_inv : forall K t2 n pc op np tr st ptree,
  tinv K t2 -> t_head t2 = None -> ~ In n (t_applied t2) ->
  t_patch t2 n = Some pc -> t_top t2 = Some np -> first_parent (t_objs t2) pc = Some op ->
  rinvP K (fun t' => t_applied t' = t_applied t2 ++ [n]) (push_fin n pc op np (inl (t2, tr, st)) ptree).
Proof.
  intros K t2 n pc op np tr st ptree H Hh Hn Hpc Htop Hfp. unfold push_fin.
  destruct (negb (tree_eqb tr ptree) || negb (Nat.eqb np op)) eqn:Enc.
  - unfold recommit, put.
    set (c := plain [np] tr match get (t_objs t2) pc with Some c => c_meta c | None => 0%N end
                    (subj_of (t_objs t2) pc)).
    set (o := length (t_objs t2)).
    assert (Hpar : parents_of (t_objs t2 ++ [c]) o = [np]).
    { unfold parents_of, o. now rewrite get_put_new. }
    assert (Hgen : forall t4, t_objs t4 = t_objs t2 ++ [c] -> t_stack t4 = t_stack t2 ->
              t_stack_base t4 = t_stack_base t2 -> t_base t4 = t_base t2 ->
              o_set_head (t_opts t4) = o_set_head (t_opts t2) -> t_applied t4 = t_applied t2 ->
              t_updated t4 = up_set (t_updated t2) n (Some o) ->
              (t_head t4 = None \/ t_head t4 = Some o) ->
              tinv K (move_to_applied t4 n)
              /\ t_applied (move_to_applied t4 n) = t_applied t2 ++ [n]
              /\ t_head (move_to_applied t4 n) = t_head t4).
    { intros t4 G1 G2 G3 G4 G5 G6 G7 G8.
      apply (tinv_push_move K t2 t4 n o np); try assumption.
      - rewrite G1. (apply ns_extends_app1; reflexivity).
      - intros m Hne. unfold t_patch. rewrite G7, G2, up_get_set. now rewrite name_eqb_neq by congruence.
      - unfold t_patch. now rewrite G7, up_get_set, name_eqb_refl.
      - now rewrite G1. }
    destruct st; cbv beta iota zeta.
    + match goal with |- rinvP _ _ (TOk (move_to_applied ?X n)) => destruct (Hgen X) as (R1 & R2 & R3) end;
        [reflexivity|reflexivity|reflexivity|reflexivity|reflexivity|reflexivity|reflexivity|now left|].
      cbn [rinvP]. rewrite R3. tproj. auto.
    + match goal with |- rinvP _ _ (TOk (move_to_applied ?X n)) => destruct (Hgen X) as (R1 & R2 & R3) end;
        [reflexivity|reflexivity|reflexivity|reflexivity|reflexivity|reflexivity|reflexivity|now left|].
      cbn [rinvP]. rewrite R3. tproj. auto.
    + match goal with |- rinvP _ _ (THalt (move_to_applied ?X n) _) => destruct (Hgen X) as (R1 & R2 & R3) end;
        [reflexivity|reflexivity|reflexivity|reflexivity|reflexivity|reflexivity|reflexivity|now right|].
      cbn [rinvP]. exact R1.
  - apply orb_false_iff in Enc as [_ Enp]. apply negb_false_iff, Nat.eqb_eq in Enp. subst op.
    assert (Hpar : parents_of (t_objs t2) pc = [np]).
    { destruct (ti_single K t2 H _ _ Hpc) as [p Hp]. unfold first_parent in Hfp. rewrite Hp in Hfp.
      cbn in Hfp. congruence. }
    destruct st; cbv beta iota zeta.
    + edestruct (tinv_push_move K t2 t2) as (R1 & R2 & R3);
        [exact H|exact Hn|exact Htop| | | | | | | |exact Hpc|exact Hpar| |]; try reflexivity.
      * apply ns_extends_refl.
      * left. exact Hh.
      * cbn [rinvP]. rewrite R3. auto.
    + edestruct (tinv_push_move K t2 t2) as (R1 & R2 & R3);
        [exact H|exact Hn|exact Htop| | | | | | | |exact Hpc|exact Hpar| |]; try reflexivity.
      * apply ns_extends_refl.
      * left. exact Hh.
      * cbn [rinvP]. rewrite R3. auto.
    + edestruct (tinv_push_move K t2 (set_conflict_mode t2 CAllow)) as (R1 & R2 & R3);
        [exact H|exact Hn|exact Htop| | | | | | | |exact Hpc|exact Hpar| |]; tproj; try reflexivity.
      * apply ns_extends_refl.
      * left. exact Hh.
      * cbn [rinvP]. exact R1.
Qed.
Lemma push_patch_inv : forall K t n am,
  tinv K t -> t_head t = None -> ~ In n (t_applied t) ->
  rinvP K (fun t' => t_applied t' = t_applied t ++ [n]) (push_patch n am t).
Proof.
  intros K t n am H Hh Hn. rewrite push_patch_eq.
  destruct (t_patch t n) as [pc|] eqn:Epc; [|exact I].
  destruct (t_top t) as [np|] eqn:Etop; [|exact I].
  destruct (first_parent (t_objs t) pc) as [op|] eqn:Efp; [|apply (ti_ext K t H)].
  pose proof (push_sel_spec t pc op np am) as Hs.
  destruct (push_sel t pc op np am) as [[[t2 tr] st]|r].
  - destruct Hs as [Hc _]. pose proof (tinv_core_eq K t t2 Hc H) as H2.
    destruct (core_eq_derived t t2 Hc) as (Hp & Hb & Ho & Ht).
    destruct Hc as (C1 & C2 & C3 & C4 & C5 & C6 & C7 & C8).
    rewrite <- C3. apply push_fin_inv;
      [exact H2|congruence|now rewrite C3|now rewrite Hp|congruence|now rewrite C7].
  - destruct Hs as [t1 [-> Hc]]. cbn. now apply (tinv_core_eq K t t1).
Qed.

Lemma push_list_inv : forall K merged ns t,
  tinv K t -> t_head t = None -> NoDup (t_applied t ++ ns) ->
  rinvP K (fun t' => t_applied t' = t_applied t ++ ns) (push_list ns merged t).
Proof.
  intros K merged. induction ns as [|n ns IH]; intros t H Hh Hnd; cbn [push_list].
  - cbn. rewrite app_nil_r. auto.
  - eapply rinvP_bind.
    + apply push_patch_inv; [exact H|exact Hh|].
      apply nodup_app in Hnd as [_ [_ Hd]]. intros Hi. apply (Hd n Hi). now left.
    + cbv beta. intros t1 H1 Hh1 Ha1. eapply rinvP_weaken; [|apply IH; [exact H1|exact Hh1|]].
      * cbv beta. intros t2 Ha2. rewrite Ha2, Ha1, <- app_assoc. reflexivity.
      * rewrite Ha1, <- app_assoc. exact Hnd.
Qed.

Lemma push_patches_inv : forall K ns cm t,
  tinv K t -> t_head t = None -> NoDup (t_applied t ++ ns) ->
  rinvP K (fun t' => t_applied t' = t_applied t ++ ns) (push_patches ns cm t).
Proof.
  intros K ns cm t H Hh Hnd. unfold push_patches.
  destruct cm.
  - destruct (check_merged_loop _ _ _ _) as [[merged content] id].
    apply (push_list_inv K merged ns (set_tmp (set_tmp t None []) id content)); [|exact Hh|exact Hnd].
    apply (tinv_core_eq K t); [repeat split|exact H].
  - apply (push_list_inv K [] ns (set_tmp t None [])); [|exact Hh|exact Hnd].
    apply (tinv_core_eq K t); [repeat split|exact H].
Qed.

Lemma pop_patches_inv : forall K f t,
  tinv K t -> t_head t = None ->
  let t' := fst (pop_patches f t) in
  tinv K t' /\ t_head t' = None
  /\ exists popped, t_applied t = t_applied t' ++ popped
       /\ Forall (fun x => f x = false) (t_applied t')
       /\ snd (pop_patches f t) = filter (fun n => negb (f n)) popped
       /\ (popped = [] \/ exists x r, popped = x :: r /\ f x = true).
Proof.
  intros K f t H Hh. unfold pop_patches.
  destruct (split_at_first f (t_applied t)) as [keep popped] eqn:Es.
  apply split_at_first_spec in Es as (E1 & E2 & E3). cbn [fst snd].
  split; [|split; [exact Hh|]].
  - apply (tinv_prefix K t _ keep popped); try reflexivity; try assumption.
    intros m o Hm. exact Hm.
  - exists popped. tproj. auto.
Qed.

Lemma delete_patches_inv : forall K f t,
  tinv K t -> t_head t = None ->
  let t' := fst (delete_patches f t) in
  tinv K t' /\ t_head t' = None
  /\ exists popped, t_applied t = t_applied t' ++ popped
       /\ Forall (fun x => f x = false) (t_applied t')
       /\ snd (delete_patches f t) = filter (fun n => negb (f n)) popped
       /\ (popped = [] \/ exists x r, popped = x :: r /\ f x = true).
Proof.
  intros K f t H Hh. unfold delete_patches.
  destruct (split_at_first f (t_applied t)) as [keep popped] eqn:Es.
  apply split_at_first_spec in Es as (E1 & E2 & E3). cbn [fst snd].
  set (deleted := filter f popped ++ filter f (t_unapplied t) ++ filter f (t_hidden t)).
  assert (Hdel : forall m, In m deleted -> f m = true).
  { intros m Hm. unfold deleted in Hm. rewrite !in_app_iff, !filter_In in Hm. tauto. }
  split; [|split; [exact Hh|]].
  - apply (tinv_prefix K t _ keep popped); try reflexivity; try assumption.
    + intros m Hm. unfold t_patch. tproj. rewrite up_get_mark_deleted.
      destruct (mem m deleted) eqn:Em; [|reflexivity]. apply mem_In, Hdel in Em.
      rewrite Forall_forall in E2. rewrite (E2 m Hm) in Em. discriminate.
    + intros m o. unfold t_patch. tproj. rewrite up_get_mark_deleted.
      destruct (mem m deleted); [discriminate|tauto].
  - exists popped. tproj. auto.
Qed.
Lemma push_tree_inv : forall K t n,
  tinv K t -> t_head t = None -> ~ In n (t_applied t) ->
  rinvP K (fun t' => t_applied t' = t_applied t ++ [n]) (push_tree n t).
Proof.
  intros K t n H Hh Hn. unfold push_tree.
  destruct (t_patch t n) as [pc|] eqn:Epc; [|exact I].
  destruct (t_top t) as [top|] eqn:Etop; [|exact I].
  destruct (first_parent (t_objs t) pc) as [par|] eqn:Efp; [|apply (ti_ext K t H)].
  destruct (Nat.eqb par top) eqn:Ept.
  - apply Nat.eqb_eq in Ept. subst par.
    destruct (mem n (t_unapplied t) || mem n (t_hidden t)); [|exact I].
    assert (Hpar : parents_of (t_objs t) pc = [top]).
    { destruct (ti_single K t H _ _ Epc) as [p Hp]. unfold first_parent in Efp. rewrite Hp in Efp.
      cbn in Efp. congruence. }
    destruct (tinv_push_move K t t n pc top) as (R1 & R2 & R3); try assumption; try reflexivity.
    + apply ns_extends_refl.
    + now left.
    + cbn [rinvP]. rewrite R3. auto.
  - unfold recommit, put.
    set (c := plain [top] (tree_of (t_objs t) pc)
                    match get (t_objs t) pc with Some c => c_meta c | None => 0%N end
                    (subj_of (t_objs t) pc)).
    set (o := length (t_objs t)).
    match goal with |- context [move_to_applied ?X n] => set (t1 := X) end.
    destruct (mem n (t_unapplied t1) || mem n (t_hidden t1)); [|exact I].
    destruct (tinv_push_move K t t1 n o top) as (R1 & R2 & R3); try assumption; try reflexivity.
    + unfold t1. tproj. (apply ns_extends_app1; reflexivity).
    + intros m Hne. unfold t_patch, t1. tproj. rewrite up_get_set. now rewrite name_eqb_neq by congruence.
    + unfold t_patch, t1. tproj. now rewrite up_get_set, name_eqb_refl.
    + unfold t1. tproj. unfold parents_of, o. now rewrite get_put_new.
    + left. exact Hh.
    + cbn [rinvP]. rewrite R3. unfold t1 at 2. tproj. auto.
Qed.

Lemma push_tree_list_inv : forall K ns t,
  tinv K t -> t_head t = None -> NoDup (t_applied t ++ ns) ->
  rinvP K (fun t' => t_applied t' = t_applied t ++ ns) (push_tree_list ns t).
Proof.
  intros K. induction ns as [|n ns IH]; intros t H Hh Hnd; cbn [push_tree_list].
  - cbn. rewrite app_nil_r. auto.
  - eapply rinvP_bind.
    + apply push_tree_inv; [exact H|exact Hh|].
      apply nodup_app in Hnd as [_ [_ Hd]]. intros Hi. apply (Hd n Hi). now left.
    + cbv beta. intros t1 H1 Hh1 Ha1. eapply rinvP_weaken; [|apply IH; [exact H1|exact Hh1|]].
      * cbv beta. intros t2 Ha2. rewrite Ha2, Ha1, <- app_assoc. reflexivity.
      * rewrite Ha1, <- app_assoc. exact Hnd.
Qed.

Lemma tinv_set_lists : forall K t u h, tinv K t -> tinv K (set_lists t (t_applied t) u h).
Proof. intros K t u h H. apply (tinv_core_eq K t); [repeat split|exact H]. Qed.

(* reorder: the pops keep a prefix of the common prefix, the pushes re-create the rest *)
Lemma reorder_inv : forall K a u h t,
  tinv K t -> t_head t = None ->
  (forall al, a = Some al -> NoDup al) ->
  rinvP K (fun t' => match a with Some al => t_applied t' = al | None => t_applied t' = t_applied t end)
        (reorder_patches a u h t).
Proof.
  intros K a u h t H Hh Hnd. unfold reorder_patches.
  eapply rinvP_bind with (P := fun t' => match a with Some al => t_applied t' = al
                                          | None => t_applied t' = t_applied t end).
  - destruct a as [al|]; [|cbn; auto].
    specialize (Hnd al eq_refl).
    set (k := common_prefix_len (t_applied t) al).
    destruct (pop_patches (fun n => mem n (skipn k (t_applied t))) t) as [t1 inc] eqn:Ep.
    destruct (pop_patches_inv K (fun n => mem n (skipn k (t_applied t))) t H Hh) as (H1 & Hh1 & popped & E1 & E2 & _).
    rewrite Ep in H1, Hh1, E1, E2. cbn [fst] in H1, Hh1, E1, E2.
    (* the kept prefix is a prefix of al *)
    assert (Hkeep : exists j, j <= k /\ t_applied t1 = firstn j al).
    { destruct (keep_prefix_len (t_applied t) (t_applied t1) popped k E1 E2) as [Hle|Hnil].
      - exists (length (t_applied t1)). split; [exact Hle|].
        assert (Hf : t_applied t1 = firstn (length (t_applied t1)) (t_applied t)).
        { rewrite E1. rewrite firstn_app, Nat.sub_diag, firstn_all. cbn. now rewrite app_nil_r. }
        rewrite Hf at 1. rewrite <- (firstn_firstn_le _ _ k) by exact Hle.
        unfold k. rewrite cpl_firstn. fold k. now rewrite firstn_firstn_le by exact Hle.
      - subst popped. rewrite app_nil_r in E1. exists k. split; [lia|].
        assert (Hk : k = length (t_applied t)).
        { (* nothing popped although skipn k is nonempty would pop: so skipn k = [] *)
          destruct (skipn k (t_applied t)) as [|x r] eqn:Es.
          - pose proof (cpl_le_l (t_applied t) al). fold k in H0.
            assert (length (skipn k (t_applied t)) = 0) by now rewrite Es.
            rewrite skipn_length in H2. lia.
          - exfalso. rewrite Forall_forall in E2.
            assert (Hx : In x (t_applied t1)). { rewrite <- E1. apply (in_skipn _ k). rewrite Es. now left. }
            specialize (E2 x Hx). cbv beta in E2. apply mem_false in E2. apply E2. now left. }
        rewrite <- E1. rewrite <- (firstn_all (t_applied t)) at 1. rewrite <- Hk.
        unfold k. apply cpl_firstn. }
    destruct Hkeep as [j [Hj Hkeep]].
    eapply rinvP_bind.
    + apply push_patches_inv; [exact H1|exact Hh1|].
      rewrite Hkeep. rewrite <- (firstn_skipn k al) in Hnd.
      apply (nodup_sub_app _ (firstn k al) _ (skipn k al) _ Hnd).
      * apply nodup_firstn. rewrite (firstn_skipn k al) in Hnd. exact Hnd.
      * now apply nodup_app in Hnd as [_ [? _]].
      * intros x Hx. rewrite <- (firstn_firstn_le _ j k) in Hx by exact Hj. now apply in_firstn in Hx.
      * apply incl_refl.
    + cbv beta. intros t2 H2 Hh2 _.
      destruct (list_name_eqb (t_applied t2) al) eqn:El; [|exact I].
      apply list_name_eqb_eq in El. cbn. auto.
  - cbv beta. intros t3 H3 Hh3 Ha3. cbn [rinvP].
    assert (G : forall tt, tinv K tt -> t_head tt = None ->
              tinv K (match h with Some hl => set_lists tt (t_applied tt) (t_unapplied tt) hl | None => tt end)
              /\ t_head (match h with Some hl => set_lists tt (t_applied tt) (t_unapplied tt) hl | None => tt end) = None
              /\ t_applied (match h with Some hl => set_lists tt (t_applied tt) (t_unapplied tt) hl | None => tt end) = t_applied tt).
    { intros tt Ht Hht. destruct h; [|auto]. split; [now apply tinv_set_lists|auto]. }
    assert (G' : tinv K (match u with Some ul => set_lists t3 (t_applied t3) ul (t_hidden t3) | None => t3 end)
              /\ t_head (match u with Some ul => set_lists t3 (t_applied t3) ul (t_hidden t3) | None => t3 end) = None
              /\ t_applied (match u with Some ul => set_lists t3 (t_applied t3) ul (t_hidden t3) | None => t3 end) = t_applied t3).
    { destruct u; [|auto]. split; [now apply tinv_set_lists|auto]. }
    destruct G' as (G1 & G2 & G3). destruct (G _ G1 G2) as (G4 & G5 & G6).
    split; [exact G4|split; [exact G5|]]. rewrite G6, G3. exact Ha3.
Qed.

Lemma hide_inv : forall K to_hide t,
  tinv K t -> t_head t = None -> rinv K (hide_patches to_hide t).
Proof.
  intros K to_hide t H Hh. unfold hide_patches, rinv.
  eapply rinvP_weaken; [|apply reorder_inv; [exact H|exact Hh|]]; [auto|].
  intros al E. injection E as <-. apply nodup_filter. apply (ti_nodup K t H).
Qed.

Lemma unhide_inv : forall K to_unhide t,
  tinv K t -> t_head t = None -> rinv K (unhide_patches to_unhide t).
Proof.
  intros K to_unhide t H Hh. unfold unhide_patches, rinv.
  eapply rinvP_weaken; [|apply reorder_inv; [exact H|exact Hh|]]; [auto|]. discriminate.
Qed.

Lemma new_applied_inv : forall K n o t,
  tinv K t -> t_head t = None -> ~ In n (t_applied t) ->
  (exists p, parents_of (t_objs t) o = [p]) ->
  rinvP K (fun t' => t_applied t' = t_applied t ++ [n] /\ t_objs t' = t_objs t
                     /\ (forall m, t_patch t' m = if name_eqb n m then Some o else t_patch t m))
        (new_applied n o t).
Proof.
  intros K n o t H Hh Hn [p Hp]. unfold new_applied.
  unfold first_parent. rewrite Hp. cbn [hd_error].
  destruct (t_top t) as [top|] eqn:Etop; [|exact I].
  destruct (Nat.eqb p top) eqn:E; [|exact I]. apply Nat.eqb_eq in E. subst p.
  set (t' := set_updated _ _).
  assert (Hpat : forall m, t_patch t' m = if name_eqb n m then Some o else t_patch t m).
  { intros m. unfold t_patch, t'. tproj. rewrite up_get_set. now destruct (name_eqb n m). }
  cbn [rinvP]. split; [|split; [exact Hh|split; [reflexivity|split; [reflexivity|exact Hpat]]]].
  apply (tinv_push_name K t t' n o top); try assumption; try reflexivity.
  - apply ns_extends_refl.
  - intros m Hne. rewrite Hpat. now rewrite name_eqb_neq by congruence.
  - rewrite Hpat. now rewrite name_eqb_refl.
  - now left.
Qed.

(* replacing the commit of the topmost patch by one with the same parents *)
Lemma update_top_inv : forall K pn o pc l t,
  tinv K t -> t_head t = None -> t_applied t = l ++ [pn] -> t_patch t pn = Some pc ->
  parents_of (t_objs t) o = parents_of (t_objs t) pc ->
  rinvP K (fun t' => t_applied t' = t_applied t) (update_patch pn o t).
Proof.
  intros K pn o pc l t H Hh Ha Hpc Hpar. unfold update_patch. rewrite Hpc.
  set (t' := set_updated _ _).
  assert (Hpat : forall m, t_patch t' m = if name_eqb pn m then Some o else t_patch t m).
  { intros m. unfold t_patch, t'. tproj. rewrite up_get_set. now destruct (name_eqb pn m). }
  cbn [rinvP]. split; [|split; [exact Hh|reflexivity]].
  pose proof (ti_nodup K t H) as Hnd. rewrite Ha in Hnd.
  assert (Hl : ~ In pn l).
  { apply nodup_app in Hnd as [_ [_ Hd]]. intros Hi. apply (Hd pn Hi). now left. }
  assert (Hoids : toids t' = map (toid t) l ++ [o]).
  { unfold toids. change (t_applied t') with (t_applied t). rewrite Ha, map_app. cbn.
    unfold toid at 2. rewrite Hpat, name_eqb_refl. f_equal. apply map_ext_in. intros m Hm.
    unfold toid. rewrite Hpat. rewrite name_eqb_neq; [reflexivity|]. intros ->. contradiction. }
  assert (Hoids0 : toids t = map (toid t) l ++ [pc]).
  { unfold toids. rewrite Ha, map_app. cbn. unfold toid at 2. now rewrite Hpc. }
  destruct H as [X1 X2 X3 X4 X5 X6 ti_has0 ti_single0 ti_chain0 X10]. constructor; try assumption.
  - intros m Hm. rewrite Hpat. destruct (name_eqb pn m); [discriminate|]. now apply ti_has0.
  - intros m o' Hm. rewrite Hpat in Hm. destruct (name_eqb pn m).
    + injection Hm as <-. change (t_objs t') with (t_objs t). rewrite Hpar. eauto.
    + eauto.
  - change (t_objs t') with (t_objs t). change (t_base_oid t') with (t_base_oid t).
    rewrite Hoids. rewrite Hoids0 in ti_chain0. apply chainl_app in ti_chain0 as [C1 C2].
    apply chainl_app. split; [exact C1|]. cbn in *. rewrite Hpar. exact C2.
  - left. exact Hh.
Qed.
(* ---- rename ---- *)

Lemma replace_first_in : forall old new l m,
  NoDup l -> In m (replace_first old new l) -> m = new \/ (In m l /\ m <> old).
Proof.
  intros old new l m. induction l as [|x l IH]; cbn; [tauto|]. intros Hnd Hm.
  inversion Hnd as [|? ? Hx Hnd']; subst.
  destruct (name_eqb x old) eqn:E.
  - apply name_eqb_eq in E. subst x. destruct Hm as [Hm|Hm]; [now left|].
    right. split; [now right|]. intros ->. contradiction.
  - apply name_eqb_false in E. destruct Hm as [Hm|Hm].
    + subst m. right. split; [now left|exact E].
    + destruct (IH Hnd' Hm) as [?|[? ?]]; [now left|right; split; [now right|assumption]].
Qed.

Lemma replace_first_nodup : forall old new l,
  NoDup l -> ~ In new l -> NoDup (replace_first old new l).
Proof.
  intros old new l. induction l as [|x l IH]; cbn; [constructor|]. intros Hnd Hn.
  inversion Hnd as [|? ? Hx Hnd']; subst.
  destruct (name_eqb x old) eqn:E.
  - constructor; [tauto|exact Hnd'].
  - constructor; [|apply IH; tauto].
    intros Hi. apply (replace_first_in _ _ _ _ Hnd') in Hi as [->|[Hi _]]; tauto.
Qed.

Lemma rename_core : forall K old new o t u h,
  tinv K t -> t_head t = None -> ~ In new (t_applied t) -> new <> old -> t_patch t old = Some o ->
  tinv K (set_updated (set_lists t (replace_first old new (t_applied t)) u h)
                      (up_set (up_set (t_updated t) old None) new (Some o))).
Proof.
  intros K old new o t u h H Hh Hn Hne Ho. set (t' := set_updated _ _).
  assert (Hpat : forall m, t_patch t' m =
            if name_eqb new m then Some o else if name_eqb old m then None else t_patch t m).
  { intros m. unfold t_patch, t'. tproj. rewrite !up_get_set.
    destruct (name_eqb new m); [reflexivity|]. now destruct (name_eqb old m). }
  assert (Hsame : forall m, m <> new -> m <> old -> t_patch t' m = t_patch t m).
  { intros m H1 H2. rewrite Hpat. rewrite !name_eqb_neq by congruence. reflexivity. }
  assert (Hmap : forall l, NoDup l -> ~ In new l ->
            map (toid t') (replace_first old new l) = map (toid t) l).
  { induction l as [|x l IH]; intros Hnd Hnl; cbn; [reflexivity|].
    inversion Hnd as [|? ? Hx Hnd']; subst. destruct (name_eqb x old) eqn:E.
    - apply name_eqb_eq in E. subst x. cbn. f_equal.
      + unfold toid. rewrite Hpat, name_eqb_refl. now rewrite Ho.
      + apply map_ext_in. intros m Hm. unfold toid. rewrite Hsame; [reflexivity| |].
        * intros ->. apply Hnl. now right.
        * intros ->. contradiction.
    - apply name_eqb_false in E. cbn. f_equal.
      + unfold toid. rewrite Hsame; [reflexivity| |exact E]. intros ->. apply Hnl. now left.
      + apply IH; [exact Hnd'|]. intros Hi. apply Hnl. now right. }
  destruct H as [X1 X2 X3 X4 X5 X6 X7 X8 X9 X10]. constructor; try assumption.
  - now apply replace_first_nodup.
  - intros m Hm. change (t_applied t') with (replace_first old new (t_applied t)) in Hm.
    apply (replace_first_in _ _ _ _ X6) in Hm as [->|[Hm Hmo]].
    + rewrite Hpat, name_eqb_refl. discriminate.
    + rewrite Hsame; [now apply X7| |exact Hmo]. intros ->. contradiction.
  - intros m o' Hm. rewrite Hpat in Hm. change (t_objs t') with (t_objs t).
    destruct (name_eqb new m).
    + injection Hm as <-. eauto.
    + destruct (name_eqb old m); [discriminate|eauto].
  - change (t_objs t') with (t_objs t). change (t_base_oid t') with (t_base_oid t).
    unfold toids. change (t_applied t') with (replace_first old new (t_applied t)).
    rewrite Hmap by assumption. exact X9.
  - left. exact Hh.
Qed.

Lemma rename_inv : forall K old new t,
  tinv K t -> t_head t = None -> ~ In new (t_applied t) ->
  up_get (t_updated t) old <> Some None ->
  rinv K (rename_patch old new t).
Proof.
  intros K old new t H Hh Hn Hup. unfold rename_patch, rinv.
  destruct (name_eqb new old) eqn:Eno; [cbn; auto|]. apply name_eqb_false in Eno.
  match goal with |- rinvP _ _ (if ?c then _ else _) => destruct c end; [apply (ti_ext K t H)|].
  destruct (negb _); [apply (ti_ext K t H)|].
  assert (G : forall a u h, a = replace_first old new (t_applied t) ->
            rinvP K (fun _ => True)
              match match up_get (t_updated t) old with
                    | Some (Some o) => Some o
                    | _ => pm_get (s_patches (t_stack t)) old end with
              | Some o => TOk (set_updated (set_lists t a u h)
                                 (up_set (up_set (t_updated t) old None) new (Some o)))
              | None => TPanic
              end).
  { intros a u h ->.
    destruct (match up_get (t_updated t) old with
              | Some (Some o) => Some o
              | _ => pm_get (s_patches (t_stack t)) old end) as [o|] eqn:Eps; [|exact I].
    assert (Ho : t_patch t old = Some o).
    { unfold t_patch. destruct (up_get (t_updated t) old) as [[o'|]|]; [exact Eps|congruence|exact Eps]. }
    cbn [rinvP]. split; [now apply rename_core|auto]. }
  destruct (mem old (t_applied t)) eqn:E1; [now apply G|].
  apply mem_false in E1. pose proof (replace_first_notin old new _ E1) as Hrf.
  destruct (mem old (t_unapplied t)); [apply G; now rewrite Hrf|].
  destruct (mem old (t_hidden t)); [apply G; now rewrite Hrf|exact I].
Qed.

(* ---- commit ---- *)

Definition commit_phase2 (to_commit to_push : list name) (t2 : txn) : tres :=
  match hd_error (rev to_commit) with
  | None => TPanic
  | Some lastn =>
      match t_patch t2 lastn with
      | None => TPanic
      | Some newbase =>
          let t3 := set_base t2 (Some newbase) in
          let t4 := set_updated t3 (mark_deleted (t_updated t3) to_commit) in
          if Nat.ltb (length (t_applied t4)) (length to_commit) then TPanic
          else
            let t5 := set_lists t4 (skipn (length to_commit) (t_applied t4)) (t_unapplied t4)
                                (t_hidden t4) in
            push_patches to_push false t5
      end
  end.

Definition kctx_same (K K' : kctx) : Prop :=
  k_objs K' = k_objs K /\ k_stack K' = k_stack K /\ k_sbase K' = k_sbase K /\ k_sh K' = k_sh K.

Lemma commit_phase2_inv : forall K C rest to_push t2,
  tinv K t2 -> t_head t2 = None -> t_applied t2 = C ++ rest -> NoDup (rest ++ to_push) ->
  exists K', kctx_same K K' /\ rinv K' (commit_phase2 C to_push t2).
Proof.
  intros K C rest to_push t2 H Hh Ha Hnd. unfold commit_phase2.
  destruct (hd_error (rev C)) as [lastn|] eqn:El; [|exists K; repeat split].
  assert (HC : C <> []). { intros ->. discriminate. }
  rewrite (hd_error_rev_last _ C lastn HC) in El. injection El as El.
  destruct (t_patch t2 lastn) as [newbase|] eqn:Enb; [|exists K; repeat split].
  cbv zeta. tproj.
  destruct (Nat.ltb (length (t_applied t2)) (length C)); [exists K; repeat split|].
  set (K' := mkK (k_objs K) (k_stack K) (k_sbase K) (Some newbase) (k_sh K)).
  exists K'. split; [repeat split|].
  rewrite Ha. rewrite skipn_app, Nat.sub_diag, skipn_all. cbn [app skipn].
  set (t5 := set_lists _ _ _ _).
  pose proof (ti_nodup K t2 H) as Hnd2. rewrite Ha in Hnd2.
  assert (Hpat : forall m, t_patch t5 m = if mem m C then None else t_patch t2 m).
  { intros m. unfold t_patch, t5. tproj. rewrite up_get_mark_deleted. now destruct (mem m C). }
  assert (Hrest : forall m, In m rest -> mem m C = false).
  { intros m Hm. apply mem_false. intros Hc. apply nodup_app in Hnd2 as [_ [_ Hd]]. now apply (Hd m Hc). }
  assert (H5 : tinv K' t5).
  { destruct H as [X1 X2 X3 X4 X5 X6 X7 X8 X9 X10]. constructor; try assumption; try reflexivity.
    - now apply nodup_app in Hnd2 as [_ [? _]].
    - intros m Hm. change (t_applied t5) with rest in Hm. rewrite Hpat, (Hrest m Hm).
      apply X7. rewrite Ha. apply in_or_app. now right.
    - intros m o Hm. rewrite Hpat in Hm. destruct (mem m C); [discriminate|].
      change (t_objs t5) with (t_objs t2). eauto.
    - change (t_objs t5) with (t_objs t2). change (t_base_oid t5) with newbase.
      unfold toids in *. change (t_applied t5) with rest. rewrite Ha, map_app in X9.
      apply chainl_app in X9 as [_ X9].
      rewrite (last_map_ne _ _ (toid t2) C lastn _ HC) in X9. unfold toid at 1 in X9.
      rewrite El, Enb in X9. erewrite map_ext_in; [exact X9|].
      intros m Hm. unfold toid. now rewrite Hpat, (Hrest m Hm).
    - left. exact Hh. }
  unfold rinv. eapply rinvP_weaken; [|apply push_patches_inv; [exact H5|exact Hh|exact Hnd]]. auto.
Qed.

Lemma commit_patches_eq : forall C t,
  commit_patches C t =
  let k := common_prefix_len (t_applied t) C in
  let to_push := if Nat.ltb k (length C)
                 then filter (fun n => negb (mem n C)) (skipn k (t_applied t)) else [] in
  tbind (if Nat.ltb k (length C) then
           let '(t1, _) := pop_patches (fun n => mem n to_push) t in
           tbind (push_patches (skipn k C) false t1) (fun t2 => TOk t2)
         else TOk t)
        (commit_phase2 C to_push).
Proof.
  intros C t. unfold commit_patches. cbv zeta.
  destruct (Nat.ltb (common_prefix_len (t_applied t) C) (length C)); reflexivity.
Qed.

Lemma keep_len_le : forall (f : name -> bool) l keep popped k x,
  l = keep ++ popped -> nth_error l k = Some x -> f x = true ->
  Forall (fun y => f y = false) keep -> length keep <= k.
Proof.
  intros f l keep popped k x E Hx Hf Hk.
  destruct (le_lt_dec (length keep) k) as [Hle|Hlt]; [exact Hle|exfalso].
  subst l. rewrite nth_error_app1 in Hx by exact Hlt. apply nth_error_In in Hx.
  rewrite Forall_forall in Hk. rewrite (Hk x Hx) in Hf. discriminate.
Qed.

Lemma skipn_cons_nth : forall (A : Type) k (l : list A) x r, skipn k l = x :: r -> nth_error l k = Some x.
Proof.
  intros A k. induction k as [|k IH]; intros [|y l] x r H; cbn in *; try discriminate.
  - now injection H as -> _.
  - eapply IH. exact H.
Qed.

Lemma nodup_first_skip : forall (A : Type) k (l : list A) y,
  NoDup l -> In y (firstn k l) -> In y (skipn k l) -> False.
Proof.
  intros A k l y H H1 H2. rewrite <- (firstn_skipn k l) in H.
  apply nodup_app in H as [_ [_ Hd]]. exact (Hd y H1 H2).
Qed.

Lemma commit_inv : forall K C t,
  tinv K t -> t_head t = None -> NoDup C ->
  (forall x r, common_prefix_len (t_applied t) C < length C ->
               skipn (common_prefix_len (t_applied t) C) (t_applied t) = x :: r -> ~ In x C) ->
  exists K', kctx_same K K' /\ rinv K' (commit_patches C t).
Proof.
  intros K C t H Hh HndC Hnext. rewrite commit_patches_eq. cbv zeta.
  set (A := t_applied t) in *. set (k := common_prefix_len A C) in *.
  pose proof (ti_nodup K t H) as HndA. fold A in HndA.
  assert (Hpre : firstn k A = firstn k C) by apply cpl_firstn.
  destruct (Nat.ltb k (length C)) eqn:Ek.
  - apply Nat.ltb_lt in Ek.
    set (to_push := filter (fun n => negb (mem n C)) (skipn k A)).
    destruct (pop_patches (fun n => mem n to_push) t) as [t1 inc] eqn:Ep.
    destruct (pop_patches_inv K (fun n => mem n to_push) t H Hh) as (H1 & Hh1 & popped & E1 & E2 & _ & E3).
    rewrite Ep in H1, Hh1, E1, E2. cbn [fst] in H1, Hh1, E1, E2. fold A in E1.
    assert (Hkeep : t_applied t1 = firstn k A).
    { destruct (skipn k A) as [|x r] eqn:Es.
      - (* nothing to push back: nothing is popped *)
        destruct E3 as [->|[y [r' [-> Hy]]]].
        + rewrite app_nil_r in E1. rewrite <- E1. symmetry. apply firstn_all2.
          assert (length (skipn k A) = 0) by now rewrite Es. rewrite skipn_length in H0. lia.
        + unfold to_push in Hy. cbn in Hy. discriminate.
      - assert (Hx : mem x to_push = true).
        { apply mem_In. unfold to_push. apply filter_In. split; [now left|].
          apply negb_true_iff, mem_false. now apply (Hnext x r). }
        assert (Hle : length (t_applied t1) <= k).
        { apply (keep_len_le (fun n => mem n to_push) A _ popped k x E1); [|exact Hx|exact E2].
          apply (skipn_cons_nth _ _ _ _ r). exact Es. }
        assert (Hge : k <= length (t_applied t1)).
        { destruct (le_lt_dec k (length (t_applied t1))) as [?|Hlt]; [assumption|exfalso].
          destruct E3 as [->|[y [r' [-> Hy]]]].
          - rewrite app_nil_r in E1. assert (length (skipn k A) = S (length r)) by now rewrite Es.
            rewrite skipn_length, E1 in H0. lia.
          - apply mem_In in Hy. unfold to_push in Hy. apply filter_In in Hy as [Hy _].
            apply (nodup_first_skip _ k A y HndA); [|now rewrite Es].
            rewrite E1, firstn_app. apply in_or_app. right.
            destruct (k - length (t_applied t1)) eqn:Ed; [lia|]. now left. }
        rewrite E1, firstn_app. replace (k - length (t_applied t1)) with 0 by lia.
        cbn. rewrite app_nil_r. symmetry. apply firstn_all2. lia. }
    assert (R1 : rinvP K (fun t2 => t_applied t2 = C)
                   (tbind (push_patches (skipn k C) false t1) (fun t2 => TOk t2))).
    { eapply rinvP_bind.
      - apply push_patches_inv; [exact H1|exact Hh1|].
        rewrite Hkeep, Hpre, firstn_skipn. exact HndC.
      - cbv beta. intros t2 H2 Hh2 Ha2. cbn [rinvP]. split; [exact H2|split; [exact Hh2|]].
        now rewrite Ha2, Hkeep, Hpre, firstn_skipn. }
    destruct (tbind (push_patches (skipn k C) false t1) (fun t2 => TOk t2)) as [t2|t2 hh|t2|];
      cbn [tbind]; try (exists K; split; [repeat split|exact R1]).
    destruct R1 as (H2 & Hh2 & Ha2).
    apply (commit_phase2_inv K C [] to_push t2 H2 Hh2); [now rewrite app_nil_r|].
    cbn. unfold to_push. apply nodup_filter. now apply nodup_skipn.
  - apply Nat.ltb_ge in Ek. pose proof (cpl_le_r A C) as Hle. fold k in Hle.
    assert (Hk : k = length C) by lia. cbn [tbind].
    apply (commit_phase2_inv K C (skipn k A) [] t H Hh).
    + fold A. rewrite <- (firstn_skipn k A) at 1. f_equal. rewrite Hpre. apply firstn_all2. lia.
    + rewrite app_nil_r. now apply nodup_skipn.
Qed.

(* ---------------------------------------------------------------- the final form *)

(* what execute needs of a finished transaction: base-free chain *)
Definition tfinal (t : txn) : Prop :=
  (forall n, In n (t_applied t) -> t_patch t n <> None)
  /\ exists base, chainl (t_objs t) base (toids t).

Lemma tinv_final : forall K t, tinv K t -> tfinal t.
Proof.
  intros K t H. split; [apply (ti_has K t H)|]. exists (t_base_oid t). apply (ti_chain K t H).
Qed.

Definition rfinal (objs0 : store) (s0 : sstate) (r : tres) : Prop :=
  match r with
  | TOk t | THalt t _ => tfinal t /\ ns_extends objs0 (t_objs t) /\ t_stack t = s0
  | TErr t => ns_extends objs0 (t_objs t)
  | TPanic => True
  end.

Lemma rinvP_final : forall K P r, rinvP K P r -> rfinal (k_objs K) (k_stack K) r.
Proof.
  intros K P [t|t h|t|] H; cbn in *; try exact H.
  - destruct H as [H _]. split; [now apply (tinv_final K)|]. split; [apply (ti_ext K t H)|apply (ti_stack K t H)].
  - split; [now apply (tinv_final K)|]. split; [apply (ti_ext K t H)|apply (ti_stack K t H)].
Qed.

(* ---- uncommit ---- *)

Lemma walk_down_chain : forall objs k o l,
  walk_down objs o k = Some l ->
  length l = k /\ exists b, chainl objs b (rev l) /\ last (rev l) b = o.
Proof.
  intros objs. induction k as [|k IH]; intros o l H; cbn in H.
  - injection H as <-. split; [reflexivity|]. exists o. cbn. auto.
  - destruct (parents_of objs o) as [|p [|q ps]] eqn:Ep; try discriminate.
    destruct (walk_down objs p k) as [l'|] eqn:Ew; [|discriminate]. injection H as <-.
    destruct (IH _ _ Ew) as [Hlen [b [Hc Hl]]]. split; [cbn; now rewrite Hlen|].
    exists b. cbn [rev]. split; [|apply last_snoc].
    apply chainl_snoc; [exact Hc|]. now rewrite Hl.
Qed.

Lemma pm_get_in_nodup : forall (ps : list (name * oid)) n o,
  NoDup (map fst ps) -> In (n, o) ps -> pm_get ps n = Some o.
Proof.
  induction ps as [|[k v] ps IH]; intros n o Hnd Hin; cbn in *; [tauto|].
  inversion Hnd as [|? ? Hk Hnd']; subst. destruct Hin as [Hin|Hin].
  - injection Hin as -> ->. now rewrite name_eqb_refl.
  - rewrite name_eqb_neq; [now apply IH|]. intros ->. apply Hk. apply in_map_iff. now exists (n, o).
Qed.

Lemma uncommit_final : forall K ps t b,
  tinv K t -> NoDup (map fst ps) ->
  (forall n, In n (map fst ps) -> ~ In n (t_applied t)) ->
  chainl (t_objs t) b (map snd ps) -> last (map snd ps) b = t_base_oid t ->
  rfinal (k_objs K) (k_stack K) (uncommit_patches ps t).
Proof.
  intros K ps t b H Hnd Hdis Hch Hlast. unfold uncommit_patches. fold (reg_all ps (t_updated t)).
  set (t' := set_lists _ _ _ _). cbn [rfinal].
  assert (Hpat : forall m, t_patch t' m = match pm_get ps m with Some o => Some o | None => t_patch t m end).
  { intros m. unfold t_patch, t'. tproj. rewrite up_get_reg_all by exact Hnd. now destruct (pm_get ps m). }
  split; [|split; [apply (ti_ext K t H)|apply (ti_stack K t H)]].
  split.
  - intros m Hm. change (t_applied t') with (map fst ps ++ t_applied t) in Hm. rewrite Hpat.
    destruct (pm_get ps m) eqn:E; [discriminate|]. apply in_app_or in Hm as [Hm|Hm].
    + apply pm_get_none_notin in E. contradiction.
    + now apply (ti_has K t H).
  - exists b. change (t_objs t') with (t_objs t). unfold toids.
    change (t_applied t') with (map fst ps ++ t_applied t). rewrite map_app.
    assert (E1 : map (toid t') (map fst ps) = map snd ps).
    { rewrite map_map. apply map_ext_in. intros [n o] Hin. cbn. unfold toid. rewrite Hpat.
      now rewrite (pm_get_in_nodup ps n o Hnd Hin). }
    assert (E2 : map (toid t') (t_applied t) = toids t).
    { apply map_ext_in. intros m Hm. unfold toid. rewrite Hpat.
      destruct (pm_get ps m) eqn:E; [|reflexivity]. exfalso. apply (Hdis m); [|exact Hm].
      apply pm_get_in in E. apply in_map_iff. now exists (m, o). }
    rewrite E1, E2. apply chainl_app. split; [exact Hch|]. rewrite Hlast. apply (ti_chain K t H).
Qed.

(* ---- reset_to_state ---- *)

Lemma reset_final : forall K st t,
  tinv K t ->
  NoDup (map fst (s_patches st)) ->
  (forall n, In n (s_applied st) -> pm_get (s_patches st) n <> None) ->
  chain_ok (t_objs t) st ->
  rfinal (k_objs K) (k_stack K) (reset_to_state st t).
Proof.
  intros K st t H Hnd Hhas Hch. unfold reset_to_state.
  match goal with |- rfinal _ _ (match ?nb with Some _ => _ | None => _ end) => destruct nb as [b|] end;
    [|apply (ti_ext K t H)].
  fold (reg_all (s_patches st) (mark_deleted (t_updated t) (t_all t))).
  set (t' := set_lists _ _ _ _). cbn [rfinal].
  assert (Hpat : forall m, In m (s_applied st) -> t_patch t' m = pm_get (s_patches st) m).
  { intros m Hm. unfold t_patch, t'. tproj. rewrite up_get_reg_all by exact Hnd.
    specialize (Hhas m Hm). now destruct (pm_get (s_patches st) m). }
  split; [|split; [apply (ti_ext K t H)|apply (ti_stack K t H)]].
  split.
  - intros m Hm. change (t_applied t') with (s_applied st) in Hm. rewrite Hpat by exact Hm. now apply Hhas.
  - apply chain_ok_char in Hch; [|exact Hhas]. destruct Hch as [base Hch]. exists base.
    change (t_objs t') with (t_objs t). unfold toids. change (t_applied t') with (s_applied st).
    unfold applied_oids in Hch. erewrite map_ext_in; [exact Hch|].
    intros m Hm. unfold toid, patch_oid. now rewrite Hpat.
Qed.

(* ---- small facts used by refresh ---- *)

Lemma tinv_set_objs : forall K t objs',
  tinv K t -> ns_extends (t_objs t) objs' -> tinv K (set_objs t objs').
Proof.
  intros K t objs' H He. pose proof (ns_store _ _ He) as He'.
  destruct H as [X1 X2 X3 X4 X5 X6 X7 X8 X9 X10]. constructor; try assumption.
  - cbn [t_objs set_objs]. eapply ns_extends_trans; eassumption.
  - intros n o Hn. change (t_patch (set_objs t objs') n) with (t_patch t n) in Hn.
    destruct (X8 n o Hn) as [p Hp]. exists p. cbn [t_objs set_objs]. now apply (parents_of_ext (t_objs t)).
  - cbn [t_objs set_objs]. change (t_base_oid (set_objs t objs')) with (t_base_oid t).
    change (toids (set_objs t objs')) with (toids t). now apply (chainl_ext (t_objs t)).
Qed.

Lemma delete_patches_patch : forall f t m,
  f m = false -> t_patch (fst (delete_patches f t)) m = t_patch t m.
Proof.
  intros f t m Hm. unfold delete_patches. destruct (split_at_first f (t_applied t)) as [keep popped].
  cbn [fst]. unfold t_patch. tproj. rewrite up_get_mark_deleted.
  match goal with |- context [mem m ?d] => destruct (mem m d) eqn:E end; [|reflexivity].
  apply mem_In in E. rewrite !in_app_iff, !filter_In in E. destruct E as [[_ E]|[[_ E]|[_ E]]]; congruence.
Qed.

Lemma delete_patches_objs : forall f t, t_objs (fst (delete_patches f t)) = t_objs t.
Proof.
  intros f t. unfold delete_patches. now destruct (split_at_first f (t_applied t)).
Qed.

Lemma new_applied_ok : forall n o t t',
  new_applied n o t = TOk t' ->
  t' = set_updated (set_lists t (t_applied t ++ [n]) (t_unapplied t) (t_hidden t))
                   (up_set (t_updated t) n (Some o)).
Proof.
  intros n o t t' H. unfold new_applied in H.
  destruct (first_parent (t_objs t) o); [|discriminate]. destruct (t_top t); [|discriminate].
  destruct (Nat.eqb _ _); [|discriminate]. now injection H as <-.
Qed.
