(* Proofs for the protocol properties C03, C04, C19, C11 (Model/Protocol.v,
   Model/ProtocolSpec.v).  Self-contained: only the model files are imported. *)
From Coq Require Import List NArith Bool Arith Lia.
From StgV Require Import Model.ProtocolSpec.
Import ListNotations.
Open Scope N_scope.

(* ================================================================ C03 *)

Lemma extmods_refs_none : forall pl r, p_extmods pl = None -> extmods_refs pl r = r.
Proof. intros pl r H. unfold extmods_refs. rewrite H. reflexivity. Qed.

Lemma closure_wt_none : forall pl w0, p_wt_merge pl = None -> closure_wt pl w0 = pw_wt w0.
Proof. intros pl w0 H. unfold closure_wt. rewrite H. reflexivity. Qed.

Lemma not_known_merge :
  forall pl p, ~ known_c03 pl p -> (2 <= point_index p)%nat -> p_wt_merge pl = None.
Proof.
  intros pl p Hk Hi. destruct (p_wt_merge pl) as [t|] eqn:E; [|reflexivity].
  exfalso. apply Hk. left. split; [|exact Hi]. rewrite E. discriminate.
Qed.

Lemma not_known_extmods :
  forall pl p, ~ known_c03 pl p -> (extmods_index pl <= point_index p)%nat -> p_extmods pl = None.
Proof.
  intros pl p Hk Hi. destruct (p_extmods pl) as [t|] eqn:E; [|reflexivity].
  exfalso. apply Hk. right. left. split; [|exact Hi]. rewrite E. discriminate.
Qed.

Lemma fault_atomic :
  forall pl w0 p,
    p_old_tree pl = pw_wt w0 -> ~ known_c03 pl p ->
    ob_exit (fault_at pl w0 p) = E2 /\ unchanged w0 (ob_world (fault_at pl w0 p)).
Proof.
  intros pl w0 p Hold Hk.
  assert (Hm : (2 <= point_index p)%nat -> closure_wt pl w0 = pw_wt w0).
  { intros Hi. apply closure_wt_none. eapply not_known_merge; eauto. }
  assert (He : (extmods_index pl <= point_index p)%nat ->
               extmods_refs pl (pw_refs w0) = pw_refs w0).
  { intros Hi. apply extmods_refs_none. eapply not_known_extmods; eauto. }
  assert (H5 : p <> PtAfterCheckout) by (intros ->; apply Hk; right; right; left; reflexivity).
  assert (H10 : p <> PtCritAfterEdit)
    by (intros ->; apply Hk; right; right; right; left; reflexivity).
  assert (H11 : p <> PtAfterCrit)
    by (intros ->; apply Hk; right; right; right; right; reflexivity).
  unfold unchanged.
  unfold extmods_index in He.
  destruct (p_ext_early pl) eqn:Ee;
    destruct p; try congruence; cbn in Hm, He;
    unfold fault_at, rollback, world_at, extmods_index; rewrite Ee; cbn;
    try rewrite Hm by lia; try rewrite He by lia; auto.
Qed.

Lemma known_classes_nonempty :
  exists pl w0 p, p_old_tree pl = pw_wt w0 /\ known_c03 pl p
                  /\ ~ unchanged w0 (ob_world (fault_at pl w0 p)).
Proof.
  exists (mkPlan None true false None [] 2 3 0 0 false false).
  exists (mkPW [(RBranch, 1); (RStack, 1)] 0).
  exists PtAfterCrit.
  split; [reflexivity|]. split.
  - right. right. right. right. reflexivity.
  - unfold unchanged. vm_compute. intros [H _]. discriminate H.
Qed.

Lemma refs_move_last :
  forall pl w0 p,
    (point_index p <= 9)%nat ->
    pw_refs (world_at pl w0 p) = pw_refs w0
    \/ (p_extmods pl <> None /\ pw_refs (world_at pl w0 p) = extmods_refs pl (pw_refs w0)).
Proof.
  intros pl w0 p Hi.
  destruct (p_extmods pl) as [s|] eqn:E.
  - destruct (p_ext_early pl) eqn:Ee;
      destruct p; cbn in Hi; try lia; unfold world_at, extmods_index; rewrite Ee; cbn; auto;
      right; (split; [discriminate | reflexivity]).
  - destruct (p_ext_early pl) eqn:Ee;
      destruct p; cbn in Hi; try lia; unfold world_at, extmods_index; rewrite Ee; cbn; auto;
      left; apply extmods_refs_none; exact E.
Qed.

(* ================================================================ C19 *)

Lemma sigint_before_crit :
  forall pl w0 p,
    in_critical p = false -> (point_index p <= 5)%nat ->
    ob_exit (sigint_at pl w0 p) = E130
    /\ (pw_refs (ob_world (sigint_at pl w0 p)) = pw_refs w0
        \/ (p_extmods pl <> None
            /\ pw_refs (ob_world (sigint_at pl w0 p)) = extmods_refs pl (pw_refs w0))).
Proof.
  intros pl w0 p Hc Hi. unfold sigint_at. rewrite Hc. cbn [ob_exit ob_world].
  split; [reflexivity|]. apply refs_move_last. lia.
Qed.

Lemma sigint_in_crit_completes :
  forall pl w0 p,
    in_critical p = true ->
    ob_world (sigint_at pl w0 p) = final_world pl w0 /\ ob_exit (sigint_at pl w0 p) = E130.
Proof.
  intros pl w0 p Hc. unfold sigint_at. rewrite Hc. split; reflexivity.
Qed.

Lemma sigint_never_misreports :
  forall pl w0 p, ob_says_rolled_back (sigint_at pl w0 p) = false.
Proof.
  intros pl w0 p. unfold sigint_at. destruct (in_critical p); reflexivity.
Qed.

(* ================================================================ refs as a map *)

Lemma str_eqb_true_iff : forall a b, str_eqb a b = true <-> a = b.
Proof.
  induction a as [|x a IH]; intros [|y b]; cbn; split; try congruence; try discriminate.
  - intros H. apply andb_true_iff in H as [H1 H2]. apply N.eqb_eq in H1.
    apply IH in H2. congruence.
  - intros H. injection H as -> ->. rewrite N.eqb_refl. apply IH. reflexivity.
Qed.

Lemma refname_eqb_true_iff : forall a b, refname_eqb a b = true <-> a = b.
Proof.
  intros [| |x] [| |y]; cbn; split; try congruence; try discriminate.
  - intros H. apply str_eqb_true_iff in H. congruence.
  - intros H. injection H as ->. apply str_eqb_true_iff. reflexivity.
Qed.

Lemma refname_eqb_refl : forall a, refname_eqb a a = true.
Proof. intros a. apply refname_eqb_true_iff. reflexivity. Qed.

Lemma refname_eqb_false_iff : forall a b, refname_eqb a b = false <-> a <> b.
Proof.
  intros a b. split.
  - intros H E. apply refname_eqb_true_iff in E. congruence.
  - intros H. destruct (refname_eqb a b) eqn:E; [|reflexivity].
    apply refname_eqb_true_iff in E. contradiction.
Qed.

Lemma ref_get_del :
  forall r k n, ref_get (ref_del r k) n = if refname_eqb k n then None else ref_get r n.
Proof.
  induction r as [|[k' v'] r IH]; intros k n; cbn [ref_del ref_get].
  - destruct (refname_eqb k n); reflexivity.
  - destruct (refname_eqb k' k) eqn:E1.
    + rewrite IH. apply refname_eqb_true_iff in E1. subst k'.
      destruct (refname_eqb k n); reflexivity.
    + cbn [ref_get]. rewrite IH.
      destruct (refname_eqb k n) eqn:E2; [|reflexivity].
      apply refname_eqb_true_iff in E2. subst n. rewrite E1. reflexivity.
Qed.

Lemma ref_get_set :
  forall r k v n, ref_get (ref_set r k v) n = if refname_eqb k n then Some v else ref_get r n.
Proof.
  intros r k v n. unfold ref_set. cbn [ref_get]. rewrite ref_get_del.
  destruct (refname_eqb k n); reflexivity.
Qed.

Lemma ref_get_apply_edit_other :
  forall r e n, edit_name e <> n -> ref_get (apply_edit r e) n = ref_get r n.
Proof.
  intros r e n H. apply refname_eqb_false_iff in H.
  destruct e as [k v x|k]; cbn [apply_edit edit_name] in *;
    [rewrite ref_get_set | rewrite ref_get_del];
    rewrite H; reflexivity.
Qed.

Lemma ref_get_fold_other :
  forall l r n, Forall (fun e => edit_name e <> n) l ->
    ref_get (fold_left apply_edit l r) n = ref_get r n.
Proof.
  induction l as [|e l IH]; intros r n H; cbn [fold_left]; [reflexivity|].
  inversion H as [|? ? He Hl]; subst. rewrite IH by exact Hl.
  apply ref_get_apply_edit_other. exact He.
Qed.

(* values written by a list of edits *)
Definition writes_in (V : list N) (e : redit) : Prop :=
  match e with EUpdate _ v _ => In v V | EDelete _ => True end.

Lemma ref_get_apply_edit_value :
  forall V r e n v, writes_in V e -> ref_get (apply_edit r e) n = Some v ->
    ref_get r n = Some v \/ In v V.
Proof.
  intros V r [k w x|k] n v Hw H; cbn [apply_edit writes_in] in *.
  - rewrite ref_get_set in H. destruct (refname_eqb k n); [|auto].
    injection H as <-. auto.
  - rewrite ref_get_del in H. destruct (refname_eqb k n); [discriminate|auto].
Qed.

Lemma ref_get_fold_value :
  forall V l r n v, Forall (writes_in V) l -> ref_get (fold_left apply_edit l r) n = Some v ->
    ref_get r n = Some v \/ In v V.
Proof.
  induction l as [|e l IH]; intros r n v Hl H; cbn [fold_left] in H; [auto|].
  inversion Hl as [|? ? He Hl']; subst.
  destruct (IH _ _ _ Hl' H) as [H1|H1]; [|auto].
  eapply ref_get_apply_edit_value; eauto.
Qed.

(* ================================================================ list facts *)

Lemma Forall_firstn : forall (A : Type) (P : A -> Prop) j l, Forall P l -> Forall P (firstn j l).
Proof.
  induction j as [|j IH]; intros [|a l] H; cbn; auto.
  inversion H; subst. constructor; auto.
Qed.

Lemma Forall_filter :
  forall (A : Type) (P : A -> Prop) f l, Forall P l -> Forall P (filter f l).
Proof.
  induction l as [|a l IH]; intros H; cbn; auto.
  inversion H; subst. destruct (f a); auto.
Qed.

Lemma filter_length_split :
  forall (A : Type) (f : A -> bool) l,
    (length (filter f l) + length (filter (fun e => negb (f e)) l) = length l)%nat.
Proof.
  induction l as [|a l IH]; cbn; [reflexivity|].
  destruct (f a); cbn; lia.
Qed.

Lemma commit_order_length : forall es, length (commit_order es) = length es.
Proof.
  intros es. unfold commit_order. rewrite app_length. apply filter_length_split.
Qed.

Lemma apply_prefix_full : forall es r, apply_prefix (length es) es r = apply_all es r.
Proof.
  intros es r. unfold apply_prefix, apply_all.
  rewrite <- (commit_order_length es). rewrite firstn_all. reflexivity.
Qed.

Lemma firstn_app_cases :
  forall (A : Type) j (l1 l2 : list A),
    firstn j (l1 ++ l2) = firstn j l1
    \/ exists k, firstn j (l1 ++ l2) = l1 ++ firstn (S k) l2.
Proof.
  intros A j l1 l2. rewrite firstn_app.
  destruct (le_lt_dec j (length l1)) as [H|H].
  - left. replace (j - length l1)%nat with O by lia. cbn. apply app_nil_r.
  - right. exists (j - length l1 - 1)%nat.
    rewrite firstn_all2 by lia. f_equal. f_equal. lia.
Qed.

(* ================================================================ shape of the edit list *)

Definition patch_edit_of (p : str * option N) : redit :=
  match snd p with
  | Some v => EUpdate (RPatch (fst p)) v XAny
  | None => EDelete (RPatch (fst p))
  end.

Definition state_expect (prev : option N) : expect :=
  match prev with Some v => XExistingMustMatch v | None => XMustNotExist end.

Definition head_edits (hd : option N) : list redit :=
  match hd with Some h => [EUpdate RBranch h XAny] | None => [] end.

Lemma build_edits_eq :
  forall ups prev ns hd,
    build_edits ups prev ns hd
    = map patch_edit_of ups ++ [EUpdate RStack ns (state_expect prev)] ++ head_edits hd.
Proof. reflexivity. Qed.

Lemma commit_order_build :
  forall ups prev ns hd,
    commit_order (build_edits ups prev ns hd)
    = filter is_update (map patch_edit_of ups)
      ++ EUpdate RStack ns (state_expect prev)
         :: (head_edits hd ++ filter (fun e => negb (is_update e)) (map patch_edit_of ups)).
Proof.
  intros ups prev ns hd. rewrite build_edits_eq. unfold commit_order.
  rewrite !filter_app. destruct hd as [h|]; cbn; rewrite <- ?app_assoc; cbn;
    rewrite ?app_nil_r; reflexivity.
Qed.

Definition is_patch_edit (e : redit) : Prop := exists n, edit_name e = RPatch n.

Lemma patch_edits_are_patch : forall ups, Forall is_patch_edit (map patch_edit_of ups).
Proof.
  induction ups as [|[n [v|]] ups IH]; cbn; constructor; auto; eexists; reflexivity.
Qed.

Lemma patch_edit_not :
  forall l n, (forall x, n <> RPatch x) -> Forall is_patch_edit l ->
    Forall (fun e => edit_name e <> n) l.
Proof.
  intros l n Hn H. induction H as [|e l [x Hx] _ IH]; constructor; auto.
  rewrite Hx. intros E. exact (Hn x (eq_sym E)).
Qed.

Lemma patch_edits_writes :
  forall V ups,
    (forall v, In v (flat_map (fun pu => match snd pu with Some v => [v] | None => [] end) ups)
               -> In v V) ->
    Forall (writes_in V) (map patch_edit_of ups).
Proof.
  induction ups as [|[n [v|]] ups IH]; intros H; cbn; constructor; cbn.
  - apply H. cbn. auto.
  - apply IH. intros w Hw. apply H. cbn. auto.
  - exact I.
  - apply IH. intros w Hw. apply H. cbn. exact Hw.
Qed.

(* the possible shapes of a prefix of the commit phase *)
Lemma prefix_shape :
  forall j ups prev ns hd,
    let P := filter is_update (map patch_edit_of ups) in
    let D := filter (fun e => negb (is_update e)) (map patch_edit_of ups) in
    firstn j (commit_order (build_edits ups prev ns hd)) = firstn j P
    \/ exists k, firstn j (commit_order (build_edits ups prev ns hd))
                 = P ++ EUpdate RStack ns (state_expect prev) :: firstn k (head_edits hd ++ D).
Proof.
  intros j ups prev ns hd P D. rewrite commit_order_build. fold P D.
  destruct (firstn_app_cases _ j P
              (EUpdate RStack ns (state_expect prev) :: (head_edits hd ++ D))) as [H|[k H]].
  - left. exact H.
  - right. exists k. rewrite H. reflexivity.
Qed.

Lemma fold_left_app_edit :
  forall l1 l2 r, fold_left apply_edit (l1 ++ l2) r = fold_left apply_edit l2 (fold_left apply_edit l1 r).
Proof. intros. apply fold_left_app. Qed.

Lemma not_patch_stack : forall x, RStack <> RPatch x.
Proof. intros x; discriminate. Qed.
Lemma not_patch_branch : forall x, RBranch <> RPatch x.
Proof. intros x; discriminate. Qed.

Lemma head_del_not_stack :
  forall hd ups k,
    Forall (fun e => edit_name e <> RStack)
      (firstn k (head_edits hd ++ filter (fun e => negb (is_update e)) (map patch_edit_of ups))).
Proof.
  intros hd ups k. apply Forall_firstn. apply Forall_app. split.
  - destruct hd; cbn; repeat constructor. discriminate.
  - apply patch_edit_not; [apply not_patch_stack|].
    apply Forall_filter. apply patch_edits_are_patch.
Qed.

(* RStack and RBranch along a prefix *)
Lemma prefix_stack_branch :
  forall j ups prev ns hd r,
    let r' := fold_left apply_edit (firstn j (commit_order (build_edits ups prev ns hd))) r in
    (ref_get r' RStack = ref_get r RStack /\ ref_get r' RBranch = ref_get r RBranch)
    \/ (ref_get r' RStack = Some ns
        /\ (hd = None -> ref_get r' RBranch = ref_get r RBranch)).
Proof.
  intros j ups prev ns hd r r'. subst r'.
  destruct (prefix_shape j ups prev ns hd) as [H|[k H]]; rewrite H; clear H.
  - left. split; apply ref_get_fold_other; apply Forall_firstn;
      (apply patch_edit_not; [|apply Forall_filter; apply patch_edits_are_patch]).
    + apply not_patch_stack.
    + apply not_patch_branch.
  - right. rewrite fold_left_app_edit. cbn [fold_left]. split.
    + rewrite ref_get_fold_other by apply head_del_not_stack.
      cbn [apply_edit]. rewrite ref_get_set. reflexivity.
    + intros ->. cbn [head_edits app].
      rewrite ref_get_fold_other.
      2:{ apply Forall_firstn. apply patch_edit_not; [apply not_patch_branch|].
          apply Forall_filter. apply patch_edits_are_patch. }
      cbn [apply_edit]. rewrite ref_get_set. cbn [refname_eqb].
      apply ref_get_fold_other.
      apply patch_edit_not; [apply not_patch_branch|].
      apply Forall_filter. apply patch_edits_are_patch.
Qed.

(* ================================================================ C04 *)

Lemma refs_before_edit :
  forall pl w0, pw_refs (world_at pl w0 PtCritBeforeEdit) = extmods_refs pl (pw_refs w0).
Proof.
  intros pl w0. unfold world_at, extmods_index. destruct (p_ext_early pl); reflexivity.
Qed.

Lemma extmods_stack :
  forall pl r,
    ref_get (extmods_refs pl r) RStack = ref_get r RStack
    \/ ref_get (extmods_refs pl r) RStack = p_extmods pl.
Proof.
  intros pl r. unfold extmods_refs. destruct (p_extmods pl) as [s|]; [right|left; reflexivity].
  rewrite ref_get_set. reflexivity.
Qed.

Lemma extmods_branch :
  forall pl r, ref_get (extmods_refs pl r) RBranch = ref_get r RBranch.
Proof.
  intros pl r. unfold extmods_refs. destruct (p_extmods pl) as [s|]; [|reflexivity].
  rewrite ref_get_set. reflexivity.
Qed.

Lemma crash_in_edit_refs :
  forall pl w0 j,
    pw_refs (crash_in_edit pl w0 j)
    = fold_left apply_edit
        (firstn j (commit_order
           (build_edits (p_patch_updates pl) (ref_get (extmods_refs pl (pw_refs w0)) RStack)
              (p_new_state pl) (if p_set_head pl then Some (p_new_head pl) else None))))
        (extmods_refs pl (pw_refs w0)).
Proof.
  intros pl w0 j. unfold crash_in_edit. cbn [pw_refs]. rewrite refs_before_edit. reflexivity.
Qed.

Lemma state_ref_two_valued_in_edit :
  forall pl w0 j, stack_ref_two_valued pl w0 (crash_in_edit pl w0 j).
Proof.
  intros pl w0 j. unfold stack_ref_two_valued. rewrite crash_in_edit_refs.
  match goal with |- context[fold_left apply_edit (firstn j (commit_order (build_edits ?u ?p ?n ?h))) ?r] =>
    destruct (prefix_stack_branch j u p n h r) as [[H _]|[H _]] end.
  - rewrite H. destruct (extmods_stack pl (pw_refs w0)) as [E|E]; rewrite E; auto.
  - rewrite H. auto.
Qed.

Lemma full_prefix :
  forall pl w0,
    pw_refs (crash_in_edit pl w0 (length (plan_edits pl (pw_refs (world_at pl w0 PtCritBeforeEdit)))))
    = pw_refs (world_at pl w0 PtCritAfterEdit).
Proof.
  intros pl w0. unfold crash_in_edit. cbn [pw_refs]. rewrite apply_prefix_full.
  unfold world_at, extmods_index. destruct (p_ext_early pl); reflexivity.
Qed.

Lemma state_ref_two_valued :
  forall pl w0 p, stack_ref_two_valued pl w0 (crash_at pl w0 p).
Proof.
  intros pl w0 p. unfold crash_at.
  assert (Hlate : stack_ref_two_valued pl w0 (world_at pl w0 PtCritAfterEdit)).
  { unfold stack_ref_two_valued. rewrite <- full_prefix.
    apply state_ref_two_valued_in_edit. }
  assert (Hmid : ref_get (extmods_refs pl (pw_refs w0)) RStack = ref_get (pw_refs w0) RStack
                 \/ ref_get (extmods_refs pl (pw_refs w0)) RStack = p_extmods pl
                 \/ ref_get (extmods_refs pl (pw_refs w0)) RStack = Some (p_new_state pl)).
  { destruct (extmods_stack pl (pw_refs w0)); auto. }
  unfold stack_ref_two_valued in *.
  assert (Hall : forall q, (point_index q <= 9)%nat ->
            ref_get (pw_refs (world_at pl w0 q)) RStack = ref_get (pw_refs w0) RStack
            \/ ref_get (pw_refs (world_at pl w0 q)) RStack = p_extmods pl
            \/ ref_get (pw_refs (world_at pl w0 q)) RStack = Some (p_new_state pl)).
  { intros q Hq. destruct (refs_move_last pl w0 q Hq) as [E|[_ E]]; rewrite E;
      [left; reflexivity | exact Hmid]. }
  assert (Hfin : pw_refs (world_at pl w0 PtAfterCrit) = pw_refs (world_at pl w0 PtCritAfterEdit)).
  { unfold world_at, extmods_index. destruct (p_ext_early pl); reflexivity. }
  destruct p; try exact Hlate; try (rewrite Hfin; exact Hlate); apply Hall; cbn; lia.
Qed.

Lemma plan_writes :
  forall pl prev,
    Forall (writes_in (plan_values pl))
      (build_edits (p_patch_updates pl) prev (p_new_state pl)
         (if p_set_head pl then Some (p_new_head pl) else None)).
Proof.
  intros pl prev. rewrite build_edits_eq. apply Forall_app. split.
  - apply patch_edits_writes. intros v Hv. unfold plan_values.
    right. right. apply in_or_app. right. exact Hv.
  - constructor; [cbn; auto|].
    destruct (p_set_head pl); cbn [head_edits]; [|constructor].
    constructor; [|constructor]. cbn. auto.
Qed.

Lemma no_foreign_value_in_edit :
  forall pl w0 j, no_foreign_value pl w0 (crash_in_edit pl w0 j).
Proof.
  intros pl w0 j n v H. rewrite crash_in_edit_refs in H.
  apply ref_get_fold_value with (V := plan_values pl) in H.
  - destruct H as [H|H]; [|auto].
    unfold extmods_refs in H. destruct (p_extmods pl) as [s|] eqn:E; [|auto].
    rewrite ref_get_set in H. destruct (refname_eqb RStack n); [|auto].
    injection H as <-. right. unfold plan_values. rewrite E. cbn. auto.
  - apply Forall_firstn. unfold commit_order. apply Forall_app.
    split; apply Forall_filter; apply plan_writes.
Qed.

Lemma branch_after_state :
  forall pl w0 j,
    ref_get (pw_refs (crash_in_edit pl w0 j)) RBranch <> ref_get (pw_refs w0) RBranch ->
    p_set_head pl = true /\
    ref_get (pw_refs (crash_in_edit pl w0 j)) RStack = Some (p_new_state pl).
Proof.
  intros pl w0 j. rewrite crash_in_edit_refs. intros Hb.
  match type of Hb with context[fold_left apply_edit (firstn j (commit_order (build_edits ?u ?p ?n ?h))) ?r] =>
    destruct (prefix_stack_branch j u p n h r) as [[_ H]|[Hs H]] end.
  - exfalso. apply Hb. rewrite H. apply extmods_branch.
  - split; [|exact Hs].
    destruct (p_set_head pl); [reflexivity|].
    exfalso. apply Hb. rewrite H by reflexivity. apply extmods_branch.
Qed.

(* ================================================================ C11: mirror on [option N] *)

(* only the state ref matters to the two processes: mirror of proc_step / run_sched on the
   current value of the state ref *)
Definition cas_ok (c expected : option N) : bool :=
  match expected with
  | Some v => match c with None => true | Some cv => N.eqb cv v end
  | None => match c with None => true | Some _ => false end
  end.

Definition astep (use_loaded : bool) (new_state : N) (ph : phase) (c : option N) (p : proc)
  : option N * proc :=
  match ph with
  | PhLoad => (c, mkProc c None new_state false false)
  | PhReadPrev => (c, mkProc (pr_loaded p) c (pr_new_state p) false false)
  | PhPublish =>
      if cas_ok c (if use_loaded then pr_loaded p else pr_prev_read p)
      then (Some (pr_new_state p), mkProc (pr_loaded p) (pr_prev_read p) (pr_new_state p) true false)
      else (c, mkProc (pr_loaded p) (pr_prev_read p) (pr_new_state p) true true)
  end.

Fixpoint arun (use_loaded : bool) (s1 s2 : N) (sched : list bool) (c : option N)
         (p1 p2 : proc) (d1 d2 : nat) : option N * proc * proc :=
  match sched with
  | [] => (c, p1, p2)
  | false :: rest =>
      match next_phase d1 with
      | Some ph => let '(c', p1') := astep use_loaded s1 ph c p1 in
                   arun use_loaded s1 s2 rest c' p1' p2 (S d1) d2
      | None => arun use_loaded s1 s2 rest c p1 p2 d1 d2
      end
  | true :: rest =>
      match next_phase d2 with
      | Some ph => let '(c', p2') := astep use_loaded s2 ph c p2 in
                   arun use_loaded s1 s2 rest c' p1 p2' d1 (S d2)
      | None => arun use_loaded s1 s2 rest c p1 p2 d1 d2
      end
  end.

Lemma edit_references_cas :
  forall r ns expected,
    edit_references r [EUpdate RStack ns (state_expect expected)]
    = if cas_ok (ref_get r RStack) expected then Some (ref_set r RStack ns) else None.
Proof.
  intros r ns expected. unfold edit_references, prepare_ok. cbn [forallb].
  rewrite andb_true_r.
  replace (expect_ok r (EUpdate RStack ns (state_expect expected)))
    with (cas_ok (ref_get r RStack) expected)
    by (destruct expected; reflexivity).
  reflexivity.
Qed.

Lemma proc_step_mirror :
  forall ul ns ph r p r' p',
    proc_step ul ns ph r p = (r', p') ->
    astep ul ns ph (ref_get r RStack) p = (ref_get r' RStack, p').
Proof.
  intros ul ns ph r p r' p' H. destruct ph; cbn [proc_step astep] in *.
  - injection H as <- <-. reflexivity.
  - injection H as <- <-. reflexivity.
  - fold (state_expect (if ul then pr_loaded p else pr_prev_read p)) in H.
    rewrite edit_references_cas in H.
    destruct (cas_ok (ref_get r RStack) (if ul then pr_loaded p else pr_prev_read p));
      injection H as <- <-; [|reflexivity].
    rewrite ref_get_set. reflexivity.
Qed.

Lemma run_sched_mirror :
  forall ul s1 s2 sched r p1 p2 d1 d2 r' p1' p2',
    run_sched ul s1 s2 sched r p1 p2 d1 d2 = (r', p1', p2') ->
    arun ul s1 s2 sched (ref_get r RStack) p1 p2 d1 d2 = (ref_get r' RStack, p1', p2').
Proof.
  intros ul s1 s2. induction sched as [|b rest IH]; intros r p1 p2 d1 d2 r' p1' p2' H.
  - cbn in *. injection H as <- <- <-. reflexivity.
  - cbn [run_sched arun] in *. destruct b.
    + destruct (next_phase d2) as [ph|]; [|apply IH; exact H].
      destruct (proc_step ul s2 ph r p2) as [r1 q] eqn:E.
      rewrite (proc_step_mirror _ _ _ _ _ _ _ E). apply IH. exact H.
    + destruct (next_phase d1) as [ph|]; [|apply IH; exact H].
      destruct (proc_step ul s1 ph r p1) as [r1 q] eqn:E.
      rewrite (proc_step_mirror _ _ _ _ _ _ _ E). apply IH. exact H.
Qed.

Lemma run2_mirror :
  forall ul s1 s2 sched r r' p1 p2,
    run2 ul s1 s2 sched r = (r', p1, p2) ->
    arun ul s1 s2 sched (ref_get r RStack) idle idle O O = (ref_get r' RStack, p1, p2).
Proof. intros. apply run_sched_mirror. assumption. Qed.

(* ---------------------------------------------------------------- log_linear *)

Definition one_of (v0 s1 s2 : N) (c : option N) : Prop :=
  c = Some v0 \/ c = Some s1 \/ c = Some s2.

Lemma astep_inv :
  forall ul ns d ph c p c' p',
    next_phase d = Some ph ->
    (d = O \/ pr_new_state p = ns) ->
    astep ul ns ph c p = (c', p') ->
    (c' = c \/ c' = Some ns) /\ pr_new_state p' = ns.
Proof.
  intros ul ns d ph c p c' p' Hd Hp H.
  destruct d as [|[|[|d]]]; cbn in Hd; try discriminate; injection Hd as <-;
    cbn [astep] in H.
  - injection H as <- <-. auto.
  - destruct Hp as [Hp|Hp]; [discriminate|]. injection H as <- <-. auto.
  - destruct Hp as [Hp|Hp]; [discriminate|].
    destruct (cas_ok c (if ul then pr_loaded p else pr_prev_read p));
      injection H as <- <-; cbn; rewrite Hp; auto.
Qed.

Lemma arun_inv :
  forall ul s1 s2 v0 sched c p1 p2 d1 d2 c' p1' p2',
    one_of v0 s1 s2 c ->
    (d1 = O \/ pr_new_state p1 = s1) ->
    (d2 = O \/ pr_new_state p2 = s2) ->
    arun ul s1 s2 sched c p1 p2 d1 d2 = (c', p1', p2') ->
    one_of v0 s1 s2 c'.
Proof.
  intros ul s1 s2 v0. induction sched as [|b rest IH];
    intros c p1 p2 d1 d2 c' p1' p2' Hc H1 H2 H.
  - cbn in H. injection H as <- <- <-. exact Hc.
  - cbn [arun] in H. destruct b.
    + destruct (next_phase d2) as [ph|] eqn:Hph; [|eapply IH; eauto].
      destruct (astep ul s2 ph c p2) as [c1 q] eqn:E.
      destruct (astep_inv _ _ _ _ _ _ _ _ Hph H2 E) as [Hc1 Hq].
      eapply IH; [| | |exact H]; auto.
      destruct Hc1 as [->| ->]; [exact Hc|]. right. right. reflexivity.
    + destruct (next_phase d1) as [ph|] eqn:Hph; [|eapply IH; eauto].
      destruct (astep ul s1 ph c p1) as [c1 q] eqn:E.
      destruct (astep_inv _ _ _ _ _ _ _ _ Hph H1 E) as [Hc1 Hq].
      eapply IH; [| | |exact H]; auto.
      destruct Hc1 as [->| ->]; [exact Hc|]. right. left. reflexivity.
Qed.

Lemma log_linear :
  forall use_loaded s1 s2 v0 sched r p1 p2 r',
    ref_get r RStack = Some v0 ->
    run2 use_loaded s1 s2 sched r = (r', p1, p2) ->
    ref_get r' RStack = Some v0 \/ ref_get r' RStack = Some s1 \/ ref_get r' RStack = Some s2.
Proof.
  intros ul s1 s2 v0 sched r p1 p2 r' Hr H.
  apply run2_mirror in H. rewrite Hr in H.
  eapply (arun_inv ul s1 s2 v0); [| | |exact H]; auto.
  left. reflexivity.
Qed.

(* ---------------------------------------------------------------- cas_on_reread_loses_updates *)

Lemma cas_on_reread_loses_updates :
  exists sched r p1 p2 r',
    complete_sched sched = true /\ ref_get r RStack = Some 10%N
    /\ run2 false 11 12 sched r = (r', p1, p2)
    /\ pr_failed p1 = false /\ pr_failed p2 = false /\ lost_update p1.
Proof.
  exists [false; true; true; true; false; false], [(RStack, 10)].
  eexists. eexists. eexists.
  split; [reflexivity|]. split; [reflexivity|].
  split; [vm_compute; reflexivity|].
  cbn. unfold lost_update. cbn. repeat split. discriminate.
Qed.

(* ---------------------------------------------------------------- cas_on_loaded_is_safe *)

Lemma bool_filter_length :
  forall l : list bool,
    (length (filter negb l) + length (filter (fun b => b) l) = length l)%nat.
Proof.
  induction l as [|[|] l IH]; cbn; lia.
Qed.

Lemma complete_sched_length : forall sched, complete_sched sched = true -> length sched = 6%nat.
Proof.
  intros sched H. unfold complete_sched in H. apply andb_true_iff in H as [H1 H2].
  apply Nat.eqb_eq in H1, H2. rewrite <- bool_filter_length. lia.
Qed.

Ltac resolve_eqb :=
  repeat (cbn in *;
          match goal with
          | H : context[N.eqb ?a ?b] |- _ => destruct (N.eqb_spec a b); try congruence
          end).

Lemma arun_loaded_safe :
  forall s1 s2 v0 sched c' p1 p2,
    complete_sched sched = true ->
    s1 <> v0 -> s2 <> v0 -> s1 <> s2 ->
    arun true s1 s2 sched (Some v0) idle idle O O = (c', p1, p2) ->
    ~ lost_update p1 /\ ~ lost_update p2
    /\ (pr_failed p1 = false -> pr_failed p2 = false ->
        pr_loaded p1 = Some s2 \/ pr_loaded p2 = Some s1).
Proof.
  intros s1 s2 v0 sched c' p1 p2 Hc N1 N2 N12 H.
  pose proof (complete_sched_length _ Hc) as Hl.
  destruct sched as [|b1 [|b2 [|b3 [|b4 [|b5 [|b6 [|b7 rest]]]]]]]; try discriminate Hl.
  clear Hl.
  destruct b1, b2, b3, b4, b5, b6; try discriminate Hc; clear Hc;
    unfold idle in H; resolve_eqb;
    injection H as <- <- <-; unfold lost_update; cbn;
    (split; [intros (_ & A & B); congruence|]);
    (split; [intros (_ & A & B); congruence|]);
    intros A B; try discriminate; first [left; reflexivity | right; reflexivity].
Qed.

Lemma cas_on_loaded_is_safe :
  forall s1 s2 v0 sched r p1 p2 r',
    complete_sched sched = true -> ref_get r RStack = Some v0 ->
    s1 <> v0 -> s2 <> v0 -> s1 <> s2 ->
    run2 true s1 s2 sched r = (r', p1, p2) ->
    ~ lost_update p1 /\ ~ lost_update p2
    /\ (pr_failed p1 = false -> pr_failed p2 = false ->
        pr_loaded p1 = Some s2 \/ pr_loaded p2 = Some s1).
Proof.
  intros s1 s2 v0 sched r p1 p2 r' Hc Hr N1 N2 N12 H.
  apply run2_mirror in H. rewrite Hr in H.
  exact (arun_loaded_safe s1 s2 v0 sched _ p1 p2 Hc N1 N2 N12 H).
Qed.
