(* Proofs for C17 (branch administration): the model of Model/Branch.v against the
   specification predicates of Model/BranchSpec.v.  Statements used by Properties/C17.v:
     deinitialize_exact, namespaces_disjoint, ensure_patch_refs_exact, cleanup_exact,
     delete_exact, rename_carries_stack, rename_config, clone_carries_stack,
     create_exact, switch_exact, describe_exact,
     protected_refuses, refused_changes_nothing, other_branches_untouched,
     stgit_twin_refuted, eval3_sound. *)
From Coq Require Import List NArith Bool String Lia Setoid.
From StgV Require Import Model.Chars Model.Branch Model.BranchSpec Model.GenTypes
  Proofs.CharsProofs.
Import ListNotations.
Local Close Scope string_scope.
Local Open Scope list_scope.
Local Open Scope N_scope.

(* ================================================================ strings *)

Lemma str_eqb_neq : forall a b, str_eqb a b = false <-> a <> b.
Proof.
  intros a b. split.
  - intros H E. apply str_eqb_eq in E. congruence.
  - intros H. destruct (str_eqb a b) eqn:E; [|reflexivity].
    apply str_eqb_eq in E. contradiction.
Qed.

Lemma negb_str_eqb_true : forall a b, negb (str_eqb a b) = true <-> a <> b.
Proof. intros a b. rewrite negb_true_iff. apply str_eqb_neq. Qed.

Lemma str_eq_dec : forall a b : str, a = b \/ a <> b.
Proof.
  intros a b. destruct (str_eqb a b) eqn:E.
  - left. apply str_eqb_eq. exact E.
  - right. apply str_eqb_neq. exact E.
Qed.

Lemma starts_with_app_same : forall p x y, starts_with (p ++ x) (p ++ y) = starts_with x y.
Proof.
  induction p as [|c p IH]; intros x y; cbn [app starts_with]; [reflexivity|].
  rewrite N.eqb_refl. cbn [andb]. apply IH.
Qed.

Lemma starts_with_app_l : forall p x s, starts_with (p ++ x) s = true -> starts_with p s = true.
Proof.
  intros p x s H. apply starts_with_iff in H as [t ->]. apply starts_with_iff.
  exists (x ++ t). now rewrite app_assoc.
Qed.

Lemma starts_with_self_app : forall p t, starts_with p (p ++ t) = true.
Proof. intros p t. apply starts_with_iff. exists t. reflexivity. Qed.

Lemma not_true_false : forall b : bool, b <> true -> b = false.
Proof. intros [|] H; [contradiction H; reflexivity|reflexivity]. Qed.

(* ================================================================ refs as association lists *)

Lemma In_ref_del : forall r k0 k v, In (k, v) (ref_del r k0) <-> In (k, v) r /\ k <> k0.
Proof.
  intros r k0 k v. unfold ref_del. rewrite filter_In. cbn [fst].
  rewrite negb_str_eqb_true. reflexivity.
Qed.

Lemma In_ref_del_prefix : forall r p k v,
  In (k, v) (ref_del_prefix r p) <-> In (k, v) r /\ starts_with p k = false.
Proof.
  intros r p k v. unfold ref_del_prefix. rewrite filter_In. cbn [fst].
  rewrite negb_true_iff. reflexivity.
Qed.

Lemma In_ref_set : forall r k0 v0 k v,
  In (k, v) (ref_set r k0 v0) <-> (In (k, v) r /\ k <> k0) \/ (k = k0 /\ v = v0).
Proof.
  intros r k0 v0 k v. unfold ref_set. rewrite in_app_iff, In_ref_del. cbn [In]. split.
  - intros [H|[H|[]]]; [left; exact H|]. injection H as <- <-. right. split; reflexivity.
  - intros [H|[-> ->]]; [left; exact H|]. right. left. reflexivity.
Qed.

Lemma ref_get_In : forall r k v, ref_get r k = Some v -> In (k, v) r.
Proof.
  induction r as [|[k' v'] r IH]; intros k v H; cbn [ref_get] in H; [discriminate|].
  destruct (str_eqb k' k) eqn:E.
  - apply str_eqb_eq in E. injection H as ->. subst. left. reflexivity.
  - right. apply IH. exact H.
Qed.

Lemma In_ref_get : forall r k v, In (k, v) r -> exists v', ref_get r k = Some v'.
Proof.
  induction r as [|[k' v'] r IH]; intros k v H; [destruct H|].
  cbn [ref_get]. destruct (str_eqb k' k) eqn:E; [eauto|].
  destruct H as [H|H].
  - injection H as -> ->. rewrite str_eqb_refl in E. discriminate.
  - eapply IH. exact H.
Qed.

Lemma ref_get_unique : forall r k v,
  In (k, v) r -> (forall v', In (k, v') r -> v' = v) -> ref_get r k = Some v.
Proof.
  intros r k v Hin Hu. destruct (In_ref_get _ _ _ Hin) as [v' Hv'].
  rewrite Hv'. f_equal. apply Hu. apply ref_get_In. exact Hv'.
Qed.

(* ================================================================ config entries *)

Lemma cfgent_eta : forall e : cfgent, e = (ce_sub e, ce_key e, ce_val e).
Proof. intros [[s k] v]. reflexivity. Qed.

Lemma In_cfg_remove_section : forall c s e,
  In e (cfg_remove_section c s) <-> In e c /\ ce_sub e <> s.
Proof.
  intros c s e. unfold cfg_remove_section. rewrite filter_In.
  rewrite negb_str_eqb_true. reflexivity.
Qed.

Lemma sub_key_eqb : forall e s k,
  str_eqb (ce_sub e) s && str_eqb (ce_key e) k = true <-> ce_sub e = s /\ ce_key e = k.
Proof. intros e s k. rewrite andb_true_iff, !str_eqb_eq. reflexivity. Qed.

Lemma In_cfg_del_key : forall c s k e,
  In e (cfg_del_key c s k) <-> In e c /\ ~ (ce_sub e = s /\ ce_key e = k).
Proof.
  intros c s k e. unfold cfg_del_key. rewrite filter_In. rewrite negb_true_iff.
  rewrite <- sub_key_eqb. rewrite not_true_iff_false. reflexivity.
Qed.

Lemma In_cfg_set : forall c s k v e,
  In e (cfg_set c s k v) <->
  (In e c /\ ~ (ce_sub e = s /\ ce_key e = k)) \/ e = (s, k, v).
Proof.
  intros c s k v e. unfold cfg_set. rewrite in_app_iff, In_cfg_del_key. cbn [In]. split.
  - intros [H|[H|[]]]; [left; exact H|right; symmetry; exact H].
  - intros [H|H]; [left; exact H|right; left; symmetry; exact H].
Qed.

Lemma In_cfg_rename_section : forall c old new e,
  In e (cfg_rename_section c old new) <->
  (In e c /\ ce_sub e <> old)
  \/ (exists e0, In e0 c /\ ce_sub e0 = old /\ e = (new, ce_key e0, ce_val e0)).
Proof.
  intros c old new e. unfold cfg_rename_section. rewrite in_map_iff. split.
  - intros [e0 [H1 H2]]. destruct (str_eqb (ce_sub e0) old) eqn:E.
    + apply str_eqb_eq in E. right. exists e0. auto.
    + apply str_eqb_neq in E. subst e. left. auto.
  - intros [[H1 H2]|[e0 [H1 [H2 H3]]]].
    + exists e. apply str_eqb_neq in H2. rewrite H2. auto.
    + exists e0. apply str_eqb_eq in H2. rewrite H2. auto.
Qed.

Lemma In_cfg_copy_section : forall c old new e,
  In e (cfg_copy_section c old new) <->
  (In e c /\ ce_sub e <> new)
  \/ (exists e0, In e0 c /\ ce_sub e0 = old /\ e = (new, ce_key e0, ce_val e0)).
Proof.
  intros c old new e. unfold cfg_copy_section.
  rewrite in_app_iff, In_cfg_remove_section, in_map_iff. split.
  - intros [H|[e0 [H1 H2]]]; [left; exact H|]. apply filter_In in H2 as [H2 H3].
    apply str_eqb_eq in H3. right. exists e0. auto.
  - intros [H|[e0 [H1 [H2 H3]]]]; [left; exact H|]. right. exists e0. split; [auto|].
    apply filter_In. split; [exact H1|]. apply str_eqb_eq. exact H2.
Qed.

Lemma filter_filter_negb : forall (A : Type) (f : A -> bool) l,
  filter f (filter (fun x => negb (f x)) l) = [].
Proof.
  intros A f. induction l as [|x l IH]; cbn [filter]; [reflexivity|].
  destruct (f x) eqn:E; cbn [negb filter]; [exact IH|]. rewrite E. exact IH.
Qed.

Lemma cfg_get_del_key_same : forall c s k, cfg_get (cfg_del_key c s k) s k = None.
Proof.
  intros c s k. unfold cfg_get, cfg_del_key.
  rewrite (filter_filter_negb _ (fun e => str_eqb (ce_sub e) s && str_eqb (ce_key e) k)).
  reflexivity.
Qed.

Lemma cfg_get_set_same : forall c s k v, cfg_get (cfg_set c s k v) s k = Some v.
Proof.
  intros c s k v. unfold cfg_get, cfg_set, cfg_del_key. rewrite filter_app.
  rewrite (filter_filter_negb _ (fun e => str_eqb (ce_sub e) s && str_eqb (ce_key e) k)).
  cbn [app filter ce_sub ce_key fst snd]. rewrite !str_eqb_refl. reflexivity.
Qed.

Lemma cfg_get_set_parent : forall c b parent,
  cfg_get (set_parent c b parent) (stgit_sub b) s_parentbranch = parent.
Proof.
  intros c b [p|]; unfold set_parent; [apply cfg_get_set_same|apply cfg_get_del_key_same].
Qed.

(* entries of a section other than <b>.stgit survive set_parent *)
Lemma In_set_parent_other : forall c b parent e,
  ce_sub e <> stgit_sub b -> (In e (set_parent c b parent) <-> In e c).
Proof.
  intros c b [p|] e Hne; unfold set_parent.
  - rewrite In_cfg_set. split.
    + intros [[H _]|H]; [exact H|]. subst e. contradiction Hne. reflexivity.
    + intros H. left. split; [exact H|]. intros [H1 _]. contradiction.
  - rewrite In_cfg_del_key. split; [intros [H _]; exact H|].
    intros H. split; [exact H|]. intros [H1 _]. contradiction.
Qed.

Lemma In_set_parent_sub : forall c b parent e,
  In e (set_parent c b parent) -> In e c \/ ce_sub e = stgit_sub b.
Proof.
  intros c b [p|] e; unfold set_parent.
  - rewrite In_cfg_set. intros [[H _]|H]; [left; exact H|right; subst e; reflexivity].
  - rewrite In_cfg_del_key. intros [H _]. left. exact H.
Qed.

Lemma In_set_parent_key : forall c b parent e,
  In e c -> ce_key e <> s_parentbranch -> In e (set_parent c b parent).
Proof.
  intros c b [p|] e Hin Hk; unfold set_parent.
  - rewrite In_cfg_set. left. split; [exact Hin|]. intros [_ H]. contradiction.
  - rewrite In_cfg_del_key. split; [exact Hin|]. intros [_ H]. contradiction.
Qed.

(* ================================================================ the three ref namespaces *)

Lemma head_ref_inj : forall a b, head_ref a = head_ref b -> a = b.
Proof. intros a b H. unfold head_ref in H. apply app_inv_head in H. exact H. Qed.

Lemma stack_ref_inj : forall a b, stack_ref a = stack_ref b -> a = b.
Proof. intros a b H. unfold stack_ref in H. apply app_inv_head in H. exact H. Qed.

Lemma patch_ref_inj : forall b n m, patch_ref b n = patch_ref b m -> n = m.
Proof. intros b n m H. unfold patch_ref in H. apply app_inv_head in H. exact H. Qed.

Lemma head_neq_stack : forall a b, head_ref a <> stack_ref b.
Proof.
  intros a b H. unfold head_ref, stack_ref, s_refs_heads, s_refs_stacks in H.
  cbn [app] in H. discriminate H.
Qed.

Lemma ns_patches_heads : forall x, starts_with s_refs_patches (s_refs_heads ++ x) = false.
Proof. intros x. reflexivity. Qed.

Lemma ns_patches_stacks : forall x, starts_with s_refs_patches (s_refs_stacks ++ x) = false.
Proof. intros x. reflexivity. Qed.

Lemma pp_not_head : forall b x, starts_with (patch_prefix b) (head_ref x) = false.
Proof.
  intros b x. apply not_true_false. intros H. unfold patch_prefix in H.
  apply starts_with_app_l in H. unfold head_ref in H. rewrite ns_patches_heads in H.
  discriminate H.
Qed.

Lemma pp_not_stack : forall b x, starts_with (patch_prefix b) (stack_ref x) = false.
Proof.
  intros b x. apply not_true_false. intros H. unfold patch_prefix in H.
  apply starts_with_app_l in H. unfold stack_ref in H. rewrite ns_patches_stacks in H.
  discriminate H.
Qed.

Lemma pp_patch_ref : forall b n, starts_with (patch_prefix b) (patch_ref b n) = true.
Proof. intros b n. unfold patch_ref. apply starts_with_self_app. Qed.

Lemma patch_ref_neq_head : forall b n x, patch_ref b n <> head_ref x.
Proof.
  intros b n x H. pose proof (pp_patch_ref b n) as H1. rewrite H, pp_not_head in H1.
  discriminate H1.
Qed.

Lemma patch_ref_neq_stack : forall b n x, patch_ref b n <> stack_ref x.
Proof.
  intros b n x H. pose proof (pp_patch_ref b n) as H1. rewrite H, pp_not_stack in H1.
  discriminate H1.
Qed.

Lemma pp_iff : forall b k, starts_with (patch_prefix b) k = true <-> exists n, k = patch_ref b n.
Proof. intros b k. unfold patch_ref. apply starts_with_iff. Qed.

(* refs/patches/<b>/ is a prefix of refs/patches/<b'>/<n> only for equal or conflicting names *)
Lemma sw_slash : forall b b' n,
  starts_with (b ++ [ch_slash]) ((b' ++ [ch_slash]) ++ n) = true ->
  b = b' \/ starts_with (b ++ [ch_slash]) b' = true \/ starts_with (b' ++ [ch_slash]) b = true.
Proof.
  induction b as [|x b IH]; intros [|y b'] n H.
  - left. reflexivity.
  - right. left. cbn [app starts_with] in *. exact H.
  - right. right. cbn [app starts_with] in *. apply andb_true_iff in H as [H _].
    apply N.eqb_eq in H. subst x. reflexivity.
  - cbn [app starts_with] in *. apply andb_true_iff in H as [H1 H2].
    apply N.eqb_eq in H1. subst y. rewrite N.eqb_refl. cbn [andb].
    destruct (IH _ _ H2) as [->|[H|H]]; auto.
Qed.

Lemma pp_clash : forall b b' n,
  starts_with (patch_prefix b) (patch_ref b' n) = true -> b = b' \/ df_conflict b b' = true.
Proof.
  intros b b' n H. unfold patch_ref, patch_prefix in H. rewrite <- app_assoc in H.
  rewrite starts_with_app_same in H. apply sw_slash in H as [H|[H|H]]; [left; exact H| |];
    right; unfold df_conflict; rewrite H; [reflexivity|apply orb_true_r].
Qed.

Lemma df_conflict_sym : forall a b, df_conflict a b = df_conflict b a.
Proof. intros a b. unfold df_conflict. apply orb_comm. Qed.

Lemma pp_unrelated : forall b b' n,
  b <> b' -> df_conflict b b' = false -> starts_with (patch_prefix b) (patch_ref b' n) = false.
Proof.
  intros b b' n Hne Hdf. apply not_true_false. intros H.
  apply pp_clash in H as [H|H]; [contradiction|]. rewrite H in Hdf. discriminate Hdf.
Qed.

Lemma stgit_sub_neq : forall x, stgit_sub x <> x.
Proof.
  intros x H. apply (f_equal (@List.length N)) in H. unfold stgit_sub, s_dot_stgit in H.
  rewrite app_length in H. cbn [List.length] in H. lia.
Qed.

Lemma stgit_sub_inj : forall a b, stgit_sub a = stgit_sub b -> a = b.
Proof. intros a b H. unfold stgit_sub in H. apply app_inv_tail in H. exact H. Qed.

Lemma ref_of_branch_cases : forall b k,
  ref_of_branch b k <-> k = head_ref b \/ k = stack_ref b \/ exists n, k = patch_ref b n.
Proof. intros b k. unfold ref_of_branch, stgit_ref_of. rewrite pp_iff. reflexivity. Qed.

Lemma unrelated_sym : forall b b', unrelated b b' -> unrelated b' b.
Proof.
  intros b b' [H1 H2]. split; [congruence|]. rewrite df_conflict_sym. exact H2.
Qed.

(* the refs of two names that can coexist are disjoint *)
Lemma refs_disjoint : forall b b' k, unrelated b b' -> ref_of_branch b' k -> ~ ref_of_branch b k.
Proof.
  intros b b' k [Hne Hdf] H' H. apply ref_of_branch_cases in H'.
  unfold ref_of_branch, stgit_ref_of in H.
  destruct H' as [->|[->|[n ->]]]; destruct H as [H|[H|H]].
  - apply head_ref_inj in H. congruence.
  - exact (head_neq_stack _ _ H).
  - rewrite pp_not_head in H. discriminate H.
  - symmetry in H. exact (head_neq_stack _ _ H).
  - apply stack_ref_inj in H. congruence.
  - rewrite pp_not_stack in H. discriminate H.
  - exact (patch_ref_neq_head _ _ _ H).
  - exact (patch_ref_neq_stack _ _ _ H).
  - rewrite (pp_unrelated _ _ _ Hne Hdf) in H. discriminate H.
Qed.

Lemma namespaces_disjoint :
  forall b b' n,
    unrelated b b' ->
    ~ ref_of_branch b (head_ref b') /\ ~ ref_of_branch b (stack_ref b')
    /\ ~ ref_of_branch b (patch_ref b' n) /\ stgit_sub b' <> stgit_sub b.
Proof.
  intros b b' n Hu. repeat split.
  - apply (refs_disjoint _ _ _ Hu). left. reflexivity.
  - apply (refs_disjoint _ _ _ Hu). right. left. reflexivity.
  - apply (refs_disjoint _ _ _ Hu). right. right. apply pp_patch_ref.
  - intros H. apply stgit_sub_inj in H. destruct Hu as [Hne _]. congruence.
Qed.

(* ================================================================ name_free *)

Lemma In_names_under : forall ns r x v, In (ns ++ x, v) r -> In x (names_under ns r).
Proof.
  intros ns r x v Hin. unfold names_under. apply in_map_iff. exists (ns ++ x, v).
  cbn [fst]. split; [apply skipn_app_exact|]. apply filter_In. split; [exact Hin|].
  cbn [fst]. apply starts_with_self_app.
Qed.

Lemma name_free_None : forall ns r name x v,
  name_free ns r None name = true -> In (ns ++ x, v) r ->
  x <> name /\ df_conflict x name = false.
Proof.
  intros ns r name x v H Hin. unfold name_free in H. rewrite forallb_forall in H.
  apply In_names_under in Hin. apply H in Hin. apply andb_true_iff in Hin as [H1 H2].
  apply negb_str_eqb_true in H1. apply negb_true_iff in H2. auto.
Qed.

(* ================================================================ ensure_patch_refs, deinitialize *)

Lemma In_ensure : forall refs b ps k v,
  In (k, v) (ensure_patch_refs refs b ps) <->
  (In (k, v) refs /\ starts_with (patch_prefix b) k = false)
  \/ (exists n, k = patch_ref b n /\ In (n, v) ps).
Proof.
  intros refs b ps k v. unfold ensure_patch_refs.
  rewrite in_app_iff, In_ref_del_prefix, in_map_iff. split.
  - intros [H|[[n c] [H1 H2]]]; [left; exact H|]. cbn [fst snd] in H1.
    injection H1 as <- <-. right. exists n. split; [reflexivity|exact H2].
  - intros [H|[n [-> H]]]; [left; exact H|]. right. exists (n, v).
    split; [reflexivity|exact H].
Qed.

Lemma ensure_patch_refs_exact :
  forall refs b ps,
    (forall n c, In (patch_ref b n, c) (ensure_patch_refs refs b ps) <-> In (n, c) ps)
    /\ (forall k v, starts_with (patch_prefix b) k = false ->
                    (In (k, v) (ensure_patch_refs refs b ps) <-> In (k, v) refs)).
Proof.
  intros refs b ps. split.
  - intros n c. rewrite In_ensure. split.
    + intros [[_ H]|[m [H1 H2]]].
      * rewrite pp_patch_ref in H. discriminate H.
      * apply patch_ref_inj in H1. subst m. exact H2.
    + intros H. right. exists n. split; [reflexivity|exact H].
  - intros k v Hk. rewrite In_ensure. split.
    + intros [[H _]|[m [-> _]]]; [exact H|]. rewrite pp_patch_ref in Hk. discriminate Hk.
    + intros H. left. split; [exact H|exact Hk].
Qed.

Lemma In_ensure_outside : forall refs b ps k v,
  starts_with (patch_prefix b) k = false ->
  (In (k, v) (ensure_patch_refs refs b ps) <-> In (k, v) refs).
Proof. intros refs b ps k v H. apply (proj2 (ensure_patch_refs_exact refs b ps)). exact H. Qed.

Lemma not_stgit_ref : forall b k,
  ~ stgit_ref_of b k <-> k <> stack_ref b /\ starts_with (patch_prefix b) k = false.
Proof.
  intros b k. unfold stgit_ref_of. split.
  - intros H. split; [intros E; apply H; left; exact E|].
    apply not_true_false. intros E. apply H. right. exact E.
  - intros [H1 H2] [H|H]; [contradiction|]. rewrite H in H2. discriminate H2.
Qed.

Lemma not_rob : forall b k,
  ~ ref_of_branch b k <->
  k <> head_ref b /\ k <> stack_ref b /\ starts_with (patch_prefix b) k = false.
Proof.
  intros b k. unfold ref_of_branch. rewrite <- not_stgit_ref. split.
  - intros H. split; [intros E; apply H; left; exact E|intros E; apply H; right; exact E].
  - intros [H1 H2] [H|H]; contradiction.
Qed.

Lemma In_deinit_refs : forall R b k v,
  In (k, v) (ref_del (ref_del_prefix R (patch_prefix b)) (stack_ref b))
  <-> In (k, v) R /\ ~ stgit_ref_of b k.
Proof.
  intros R b k v. rewrite In_ref_del, In_ref_del_prefix, not_stgit_ref. split.
  - intros [[H1 H2] H3]. auto.
  - intros [H1 [H2 H3]]. auto.
Qed.

Lemma deinitialize_exact :
  forall r b,
    (forall k v, In (k, v) (b_refs (deinitialize r b)) <-> In (k, v) (b_refs r) /\ ~ stgit_ref_of b k)
    /\ (forall e, In e (b_cfg (deinitialize r b)) <-> In e (b_cfg r) /\ ce_sub e <> stgit_sub b)
    /\ b_head (deinitialize r b) = b_head r /\ b_states (deinitialize r b) = b_states r.
Proof.
  intros r b. unfold deinitialize. cbn [b_refs b_cfg b_head b_states].
  split; [|split; [|split; reflexivity]].
  - intros k v. apply In_deinit_refs.
  - intros e. apply In_cfg_remove_section.
Qed.

(* ================================================================ opening a stack *)

Definition opened (r : brepo) (b : str) (ps : list (str * N)) : brepo :=
  mkB (ensure_patch_refs (b_refs r) b ps) (b_cfg r) (b_head r) (b_states r).

Lemma open_stack_inv : forall r b r1,
  open_stack r b = Some r1 ->
  exists hid ps, ref_get (b_refs r) (head_ref b) = Some hid
                 /\ stack_patches r b = Some ps /\ r1 = opened r b ps.
Proof.
  intros r b r1. unfold open_stack.
  destruct (ref_get (b_refs r) (head_ref b)) as [hid|]; [|discriminate].
  destruct (stack_patches r b) as [ps|]; [|discriminate].
  intros H. injection H as <-. exists hid, ps. auto.
Qed.

Lemma has_stack_open : forall r b, has_stack r b = true <-> exists r1, open_stack r b = Some r1.
Proof.
  intros r b. unfold has_stack, open_stack.
  destruct (ref_get (b_refs r) (head_ref b)) as [hid|].
  - destruct (stack_patches r b) as [ps|].
    + split; [eauto|reflexivity].
    + split; [discriminate|]. intros [r1 H]. discriminate H.
  - split; [discriminate|]. intros [r1 H]. discriminate H.
Qed.

Lemma has_stack_false_open : forall r b, has_stack r b = false -> open_stack r b = None.
Proof.
  intros r b H. destruct (open_stack r b) as [r1|] eqn:E; [|reflexivity].
  assert (Ht : has_stack r b = true) by (apply has_stack_open; eauto).
  rewrite Ht in H. discriminate H.
Qed.

Lemma stack_patches_ref : forall r b ps,
  stack_patches r b = Some ps -> exists sid, ref_get (b_refs r) (stack_ref b) = Some sid.
Proof.
  intros r b ps. unfold stack_patches.
  destruct (ref_get (b_refs r) (stack_ref b)) as [sid|]; [eauto|discriminate].
Qed.

Lemma opened_refs_outside : forall r b ps k v,
  starts_with (patch_prefix b) k = false ->
  (In (k, v) (b_refs (opened r b ps)) <-> In (k, v) (b_refs r)).
Proof. intros r b ps k v H. unfold opened. cbn [b_refs]. apply In_ensure_outside. exact H. Qed.

Lemma is_protected_opened : forall r b ps b0, is_protected (opened r b ps) b0 = is_protected r b0.
Proof. reflexivity. Qed.

(* ================================================================ cleanup *)

Lemma cleanup_inv : forall r b force r' ok,
  cleanup r b force = (r', ok) ->
  (ok = false /\ (r' = r \/ exists ps, r' = opened r b ps))
  \/ (ok = true /\ exists ps, stack_patches r b = Some ps
                              /\ is_protected r b = false /\ r' = deinitialize (opened r b ps) b).
Proof.
  intros r b force r' ok. unfold cleanup, refuse.
  destruct (open_stack r b) as [r1|] eqn:Eo.
  - apply open_stack_inv in Eo as [hid [ps [Eh [Esp ->]]]].
    rewrite is_protected_opened.
    destruct (is_protected r b).
    + intros H. injection H as <- <-. left. split; [reflexivity|right; eauto].
    + destruct (stack_patches (opened r b ps) b) as [ps'|].
      * destruct (negb force && _); intros H; injection H as <- <-.
        -- left. split; [reflexivity|right; eauto].
        -- right. split; [reflexivity|]. exists ps. auto.
      * intros H. injection H as <- <-. left. split; [reflexivity|right; eauto].
  - intros H. injection H as <- <-. left. split; [reflexivity|left; reflexivity].
Qed.

Lemma deinit_opened_refs : forall r b ps k v,
  In (k, v) (b_refs (deinitialize (opened r b ps) b)) <-> In (k, v) (b_refs r) /\ ~ stgit_ref_of b k.
Proof.
  intros r b ps k v. rewrite (proj1 (deinitialize_exact (opened r b ps) b)). split.
  - intros [H1 H2]. split; [|exact H2]. apply not_stgit_ref in H2 as [_ H2].
    apply (opened_refs_outside r b ps k v H2). exact H1.
  - intros [H1 H2]. split; [|exact H2]. apply not_stgit_ref in H2 as [_ H2].
    apply (opened_refs_outside r b ps k v H2). exact H1.
Qed.

Lemma cleanup_exact :
  forall r b force r',
    cleanup r b force = (r', true) ->
    (forall k v, In (k, v) (b_refs r') <-> In (k, v) (b_refs r) /\ ~ stgit_ref_of b k)
    /\ (forall e, In e (b_cfg r') <-> In e (b_cfg r) /\ ce_sub e <> stgit_sub b)
    /\ b_head r' = b_head r.
Proof.
  intros r b force r' H. apply cleanup_inv in H as [[H _]|[_ [ps [_ [_ ->]]]]]; [discriminate H|].
  split; [|split].
  - intros k v. apply deinit_opened_refs.
  - intros e. apply (proj1 (proj2 (deinitialize_exact (opened r b ps) b))).
  - reflexivity.
Qed.

(* ================================================================ delete *)

Lemma delete_inv : forall r b force r' ok,
  delete r b force = (r', ok) ->
  (ok = false /\ (r' = r \/ exists ps, r' = opened r b ps))
  \/ (ok = true /\ exists hd,
        match open_stack r b with
        | Some r1 => is_protected r b = false
                     /\ r' = mkB (ref_del (b_refs (deinitialize r1 b)) (head_ref b))
                                 (cfg_remove_section (b_cfg (deinitialize r1 b)) b) hd (b_states r)
        | None => r' = mkB (ref_del (b_refs r) (head_ref b)) (cfg_remove_section (b_cfg r) b)
                           hd (b_states r)
        end).
Proof.
  intros r b force r' ok. unfold delete, refuse.
  destruct (ref_get (b_refs r) (head_ref b)) as [hid|];
    [|intros H; injection H as <- <-; left; split; [reflexivity|left; reflexivity]].
  assert (Hmain : forall sw : option str,
    (match
       match open_stack r b with
       | Some r1 =>
           if is_protected r1 b then None
           else match stack_patches r1 b with
                | Some ps => if negb force && negb (Nat.eqb (List.length ps) 0) then None
                             else Some (deinitialize r1 b)
                | None => None
                end
       | None => Some r
       end
     with
     | None => (match open_stack r b with Some r1 => r1 | None => r end, false)
     | Some r2 =>
         (mkB (ref_del (b_refs r2) (head_ref b)) (cfg_remove_section (b_cfg r2) b)
              (match sw with Some p => Some p | None => b_head r2 end) (b_states r2), true)
     end) = (r', ok) ->
    (ok = false /\ (r' = r \/ exists ps, r' = opened r b ps))
    \/ (ok = true /\ exists hd,
        match open_stack r b with
        | Some r1 => is_protected r b = false
                     /\ r' = mkB (ref_del (b_refs (deinitialize r1 b)) (head_ref b))
                                 (cfg_remove_section (b_cfg (deinitialize r1 b)) b) hd (b_states r)
        | None => r' = mkB (ref_del (b_refs r) (head_ref b)) (cfg_remove_section (b_cfg r) b)
                           hd (b_states r)
        end)).
  { intros sw. destruct (open_stack r b) as [r1|] eqn:Eo.
    - apply open_stack_inv in Eo as [hid' [ps [Eh [Esp ->]]]].
      rewrite is_protected_opened. destruct (is_protected r b).
      + intros H. injection H as <- <-. left. split; [reflexivity|right; eauto].
      + destruct (stack_patches (opened r b ps) b) as [ps'|].
        * destruct (negb force && _); intros H; injection H as <- <-.
          -- left. split; [reflexivity|right; eauto].
          -- right. split; [reflexivity|]. eexists. split; reflexivity.
        * intros H. injection H as <- <-. left. split; [reflexivity|right; eauto].
    - intros H. injection H as <- <-. right. split; [reflexivity|]. eexists. reflexivity. }
  destruct (b_head r) as [cur|].
  - destruct (str_eqb cur b).
    + destruct (cfg_get (b_cfg r) (stgit_sub b) s_parentbranch) as [p|].
      * exact (Hmain (Some p)).
      * intros H. injection H as <- <-. left. split; [reflexivity|left; reflexivity].
    + exact (Hmain None).
  - exact (Hmain None).
Qed.

Lemma delete_exact :
  forall r b force r',
    has_stack r b = true ->
    delete r b force = (r', true) ->
    (forall k v, In (k, v) (b_refs r') <-> In (k, v) (b_refs r) /\ ~ ref_of_branch b k)
    /\ (forall e, In e (b_cfg r') <-> In e (b_cfg r) /\ ce_sub e <> stgit_sub b /\ ce_sub e <> b).
Proof.
  intros r b force r' Hs H. apply has_stack_open in Hs as [r1 Eo].
  apply delete_inv in H as [[H _]|[_ [hd H]]]; [discriminate H|].
  rewrite Eo in H. destruct H as [_ ->].
  apply open_stack_inv in Eo as [hid [ps [_ [_ ->]]]]. cbn [b_refs b_cfg]. split.
  - intros k v. rewrite In_ref_del, deinit_opened_refs. unfold ref_of_branch. split.
    + intros [[H1 H2] H3]. split; [exact H1|]. intros [H|H]; contradiction.
    + intros [H1 H2]. split; [split; [exact H1|]|].
      * intros H. apply H2. right. exact H.
      * intros H. apply H2. left. exact H.
  - intros e. rewrite In_cfg_remove_section.
    rewrite (proj1 (proj2 (deinitialize_exact (opened r b ps) b))). cbn [opened b_cfg].
    split; [intros [[H1 H2] H3]; auto|intros [H1 [H2 H3]]; auto].
Qed.

Lemma delete_nostack_exact :
  forall r b force r',
    has_stack r b = false ->
    delete r b force = (r', true) ->
    (forall k v, In (k, v) (b_refs r') <-> In (k, v) (b_refs r) /\ k <> head_ref b)
    /\ (forall e, In e (b_cfg r') <-> In e (b_cfg r) /\ ce_sub e <> b).
Proof.
  intros r b force r' Hs H. apply has_stack_false_open in Hs.
  apply delete_inv in H as [[H _]|[_ [hd H]]]; [discriminate H|].
  rewrite Hs in H. subst r'. cbn [b_refs b_cfg]. split.
  - intros k v. apply In_ref_del.
  - intros e. apply In_cfg_remove_section.
Qed.

(* ================================================================ protection *)

Lemma protected_refuses :
  forall r b force,
    is_protected r b = true ->
    (has_stack r b = true -> snd (delete r b force) = false) /\ snd (cleanup r b force) = false.
Proof.
  intros r b force Hp. split.
  - intros Hs. destruct (delete r b force) as [r' ok] eqn:E. cbn [snd].
    apply delete_inv in E as [[E _]|[_ [hd E]]]; [exact E|].
    apply has_stack_open in Hs as [r1 Eo]. rewrite Eo in E. destruct E as [E _].
    rewrite E in Hp. discriminate Hp.
  - destruct (cleanup r b force) as [r' ok] eqn:E. cbn [snd].
    apply cleanup_inv in E as [[E _]|[_ [ps [_ [E _]]]]]; [exact E|].
    rewrite E in Hp. discriminate Hp.
Qed.

(* ================================================================ rename *)

Definition rn_refs (R : list (str * N)) (old new : str) (hid sid : N) (ps : list (str * N))
  : list (str * N) :=
  ensure_patch_refs
    (ref_del (ref_del_prefix
                (ref_set (ref_set (ref_del (ensure_patch_refs R old ps) (head_ref old))
                                  (head_ref new) hid)
                         (stack_ref new) sid)
                (patch_prefix old))
             (stack_ref old))
    new ps.

Definition rn_cfg (C : list cfgent) (old new : str) (parent : option str) : list cfgent :=
  set_parent
    (cfg_remove_section
       (cfg_rename_section (cfg_rename_section C old new) (stgit_sub old) (stgit_sub new))
       (stgit_sub old))
    new parent.

Lemma rename_inv : forall r old new r' ok,
  rename r old new = (r', ok) ->
  (ok = false /\ (r' = r \/ exists ps, r' = opened r old ps))
  \/ (ok = true /\ exists hid,
        ref_get (b_refs r) (head_ref old) = Some hid /\
        ((exists ps sid,
            stack_patches r old = Some ps /\ ref_get (b_refs r) (stack_ref old) = Some sid
            /\ name_free s_refs_stacks (ensure_patch_refs (b_refs r) old ps) None new = true
            /\ b_refs r' = rn_refs (b_refs r) old new hid sid ps
            /\ b_cfg r' = rn_cfg (b_cfg r) old new
                                 (cfg_get (b_cfg r) (stgit_sub old) s_parentbranch))
         \/ (has_stack r old = false
             /\ name_free s_refs_heads (b_refs r) (Some old) new = true
             /\ b_refs r' = ref_set (ref_del (b_refs r) (head_ref old)) (head_ref new) hid
             /\ b_cfg r' = set_parent (cfg_rename_section (b_cfg r) old new) new
                                      (cfg_get (b_cfg r) (stgit_sub old) s_parentbranch)))).
Proof.
  intros r old new r' ok. unfold rename, refuse.
  destruct (ref_get (b_refs r) (head_ref old)) as [hid|] eqn:Eh;
    [|intros H; injection H as <- <-; left; split; [reflexivity|left; reflexivity]].
  unfold open_stack, has_stack. rewrite Eh.
  destruct (stack_patches r old) as [ps|] eqn:Esp.
  - destruct (ref_get (b_refs r) (stack_ref old)) as [sid|] eqn:Es.
    + cbn [b_refs].
      destruct (name_free s_refs_stacks (ensure_patch_refs (b_refs r) old ps) None new) eqn:En1;
        cbn [negb];
        [|intros H; injection H as <- <-; left; split; [reflexivity|right; exists ps; reflexivity]].
      destruct (name_free s_refs_heads (ensure_patch_refs (b_refs r) old ps) (Some old) new);
        cbn [negb];
        [|intros H; injection H as <- <-; left; split; [reflexivity|right; exists ps; reflexivity]].
      intros H. injection H as <- <-. right. split; [reflexivity|]. exists hid.
      split; [reflexivity|]. left. exists ps, sid. repeat split; auto.
    + unfold stack_patches in Esp. rewrite Es in Esp. discriminate Esp.
  - destruct (name_free s_refs_heads (b_refs r) (Some old) new) eqn:En; cbn [negb];
      intros H; injection H as <- <-.
    + right. split; [reflexivity|]. exists hid. split; [reflexivity|]. right.
      repeat split; auto.
    + left. split; [reflexivity|left; reflexivity].
Qed.

Lemma In_rn_refs : forall R old new hid sid ps k v,
  new <> old ->
  (In (k, v) (rn_refs R old new hid sid ps) <->
   (In (k, v) R /\ ~ ref_of_branch old k /\ ~ ref_of_branch new k)
   \/ (k = head_ref new /\ v = hid) \/ (k = stack_ref new /\ v = sid)
   \/ (exists n, k = patch_ref new n /\ In (n, v) ps)).
Proof.
  intros R old new hid sid ps k v Hne. unfold rn_refs.
  rewrite In_ensure, In_ref_del, In_ref_del_prefix, !In_ref_set, In_ref_del, In_ensure.
  rewrite !not_rob. split.
  - intros [[[[H Hpo] Hso] Hpn]|H]; [|right; right; right; exact H].
    destruct H as [[H Hsn]|H]; [|right; right; left; exact H].
    destruct H as [[[H Hho] Hhn]|H]; [|right; left; exact H].
    destruct H as [[H _]|[n [-> _]]].
    + left. repeat split; assumption.
    + rewrite pp_patch_ref in Hpo. discriminate Hpo.
  - intros [[H [[Hho [Hso Hpo]] [Hhn [Hsn Hpn]]]]|[[-> ->]|[[-> ->]|H]]].
    + left. repeat split; try assumption. left. split; [|assumption].
      left. repeat split; try assumption. left. split; assumption.
    + left. split; [split; [split|]|].
      * left. split; [right; split; reflexivity|apply head_neq_stack].
      * apply pp_not_head.
      * apply head_neq_stack.
      * apply pp_not_head.
    + left. split; [split; [split|]|].
      * right. split; reflexivity.
      * apply pp_not_stack.
      * intros H. apply stack_ref_inj in H. contradiction.
      * apply pp_not_stack.
    + right. exact H.
Qed.

Lemma rob_head : forall b, ref_of_branch b (head_ref b).
Proof. intros b. left. reflexivity. Qed.
Lemma rob_stack : forall b, ref_of_branch b (stack_ref b).
Proof. intros b. right. left. reflexivity. Qed.
Lemma rob_patch : forall b n, ref_of_branch b (patch_ref b n).
Proof. intros b n. right. right. apply pp_patch_ref. Qed.

Lemma rename_carries_stack :
  forall r old new r' ps,
    rename r old new = (r', true) -> stack_patches r old = Some ps ->
    ref_get (b_refs r') (stack_ref new) = ref_get (b_refs r) (stack_ref old)
    /\ ref_get (b_refs r') (head_ref new) = ref_get (b_refs r) (head_ref old)
    /\ (forall n c, In (patch_ref new n, c) (b_refs r') <-> In (n, c) ps)
    /\ (forall k v, In (k, v) (b_refs r') -> ~ ref_of_branch old k)
    /\ same_refs_outside (fun k => ref_of_branch old k \/ ref_of_branch new k) r r'.
Proof.
  intros r old new r' ps H Hsp.
  apply rename_inv in H as [[H _]|[_ [hid [Eh H]]]]; [discriminate H|].
  destruct H as [[ps' [sid [Esp [Es [Enf [HR _]]]]]]|[Hs _]].
  2:{ unfold has_stack in Hs. rewrite Eh, Hsp in Hs. discriminate Hs. }
  rewrite Hsp in Esp. injection Esp as <-.
  assert (Hin : In (s_refs_stacks ++ old, sid) (ensure_patch_refs (b_refs r) old ps)).
  { apply In_ensure_outside; [apply pp_not_stack|]. apply ref_get_In. exact Es. }
  destruct (name_free_None _ _ _ _ _ Enf Hin) as [Hne Hdf].
  assert (Hne' : new <> old) by congruence.
  rewrite HR, Eh, Es.
  split; [|split; [|split; [|split]]].
  - apply ref_get_unique.
    + apply In_rn_refs; [exact Hne'|]. right. right. left. split; reflexivity.
    + intros v' H. apply In_rn_refs in H; [|exact Hne'].
      destruct H as [[_ [_ H]]|[[H _]|[[_ H]|[n [H _]]]]].
      * contradiction H. apply rob_stack.
      * symmetry in H. contradiction (head_neq_stack _ _ H).
      * exact H.
      * symmetry in H. contradiction (patch_ref_neq_stack _ _ _ H).
  - apply ref_get_unique.
    + apply In_rn_refs; [exact Hne'|]. right. left. split; reflexivity.
    + intros v' H. apply In_rn_refs in H; [|exact Hne'].
      destruct H as [[_ [_ H]]|[[_ H]|[[H _]|[n [H _]]]]].
      * contradiction H. apply rob_head.
      * exact H.
      * contradiction (head_neq_stack _ _ H).
      * symmetry in H. contradiction (patch_ref_neq_head _ _ _ H).
  - intros n c. unfold rn_refs. apply (proj1 (ensure_patch_refs_exact _ new ps)).
  - intros k v H. apply In_rn_refs in H; [|exact Hne'].
    destruct H as [[_ [H _]]|[[-> _]|[[-> _]|[n [-> _]]]]].
    + exact H.
    + apply (refs_disjoint old new); [split; assumption|apply rob_head].
    + apply (refs_disjoint old new); [split; assumption|apply rob_stack].
    + apply (refs_disjoint old new); [split; assumption|apply rob_patch].
  - unfold same_refs_outside. intros k v Hk. rewrite HR. rewrite In_rn_refs; [|exact Hne'].
    split.
    + intros [[H _]|[[-> _]|[[-> _]|[n [-> _]]]]].
      * exact H.
      * contradiction Hk. right. apply rob_head.
      * contradiction Hk. right. apply rob_stack.
      * contradiction Hk. right. apply rob_patch.
    + intros H. left. split; [exact H|]. split; intros X; apply Hk; [left|right]; exact X.
Qed.

(* ---- config of a rename *)

Lemma In_cfg_rename_other : forall c old new e,
  ce_sub e <> old -> ce_sub e <> new -> (In e (cfg_rename_section c old new) <-> In e c).
Proof.
  intros c old new e H1 H2. rewrite In_cfg_rename_section. split.
  - intros [[H _]|[e0 [_ [_ H]]]]; [exact H|]. subst e. contradiction H2. reflexivity.
  - intros H. left. auto.
Qed.

Lemma rn_cfg_outside : forall C old new parent e,
  ce_sub e <> old -> ce_sub e <> stgit_sub old -> ce_sub e <> new -> ce_sub e <> stgit_sub new ->
  (In e (rn_cfg C old new parent) <-> In e C).
Proof.
  intros C old new parent e H1 H2 H3 H4. unfold rn_cfg.
  rewrite In_set_parent_other; [|exact H4]. rewrite In_cfg_remove_section.
  rewrite In_cfg_rename_other; [|exact H2|exact H4].
  rewrite In_cfg_rename_other; [|exact H1|exact H3].
  split; [intros [H _]; exact H|auto].
Qed.

Lemma rename_config :
  forall r old new r',
    has_stack r old = true ->
    rename r old new = (r', true) -> no_twin old new ->
    (forall e, In e (b_cfg r') -> ce_sub e <> old /\ ce_sub e <> stgit_sub old)
    /\ (forall key v, In (old, key, v) (b_cfg r) -> In (new, key, v) (b_cfg r'))
    /\ (forall key v, In (stgit_sub old, key, v) (b_cfg r) -> key <> s_parentbranch ->
                      In (stgit_sub new, key, v) (b_cfg r'))
    /\ cfg_get (b_cfg r') (stgit_sub new) s_parentbranch
       = cfg_get (b_cfg r) (stgit_sub old) s_parentbranch
    /\ same_cfg_outside (fun s => s = old \/ s = stgit_sub old \/ s = new \/ s = stgit_sub new) r r'.
Proof.
  intros r old new r' Hst H [Ht1 Ht2].
  apply rename_inv in H as [[H _]|[_ [hid [Eh H]]]]; [discriminate H|].
  destruct H as [[ps [sid [Esp [Es [Enf [_ HC]]]]]]|[Hs _]];
    [|rewrite Hs in Hst; discriminate Hst].
  assert (Hin : In (s_refs_stacks ++ old, sid) (ensure_patch_refs (b_refs r) old ps)).
  { apply In_ensure_outside; [apply pp_not_stack|]. apply ref_get_In. exact Es. }
  destruct (name_free_None _ _ _ _ _ Enf Hin) as [Hne _].
  assert (Hss : stgit_sub new <> stgit_sub old).
  { intros X. apply stgit_sub_inj in X. congruence. }
  rewrite HC. split; [|split; [|split; [|split]]].
  - intros e H. unfold rn_cfg in H. apply In_set_parent_sub in H as [H|H].
    + apply In_cfg_remove_section in H as [H H1]. split; [|exact H1].
      apply In_cfg_rename_section in H as [[H _]|[e0 [_ [_ ->]]]].
      * apply In_cfg_rename_section in H as [[_ H]|[e0 [_ [_ ->]]]]; [exact H|].
        cbn [ce_sub fst]. congruence.
      * cbn [ce_sub fst]. congruence.
    + rewrite H. split; congruence.
  - intros key v H. unfold rn_cfg. apply In_set_parent_other.
    { cbn [ce_sub fst]. intros X. symmetry in X. exact (stgit_sub_neq _ X). }
    apply In_cfg_remove_section. split; [|exact Ht1].
    apply In_cfg_rename_section. left. split; [|exact Ht1].
    apply In_cfg_rename_section. right. exists (old, key, v). auto.
  - intros key v H Hk. unfold rn_cfg. apply In_set_parent_key; [|exact Hk].
    apply In_cfg_remove_section. split; [|exact Hss].
    apply In_cfg_rename_section. right. exists (stgit_sub old, key, v).
    split; [|split; reflexivity].
    apply In_cfg_rename_section. left. split; [exact H|]. apply stgit_sub_neq.
  - unfold rn_cfg. apply cfg_get_set_parent.
  - unfold same_cfg_outside. intros e He. rewrite HC. apply rn_cfg_outside.
    + intros X. apply He. auto.
    + intros X. apply He. auto.
    + intros X. apply He. auto.
    + intros X. apply He. auto.
Qed.

(* ================================================================ clone *)

Definition cl_refs (R : list (str * N)) (cur new : str) (hid sid : N) (ps : list (str * N))
  : list (str * N) :=
  ensure_patch_refs
    (ref_set (ref_set (ensure_patch_refs R cur ps) (head_ref new) hid) (stack_ref new) sid)
    new ps.

Definition cl_cfg (C : list cfgent) (cur new : str) : list cfgent :=
  cfg_set (set_parent (cfg_copy_section C cur new) new (Some cur))
          new s_description (s_clone_of ++ cur).

Lemma clone_inv : forall r new r' ok,
  clone r new = (r', ok) ->
  (ok = false /\ (r' = r \/ exists cur ps, b_head r = Some cur /\ r' = opened r cur ps))
  \/ (ok = true /\ exists cur hid sid ps,
        b_head r = Some cur /\ ref_get (b_refs r) (head_ref cur) = Some hid
        /\ stack_patches r cur = Some ps /\ ref_get (b_refs r) (stack_ref cur) = Some sid
        /\ name_free s_refs_heads (ensure_patch_refs (b_refs r) cur ps) None new = true
        /\ b_refs r' = cl_refs (b_refs r) cur new hid sid ps
        /\ b_cfg r' = cl_cfg (b_cfg r) cur new
        /\ b_head r' = Some new).
Proof.
  intros r new r' ok. unfold clone, refuse.
  destruct (b_head r) as [cur|] eqn:Ehd;
    [|intros H; injection H as <- <-; left; split; [reflexivity|left; reflexivity]].
  destruct (ref_get (b_refs r) (head_ref cur)) as [hid|] eqn:Eh;
    [|intros H; injection H as <- <-; left; split; [reflexivity|left; reflexivity]].
  unfold open_stack. rewrite Eh.
  destruct (stack_patches r cur) as [ps|] eqn:Esp;
    [|intros H; injection H as <- <-; left; split; [reflexivity|left; reflexivity]].
  destruct (ref_get (b_refs r) (stack_ref cur)) as [sid|] eqn:Es;
    [|intros H; injection H as <- <-; left; split; [reflexivity|right; exists cur, ps; auto]].
  cbn [b_refs b_cfg b_states].
  destruct (name_free s_refs_heads (ensure_patch_refs (b_refs r) cur ps) None new) eqn:En;
    cbn [negb];
    [|intros H; injection H as <- <-; left; split; [reflexivity|right; exists cur, ps; auto]].
  destruct (existsb (fun x => df_conflict x new)
              (names_under s_refs_stacks (ensure_patch_refs (b_refs r) cur ps))) eqn:Edf;
    intros H; injection H as <- <-.
  - left. split; [reflexivity|right; exists cur, ps; auto].
  - right. split; [reflexivity|]. exists cur, hid, sid, ps. repeat split; auto.
Qed.

Lemma In_cl_refs : forall R cur new hid sid ps k v,
  In (k, v) (cl_refs R cur new hid sid ps) <->
  (In (k, v) (ensure_patch_refs R cur ps) /\ ~ ref_of_branch new k)
  \/ (k = head_ref new /\ v = hid) \/ (k = stack_ref new /\ v = sid)
  \/ (exists n, k = patch_ref new n /\ In (n, v) ps).
Proof.
  intros R cur new hid sid ps k v. unfold cl_refs.
  rewrite In_ensure, !In_ref_set, not_rob. split.
  - intros [[H Hpn]|H]; [|right; right; right; exact H].
    destruct H as [[H Hsn]|H]; [|right; right; left; exact H].
    destruct H as [[H Hhn]|H]; [|right; left; exact H].
    left. auto.
  - intros [[H [Hhn [Hsn Hpn]]]|[[-> ->]|[[-> ->]|H]]].
    + left. split; [|exact Hpn]. left. split; [|exact Hsn]. left. split; assumption.
    + left. split; [|apply pp_not_head]. left. split; [|apply head_neq_stack].
      right. split; reflexivity.
    + left. split; [|apply pp_not_stack]. right. split; reflexivity.
    + right. exact H.
Qed.

Lemma cl_cfg_outside : forall C cur new e,
  ce_sub e <> new -> ce_sub e <> stgit_sub new -> (In e (cl_cfg C cur new) <-> In e C).
Proof.
  intros C cur new e H1 H2. unfold cl_cfg. rewrite In_cfg_set. split.
  - intros [[H _]|H]; [|subst e; contradiction H1; reflexivity].
    apply In_set_parent_other in H; [|exact H2].
    apply In_cfg_copy_section in H as [[H _]|[e0 [_ [_ H]]]]; [exact H|].
    subst e. contradiction H1. reflexivity.
  - intros H. left. split; [|intros [X _]; contradiction].
    apply In_set_parent_other; [exact H2|]. apply In_cfg_copy_section. left. auto.
Qed.

Lemma clone_carries_stack :
  forall r cur new r' ps,
    clone r new = (r', true) -> b_head r = Some cur -> stack_patches r cur = Some ps ->
    ref_get (b_refs r') (stack_ref new) = ref_get (b_refs r) (stack_ref cur)
    /\ ref_get (b_refs r') (head_ref new) = ref_get (b_refs r) (head_ref cur)
    /\ (forall n c, In (patch_ref new n, c) (b_refs r') <-> In (n, c) ps)
    /\ (forall n c, In (patch_ref cur n, c) (b_refs r') <-> In (n, c) ps)
    /\ same_refs_outside (fun k => ref_of_branch new k \/ starts_with (patch_prefix cur) k = true) r r'
    /\ same_cfg_outside (fun s => s = new \/ s = stgit_sub new) r r'
    /\ b_head r' = Some new.
Proof.
  intros r cur new r' ps H Hhd Hsp.
  apply clone_inv in H as [[H _]|[_ H]]; [discriminate H|].
  destruct H as [cur' [hid [sid [ps' [Ehd [Eh [Esp [Es [Enf [HR [HC HH]]]]]]]]]]].
  rewrite Hhd in Ehd. injection Ehd as <-. rewrite Hsp in Esp. injection Esp as <-.
  assert (Hin : In (s_refs_heads ++ cur, hid) (ensure_patch_refs (b_refs r) cur ps)).
  { apply In_ensure_outside; [apply pp_not_head|]. apply ref_get_In. exact Eh. }
  destruct (name_free_None _ _ _ _ _ Enf Hin) as [Hne Hdf].
  assert (Hun : unrelated new cur) by (apply unrelated_sym; split; assumption).
  rewrite HR, Eh, Es.
  split; [|split; [|split; [|split; [|split; [|split]]]]].
  - apply ref_get_unique.
    + apply In_cl_refs. right. right. left. split; reflexivity.
    + intros v' H. apply In_cl_refs in H.
      destruct H as [[_ H]|[[H _]|[[_ H]|[n [H _]]]]].
      * contradiction H. apply rob_stack.
      * symmetry in H. contradiction (head_neq_stack _ _ H).
      * exact H.
      * symmetry in H. contradiction (patch_ref_neq_stack _ _ _ H).
  - apply ref_get_unique.
    + apply In_cl_refs. right. left. split; reflexivity.
    + intros v' H. apply In_cl_refs in H.
      destruct H as [[_ H]|[[_ H]|[[H _]|[n [H _]]]]].
      * contradiction H. apply rob_head.
      * exact H.
      * contradiction (head_neq_stack _ _ H).
      * symmetry in H. contradiction (patch_ref_neq_head _ _ _ H).
  - intros n c. unfold cl_refs. apply (proj1 (ensure_patch_refs_exact _ new ps)).
  - intros n c. rewrite In_cl_refs. split.
    + intros [[H _]|[[H _]|[[H _]|[m [H _]]]]].
      * apply (proj1 (ensure_patch_refs_exact _ cur ps)) in H. exact H.
      * contradiction (patch_ref_neq_head _ _ _ H).
      * contradiction (patch_ref_neq_stack _ _ _ H).
      * exfalso. apply (refs_disjoint new cur (patch_ref cur n) Hun); [apply rob_patch|].
        rewrite H. apply rob_patch.
    + intros H. left. split.
      * apply (proj1 (ensure_patch_refs_exact _ cur ps)). exact H.
      * apply (refs_disjoint new cur _ Hun). apply rob_patch.
  - unfold same_refs_outside. intros k v Hk. rewrite HR, In_cl_refs.
    assert (Hpc : starts_with (patch_prefix cur) k = false).
    { apply not_true_false. intros X. apply Hk. right. exact X. }
    split.
    + intros [[H _]|[[-> _]|[[-> _]|[n [-> _]]]]].
      * apply In_ensure_outside in H; [exact H|exact Hpc].
      * contradiction Hk. left. apply rob_head.
      * contradiction Hk. left. apply rob_stack.
      * contradiction Hk. left. apply rob_patch.
    + intros H. left. split.
      * apply In_ensure_outside; [exact Hpc|exact H].
      * intros X. apply Hk. left. exact X.
  - unfold same_cfg_outside. intros e He. rewrite HC. apply cl_cfg_outside.
    + intros X. apply He. auto.
    + intros X. apply He. auto.
  - exact HH.
Qed.

(* ================================================================ protect / unprotect *)

Lemma protect_inv : forall r b r' ok,
  protect r b = (r', ok) ->
  (ok = false /\ r' = r)
  \/ (ok = true /\ exists ps,
        r' = mkB (ensure_patch_refs (b_refs r) b ps)
                 (cfg_set (b_cfg r) (stgit_sub b) s_protect s_true) (b_head r) (b_states r)).
Proof.
  intros r b r' ok. unfold protect, refuse. destruct (open_stack r b) as [r1|] eqn:Eo.
  - apply open_stack_inv in Eo as [hid [ps [_ [_ ->]]]]. intros H. injection H as <- <-.
    right. split; [reflexivity|]. exists ps. reflexivity.
  - intros H. injection H as <- <-. left. split; reflexivity.
Qed.

Lemma unprotect_inv : forall r b r' ok,
  unprotect r b = (r', ok) ->
  (ok = false /\ r' = r)
  \/ (ok = true /\ exists ps,
        r' = mkB (ensure_patch_refs (b_refs r) b ps)
                 (cfg_del_key (b_cfg r) (stgit_sub b) s_protect) (b_head r) (b_states r)).
Proof.
  intros r b r' ok. unfold unprotect, refuse. destruct (open_stack r b) as [r1|] eqn:Eo.
  - apply open_stack_inv in Eo as [hid [ps [_ [_ ->]]]]. intros H. injection H as <- <-.
    right. split; [reflexivity|]. exists ps. reflexivity.
  - intros H. injection H as <- <-. left. split; reflexivity.
Qed.

(* ================================================================ create / switch / describe *)

Lemma ref_get_filter : forall (f : str * N -> bool) r k,
  (forall v, f (k, v) = true) -> ref_get (filter f r) k = ref_get r k.
Proof.
  intros f r k Hf. induction r as [|[k' v'] r IH]; [reflexivity|].
  cbn [filter]. destruct (f (k', v')) eqn:Ef.
  - cbn [ref_get]. rewrite IH. reflexivity.
  - cbn [ref_get]. destruct (str_eqb k' k) eqn:E; [|exact IH].
    apply str_eqb_eq in E. subst k'. rewrite Hf in Ef. discriminate Ef.
Qed.

Lemma ref_get_app_other : forall r k' v' k,
  k' <> k -> ref_get (r ++ [(k', v')]) k = ref_get r k.
Proof.
  intros r k' v' k Hne. induction r as [|[k0 v0] r IH].
  - cbn [app ref_get]. apply str_eqb_neq in Hne. rewrite Hne. reflexivity.
  - cbn [app ref_get]. rewrite IH. reflexivity.
Qed.

Lemma ref_get_set_other : forall r k0 v0 k,
  k0 <> k -> ref_get (ref_set r k0 v0) k = ref_get r k.
Proof.
  intros r k0 v0 k Hne. unfold ref_set. rewrite ref_get_app_other; [|exact Hne].
  unfold ref_del. apply ref_get_filter. intros v. cbn [fst].
  apply negb_str_eqb_true. congruence.
Qed.

Lemma ref_get_del_prefix_other : forall r p k,
  starts_with p k = false -> ref_get (ref_del_prefix r p) k = ref_get r k.
Proof.
  intros r p k Hk. unfold ref_del_prefix. apply ref_get_filter. intros v. cbn [fst].
  rewrite Hk. reflexivity.
Qed.

Lemma ref_get_ensure_other : forall refs b ps k,
  starts_with (patch_prefix b) k = false ->
  (forall n, k <> patch_ref b n) ->
  ref_get (ensure_patch_refs refs b ps) k = ref_get refs k.
Proof.
  intros refs b ps k Hk Hn. unfold ensure_patch_refs.
  induction ps as [|[n c] ps IH] using rev_ind.
  - cbn [map]. rewrite app_nil_r. apply ref_get_del_prefix_other. exact Hk.
  - rewrite map_app, app_assoc. cbn [map fst snd]. rewrite ref_get_app_other; [exact IH|].
    intros X. exact (Hn n (eq_sym X)).
Qed.

Lemma In_cfg_set_other : forall c s k v e,
  ce_sub e <> s -> (In e (cfg_set c s k v) <-> In e c).
Proof.
  intros c s k v e Hne. rewrite In_cfg_set. split.
  - intros [[H _]|H]; [exact H|]. subst e. contradiction Hne. reflexivity.
  - intros H. left. split; [exact H|]. intros [X _]. contradiction.
Qed.

(* the refs and the config a successful --create leaves behind *)
Definition cr_refs (R : list (str * N)) (new : str) (tid sid : N) : list (str * N) :=
  ensure_patch_refs (ref_set (ref_set R (head_ref new) tid) (stack_ref new) sid) new [].

Definition cr_cfg1 (C : list cfgent) (new : str) (parent : option str) : list cfgent :=
  match parent with
  | Some p => cfg_set C (stgit_sub new) s_parentbranch p
  | None => C
  end.

Definition cr_cfg (C : list cfgent) (new : str) (parent : option str) : list cfgent :=
  match parent with
  | Some p =>
      match cfg_get C p s_remote, cfg_get C p s_merge with
      | Some rem, Some mrg =>
          cfg_set (cfg_set (cr_cfg1 C new parent) new s_remote rem) new s_merge mrg
      | _, _ => cr_cfg1 C new parent
      end
  | None => cr_cfg1 C new parent
  end.

Definition cr_target (r : brepo) (from : option str) (hid : N) : option N :=
  match from with
  | Some f => ref_get (b_refs r) (head_ref f)
  | None => Some hid
  end.

Definition cr_parent (r : brepo) (from : option str) : option str :=
  match from with Some f => Some f | None => b_head r end.

Lemma create_inv : forall r new from hid sid r' ok,
  create r new from hid sid = (r', ok) ->
  (ok = false /\ r' = r)
  \/ (ok = true /\ exists tid,
        cr_target r from hid = Some tid
        /\ r' = mkB (cr_refs (b_refs r) new tid sid) (cr_cfg (b_cfg r) new (cr_parent r from))
                    (Some new) ((sid, []) :: b_states r)).
Proof.
  intros r new from hid sid r' ok. unfold create, refuse.
  destruct (ref_get (b_refs r) (head_ref new)) as [x|];
    [intros H; injection H as <- <-; left; split; reflexivity|].
  fold (cr_target r from hid). fold (cr_parent r from).
  destruct (cr_target r from hid) as [tid|];
    [|intros H; injection H as <- <-; left; split; reflexivity].
  destruct (name_free s_refs_heads (b_refs r) None new); cbn [negb];
    [|intros H; injection H as <- <-; left; split; reflexivity].
  destruct (existsb (fun x => df_conflict x new) (names_under s_refs_stacks (b_refs r)));
    [intros H; injection H as <- <-; left; split; reflexivity|].
  intros H. injection H as <- <-. right. split; [reflexivity|]. exists tid.
  split; [reflexivity|]. unfold cr_refs, cr_cfg, cr_cfg1.
  destruct (cr_parent r from) as [p|]; reflexivity.
Qed.

Lemma In_cr_refs : forall R new tid sid k v,
  In (k, v) (cr_refs R new tid sid) <->
  (In (k, v) R /\ ~ ref_of_branch new k)
  \/ (k = head_ref new /\ v = tid) \/ (k = stack_ref new /\ v = sid).
Proof.
  intros R new tid sid k v. unfold cr_refs. rewrite In_ensure, !In_ref_set, not_rob. split.
  - intros [[H Hpn]|[n [_ []]]].
    destruct H as [[H Hsn]|H]; [|right; right; exact H].
    destruct H as [[H Hhn]|H]; [|right; left; exact H].
    left. auto.
  - intros [[H [Hhn [Hsn Hpn]]]|[[-> ->]|[-> ->]]].
    + left. split; [|exact Hpn]. left. split; [|exact Hsn]. left. split; assumption.
    + left. split; [|apply pp_not_head]. left. split; [|apply head_neq_stack].
      right. split; reflexivity.
    + left. split; [|apply pp_not_stack]. right. split; reflexivity.
Qed.

(* the stack ref of any other name is read as before *)
Lemma ref_get_cr_refs_stack : forall R new tid sid b,
  b <> new -> ref_get (cr_refs R new tid sid) (stack_ref b) = ref_get R (stack_ref b).
Proof.
  intros R new tid sid b Hne. unfold cr_refs.
  rewrite ref_get_ensure_other;
    [|apply pp_not_stack|intros n X; symmetry in X; exact (patch_ref_neq_stack _ _ _ X)].
  rewrite ref_get_set_other; [|intros X; apply stack_ref_inj in X; congruence].
  apply ref_get_set_other. apply head_neq_stack.
Qed.

Lemma cr_cfg1_outside : forall C new parent e,
  ce_sub e <> stgit_sub new -> (In e (cr_cfg1 C new parent) <-> In e C).
Proof.
  intros C new [p|] e H; unfold cr_cfg1; [|reflexivity]. apply In_cfg_set_other. exact H.
Qed.

Lemma cr_cfg_outside : forall C new parent e,
  ce_sub e <> new -> ce_sub e <> stgit_sub new -> (In e (cr_cfg C new parent) <-> In e C).
Proof.
  intros C new parent e H1 H2. unfold cr_cfg.
  destruct parent as [p|]; [|apply cr_cfg1_outside; exact H2].
  destruct (cfg_get C p s_remote) as [rem|]; [|apply cr_cfg1_outside; exact H2].
  destruct (cfg_get C p s_merge) as [mrg|]; [|apply cr_cfg1_outside; exact H2].
  rewrite In_cfg_set_other; [|exact H1]. rewrite In_cfg_set_other; [|exact H1].
  apply cr_cfg1_outside. exact H2.
Qed.

Lemma state_get_fresh : forall S sid ps id,
  id <> sid -> state_get ((sid, ps) :: S) id = state_get S id.
Proof.
  intros S sid ps id Hne. cbn [state_get]. destruct (sid =? id) eqn:E; [|reflexivity].
  apply N.eqb_eq in E. congruence.
Qed.

Lemma create_exact :
  forall r new from hid sid r',
    create r new from hid sid = (r', true) ->
    ref_get (b_refs r') (head_ref new)
      = match from with Some f => ref_get (b_refs r) (head_ref f) | None => Some hid end
    /\ ref_get (b_refs r') (stack_ref new) = Some sid
    /\ stack_patches r' new = Some []
    /\ (forall k v, starts_with (patch_prefix new) k = true -> ~ In (k, v) (b_refs r'))
    /\ same_refs_outside (ref_of_branch new) r r'
    /\ same_cfg_outside (fun s => s = new \/ s = stgit_sub new) r r'
    /\ b_head r' = Some new
    /\ ((forall k v, In (k, v) (b_refs r) -> v <> sid) ->
        forall b, b <> new -> stack_patches r' b = stack_patches r b).
Proof.
  intros r new from hid sid r' H.
  apply create_inv in H as [[H _]|[_ [tid [Et ->]]]]; [discriminate H|].
  fold (cr_target r from hid). rewrite Et. cbn [b_refs b_cfg b_head].
  assert (Hs : ref_get (cr_refs (b_refs r) new tid sid) (stack_ref new) = Some sid).
  { apply ref_get_unique.
    - apply In_cr_refs. right. right. split; reflexivity.
    - intros v' H. apply In_cr_refs in H. destruct H as [[_ H]|[[H _]|[_ H]]].
      + contradiction H. apply rob_stack.
      + symmetry in H. contradiction (head_neq_stack _ _ H).
      + exact H. }
  split; [|split; [|split; [|split; [|split; [|split; [|split]]]]]].
  - apply ref_get_unique.
    + apply In_cr_refs. right. left. split; reflexivity.
    + intros v' H. apply In_cr_refs in H. destruct H as [[_ H]|[[_ H]|[H _]]].
      * contradiction H. apply rob_head.
      * exact H.
      * contradiction (head_neq_stack _ _ H).
  - exact Hs.
  - unfold stack_patches. cbn [b_refs b_states]. rewrite Hs. cbn [state_get].
    rewrite N.eqb_refl. reflexivity.
  - intros k v Hk H. apply In_cr_refs in H. destruct H as [[_ H]|[[-> _]|[-> _]]].
    + apply H. right. right. exact Hk.
    + rewrite pp_not_head in Hk. discriminate Hk.
    + rewrite pp_not_stack in Hk. discriminate Hk.
  - intros k v Hk. cbn [b_refs]. rewrite In_cr_refs. split.
    + intros [[H _]|[[-> _]|[-> _]]]; [exact H| |].
      * contradiction Hk. apply rob_head.
      * contradiction Hk. apply rob_stack.
    + intros H. left. split; assumption.
  - intros e He. cbn [b_cfg]. apply cr_cfg_outside; intros X; apply He; auto.
  - reflexivity.
  - intros Hfresh b Hne. unfold stack_patches. cbn [b_refs b_states].
    rewrite ref_get_cr_refs_stack; [|exact Hne].
    destruct (ref_get (b_refs r) (stack_ref b)) as [id|] eqn:E; [|reflexivity].
    apply state_get_fresh. apply (Hfresh (stack_ref b)). apply ref_get_In. exact E.
Qed.

Lemma switch_inv : forall r b r' ok,
  switch r b = (r', ok) ->
  (ok = false /\ r' = r)
  \/ (ok = true /\ r' = mkB (b_refs r) (b_cfg r) (Some b) (b_states r)).
Proof.
  intros r b r' ok. unfold switch, refuse.
  destruct (ref_get (b_refs r) (head_ref b)) as [x|];
    [|intros H; injection H as <- <-; left; split; reflexivity].
  destruct (b_head r) as [cur|].
  - destruct (str_eqb cur b); intros H; injection H as <- <-.
    + left. split; reflexivity.
    + right. split; reflexivity.
  - intros H. injection H as <- <-. right. split; reflexivity.
Qed.

Lemma switch_exact :
  forall r b r' ok,
    switch r b = (r', ok) ->
    b_refs r' = b_refs r /\ b_cfg r' = b_cfg r /\ b_states r' = b_states r
    /\ (ok = true -> b_head r' = Some b) /\ (ok = false -> b_head r' = b_head r).
Proof.
  intros r b r' ok H. apply switch_inv in H as [[-> ->]|[-> ->]]; cbn [b_refs b_cfg b_head b_states].
  - repeat split; try reflexivity. intros X. discriminate X.
  - repeat split; try reflexivity. intros X. discriminate X.
Qed.

Definition ds_cfg (C : list cfgent) (b text : str) : list cfgent :=
  match text with
  | [] => cfg_del_key C b s_description
  | _ => cfg_set C b s_description text
  end.

Lemma describe_inv : forall r b text r' ok,
  describe r b text = (r', ok) ->
  (ok = false /\ r' = r)
  \/ (ok = true /\ r' = mkB (b_refs r) (ds_cfg (b_cfg r) b text) (b_head r) (b_states r)).
Proof.
  intros r b text r' ok. unfold describe, refuse.
  destruct (ref_get (b_refs r) (head_ref b)) as [x|]; intros H; injection H as <- <-.
  - right. split; reflexivity.
  - left. split; reflexivity.
Qed.

Lemma In_ds_cfg : forall C b text e,
  ~ (ce_sub e = b /\ ce_key e = s_description) -> (In e (ds_cfg C b text) <-> In e C).
Proof.
  intros C b text e He. unfold ds_cfg. destruct text as [|c t].
  - rewrite In_cfg_del_key. split; [intros [H _]; exact H|]. intros H. split; assumption.
  - rewrite In_cfg_set. split.
    + intros [[H _]|H]; [exact H|]. subst e. contradiction He. split; reflexivity.
    + intros H. left. split; assumption.
Qed.

Lemma cfg_get_ds_cfg : forall C b text,
  cfg_get (ds_cfg C b text) b s_description = match text with [] => None | _ => Some text end.
Proof.
  intros C b text. unfold ds_cfg. destruct text as [|c t].
  - apply cfg_get_del_key_same.
  - apply cfg_get_set_same.
Qed.

Lemma describe_exact :
  forall r b text r' ok,
    describe r b text = (r', ok) ->
    b_refs r' = b_refs r /\ b_head r' = b_head r /\ b_states r' = b_states r
    /\ (forall e, ~ (ce_sub e = b /\ ce_key e = s_description) -> (In e (b_cfg r') <-> In e (b_cfg r)))
    /\ (ok = true -> cfg_get (b_cfg r') b s_description = match text with [] => None | _ => Some text end).
Proof.
  intros r b text r' ok H. apply describe_inv in H as [[-> ->]|[-> ->]];
    cbn [b_refs b_cfg b_head b_states].
  - split; [reflexivity|split; [reflexivity|split; [reflexivity|split]]].
    + intros e _. reflexivity.
    + intros X. discriminate X.
  - split; [reflexivity|split; [reflexivity|split; [reflexivity|split]]].
    + intros e He. apply In_ds_cfg. exact He.
    + intros _. apply cfg_get_ds_cfg.
Qed.

(* ================================================================ refused commands *)

Lemma refused_shape : forall r o r',
  bstep r o = (r', false) ->
  r' = r \/ exists b ps, op_names r o b /\ r' = opened r b ps.
Proof.
  intros r [new from hid sid|b|b text|new|old new|b f|b f|b|b] r' H; cbn [bstep] in H.
  - apply create_inv in H as [[_ H]|[H _]]; [left; exact H|discriminate H].
  - apply switch_inv in H as [[_ H]|[H _]]; [left; exact H|discriminate H].
  - apply describe_inv in H as [[_ H]|[H _]]; [left; exact H|discriminate H].
  - apply clone_inv in H as [[_ [H|[cur [ps [Hhd H]]]]]|[H _]]; [left; exact H| |discriminate H].
    right. exists cur, ps. split; [right; exact Hhd|exact H].
  - apply rename_inv in H as [[_ [H|[ps H]]]|[H _]]; [left; exact H| |discriminate H].
    right. exists old, ps. split; [left; reflexivity|exact H].
  - apply delete_inv in H as [[_ [H|[ps H]]]|[H _]]; [left; exact H| |discriminate H].
    right. exists b, ps. split; [reflexivity|exact H].
  - apply cleanup_inv in H as [[_ [H|[ps H]]]|[H _]]; [left; exact H| |discriminate H].
    right. exists b, ps. split; [reflexivity|exact H].
  - apply protect_inv in H as [[_ H]|[H _]]; [left; exact H|discriminate H].
  - apply unprotect_inv in H as [[_ H]|[H _]]; [left; exact H|discriminate H].
Qed.

Lemma refused_changes_nothing :
  forall r o r',
    bstep r o = (r', false) ->
    b_cfg r' = b_cfg r /\ b_head r' = b_head r
    /\ same_refs_outside (fun k => exists b, op_names r o b /\ starts_with (patch_prefix b) k = true) r r'.
Proof.
  intros r o r' H. apply refused_shape in H as [->|[b [ps [Hn ->]]]].
  - split; [reflexivity|split; [reflexivity|]]. intros k v _. reflexivity.
  - split; [reflexivity|split; [reflexivity|]]. intros k v Hk.
    apply opened_refs_outside. apply not_true_false. intros X. apply Hk. exists b. auto.
Qed.

(* ================================================================ footprint of a sub-command *)

Definition touches_ref (r : brepo) (o : bop) (k : str) : Prop :=
  exists b, op_names r o b /\ ref_of_branch b k.

Definition touches_sub (r : brepo) (o : bop) (s : str) : Prop :=
  exists b, op_names r o b /\ (s = b \/ s = stgit_sub b).

Lemma same_refs_refl : forall P r, same_refs_outside P r r.
Proof. intros P r k v _. reflexivity. Qed.

Lemma same_cfg_refl : forall P r, same_cfg_outside P r r.
Proof. intros P r e _. reflexivity. Qed.

Lemma opened_footprint : forall r o b ps,
  op_names r o b ->
  same_refs_outside (touches_ref r o) r (opened r b ps)
  /\ same_cfg_outside (touches_sub r o) r (opened r b ps).
Proof.
  intros r o b ps Hn. split.
  - intros k v Hk. apply opened_refs_outside. apply not_true_false. intros X. apply Hk.
    exists b. split; [exact Hn|]. right. right. exact X.
  - intros e _. reflexivity.
Qed.

Lemma bstep_footprint : forall r o r' ok,
  bstep r o = (r', ok) ->
  same_refs_outside (touches_ref r o) r r' /\ same_cfg_outside (touches_sub r o) r r'.
Proof.
  intros r o r' [|] H.
  2:{ apply refused_shape in H as [->|[b [ps [Hn ->]]]].
      - split; [apply same_refs_refl|apply same_cfg_refl].
      - apply opened_footprint. exact Hn. }
  destruct o as [new from hid sid|b|b text|new|old new|b f|b f|b|b]; cbn [bstep] in H.
  - (* create *)
    destruct (create_exact _ _ _ _ _ _ H) as [_ [_ [_ [_ [HR [HC _]]]]]]. split.
    + intros k v Hk. apply HR. intros X. apply Hk. exists new. split; [reflexivity|exact X].
    + intros e He. apply HC. intros X. apply He. exists new. split; [reflexivity|exact X].
  - (* switch *)
    destruct (switch_exact _ _ _ _ H) as [HR [HC _]]. split.
    + intros k v _. rewrite HR. reflexivity.
    + intros e _. rewrite HC. reflexivity.
  - (* describe *)
    destruct (describe_exact _ _ _ _ _ H) as [HR [_ [_ [HC _]]]]. split.
    + intros k v _. rewrite HR. reflexivity.
    + intros e He. apply HC. intros [X _]. apply He. exists b. split; [reflexivity|].
      left. exact X.
  - (* clone *)
    pose proof H as H0. apply clone_inv in H0 as [[H0 _]|[_ H0]]; [discriminate H0|].
    destruct H0 as [cur [hid [sid [ps [Ehd [_ [Esp _]]]]]]].
    destruct (clone_carries_stack _ _ _ _ _ H Ehd Esp) as [_ [_ [_ [_ [HR [HC _]]]]]].
    split.
    + intros k v Hk. apply HR. intros [X|X]; apply Hk.
      * exists new. split; [left; reflexivity|exact X].
      * exists cur. split; [right; exact Ehd|]. right. right. exact X.
    + intros e He. apply HC. intros [X|X]; apply He; exists new;
        (split; [left; reflexivity|]); auto.
  - (* rename *)
    pose proof H as H0. apply rename_inv in H0 as [[H0 _]|[_ [hid [Eh H0]]]]; [discriminate H0|].
    destruct H0 as [[ps [sid [Esp [_ [_ [_ HC]]]]]]|[_ [_ [HR HC]]]].
    + destruct (rename_carries_stack _ _ _ _ _ H Esp) as [_ [_ [_ [_ HR]]]]. split.
      * intros k v Hk. apply HR. intros [X|X]; apply Hk.
        -- exists old. split; [left; reflexivity|exact X].
        -- exists new. split; [right; reflexivity|exact X].
      * intros e He. rewrite HC. apply rn_cfg_outside; intros X; apply He.
        -- exists old. split; [left; reflexivity|]. auto.
        -- exists old. split; [left; reflexivity|]. auto.
        -- exists new. split; [right; reflexivity|]. auto.
        -- exists new. split; [right; reflexivity|]. auto.
    + split.
      * intros k v Hk. rewrite HR, In_ref_set, In_ref_del. split.
        -- intros [[[X _] _]|[-> _]]; [exact X|]. contradiction Hk. exists new.
           split; [right; reflexivity|apply rob_head].
        -- intros X. left. split; [split; [exact X|]|]; intros ->; apply Hk.
           ++ exists old. split; [left; reflexivity|apply rob_head].
           ++ exists new. split; [right; reflexivity|apply rob_head].
      * intros e He. rewrite HC. rewrite In_set_parent_other.
        -- apply In_cfg_rename_other; intros X; apply He.
           ++ exists old. split; [left; reflexivity|]. auto.
           ++ exists new. split; [right; reflexivity|]. auto.
        -- intros X. apply He. exists new. split; [right; reflexivity|]. auto.
  - (* delete *)
    destruct (has_stack r b) eqn:Hs.
    + destruct (delete_exact _ _ _ _ Hs H) as [HR HC]. split.
      * intros k v Hk. rewrite HR. split; [intros [X _]; exact X|].
        intros X. split; [exact X|]. intros Y. apply Hk. exists b. split; [reflexivity|exact Y].
      * intros e He. rewrite HC. split; [intros [X _]; exact X|].
        intros X. split; [exact X|]. split; intros Y; apply He; exists b;
          (split; [reflexivity|]); auto.
    + destruct (delete_nostack_exact _ _ _ _ Hs H) as [HR HC]. split.
      * intros k v Hk. rewrite HR. split; [intros [X _]; exact X|].
        intros X. split; [exact X|]. intros ->. apply Hk. exists b.
        split; [reflexivity|apply rob_head].
      * intros e He. rewrite HC. split; [intros [X _]; exact X|].
        intros X. split; [exact X|]. intros Y. apply He. exists b.
        split; [reflexivity|]. auto.
  - (* cleanup *)
    destruct (cleanup_exact _ _ _ _ H) as [HR [HC _]]. split.
    + intros k v Hk. rewrite HR. split; [intros [X _]; exact X|].
      intros X. split; [exact X|]. intros Y. apply Hk. exists b.
      split; [reflexivity|right; exact Y].
    + intros e He. rewrite HC. split; [intros [X _]; exact X|].
      intros X. split; [exact X|]. intros Y. apply He. exists b.
      split; [reflexivity|]. auto.
  - (* protect *)
    apply protect_inv in H as [[H _]|[_ [ps ->]]]; [discriminate H|]. split.
    + intros k v Hk. cbn [b_refs]. apply In_ensure_outside. apply not_true_false.
      intros X. apply Hk. exists b. split; [reflexivity|]. right. right. exact X.
    + intros e He. cbn [b_cfg]. rewrite In_cfg_set. split.
      * intros [[X _]|X]; [exact X|]. subst e. contradiction He. exists b.
        split; [reflexivity|]. right. reflexivity.
      * intros X. left. split; [exact X|]. intros [Y _]. apply He. exists b.
        split; [reflexivity|]. auto.
  - (* unprotect *)
    apply unprotect_inv in H as [[H _]|[_ [ps ->]]]; [discriminate H|]. split.
    + intros k v Hk. cbn [b_refs]. apply In_ensure_outside. apply not_true_false.
      intros X. apply Hk. exists b. split; [reflexivity|]. right. right. exact X.
    + intros e He. cbn [b_cfg]. rewrite In_cfg_del_key. split.
      * intros [X _]. exact X.
      * intros X. split; [exact X|]. intros [Y _]. apply He. exists b.
        split; [reflexivity|]. auto.
Qed.

Lemma other_branches_untouched :
  forall r o r' ok b' ,
    bstep r o = (r', ok) ->
    (forall b, op_names r o b -> unrelated b b' /\ no_twin b b') ->
    (forall k v, ref_of_branch b' k -> (In (k, v) (b_refs r') <-> In (k, v) (b_refs r)))
    /\ (forall e, ce_sub e = b' \/ ce_sub e = stgit_sub b' -> (In e (b_cfg r') <-> In e (b_cfg r))).
Proof.
  intros r o r' ok b' H Hall. apply bstep_footprint in H as [HR HC]. split.
  - intros k v Hk. apply HR. intros [b [Hn Hb]]. destruct (Hall b Hn) as [Hu _].
    exact (refs_disjoint b b' k Hu Hk Hb).
  - intros e He. apply HC. intros [b [Hn Hb]]. destruct (Hall b Hn) as [[Hne _] [Ht1 Ht2]].
    destruct He as [He|He]; destruct Hb as [Hb|Hb]; rewrite He in Hb.
    + congruence.
    + contradiction.
    + symmetry in Hb. contradiction.
    + apply stgit_sub_inj in Hb. congruence.
Qed.

(* ================================================================ the twin-name hazard *)

Definition tw_a : str := [97].
Definition tw_b : str := stgit_sub tw_a.
Definition tw_e : cfgent := (stgit_sub tw_a, s_protect, s_true).
Definition tw_r : brepo := mkB [(head_ref tw_b, 10); (head_ref tw_a, 11)] [tw_e] None [].

Lemma stgit_twin_refuted :
  exists r b b' e r',
    b <> b' /\ delete r b true = (r', true) /\ ce_sub e = stgit_sub b'
    /\ In e (b_cfg r) /\ ~ In e (b_cfg r').
Proof.
  exists tw_r, tw_b, tw_a, tw_e, (fst (delete tw_r tw_b true)).
  split; [|split; [|split; [|split]]].
  - intros H. vm_compute in H. discriminate H.
  - vm_compute. reflexivity.
  - reflexivity.
  - left. reflexivity.
  - vm_compute. intros H. exact H.
Qed.

(* ================================================================ eval3 *)

Lemma eval3_sound :
  forall e b flag present,
    eval3 e = Some b -> present "branch"%string = true -> bexpr_eval flag present e = b.
Proof.
  intros e b flag present H Hp. revert b H.
  induction e as [| |s|s|s|s|x IHx|x IHx y IHy|x IHx y IHy|s|s]; intros b H;
    cbn [eval3] in H; cbn [bexpr_eval].
  - injection H as <-. reflexivity.
  - injection H as <-. reflexivity.
  - discriminate H.
  - destruct (String.eqb s "branch") eqn:E; [|discriminate H]. apply String.eqb_eq in E.
    subst s. injection H as <-. exact Hp.
  - destruct (String.eqb s "branch") eqn:E; [|discriminate H]. apply String.eqb_eq in E.
    subst s. injection H as <-. rewrite Hp. reflexivity.
  - destruct (String.eqb s "branch") eqn:E; [|discriminate H]. apply String.eqb_eq in E.
    subst s. injection H as <-. exact Hp.
  - destruct (eval3 x) as [bx|]; [|discriminate H]. injection H as <-.
    rewrite (IHx bx eq_refl). reflexivity.
  - destruct (eval3 x) as [[|]|]; destruct (eval3 y) as [[|]|]; try discriminate H;
      injection H as <-; rewrite ?(IHx _ eq_refl), ?(IHy _ eq_refl);
      try reflexivity; apply andb_false_r.
  - destruct (eval3 x) as [[|]|]; destruct (eval3 y) as [[|]|]; try discriminate H;
      injection H as <-; rewrite ?(IHx _ eq_refl), ?(IHy _ eq_refl);
      try reflexivity; apply orb_true_r.
  - discriminate H.
  - discriminate H.
Qed.
