(* C07: reordering commands yield the documented order and preserve each patch's change.
   The merge algebra is in MergeProofs.v, the list operations and the decomposition of
   push_patch in ListOpsProofs.v; here: what push_patch commits. *)
From Coq Require Import List NArith Bool Arith Lia.
From StgV Require Import Model.StackSpec Proofs.CharsProofs.
From StgV Require Export Proofs.MergeProofs Proofs.ListOpsProofs.
Import ListNotations.

(* ---------------------------------------------------------------- small facts *)

Lemma tmpc_of_frame : forall a b, frame a = frame b -> tmpc a = tmpc b.
Proof.
  intros a b H. unfold frame in H. inversion H as [[H1 H2 H3 H4 H5 H6 H7 H8]].
  unfold tmpc. rewrite H7, H8. reflexivity.
Qed.

Lemma tmpc_move_to_applied : forall t n, tmpc (move_to_applied t n) = tmpc t.
Proof.
  intros t n. destruct (move_to_applied_set_lists t n) as [a [u [h H]]]. rewrite H.
  reflexivity.
Qed.

Lemma t_patch_ext : forall a b n,
    t_updated a = t_updated b -> t_stack a = t_stack b -> t_patch a n = t_patch b n.
Proof. intros a b n Hu Hs. unfold t_patch. rewrite Hu, Hs. reflexivity. Qed.

Lemma t_patch_move_to_applied : forall t n m, t_patch (move_to_applied t n) m = t_patch t m.
Proof.
  intros t n m. destruct (move_to_applied_set_lists t n) as [a [u [h H]]]. rewrite H.
  reflexivity.
Qed.

Lemma t_objs_move_to_applied : forall t n, t_objs (move_to_applied t n) = t_objs t.
Proof.
  intros t n. destruct (move_to_applied_set_lists t n) as [a [u [h H]]]. rewrite H.
  reflexivity.
Qed.

Lemma up_get_up_set : forall u n v, up_get (up_set u n v) n = Some v.
Proof.
  intros u n v. unfold up_set. cbn [up_get]. rewrite name_eqb_refl. reflexivity.
Qed.

Lemma get_put : forall objs c, get (objs ++ [c]) (length objs) = Some c.
Proof.
  intros objs c. unfold get. rewrite nth_error_app2 by lia.
  rewrite Nat.sub_diag. reflexivity.
Qed.

Lemma core_inv : forall a b,
    core a = core b ->
    t_stack a = t_stack b /\ t_updated a = t_updated b /\ t_objs a = t_objs b.
Proof.
  intros a b H. unfold core in H. inversion H as [[H1 H2 H3 H4 H5 H6 H7 H8 H9]].
  repeat split; assumption.
Qed.

(* ---------------------------------------------------------------- halting pushes *)

Lemma push_patch_halt : forall n am t t' h,
    push_patch n am t = THalt t' h ->
    (exists pc np op,
        push_sel am t (tree_of (t_objs t) pc) (tree_of (t_objs t) op) (tree_of (t_objs t) np)
        = inr (THalt t' h))
    \/ (exists pc np op t2 nt,
           push_sel am t (tree_of (t_objs t) pc) (tree_of (t_objs t) op) (tree_of (t_objs t) np)
           = inl (t2, nt, PSConflict)
           /\ t' = move_to_applied
                     (set_conflict_mode
                        (push_commit n t2 nt (tree_of (t_objs t) pc) PSConflict pc np op) CAllow) n).
Proof.
  intros n am t t' h H. rewrite push_patch_eq in H.
  destruct (t_patch t n) as [pc|] eqn:Hpc; [|discriminate].
  destruct (t_top t) as [np|] eqn:Hnp; [|discriminate].
  destruct (first_parent (t_objs t) pc) as [op|] eqn:Hop; [|discriminate].
  cbv zeta in H.
  destruct (push_sel am t (tree_of (t_objs t) pc) (tree_of (t_objs t) op)
                     (tree_of (t_objs t) np)) as [[[t2 nt] st]|r] eqn:Hsel.
  - apply push_fin_halt in H. destruct H as [Hst Ht']. subst st.
    right. exists pc, np, op, t2, nt. split; [exact Hsel|exact Ht'].
  - subst r. left. exists pc, np, op. exact Hsel.
Qed.

Lemma push_tmp_coherent :
  forall n am t t',
    tmp_coherent t -> (push_patch n am t = TOk t' \/ exists h, push_patch n am t = THalt t' h) ->
    tmp_coherent t'.
Proof.
  intros n am t t' Hcoh [H|[h H]].
  - apply push_patch_ok in H.
    destruct H as [pc [np [op [t2 [nt [st [_ [_ [_ [Hsel [_ Ht']]]]]]]]]]]. subst t'.
    apply (push_sel_coherent _ _ _ _ _ _ _ _ Hcoh) in Hsel.
    eapply tmp_coherent_ext; [|exact Hsel].
    rewrite tmpc_move_to_applied. apply tmpc_of_frame. apply push_commit_frame.
  - apply push_patch_halt in H. destruct H as [[pc [np [op Hsel]]]|[pc [np [op [t2 [nt [Hsel Ht']]]]]]].
    + apply push_sel_halt in Hsel. destruct Hsel as [t2 [Hr [_ Hc]]].
      inversion Hr; subst. apply Hc. exact Hcoh.
    + subst t'. apply (push_sel_coherent _ _ _ _ _ _ _ _ Hcoh) in Hsel.
      eapply tmp_coherent_ext; [|exact Hsel].
      rewrite tmpc_move_to_applied.
      transitivity (tmpc (push_commit n t2 nt (tree_of (t_objs t) pc) PSConflict pc np op)).
      * reflexivity.
      * apply tmpc_of_frame. apply push_commit_frame.
Qed.

(* ---------------------------------------------------------------- pop then push *)

Lemma pop_push_identity :
  forall n t t' pc top,
    t_patch t n = Some pc -> t_top t = Some top -> first_parent (t_objs t) pc = Some top ->
    push_patch n false t = TOk t' ->
    t_patch t' n = Some pc /\ t_objs t' = t_objs t.
Proof.
  intros n t t' pc top Hpc Htop Hfp H. apply push_patch_ok in H.
  destruct H as [pc' [np [op [t2 [nt [st [Hpc' [Hnp [Hop [Hsel [_ Ht']]]]]]]]]]].
  rewrite Hpc in Hpc'. inversion Hpc'; subst pc'.
  rewrite Htop in Hnp. inversion Hnp; subst np.
  rewrite Hfp in Hop. inversion Hop; subst op.
  rewrite push_sel_eq in Hsel. rewrite tree_eqb_refl in Hsel.
  inversion Hsel; subst t2 nt st. clear Hsel.
  unfold push_commit in Ht'. rewrite tree_eqb_refl, Nat.eqb_refl in Ht'.
  cbn [negb orb] in Ht'. subst t'.
  rewrite t_patch_move_to_applied, t_objs_move_to_applied. split; [exact Hpc|reflexivity].
Qed.

(* ---------------------------------------------------------------- what is committed *)

Lemma push_commit_spec : forall n t2 nt ptree st pc np op,
    let t3 := push_commit n t2 nt ptree st pc np op in
    (t3 = t2 /\ nt = ptree /\ np = op)
    \/ (exists c, c_tree c = nt /\ c_parents c = [np]
                  /\ t_objs t3 = t_objs t2 ++ [c]
                  /\ t_updated t3 = up_set (t_updated t2) n (Some (length (t_objs t2)))
                  /\ t_stack t3 = t_stack t2).
Proof.
  intros n t2 nt ptree st pc np op. cbv zeta. unfold push_commit.
  destruct (tree_eqb nt ptree) eqn:Et; destruct (Nat.eqb np op) eqn:En; cbn [negb orb].
  - left. apply tree_eqb_eq in Et. apply Nat.eqb_eq in En. repeat split; assumption.
  - right. unfold recommit, put. eexists. destruct st; tsimp; repeat split; reflexivity.
  - right. unfold recommit, put. eexists. destruct st; tsimp; repeat split; reflexivity.
  - right. unfold recommit, put. eexists. destruct st; tsimp; repeat split; reflexivity.
Qed.

Lemma push_tree_is_merge :
  forall n t t' pc oldp top,
    tmp_coherent t ->
    t_patch t n = Some pc -> first_parent (t_objs t) pc = Some oldp -> t_top t = Some top ->
    same_len (tree_of (t_objs t) oldp) (tree_of (t_objs t) top) (tree_of (t_objs t) pc) ->
    push_patch n false t = TOk t' ->
    exists o, t_patch t' n = Some o
      /\ merge3 (tree_of (t_objs t) oldp) (tree_of (t_objs t) top) (tree_of (t_objs t) pc)
         = Some (tree_of (t_objs t') o)
      /\ (o = pc \/ parents_of (t_objs t') o = [top]).
Proof.
  intros n t t' pc oldp top Hcoh Hpc Hfp Htop Hlen H. apply push_patch_ok in H.
  destruct H as [pc' [np [op [t2 [nt [st [Hpc' [Hnp [Hop [Hsel [Hst Ht']]]]]]]]]]].
  rewrite Hpc in Hpc'. inversion Hpc'; subst pc'.
  rewrite Htop in Hnp. inversion Hnp; subst np.
  rewrite Hfp in Hop. inversion Hop; subst op.
  pose proof (push_sel_merge _ _ _ _ _ _ _ Hcoh Hlen Hsel Hst) as Hm.
  apply push_sel_core in Hsel. apply core_inv in Hsel. destruct Hsel as [Hs1 [Hs7 Hs8]].
  subst t'. rewrite t_objs_move_to_applied, t_patch_move_to_applied.
  destruct (push_commit_spec n t2 nt (tree_of (t_objs t) pc) st pc top oldp)
    as [[H3 [Hnt Hpar]]|[c [Hct [Hcp [Hobjs [Hupd Hstk]]]]]].
  - rewrite H3. exists pc. split; [|split].
    + rewrite (t_patch_ext t2 t n Hs7 Hs1). exact Hpc.
    + rewrite Hs8, Hm, Hnt. reflexivity.
    + left. reflexivity.
  - exists (length (t_objs t2)). split; [|split].
    + unfold t_patch. rewrite Hupd, up_get_up_set. reflexivity.
    + rewrite Hm, Hobjs. unfold tree_of. rewrite get_put, Hct. reflexivity.
    + right. rewrite Hobjs. unfold parents_of. rewrite get_put. exact Hcp.
Qed.
