(* C02 proofs, part 5: commands that never move the stack base. *)
From Coq Require Import List Arith Bool Lia.
From StgV Require Import Model.StackSpec Model.LocatorSpec Proofs.CharsProofs Proofs.NameProofs Proofs.LocatorProofs
  Proofs.ChainBasics Proofs.ChainTxn Proofs.ChainExec Proofs.ChainStep.
From StgV Require Proofs.WfCmd.
Import ListNotations.
Local Open Scope nat_scope.

(* ---------------------------------------------------------------- the base of a world *)

Lemma stack_base_ext : forall a b br s base,
  store_extends a b -> stack_base a br s = Some base -> stack_base b br s = Some base.
Proof.
  intros a b br s base He H. unfold stack_base in *. destruct (s_applied s); [exact H|].
  destruct (pm_get _ _); [|exact H]. now apply (first_parent_ext a b).
Qed.

(* same refs, larger store *)
Lemma base_of_ext : forall w w' b,
  store_extends (w_objs w) (w_objs w') -> w_branch w' = w_branch w -> w_stack w' = w_stack w ->
  base_of w = Some b -> base_of w' = Some b.
Proof.
  intros w w' b He Hb Hs H. unfold base_of, cur_state in *. rewrite Hs, Hb.
  destruct (w_stack w) as [so|]; [|discriminate].
  destruct (state_of (w_objs w) so) as [s|] eqn:Es; [|discriminate].
  rewrite (state_of_ext _ _ _ _ He Es). now apply (stack_base_ext (w_objs w)).
Qed.

(* a finished transaction that kept the base: the new state has the old base *)
Lemma new_state_base : forall K t st1 prev th objs' b,
  tinv K t -> k_base K = None -> k_sbase K = b ->
  s_patches st1 = s_patches (t_stack t) -> t_head_oid t = Some th ->
  store_extends (t_objs t) objs' ->
  stack_base objs' th (new_state t st1 prev th) = Some b.
Proof.
  intros K t st1 prev th objs' b H Hkb Hsb Hp Hth He.
  assert (Hbo : t_base_oid t = b).
  { unfold t_base_oid. now rewrite (ti_base K t H), Hkb, (ti_sbase K t H). }
  unfold stack_base, new_state. cbn [s_applied s_patches].
  pose proof (ti_chain K t H) as Hch. pose proof (ti_has K t H) as Hhas. unfold toids in Hch.
  destruct (t_applied t) as [|n l] eqn:Ea.
  - (* nothing applied: the head is the base *)
    f_equal. unfold t_head_oid in Hth.
    assert (Htop : t_top t = Some b). { unfold t_top. rewrite Ea. cbn. now rewrite Hbo. }
    destruct (ti_head K t H) as [Hh|Hh]; rewrite Hh in Hth; [|rewrite Htop in Hth];
      [rewrite Htop in Hth|]; congruence.
  - rewrite pm_get_apply, Hp. fold (t_patch t n).
    specialize (Hhas n (or_introl eq_refl)). cbn [map chainl] in Hch. destruct Hch as [Hpar _].
    unfold toid in Hpar. destruct (t_patch t n) as [o|]; [|congruence].
    unfold first_parent. rewrite (parents_of_ext _ _ _ _ _ He Hpar). cbn. now rewrite Hbo.
Qed.

Lemma execute_base : forall w r msg K b s so,
  w_stack w = Some so -> state_of (w_objs w) so = Some s -> s_head s = w_branch w ->
  stack_base (w_objs w) (w_branch w) s = Some b ->
  k_objs K = w_objs w -> k_stack K = s -> k_base K = None -> k_sbase K = b -> k_sh K = true ->
  rinv K r ->
  base_of (fst (execute w r msg)) = Some b.
Proof.
  intros w r msg K b s so Hso Hs Hhead Hb Kobjs Kst Kb Ksb Ksh Hr.
  assert (Hbw : base_of w = Some b). { unfold base_of, cur_state. now rewrite Hso, Hs. }
  assert (Hw0 : forall t, ns_extends (w_objs w) (t_objs t) -> base_of (world0 w t) = Some b).
  { intros t He. apply (base_of_ext w); try reflexivity; [now apply ns_store|exact Hbw]. }
  assert (Hmain : forall t, (r = TOk t \/ exists h, r = THalt t h) -> tinv K t ->
            base_of (fst (execute w r msg)) = Some b).
  { intros t Hrt Ht. destruct (execute w r msg) as [w' x] eqn:Eex. cbn [fst].
    pose proof (ti_ext K t Ht) as He. rewrite Kobjs in He.
    apply (execute_spec w r msg t w' x Hrt) in Eex
      as [[-> _]|[[_ [-> _]]|[w1 [st1 [Hl Hcases]]]]]; [exact Hbw|now apply Hw0|].
    assert (Hlog : w1 = world0 w t /\ st1 = t_stack t).
    { unfold logged_of in Hl. rewrite (ti_stack K t Ht), Kst, Hhead, Nat.eqb_refl in Hl.
      injection Hl as <- <-. now rewrite (ti_stack K t Ht), Kst. }
    destruct Hlog as [-> ->].
    destruct Hcases as [[wt [um [-> _]]]|[[-> _]|Hfin]].
    - apply (base_of_ext w); try reflexivity; [cbn; now apply ns_store|exact Hbw].
    - now apply Hw0.
    - destruct Hfin as (th & prev & objs' & so' & prefs' & wt & um & Hth & Hprev & Hsc & -> & _).
      unfold base_of, cur_state. cbn [w_stack w_objs w_branch].
      apply state_commit_spec in Hsc as [[ext [-> _]] Hst]. rewrite Hst.
      rewrite (ti_sh K t Ht), Ksh.
      apply (new_state_base K t _ prev th _ b Ht Kb Ksb eq_refl Hth). cbn. apply store_extends_app. }
  destruct r as [t|t h|t|]; cbn [rinv rinvP] in Hr.
  - destruct Hr as (Ht & _). apply (Hmain t); auto.
  - apply (Hmain t); eauto.
  - cbn. apply Hw0. now rewrite Kobjs in Hr.
  - cbn. exact Hbw.
Qed.
(* ---------------------------------------------------------------- commands, generically *)

(* The single-transaction commands only leave through: the unchanged world, the opened
   world, or one transaction whose closure keeps the transaction invariant.  Any world
   property G stable under these three exits holds after the command. *)
Section Generic.
  Variable w : world.
  Variable G : world -> Prop.
  Hypothesis Hinv : Inv w.
  Hypothesis Hc : CInv w.
  Hypothesis Gw : G w.
  Hypothesis Gopen : forall p op, open_stack p w = Some op -> p <> PForce -> G (op_world op).
  Hypothesis Gtx : forall p op o f msg,
    open_stack p w = Some op -> p <> PForce -> o_set_head o = true ->
    (forall t0, tinv (K0 op o) t0 -> t_head t0 = None -> t0 = begin_txn op o -> rinv (K0 op o) (f t0)) ->
    G (fst (transact op o f msg)).
  Hypothesis Gtxo : forall p op objs' o f msg,
    open_stack p w = Some op -> p <> PForce -> ns_extends (w_objs (op_world op)) objs' ->
    o_set_head o = true ->
    (forall t0, tinv (K0 (mkOpened (with_objs (op_world op) objs') (op_state op) (op_base op)
                                   (op_initialized op)) o) t0 ->
                t_head t0 = None ->
                t0 = begin_txn (mkOpened (with_objs (op_world op) objs') (op_state op) (op_base op)
                                         (op_initialized op)) o ->
                rinv (K0 (mkOpened (with_objs (op_world op) objs') (op_state op) (op_base op)
                                   (op_initialized op)) o) (f t0)) ->
    G (fst (transact (mkOpened (with_objs (op_world op) objs') (op_state op) (op_base op)
                               (op_initialized op)) o f msg)).

  Ltac gopen_cmd op Eop Hok :=
    match goal with |- context [open_stack ?p ?w] =>
      destruct (open_stack p w) as [op|] eqn:Eop; [|exact Gw] end;
    let Hext := fresh "Hext" in let Hbr := fresh "Hbr" in
    destruct (open_stack_ok _ _ _ Eop Hinv Hc) as (Hok & Hext & Hbr).

  Ltac gtriv Eop :=
    cbn [fst err2 ok0 rres_bind];
    first [exact Gw | exact (Gopen _ _ Eop ltac:(discriminate))].

Lemma g_push : forall ranges number all reverse noapply settree merged keep conflicts, G (fst (run_push w ranges number all reverse noapply settree merged keep conflicts)).
Proof.
  intros ranges number all reverse noapply settree merged keep conflicts. unfold run_push.
  gopen_cmd op Eop Hok. cbv zeta.
  destruct (match number with Some z => (z =? 0)%Z | None => false end); [gtriv Eop|].
  set (s := op_state op) in *. pose proof (oo_good op Hok) as Hg. fold s in Hg.
  (* the patches to push: no duplicates, all unapplied *)
  match goal with |- G (fst (match ?P with inl r => r | inr l => _ end)) =>
    assert (HP : match P with inl r => G (fst r) | inr l => NoDup l /\ incl l (s_unapplied s) end);
    [|destruct P as [r|ps]; [exact HP|]] end.
  { destruct ranges as [rs|].
    - destruct (parse_ranges rs) as [prs|] eqn:Epr; [|gtriv Eop].
      destruct (resolve_names (view_of s) RCUnapplied prs) as [l| |] eqn:Er; [|gtriv Eop|gtriv Eop].
      apply (resolve_names_ok _ _ _ _ (parse_ranges_wf _ _ Epr)) in Er. exact Er.
    - destruct (s_unapplied s) as [|u0 us] eqn:Eu; [gtriv Eop|]. rewrite <- Eu.
      pose proof (all_of_nodup_au _ _ Hg) as Hnd. apply nodup_app in Hnd as [_ [Hnd _]].
      destruct all; [split; [exact Hnd|apply incl_refl]|].
      destruct number as [z|]; (split; [now apply nodup_firstn|intros x Hx; now apply in_firstn in Hx]). }
  destruct HP as [Hnd Hincl].
  destruct ps as [|p0 ps']; [gtriv Eop|]. set (ps := p0 :: ps') in *.
  destruct (w_unmerged (op_world op)); [gtriv Eop|].
  destruct (negb (head_top_ok op)); [gtriv Eop|].
  destruct (negb keep && negb noapply && dirty (op_world op)); [gtriv Eop|].
  set (ps2 := if reverse then rev ps else ps).
  assert (Hnd2 : NoDup ps2 /\ incl ps2 (s_unapplied s)).
  { unfold ps2. destruct reverse; [|auto]. split; [now apply NoDup_rev|].
    intros x Hx. apply Hincl. now apply in_rev. }
  destruct Hnd2 as [Hnd2 Hincl2].
  eapply Gtx; [exact Eop|discriminate|reflexivity|].
  intros t0 H0 Hh0 ->.
  assert (Hpush : NoDup (s_applied s ++ ps2)) by now apply (nodup_applied_push _ _ _ Hg).
  destruct settree.
  - eapply rinvP_weaken; [|apply push_tree_list_inv; [eassumption|eassumption|exact Hpush]]. auto.
  - destruct noapply.
    + eapply rinvP_weaken; [|apply reorder_inv; [eassumption|eassumption|discriminate]]. auto.
    + eapply rinvP_weaken; [|apply push_patches_inv; [eassumption|eassumption|exact Hpush]]. auto.
Qed.

Lemma g_pop : forall ranges number all keep spill, G (fst (run_pop w ranges number all keep spill)).
Proof.
  intros ranges number all keep spill. unfold run_pop.
  gopen_cmd op Eop Hok. cbv zeta.
  destruct (match number with Some z => (z =? 0)%Z | None => false end); [gtriv Eop|].
  set (s := op_state op) in *. pose proof (oo_good op Hok) as Hg. fold s in Hg.
  destruct (s_applied s) as [|a0 al] eqn:Ea; [gtriv Eop|]. rewrite <- Ea.
  match goal with |- G (fst (match ?P with inl r => r | inr l => _ end)) =>
    assert (HP : match P with inl r => G (fst r) | inr l => True end);
    [|destruct P as [r|ps]; [exact HP|]] end.
  { destruct all; [exact I|]. destruct number as [z|].
    - destruct (num_to_take z _); [exact I|gtriv Eop].
    - destruct ranges as [rs|]; [|exact I].
      destruct (parse_ranges rs) as [prs|]; [|gtriv Eop].
      destruct (resolve_names _ _ _); [exact I|gtriv Eop|gtriv Eop]. }
  destruct ps as [|p0 ps']; [gtriv Eop|]. set (ps := p0 :: ps') in *.
  destruct (w_unmerged (op_world op)); [gtriv Eop|].
  destruct (negb (head_top_ok op)); [gtriv Eop|].
  destruct (negb keep && negb spill && dirty (op_world op)); [gtriv Eop|].
  match goal with |- G (fst (if ?c then _ else _)) => destruct c end; [gtriv Eop|].
  eapply Gtx; [exact Eop|discriminate|reflexivity|]. intros t0 H0 Hh0 _.
  apply reorder_some_rinv; [exact H0|exact Hh0|].
  apply nodup_filter. eapply sgood_applied_nodup. exact Hg.
Qed.

Lemma g_goto : forall loc keep merged conflicts, G (fst (run_goto w loc keep merged conflicts)).
Proof.
  intros loc keep merged conflicts. unfold run_goto.
  destruct (parse_locator loc) as [l|]; [|exact Gw].
  gopen_cmd op Eop Hok. cbv zeta.
  set (s := op_state op) in *. pose proof (oo_good op Hok) as Hg. fold s in Hg.
  destruct (w_unmerged (op_world op)); [gtriv Eop|].
  destruct (negb (head_top_ok op)); [gtriv Eop|].
  destruct (negb keep && dirty (op_world op)); [gtriv Eop|].
  destruct (resolve_constrained (view_of s) LCVisible l) as [pn| |]; [|gtriv Eop|gtriv Eop].
  cbn [rres_bind].
  eapply Gtx; [exact Eop|discriminate|reflexivity|]. intros t0 H0 Hh0 E0.
  destruct (position (name_eqb pn) (t_applied t0)) as [pos|].
  - apply reorder_some_rinv; [exact H0|exact Hh0|].
    apply (nodup_firstn _ (S pos)). apply (ti_nodup _ _ H0).
  - destruct (position (name_eqb pn) (t_unapplied t0)) as [pos|]; [|exact I].
    eapply rinvP_rinv. apply push_patches_inv; [exact H0|exact Hh0|].
    subst t0. cbn [begin_txn t_applied t_unapplied].
    apply (nodup_applied_push _ _ _ Hg).
    + apply (nodup_firstn _ (S pos)). pose proof (all_of_nodup_au _ _ Hg) as Hnd. now apply nodup_app in Hnd as [_ [? _]].
    + intros x Hx. now apply (in_firstn _ (S pos)) in Hx.
Qed.

Lemma g_float : forall ranges noapply keep, G (fst (run_float w ranges noapply keep)).
Proof.
  intros ranges noapply keep. unfold run_float.
  destruct (parse_ranges ranges) as [prs|] eqn:Epr; [|exact Gw].
  gopen_cmd op Eop Hok. cbv zeta.
  set (s := op_state op) in *. pose proof (oo_good op Hok) as Hg. fold s in Hg.
  destruct (w_unmerged (op_world op)); [gtriv Eop|].
  destruct (negb (head_top_ok op)); [gtriv Eop|].
  destruct (resolve_names (view_of s) RCVisible prs) as [ps| |] eqn:Er; [|gtriv Eop|gtriv Eop].
  apply (resolve_names_ok _ _ _ _ (parse_ranges_wf _ _ Epr)) in Er as [Hnd _].
  cbn [rres_bind]. destruct ps as [|p0 ps']; [gtriv Eop|]. set (ps := p0 :: ps') in *.
  match goal with |- G (fst (if ?c then _ else _)) => destruct c end; [gtriv Eop|].
  pose proof (sgood_applied_nodup _ _ Hg) as Hna.
  destruct noapply.
  - eapply Gtx; [exact Eop|discriminate|reflexivity|]. intros t0 H0 Hh0 _.
    apply reorder_some_rinv; [exact H0|exact Hh0|]. now apply nodup_filter.
  - eapply Gtx; [exact Eop|discriminate|reflexivity|]. intros t0 H0 Hh0 _.
    apply reorder_some_rinv; [exact H0|exact Hh0|].
    now apply nodup_filter_notin_app.
Qed.

Lemma g_sink : forall ranges target nopush keep, G (fst (run_sink w ranges target nopush keep)).
Proof.
  intros ranges target nopush keep. unfold run_sink.
  destruct (match ranges with Some rs => parse_ranges rs | None => Some [] end) as [prs|] eqn:Epr; [|exact Gw].
  destruct (match target with
            | Some (above, tl) => match parse_locator tl with Some l => Some (Some (above, l)) | None => None end
            | None => Some None end) as [tgt|]; [|exact Gw].
  gopen_cmd op Eop Hok. cbv zeta.
  set (s := op_state op) in *. pose proof (oo_good op Hok) as Hg. fold s in Hg.
  destruct (w_unmerged (op_world op)); [gtriv Eop|].
  destruct (negb (head_top_ok op)); [gtriv Eop|].
  match goal with |- G (fst (rres_bind _ ?r _)) => destruct r as [opt_target| |] end;
    [|gtriv Eop|gtriv Eop].
  cbn [rres_bind].
  assert (Hwf : Forall wf_range prs).
  { destruct ranges as [rs|]; [now apply (parse_ranges_wf rs)|]. injection Epr as <-. constructor. }
  match goal with |- G (fst (rres_bind _ ?r _)) => 
    assert (Hr : match r with ROk ps => NoDup ps | _ => True end); [|destruct r as [ps| |]] end;
    [|cbn [rres_bind]|gtriv Eop|gtriv Eop].
  { destruct ranges as [rs|].
    - destruct (resolve_names (view_of s) RCAll prs) as [ps| |] eqn:Er; try exact I.
      now apply (resolve_names_ok _ _ _ _ Hwf) in Er as [? _].
    - destruct (last_error (s_applied s)); [|exact I]. constructor; [tauto|constructor]. }
  match goal with |- G (fst (if ?c then _ else _)) => destruct c end; [gtriv Eop|].
  match goal with |- G (fst (match ?tpos with Some _ => _ | None => _ end)) => destruct tpos as [tp|] end;
    [|gtriv Eop].
  pose proof (sgood_applied_nodup _ _ Hg) as Hna.
  set (rem_a := filter (fun n => negb (mem n ps)) (s_applied s)).
  assert (Hrem : NoDup rem_a) by now apply nodup_filter.
  assert (Hdis : forall x, In x rem_a -> ~ In x ps).
  { intros x Hx. apply filter_In in Hx as [_ Hx]. apply negb_true_iff in Hx. now apply mem_false. }
  destruct (nodup_insert_mid rem_a ps tp Hrem Hr Hdis) as [N1 N2].
  destruct nopush.
  - eapply Gtx; [exact Eop|discriminate|reflexivity|]. intros t0 H0 Hh0 _.
    apply reorder_some_rinv; [exact H0|exact Hh0|exact N2].
  - eapply Gtx; [exact Eop|discriminate|reflexivity|]. intros t0 H0 Hh0 _.
    apply reorder_some_rinv; [exact H0|exact Hh0|exact N1].
Qed.

Lemma g_delete : forall ranges top all fa fu fh spill conflicts, G (fst (run_delete w ranges top all fa fu fh spill conflicts)).
Proof.
  intros ranges top all fa fu fh spill conflicts. unfold run_delete.
  destruct (match ranges with Some rs => parse_ranges rs | None => Some [] end) as [prs|]; [|exact Gw].
  gopen_cmd op Eop Hok. cbv zeta.
  match goal with |- G (fst (rres_bind _ ?r _)) => destruct r as [ps| |] end;
    [|gtriv Eop|gtriv Eop].
  cbn [rres_bind].
  match goal with |- G (fst (if ?c then _ else _)) => destruct c end; [gtriv Eop|].
  destruct (w_unmerged (op_world op)); [gtriv Eop|].
  destruct (negb (head_top_ok op)); [gtriv Eop|].
  destruct ps as [|p0 ps']; [gtriv Eop|].
  eapply Gtx; [exact Eop|discriminate|reflexivity|]. intros t0 H0 Hh0 _.
  now apply delete_push_rinv.
Qed.

Lemma g_clean : forall fa fu, G (fst (run_clean w fa fu)).
Proof.
  intros fa fu. unfold run_clean.
  gopen_cmd op Eop Hok. cbv zeta.
  destruct (negb (head_top_ok op)); [gtriv Eop|].
  destruct (if negb fa && negb fu then (true, true) else (fa, fu)) as [ca cu].
  match goal with |- G (fst (match ?l with [] => _ | _ :: _ => _ end)) => destruct l as [|d0 dl] end;
    [gtriv Eop|].
  eapply Gtx; [exact Eop|discriminate|reflexivity|]. intros t0 H0 Hh0 _.
  now apply delete_push_rinv.
Qed.

Lemma g_hide : forall ranges, G (fst (run_hide w ranges)).
Proof.
  intros ranges. unfold run_hide.
  destruct (parse_ranges ranges) as [prs|]; [|exact Gw].
  gopen_cmd op Eop Hok. cbv zeta.
  destruct (negb (head_top_ok op)); [gtriv Eop|].
  destruct (resolve_names _ _ _) as [ps| |]; [|gtriv Eop|gtriv Eop]. cbn [rres_bind].
  eapply Gtx; [exact Eop|discriminate|reflexivity|]. intros t0 H0 Hh0 _. now apply hide_inv.
Qed.

Lemma g_unhide : forall ranges, G (fst (run_unhide w ranges)).
Proof.
  intros ranges. unfold run_unhide.
  destruct (parse_ranges ranges) as [prs|]; [|exact Gw].
  gopen_cmd op Eop Hok. cbv zeta.
  destruct (negb (head_top_ok op)); [gtriv Eop|].
  destruct (resolve_names _ _ _) as [ps| |]; [|gtriv Eop|gtriv Eop]. cbn [rres_bind].
  eapply Gtx; [exact Eop|discriminate|reflexivity|]. intros t0 H0 Hh0 _. now apply unhide_inv.
Qed.

Lemma g_rename : forall old new, G (fst (run_rename w old new)).
Proof.
  intros old new. unfold run_rename.
  destruct (from_str new) as [newn|]; [|exact Gw].
  destruct (match old with
            | Some o => match parse_locator o with Some l => Some (Some l) | None => None end
            | None => Some None end) as [old_l|]; [|exact Gw].
  gopen_cmd op Eop Hok. cbv zeta.
  set (s := op_state op) in *.
  match goal with |- G (fst (rres_bind _ ?r _)) => destruct r as [oldn| |] end;
    [|gtriv Eop|gtriv Eop].
  cbn [rres_bind].
  assert (GG : ~ In newn (s_applied s) ->
              G (fst (transact op (opts CAllow (w_apc (op_world op)) false false true false) (rename_patch oldn newn) MOp))).
  { intros Hn. eapply Gtx; [exact Eop|discriminate|reflexivity|]. intros t0 H0 Hh0 E0.
    apply rename_inv; [exact H0|exact Hh0| |]; subst t0; cbn [begin_txn t_applied t_updated up_get].
    - exact Hn.
    - discriminate. }
  destruct (stack_collides s newn) as [c|] eqn:Esc.
  - destruct (mem newn (all_of s)) eqn:Em; [gtriv Eop|].
    destruct (negb (name_eqb c oldn)); [gtriv Eop|].
    apply GG. apply mem_false in Em. intros Hi. apply Em. unfold all_of. apply in_or_app. now left.
  - apply GG. apply stack_collides_none in Esc. intros Hi. apply Esc. unfold all_of. apply in_or_app. now left.
Qed.

Lemma g_new : forall nm meta msg, G (fst (run_new w nm meta msg)).
Proof.
  intros nm meta msg. unfold run_new.
  destruct (from_str nm) as [pn|]; [|exact Gw].
  gopen_cmd op Eop Hok. cbv zeta.
  set (s := op_state op) in *.
  destruct (w_unmerged (op_world op)); [gtriv Eop|].
  destruct (negb (head_top_ok op)); [gtriv Eop|].
  destruct (stack_collides s pn) eqn:Esc; [gtriv Eop|].
  apply stack_collides_none in Esc. unfold put.
  set (c := plain _ _ _ _). set (objs' := w_objs (op_world op) ++ [c]).
  pose proof (opened_ok_with_objs op objs' Hok (ns_extends_put_plain _ _ _ _ _)) as Hok'.
  eapply (Gtxo _ op objs'); [exact Eop|discriminate|apply ns_extends_put_plain|reflexivity|]. intros t0 H0 Hh0 E0.
  eapply rinvP_rinv. apply new_applied_inv; [exact H0|exact Hh0| |].
  - subst t0. cbn [begin_txn t_applied op_state]. intros Hi. apply Esc. unfold all_of.
    apply in_or_app. now left.
  - subst t0. cbn [begin_txn t_objs op_world with_objs w_objs]. eexists. apply parents_put_new.
Qed.

Lemma g_spill : G (fst (run_spill w)).
Proof.
  idtac. unfold run_spill.
  gopen_cmd op Eop Hok. cbv zeta.
  set (s := op_state op) in *.
  destruct (w_unmerged (op_world op)); [gtriv Eop|].
  destruct (dirty (op_world op)); [gtriv Eop|].
  destruct (negb (head_top_ok op)); [gtriv Eop|].
  destruct (last_error (s_applied s)) as [pn|] eqn:El; [|gtriv Eop].
  destruct (pm_get (s_patches s) pn) as [pc|] eqn:Epc; [|gtriv Eop].
  destruct (first_parent (w_objs (op_world op)) pc) as [par|] eqn:Efp; [|gtriv Eop].
  unfold put. set (c := plain _ _ _ _). set (objs' := w_objs (op_world op) ++ [c]).
  pose proof (opened_ok_with_objs op objs' Hok (ns_extends_put_plain _ _ _ _ _)) as Hok'.
  apply last_error_split in El as [l El].
  eapply (Gtxo _ op objs'); [exact Eop|discriminate|apply ns_extends_put_plain|reflexivity|]. intros t0 H0 Hh0 E0.
  eapply rinvP_rinv. apply (update_top_inv _ pn _ pc l); [exact H0|exact Hh0| | |]; subst t0.
  - exact El.
  - exact Epc.
  - cbn [begin_txn t_objs op_world with_objs w_objs]. unfold objs', c. rewrite parents_put_new.
    unfold first_parent in Efp. destruct (parents_of (w_objs (op_world op)) pc) as [|q qs] eqn:Ep; [discriminate|].
    symmetry. apply (parents_of_ext (w_objs (op_world op))); [apply store_extends_app|exact Ep].
Qed.

Lemma g_inspect :
  G (fst (match open_stack PAllow w with Some op => (op_world op, X0) | None => err2 w end)).
Proof. gopen_cmd op Eop Hok. gtriv Eop. Qed.

End Generic.

(* ---------------------------------------------------------------- the base instance *)

Lemma open_stack_known : forall p w op so s,
  open_stack p w = Some op -> p <> PForce ->
  w_stack w = Some so -> state_of (w_objs w) so = Some s ->
  op_world op = ensure_patch_refs w s /\ op_state op = s /\ op_initialized op = true
  /\ stack_base (w_objs w) (w_branch w) s = Some (op_base op).
Proof.
  intros p w op so s H Hp Hso Hs.
  destruct (open_stack_cases p w op H)
    as [(so' & s' & Hso' & Hs' & Hb & Hw & Hst & Hi)|[(objs' & so' & [Hp'|Hn] & _)|(Hn & _)]];
    try contradiction; try congruence.
  rewrite Hso in Hso'. injection Hso' as <-. rewrite Hs in Hs'. injection Hs' as <-.
  rewrite Hst. auto.
Qed.

Lemma transact_base_gen : forall w p op o f msg b s so,
  open_stack p w = Some op -> p <> PForce -> cur_good w -> CInv w ->
  w_stack w = Some so -> state_of (w_objs w) so = Some s -> s_head s = w_branch w ->
  stack_base (w_objs w) (w_branch w) s = Some b -> o_set_head o = true ->
  (forall t0, tinv (K0 op o) t0 -> t_head t0 = None -> t0 = begin_txn op o -> rinv (K0 op o) (f t0)) ->
  base_of (fst (transact op o f msg)) = Some b.
Proof.
  intros w p op o f msg b s so Eop Hp Hcg Hc Hso Hs Hhead Hb Hsh Hf.
  destruct (open_stack_ok_gen _ _ _ Eop Hcg Hc) as (Hok & _ & _).
  destruct (open_stack_known _ _ _ _ _ Eop Hp Hso Hs) as (Hw & Hst & Hi & Hb').
  destruct (begin_txn_inv op o Hok) as [H0 Hh0].
  unfold transact. rewrite Hi. cbn [negb].
  assert (Eb : op_base op = b) by congruence.
  apply (execute_base _ _ _ (K0 op o) b s so); try reflexivity; try assumption;
    rewrite ?Hw; cbn; try assumption.
  now apply Hf.
Qed.

Lemma transact_base_objs : forall w p op objs' o f msg b s so,
  open_stack p w = Some op -> p <> PForce -> cur_good w -> CInv w ->
  w_stack w = Some so -> state_of (w_objs w) so = Some s -> s_head s = w_branch w ->
  stack_base (w_objs w) (w_branch w) s = Some b ->
  ns_extends (w_objs (op_world op)) objs' -> o_set_head o = true ->
  let op' := mkOpened (with_objs (op_world op) objs') (op_state op) (op_base op) (op_initialized op) in
  (forall t0, tinv (K0 op' o) t0 -> t_head t0 = None -> t0 = begin_txn op' o -> rinv (K0 op' o) (f t0)) ->
  base_of (fst (transact op' o f msg)) = Some b.
Proof.
  intros w p op objs' o f msg b s so Eop Hp Hcg Hc Hso Hs Hhead Hb He Hsh op' Hf.
  destruct (open_stack_ok_gen _ _ _ Eop Hcg Hc) as (Hok & _ & _).
  destruct (open_stack_known _ _ _ _ _ Eop Hp Hso Hs) as (Hw & Hst & Hi & Hb').
  pose proof (opened_ok_with_objs op objs' Hok He) as Hok'. fold op' in Hok'.
  destruct (begin_txn_inv op' o Hok') as [H0 Hh0].
  unfold transact. change (op_initialized op') with (op_initialized op). rewrite Hi. cbn [negb].
  assert (Eb : op_base op = b) by congruence.
  assert (He' : store_extends (w_objs w) objs'). { apply ns_store. now rewrite Hw in He. }
  assert (Hr : rinv (K0 op' o) (f (begin_txn op' o))) by (apply Hf; [exact H0|exact Hh0|reflexivity]).
  apply (execute_base _ _ _ (K0 op' o) b s so); try reflexivity; try assumption;
    unfold op'; cbn; rewrite ?Hw; cbn; try assumption.
  - exact (state_of_ext _ _ _ _ He' Hs).
  - exact (stack_base_ext _ _ _ _ _ He' Hb).
Qed.

Lemma base_of_ensure : forall w s, base_of (ensure_patch_refs w s) = base_of w.
Proof. reflexivity. Qed.

Section BaseInstance.
  Variable w : world.
  Variable b so : oid.
  Variable s : sstate.
  Hypothesis Hinv : Inv w.
  Hypothesis Hc : CInv w.
  Hypothesis Hso : w_stack w = Some so.
  Hypothesis Hs : state_of (w_objs w) so = Some s.
  Hypothesis Hhead : s_head s = w_branch w.
  Hypothesis Hb : stack_base (w_objs w) (w_branch w) s = Some b.

  Let BP (w' : world) : Prop := base_of w' = Some b.

  Lemma bp_w : BP w.
  Proof. unfold BP, base_of, cur_state. now rewrite Hso, Hs. Qed.

  Lemma bp_open : forall p op, open_stack p w = Some op -> p <> PForce -> BP (op_world op).
  Proof.
    intros p op Eop Hp. destruct (open_stack_known _ _ _ _ _ Eop Hp Hso Hs) as (Hw & _).
    unfold BP. rewrite Hw, base_of_ensure. exact bp_w.
  Qed.

  Lemma bp_tx : forall p op o f msg,
    open_stack p w = Some op -> p <> PForce -> o_set_head o = true ->
    (forall t0, tinv (K0 op o) t0 -> t_head t0 = None -> t0 = begin_txn op o -> rinv (K0 op o) (f t0)) ->
    BP (fst (transact op o f msg)).
  Proof.
    intros p op o f msg Eop Hp Hsh Hf.
    exact (transact_base_gen w p op o f msg b s so Eop Hp (cur_good_of_inv w Hinv) Hc Hso Hs Hhead Hb Hsh Hf).
  Qed.

  Lemma bp_txo : forall p op objs' o f msg,
    open_stack p w = Some op -> p <> PForce -> ns_extends (w_objs (op_world op)) objs' ->
    o_set_head o = true ->
    (forall t0, tinv (K0 (mkOpened (with_objs (op_world op) objs') (op_state op) (op_base op)
                                   (op_initialized op)) o) t0 ->
                t_head t0 = None ->
                t0 = begin_txn (mkOpened (with_objs (op_world op) objs') (op_state op) (op_base op)
                                         (op_initialized op)) o ->
                rinv (K0 (mkOpened (with_objs (op_world op) objs') (op_state op) (op_base op)
                                   (op_initialized op)) o) (f t0)) ->
    BP (fst (transact (mkOpened (with_objs (op_world op) objs') (op_state op) (op_base op)
                               (op_initialized op)) o f msg)).
  Proof.
    intros p op objs' o f msg Eop Hp He Hsh Hf.
    exact (transact_base_objs w p op objs' o f msg b s so Eop Hp (cur_good_of_inv w Hinv) Hc
             Hso Hs Hhead Hb He Hsh Hf).
  Qed.

  Lemma bp_log_clear : BP (fst (run_log_clear w)).
  Proof.
    unfold run_log_clear. destruct (open_stack PRequire w) as [op|] eqn:Eop; [|exact bp_w].
    destruct (open_stack_known _ _ _ _ _ Eop ltac:(discriminate) Hso Hs) as (Hw & Hst & _).
    cbv zeta. rewrite Hw, Hst.
    destruct (state_commit _ _ _) as [[objs' so']|] eqn:Esc; [|cbn [fst]; exact bp_w].
    cbn [fst]. unfold BP, base_of, cur_state. cbn [w_stack w_objs w_branch ensure_patch_refs].
    pose proof (state_commit_extends _ _ _ _ _ Esc) as He.
    apply state_commit_spec in Esc as [_ Hst']. cbn [ensure_patch_refs w_objs] in Hst'. rewrite Hst'.
    apply (stack_base_ext (w_objs w)); [exact He|]. exact Hb.
  Qed.
End BaseInstance.

(* ---- refresh: two transactions ---- *)

Lemma transact_new_applied_head : forall op1 n c w2 s2,
  transact op1 default_opts (new_applied n c) MOp = (w2, X0) ->
  cur_state w2 = Some s2 -> s_head s2 = w_branch w2.
Proof.
  intros op1 n c w2 s2 Ht Hcur. unfold transact in Ht. destruct (negb (op_initialized op1)).
  { destruct (new_applied _ _ _); discriminate. }
  set (t0 := begin_txn op1 default_opts) in *.
  destruct (new_applied_cases n c t0) as [[t' En]|En]; rewrite En in Ht; [|discriminate].
  apply new_applied_ok in En.
  apply execute_ok_state in Ht as (st1 & prev & th & _ & _ & Hcur' & _ & Hbr).
  rewrite Hcur in Hcur'. injection Hcur' as ->. rewrite Hbr, En. reflexivity.
Qed.

Lemma bp_refresh : forall w b so s,
  Inv w -> CInv w -> w_stack w = Some so -> state_of (w_objs w) so = Some s ->
  s_head s = w_branch w -> stack_base (w_objs w) (w_branch w) s = Some b ->
  forall p, base_of (fst (run_refresh w p)) = Some b.
Proof.
  intros w b so s Hinv Hc Hso Hs Hhead Hb p.
  pose proof (bp_w w b so s Hso Hs Hb) as Bw.
  unfold run_refresh.
  destruct (match p with
            | Some o => match parse_locator o with Some l => Some (Some l) | None => None end
            | None => Some None end) as [loc_l|] eqn:Ep; [|exact Bw].
  pose proof (WfCmd.refresh_loc_wf p loc_l Ep) as Hwf. clear Ep.
  destruct (open_stack PAllow w) as [op|] eqn:Eop; [|exact Bw].
  destruct (open_stack_ok _ _ _ Eop Hinv Hc) as (Hok & _ & _).
  pose proof (bp_open w b so s Hso Hs Hb PAllow op Eop ltac:(discriminate)) as Bop.
  cbv zeta. set (s1 := op_state op) in *.
  destruct (negb (head_top_ok op)); [exact Bop|].
  match goal with |- base_of (fst (rres_bind _ ?r _)) = _ => destruct r as [pn| |] eqn:Epn end;
    [|exact Bop|exact Bop].
  cbn [rres_bind].
  pose proof (WfCmd.refresh_target_in s1 loc_l pn Hwf Epn) as Hpn.
  destruct (w_unmerged (op_world op)); [exact Bop|].
  unfold put. set (tmpc := length (w_objs (op_world op))).
  set (c := plain _ _ _ _). set (objs1 := w_objs (op_world op) ++ [c]).
  set (tmpname := match uniquify s_refresh_temp [] (all_of s1) with UOk n => n | UFuel => s_refresh_temp end).
  pose proof (refresh_tmpname_fresh (all_of s1)) as Hfresh. fold tmpname in Hfresh.
  pose proof (opened_ok_with_objs op objs1 Hok (ns_extends_put_plain _ _ _ _ _)) as Hok1.
  set (op1 := mkOpened _ _ _ _) in *.
  assert (Hr1 : forall t0, tinv (K0 op1 default_opts) t0 -> t_head t0 = None ->
            t0 = begin_txn op1 default_opts -> rinv (K0 op1 default_opts) (new_applied tmpname tmpc t0)).
  { intros t0 H0 Hh0 E0. eapply rinvP_rinv.
    apply new_applied_inv; [exact H0|exact Hh0| |]; subst t0.
    - intros Hi. apply Hfresh. unfold all_of. apply in_or_app. now left.
    - eexists. apply parents_put_new. }
  destruct (transact op1 default_opts (new_applied tmpname tmpc) MOp) as [w2 x] eqn:Et1.
  assert (C2 : CInv w2).
  { change w2 with (fst (w2, x)). rewrite <- Et1. now apply transact_cinv_rinv. }
  assert (B2 : base_of w2 = Some b).
  { change w2 with (fst (w2, x)). rewrite <- Et1.
    apply (transact_base_objs w PAllow op objs1 default_opts _ MOp b s so Eop ltac:(discriminate)
             (cur_good_of_inv w Hinv) Hc Hso Hs Hhead Hb (ns_extends_put_plain _ _ _ _ _) eq_refl Hr1). }
  destruct x; try exact B2.
  destruct (refresh_first op1 tmpname tmpc w2 Hok1 Hfresh) as (_ & s2 & Hcur & Hg2 & Ha2 & Hpg2 & Hext2);
    [eexists; apply parents_put_new|exact Et1|].
  pose proof (transact_new_applied_head _ _ _ _ _ Et1 Hcur) as Hhead2.
  destruct (open_stack PAllow w2) as [op2|] eqn:Eop2; [|exact B2].
  assert (Hcg : cur_good w2). { intros s' Hs'. rewrite Hcur in Hs'. now injection Hs' as <-. }
  destruct (open_stack_cur _ _ _ s2 Eop2 ltac:(discriminate) Hcur) as (Es2 & _).
  assert (Hst2 : exists so2, w_stack w2 = Some so2 /\ state_of (w_objs w2) so2 = Some s2).
  { unfold cur_state in Hcur. destruct (w_stack w2) as [so2|]; [|discriminate]. now exists so2. }
  destruct Hst2 as (so2 & Hso2 & Hs2).
  assert (Hb2 : stack_base (w_objs w2) (w_branch w2) s2 = Some b).
  { unfold base_of in B2. now rewrite Hcur in B2. }
  eapply (transact_base_gen w2 PAllow op2);
    [exact Eop2|discriminate|exact Hcg|exact C2|exact Hso2|exact Hs2|exact Hhead2|exact Hb2|reflexivity|].
  intros t0 H0 Hh0 E0.
  apply (refresh_absorb_rinv _ tmpname pn (s_applied s1)); [exact H0|exact Hh0| |].
  - subst t0. cbn [begin_txn t_applied]. rewrite Es2, Ha2. reflexivity.
  - intros ->. apply Hfresh. unfold all_of. rewrite app_assoc. apply in_or_app. now left.
Qed.

(* ---------------------------------------------------------------- the theorem *)

Theorem base_preserved : forall lower_s w c b,
  keeps_base c = true -> Inv w ->
  (forall so s, state_of (w_objs w) so = Some s -> chain_ok (w_objs w) s) ->
  mirror w ->
  (match cur_state w with Some s => s_head s = w_branch w | None => True end) ->
  base_of w = Some b -> base_of (fst (step lower_s w c)) = Some b.
Proof.
  intros lower_s w c b Hk Hinv Hc _ Hhead Hbase. change (CInv w) in Hc.
  assert (Hst : exists so s, w_stack w = Some so /\ state_of (w_objs w) so = Some s
                 /\ s_head s = w_branch w /\ stack_base (w_objs w) (w_branch w) s = Some b).
  { unfold base_of, cur_state in *. destruct (w_stack w) as [so|]; [|discriminate].
    destruct (state_of (w_objs w) so) as [s|] eqn:Es; [|discriminate]. exists so, s. auto. }
  destruct Hst as (so & s & Hso & Hs & Hh & Hb).
  pose (BP := fun w' : world => base_of w' = Some b).
  pose proof (bp_w w b so s Hso Hs Hb) as G1.
  pose proof (bp_open w b so s Hso Hs Hb) as G2.
  pose proof (bp_tx w b so s Hinv Hc Hso Hs Hh Hb) as G3.
  pose proof (bp_txo w b so s Hinv Hc Hso Hs Hh Hb) as G4.
  destruct c; try discriminate; cbn [step].
  - apply (g_new w BP); assumption.
  - exact (bp_refresh w b so s Hinv Hc Hso Hs Hh Hb patch).
  - apply (g_push w BP); assumption.
  - apply (g_pop w BP); assumption.
  - apply (g_goto w BP); assumption.
  - apply (g_float w BP); assumption.
  - apply (g_sink w BP); assumption.
  - apply (g_delete w BP); assumption.
  - apply (g_hide w BP); assumption.
  - apply (g_unhide w BP); assumption.
  - apply (g_rename w BP); assumption.
  - apply (g_clean w BP); assumption.
  - apply (g_spill w BP); assumption.
  - exact (bp_log_clear w b so s Hso Hs Hb).
  - apply (g_inspect w BP); assumption.
Qed.
