(* C15 resolve_name proofs: an existing name always wins (existing_name_wins), resolution
   never panics and only yields patches of the stack (resolve_sound). *)
From Coq Require Import Lia ZifyBool PeanoNat ZArith.
From StgV Require Import Model.Chars Model.Name Model.NameSpec Model.Locator Model.LocatorSpec.
From StgV Require Import Proofs.CharsProofs Proofs.ValidateProofs Proofs.UniquifyProofs
  Proofs.ParserProofs Proofs.LocBasics Proofs.LocParseProofs.

Open Scope N_scope.

(* ---------------------------------------------------------------- lookups *)

Lemma in_list_In : forall n l, in_list n l = true <-> In n l.
Proof.
  intros n l. unfold in_list. rewrite existsb_exists. split.
  - intros [x [Hx He]]. apply str_eqb_eq in He. now subst x.
  - intros H. exists n. split; [exact H|apply str_eqb_refl].
Qed.

Lemma in_list_false : forall n l, in_list n l = false <-> ~ In n l.
Proof.
  intros n l. rewrite <- in_list_In. destruct (in_list n l); split; congruence.
Qed.

Lemma v_has_In : forall v n, v_has v n = true <-> In n (v_all v).
Proof. intros v n. apply in_list_In. Qed.

Lemma index_of_str_nth : forall n l i, index_of_str n l = Some i -> nth_error l i = Some n.
Proof.
  intros n. induction l as [|x l IH]; intros i H; cbn [index_of_str] in H; [discriminate|].
  destruct (str_eqb x n) eqn:E.
  - injection H as <-. apply str_eqb_eq in E. now subst x.
  - destruct (index_of_str n l) as [j|]; [|discriminate]. injection H as <-.
    cbn [nth_error]. now apply IH.
Qed.

Lemma index_of_str_lt : forall n l i, index_of_str n l = Some i -> (i < length l)%nat.
Proof.
  intros n l i H. apply index_of_str_nth in H. apply nth_error_Some. congruence.
Qed.

Lemma index_of_str_In : forall n l, In n l -> exists i, index_of_str n l = Some i.
Proof.
  intros n. induction l as [|x l IH]; intros H; [destruct H|]. cbn [index_of_str].
  destruct (str_eqb x n) eqn:E; [eauto|].
  destruct H as [->|H]; [now rewrite str_eqb_refl in E|].
  destruct (IH H) as [i ->]. cbn [option_map]. eauto.
Qed.

Lemma index_of_str_found_In : forall n l i, index_of_str n l = Some i -> In n l.
Proof. intros n l i H. apply index_of_str_nth in H. now apply nth_error_In in H. Qed.

(* ---------------------------------------------------------------- resolve_name, unfolded *)

Definition resolve_core (v : sview) (d : did) (offs : str) : rres str :=
  match start_index v d offs with
  | ROk idx =>
      let '(atoms, rest) := offset_atoms offs in
      match rest with
      | _ :: _ => RPanic
      | [] =>
          match apply_atoms (Z.of_nat (length (v_all v))) idx atoms with
          | Some i =>
              match nth_error (v_all v) (Z.to_nat i) with
              | Some pn => if (0 <=? i)%Z then ROk pn else RPanic
              | None => RPanic
              end
          | None => RErr EInvalidPatchOffset
          end
      end
  | RErr e => RErr e
  | RPanic => RPanic
  end.

Lemma resolve_name_eq : forall v l,
  resolve_name v l = resolve_core v (fst (disambiguate v l)) (snd (disambiguate v l)).
Proof. intros v l. unfold resolve_name. destruct (disambiguate v l). reflexivity. Qed.

(* ---------------------------------------------------------------- existing_name_wins *)

Lemma validate_not_escaped : forall s, validate s = true -> escaped s = false.
Proof.
  intros s Hv. destruct (escaped s) eqn:E; [|reflexivity].
  apply escaped_inv in E as [t ->]. apply validate_iff in Hv as [_ [_ [Hl _]]].
  cbn [validate_loop hd_error] in Hl. apply andb_true_iff in Hl as [Hl _].
  vm_compute in Hl. discriminate Hl.
Qed.

Lemma valid_name_parses : forall s,
  validate s = true -> parse_locator s = Some (mkLoc (IdName s) []).
Proof.
  intros s Hv. assert (Hp : patch_name_p s = POk s []).
  { apply parser_agrees. unfold from_str.
    rewrite unescape_eq, (validate_not_escaped s Hv), Hv. reflexivity. }
  unfold parse_locator, patch_locator_p, alt2, loc_name. rewrite Hp, patch_offsets_nil.
  reflexivity.
Qed.

Theorem existing_name_wins : forall v s,
  validate s = true -> v_has v s = true ->
  exists l, parse_locator s = Some l /\ resolve_name v l = ROk s.
Proof.
  intros v s Hv Hh. exists (mkLoc (IdName s) []). split; [now apply valid_name_parses|].
  rewrite resolve_name_eq. unfold disambiguate. cbn [l_id l_offs]. rewrite Hh.
  cbn [fst snd]. unfold resolve_core, start_index.
  apply v_has_In in Hh. destruct (index_of_str_In _ _ Hh) as [i Hi]. rewrite Hi.
  change (offset_atoms []) with (@nil atom, @nil N). cbn [apply_atoms].
  rewrite Nat2Z.id, (index_of_str_nth _ _ _ Hi).
  assert (0 <=? Z.of_nat i = true)%Z as -> by (apply Z.leb_le; lia). reflexivity.
Qed.

(* ---------------------------------------------------------------- offsets application *)

Definition in_range (np i : Z) : Prop := (0 <= i < np)%Z.

Lemma apply_atoms_range : forall np atoms idx i,
  in_range np idx -> apply_atoms np idx atoms = Some i -> in_range np i.
Proof.
  intros np. induction atoms as [|a rest IH]; intros idx i Hr H; cbn [apply_atoms] in H.
  - now injection H as <-.
  - set (idx' := match a with
                 | APlus n => (idx + atom_amount n)%Z
                 | ATilde n => (idx - atom_amount n)%Z
                 end) in H.
    destruct (fits_isize idx' && (0 <=? idx')%Z && (idx' <? np)%Z) eqn:E; [|discriminate].
    apply (IH idx' i); [|exact H]. unfold in_range. lia.
Qed.

Lemma apply_atoms_cons_range : forall np a rest idx i,
  apply_atoms np idx (a :: rest) = Some i -> in_range np i.
Proof.
  intros np a rest idx i H. cbn [apply_atoms] in H.
  set (idx' := match a with
               | APlus n => (idx + atom_amount n)%Z
               | ATilde n => (idx - atom_amount n)%Z
               end) in H.
  destruct (fits_isize idx' && (0 <=? idx')%Z && (idx' <? np)%Z) eqn:E; [|discriminate].
  apply (apply_atoms_range np rest idx' i); [|exact H]. unfold in_range. lia.
Qed.

Lemma nth_in_range : forall (l : list str) i,
  in_range (Z.of_nat (length l)) i ->
  exists pn, nth_error l (Z.to_nat i) = Some pn /\ In pn l /\ (0 <=? i)%Z = true.
Proof.
  intros l i [H0 H1]. destruct (nth_error l (Z.to_nat i)) as [pn|] eqn:E.
  - exists pn. split; [reflexivity|]. split; [now apply nth_error_In in E|].
    now apply Z.leb_le.
  - apply nth_error_None in E. lia.
Qed.

(* the start index is usable: in range whenever there are no offsets to apply *)
Definition start_ok (v : sview) (d : did) (offs : str) : Prop :=
  match start_index v d offs with
  | ROk idx => offs = [] -> in_range (Z.of_nat (length (v_all v))) idx
  | RErr _ => True
  | RPanic => False
  end.

Lemma resolve_core_ok : forall v d offs,
  offs_ok offs -> start_ok v d offs -> name_result_ok v (resolve_core v d offs).
Proof.
  intros v d offs Hok Hs. unfold resolve_core, start_ok in *.
  destruct (start_index v d offs) as [idx|e|]; [|exact I|exact Hs].
  destruct offs as [|c offs'].
  - change (offset_atoms []) with (@nil atom, @nil N). cbn [apply_atoms].
    destruct (nth_in_range _ _ (Hs eq_refl)) as [pn [-> [Hin ->]]]. exact Hin.
  - destruct (offs_ok_atoms_nonempty (c :: offs') Hok) as [a [l ->]]; [discriminate|].
    destruct (apply_atoms _ idx (a :: l)) as [i|] eqn:Ea; [|exact I].
    apply apply_atoms_cons_range in Ea.
    destruct (nth_in_range _ _ Ea) as [pn [-> [Hin ->]]]. exact Hin.
Qed.

(* ---------------------------------------------------------------- start_index *)

Definition d_ok (v : sview) (d : did) (offs : str) : Prop :=
  match d with
  | DCommitId p => existsb (prefix_matches v p) (v_all v) = true
  | DTop => offs = [] -> v_applied v <> []
  | _ => True
  end.

Lemma applied_le_all : forall v, (length (v_applied v) <= length (v_all v))%nat.
Proof. intros v. unfold v_all. rewrite app_length. lia. Qed.

Lemma visible_le_all : forall v,
  (length (v_applied v) + length (v_unapplied v) <= length (v_all v))%nat.
Proof. intros v. unfold v_all. rewrite !app_length. lia. Qed.

Lemma start_index_ok : forall v d offs, d_ok v d offs -> start_ok v d offs.
Proof.
  intros v d offs Hd. unfold start_ok, start_index.
  pose proof (applied_le_all v) as Hav. pose proof (visible_le_all v) as Hvv.
  destruct d as [pn|p| | |i|o|o|o]; cbn [d_ok] in Hd.
  - destruct (index_of_str pn (v_all v)) as [i|] eqn:Ei; [|exact I].
    apply index_of_str_lt in Ei. intros _. unfold in_range. lia.
  - apply existsb_exists in Hd as [x [Hx Hp]].
    assert (Hf : In x (filter (prefix_matches v p) (v_all v))) by (apply filter_In; auto).
    destruct (filter (prefix_matches v p) (v_all v)) as [|pn [|y l]] eqn:Ef;
      [destruct Hf| |exact I].
    assert (Hin : In pn (v_all v)).
    { assert (Hpn : In pn (filter (prefix_matches v p) (v_all v))) by (rewrite Ef; now left).
      now apply filter_In in Hpn as [Hpn _]. }
    destruct (index_of_str_In _ _ Hin) as [i Hi]. rewrite Hi.
    apply index_of_str_lt in Hi. intros _. unfold in_range. lia.
  - intros Ho. specialize (Hd Ho). unfold in_range.
    destruct (v_applied v) as [|a l]; [congruence|]. cbn [length] in *. lia.
  - destruct offs; [exact I|]. intros Ho. discriminate Ho.
  - destruct (Z.of_N i <? Z.of_nat (length (v_all v)))%Z eqn:E; [|exact I].
    intros _. unfold in_range. lia.
  - set (idx := (Z.of_nat (length (v_applied v)) - 1 + o)%Z).
    destruct (fits_isize idx && (0 <=? idx)%Z && (idx <? Z.of_nat (length (v_all v)))%Z) eqn:E;
      [|exact I].
    intros _. unfold in_range. lia.
  - destruct (o <? 1)%Z eqn:E1; [exact I|].
    destruct (o - 1 <? Z.of_nat (length (v_all v)))%Z eqn:E2; [|exact I].
    intros _. unfold in_range. lia.
  - destruct (Z.of_nat (length (v_all v)) =? 0)%Z; [exact I|].
    set (vis := Z.of_nat (length (v_applied v) + length (v_unapplied v))).
    destruct ((1 <=? vis)%Z && (0 <=? vis - 1 + o)%Z
              && (vis - 1 + o <? Z.of_nat (length (v_all v)))%Z) eqn:E; [|exact I].
    intros _. unfold in_range. lia.
Qed.

(* ---------------------------------------------------------------- disambiguate *)

Lemma best_prefix_ok : forall v name pn o, best_prefix v name = Some (pn, o) -> offs_ok o.
Proof.
  intros v name. unfold best_prefix.
  set (step := fun (best : option (str * str)) (pn : str) => _).
  assert (Hgen : forall l init,
             (forall pn o, init = Some (pn, o) -> offs_ok o) ->
             forall pn o, fold_left step l init = Some (pn, o) -> offs_ok o).
  { induction l as [|x l IH]; intros init Hinit pn o H; cbn [fold_left] in H.
    - now apply (Hinit pn o).
    - refine (IH (step init x) _ pn o H). intros pn' o' Hs. unfold step in Hs.
      destruct (strip_prefix x name) as [rest|]; [|now apply (Hinit pn' o')].
      destruct (offsets_full rest) as [o1|] eqn:Eo; [|now apply (Hinit pn' o')].
      apply offsets_full_iff in Eo as [-> Hok].
      destruct init as [[bpn bo]|].
      + destruct (utf8_len bpn <=? utf8_len x).
        * injection Hs as _ <-. exact Hok.
        * now apply (Hinit pn' o').
      + injection Hs as _ <-. exact Hok. }
  intros pn o H. refine (Hgen (v_all v) None _ pn o H). discriminate.
Qed.

Lemma oid_prefix_offsets_ok : forall s p o, oid_prefix_offsets s = Some (p, o) -> offs_ok o.
Proof.
  intros s p o H. unfold oid_prefix_offsets in H.
  destruct (Nat.leb 4 _ && Nat.leb _ 40); [|discriminate].
  destruct (offsets_full (drop_while is_ascii_hexdigit s)) as [o1|] eqn:Eo; [|discriminate].
  injection H as _ <-. now apply offsets_full_iff in Eo as [-> Hok].
Qed.

Lemma sign_number_offsets_ok : forall s sg n o,
  sign_number_offsets s = Some (sg, n, o) -> offs_ok o.
Proof.
  intros s sg n o H. unfold sign_number_offsets in H.
  assert (Hfin : forall sg' n' r,
             match offsets_full r with
             | Some o' => Some (sg', n', o')
             | None => None
             end = Some (sg, n, o) -> offs_ok o).
  { intros sg' n' r Hf. destruct (offsets_full r) as [o1|] eqn:Eo; [|discriminate].
    injection Hf as _ _ <-. now apply offsets_full_iff in Eo as [-> Hok]. }
  destruct (negative_int s) as [[z r]|]; [now apply Hfin in H|].
  destruct (plusative_int s) as [[z r]|]; [now apply Hfin in H|].
  destruct (unsigned_int s) as [[k r]|]; [now apply Hfin in H|].
  destruct s as [|c r]; [discriminate|].
  destruct (c =? ch_dash); [now apply Hfin in H|].
  destruct (c =? ch_plus); [now apply Hfin in H|discriminate].
Qed.

Lemma loc_top_full_inv : forall name t,
  loc_top name = POk t [] ->
  offs_ok (l_offs t)
  /\ ((l_id t = IdTop /\ name = ch_at :: l_offs t) \/ exists n, l_id t = IdBelowTop n).
Proof.
  intros name t H.
  apply loc_top_inv in H as [[s' [o [-> [Ho ->]]]]|[s' [r [o [-> [Ho [[n [_ ->]]|[_ [_ ->]]]]]]]]];
    apply patch_offsets_spec in Ho as [Hs Hok]; cbn [l_id l_offs]; (split; [exact Hok|]).
  - left. rewrite app_nil_r in Hs. now subst s'.
  - right. eauto.
  - right. eauto.
Qed.

Lemma disambiguate_ok : forall v l,
  wf_loc l ->
  offs_ok (snd (disambiguate v l))
  /\ d_ok v (fst (disambiguate v l)) (snd (disambiguate v l)).
Proof.
  intros v [id lo] Hwf. apply wf_loc_iff in Hwf as [Hlo Hid]. cbn [l_id l_offs] in *.
  unfold disambiguate. cbn [l_id l_offs].
  destruct id as [name| | |n|n]; cbn [fst snd d_ok]; try (split; [exact Hlo|exact I]).
  - (* IdName *)
    destruct (v_has v name); [cbn [fst snd d_ok]; auto|].
    destruct (best_prefix v name) as [[pn o]|] eqn:Eb.
    { cbn [fst snd d_ok]. split; [|exact I]. apply offs_ok_app; [|exact Hlo].
      now apply best_prefix_ok in Eb. }
    destruct (loc_top name) as [t [|c r]| |] eqn:Et.
    { apply loc_top_full_inv in Et as [Hto [[Ht Hname]|[n Ht]]]; rewrite Ht;
        cbn [fst snd d_ok]; (split; [now apply offs_ok_app|]); [|exact I].
      intros Hnil. apply app_eq_nil in Hnil as [Hnil _]. rewrite Hnil in Hname.
      exfalso. apply Hid. now rewrite Hname. }
    all: destruct (loc_base name) as [t' [|c' r']| |] eqn:Ebase;
      try (apply loc_base_inv in Ebase as [t0 [o0 [_ [Ho0 ->]]]];
           apply patch_offsets_spec in Ho0 as [_ Hok0];
           cbn [fst snd d_ok l_offs]; split; [now apply offs_ok_app|exact I]).
    all: destruct (oid_prefix_offsets name) as [[p o]|] eqn:Eo;
      [destruct (existsb (prefix_matches v p) (v_all v)) eqn:Ee;
       [cbn [fst snd d_ok]; split; [apply offs_ok_app; [|exact Hlo];
                                    now apply oid_prefix_offsets_ok in Eo|exact Ee]|]|].
    all: destruct (sign_number_offsets name) as [[[sg k] o']|] eqn:Es;
      try (cbn [fst snd d_ok]; split; [exact Hlo|exact I]).
    all: apply sign_number_offsets_ok in Es.
    all: destruct sg as [sg|]; [|destruct k as [k|]];
      cbn [fst snd d_ok]; try (split; [now apply offs_ok_app|exact I]);
      try (split; [exact Hlo|exact I]).
    all: destruct (v_applied v); cbn [d_ok]; split; try exact I; now apply offs_ok_app.
  - (* IdTop *)
    destruct (v_applied v) as [|a al] eqn:Ea; cbn [d_ok]; (split; [exact Hlo|]); [exact I|].
    intros _. rewrite Ea. discriminate.
Qed.

(* ---------------------------------------------------------------- resolve_sound *)

Theorem resolve_sound : forall v l, wf_loc l -> name_result_ok v (resolve_name v l).
Proof.
  intros v l Hwf. rewrite resolve_name_eq.
  destruct (disambiguate_ok v l Hwf) as [Hok Hd].
  apply resolve_core_ok; [exact Hok|]. now apply start_index_ok.
Qed.

Lemma resolve_name_In : forall v l n, wf_loc l -> resolve_name v l = ROk n -> In n (v_all v).
Proof.
  intros v l n Hwf H. pose proof (resolve_sound v l Hwf) as Hs. now rewrite H in Hs.
Qed.

Lemma resolve_name_no_panic : forall v l, wf_loc l -> resolve_name v l <> RPanic.
Proof.
  intros v l Hwf H. pose proof (resolve_sound v l Hwf) as Hs. now rewrite H in Hs.
Qed.
