(* validate: soundness w.r.t. git's rules, and the link with the [clean] invariant. *)
From StgV Require Import Model.Chars Model.Name Model.NameSpec Proofs.CharsProofs.
From Coq Require Import Lia ZifyBool.

Definition vchar (c : N) : bool :=
  negb (is_ascii_whitespace c || is_control c || forbidden_char c).

Definition nx_is (nx : option N) (k : N) : bool :=
  match nx with Some n => n =? k | None => false end.

Lemma validate_step_eq : forall c nx,
  validate_step c nx =
  if c =? ch_dot then match nx with Some n => negb (n =? ch_dot) | None => false end
  else negb ((c =? ch_at) && nx_is nx ch_lbrace) && vchar c.
Proof.
  intros c nx. unfold validate_step, vchar, nx_is.
  destruct (c =? ch_dot); [reflexivity|].
  destruct ((c =? ch_at) && match nx with Some n => n =? ch_lbrace | None => false end);
    [reflexivity|].
  destruct (is_ascii_whitespace c); [reflexivity|].
  destruct (is_control c); reflexivity.
Qed.

Lemma validate_step_vchar : forall c nx, validate_step c nx = true -> vchar c = true.
Proof.
  intros c nx. rewrite validate_step_eq. destruct (c =? ch_dot) eqn:E.
  - apply N.eqb_eq in E. subst c. reflexivity.
  - intros H. now apply andb_true_iff in H as [_ H].
Qed.

Lemma vchar_not_git_bad : forall c, vchar c = true -> git_bad_char c = false.
Proof. intros c. unfold vchar. charlia. Qed.

(* ---------------------------------------------------------------- validate_sound *)

Lemma vl_no_dotdot : forall s, validate_loop s = true -> contains_sub [ch_dot; ch_dot] s = false.
Proof.
  induction s as [|c s IH]; [reflexivity|]. cbn [validate_loop contains_sub]. intros H.
  apply andb_true_iff in H as [H1 H2]. rewrite (IH H2), orb_false_r.
  rewrite validate_step_eq in H1. cbn [starts_with].
  destruct (c =? ch_dot) eqn:E.
  - destruct s as [|y s]; [discriminate H1|]. cbn [hd_error] in H1.
    rewrite (N.eqb_sym ch_dot y). destruct (y =? ch_dot); [discriminate H1|].
    cbn. apply andb_false_r.
  - rewrite N.eqb_sym, E. reflexivity.
Qed.

Lemma vl_no_atbrace : forall s, validate_loop s = true -> contains_sub [ch_at; ch_lbrace] s = false.
Proof.
  induction s as [|c s IH]; [reflexivity|]. cbn [validate_loop contains_sub]. intros H.
  apply andb_true_iff in H as [H1 H2]. rewrite (IH H2), orb_false_r.
  rewrite validate_step_eq in H1. cbn [starts_with].
  destruct (ch_at =? c) eqn:E; [|reflexivity].
  apply N.eqb_eq in E. subst c. cbn in H1.
  destruct s as [|y s]; [reflexivity|]. cbn [hd_error nx_is] in H1.
  rewrite (N.eqb_sym ch_lbrace y). destruct (y =? ch_lbrace); [discriminate H1|reflexivity].
Qed.

Lemma vl_chars : forall s, validate_loop s = true -> forallb vchar s = true.
Proof.
  induction s as [|c s IH]; [reflexivity|]. cbn [validate_loop forallb]. intros H.
  apply andb_true_iff in H as [H1 H2]. rewrite (IH H2), (validate_step_vchar _ _ H1). reflexivity.
Qed.

Lemma vl_not_dot_last : forall t, validate_loop (t ++ [ch_dot]) = false.
Proof.
  induction t as [|c t IH]; [reflexivity|]. cbn [app validate_loop]. rewrite IH.
  apply andb_false_r.
Qed.

Theorem validate_sound : forall n, validate n = true -> git_component_ok n = true.
Proof.
  intros [|c t]; [discriminate|]. unfold validate, git_component_ok. intros H.
  apply andb_true_iff in H as [H _]. apply andb_true_iff in H as [H _].
  apply andb_true_iff in H as [H H1]. apply andb_true_iff in H as [H H2].
  rewrite H, H1, (vl_no_dotdot _ H2), (vl_no_atbrace _ H2). cbn [negb andb].
  rewrite andb_true_r. apply andb_true_iff. split.
  - apply vl_chars in H2. rewrite forallb_forall in *. intros x Hx.
    rewrite (vchar_not_git_bad _ (H2 _ Hx)). reflexivity.
  - destruct (ends_with [ch_dot] (c :: t)) eqn:E; [|reflexivity].
    apply ends_with_iff in E as [u Hu]. rewrite Hu, vl_not_dot_last in H2. discriminate.
Qed.

(* ---------------------------------------------------------------- no_dotdot, clean *)

Definition starts_dot (s : str) : bool :=
  match s with c :: _ => c =? ch_dot | [] => false end.

Lemma no_dotdot_cons : forall c t,
  no_dotdot (c :: t) = negb ((c =? ch_dot) && starts_dot t) && no_dotdot t.
Proof. intros c [|b t]; cbn; [now rewrite andb_false_r|reflexivity]. Qed.

Lemma starts_dot_app : forall a b, starts_dot a = true -> starts_dot (a ++ b) = true.
Proof. intros [|x a] b; cbn; [discriminate|auto]. Qed.

Lemma no_dotdot_app_inv : forall a b,
  no_dotdot (a ++ b) = true -> no_dotdot a = true /\ no_dotdot b = true.
Proof.
  induction a as [|c a IH]; intros b H; [auto|].
  cbn [app] in H. rewrite no_dotdot_cons in *. apply andb_true_iff in H as [H1 H2].
  destruct (IH _ H2) as [H3 H4]. split; [|exact H4]. rewrite H3, andb_true_r.
  destruct (c =? ch_dot); [|reflexivity]. cbn in *.
  destruct (starts_dot a) eqn:E; [|reflexivity].
  rewrite (starts_dot_app _ b E) in H1. discriminate.
Qed.

Lemma no_dotdot_app_mid : forall a c b,
  c <> ch_dot -> no_dotdot a = true -> no_dotdot b = true -> no_dotdot (a ++ c :: b) = true.
Proof.
  intros a c b Hc. apply N.eqb_neq in Hc. induction a as [|x a IH]; intros Ha Hb; cbn [app].
  - rewrite no_dotdot_cons, Hc, Hb. reflexivity.
  - rewrite no_dotdot_cons in *. apply andb_true_iff in Ha as [H1 H2].
    rewrite (IH H2 Hb), andb_true_r. destruct a as [|y a]; cbn [app starts_dot] in *.
    + rewrite Hc, andb_false_r. reflexivity.
    + exact H1.
Qed.

Lemma seg_clean : forall r s, seg r s -> clean s = true -> clean r = true.
Proof.
  intros r s Hseg H. unfold clean in *. apply andb_true_iff in H as [H1 H2].
  rewrite (seg_forallb _ _ _ Hseg H1). destruct Hseg as [a [b ->]].
  apply no_dotdot_app_inv in H2 as [_ H2]. apply no_dotdot_app_inv in H2 as [H2 _].
  now rewrite H2.
Qed.

Lemma clean_app_mid : forall a c b,
  okchar c = true -> c <> ch_dot -> clean a = true -> clean b = true ->
  clean (a ++ c :: b) = true.
Proof.
  intros a c b Hok Hc Ha Hb. unfold clean in *.
  apply andb_true_iff in Ha as [A1 A2]. apply andb_true_iff in Hb as [B1 B2].
  rewrite forallb_app. cbn [forallb]. rewrite A1, Hok, B1.
  now rewrite no_dotdot_app_mid.
Qed.

(* ---------------------------------------------------------------- clean names validate *)

Lemma okchar_step : forall c nx,
  okchar c = true -> c <> ch_dot -> validate_step c nx = true.
Proof.
  intros c nx Hok Hc. rewrite validate_step_eq. apply N.eqb_neq in Hc. rewrite Hc.
  assert (c =? ch_at = false) as -> by (revert Hok; charlia).
  cbn. revert Hok Hc. unfold vchar. charlia.
Qed.

Lemma clean_validate_loop : forall s,
  forallb okchar s = true -> no_dotdot s = true -> (forall t, s <> t ++ [ch_dot]) ->
  validate_loop s = true.
Proof.
  induction s as [|c s IH]; [reflexivity|]. intros Hok Hdd Hlast.
  cbn [forallb] in Hok. apply andb_true_iff in Hok as [Hc Hok].
  rewrite no_dotdot_cons in Hdd. apply andb_true_iff in Hdd as [Hd Hdd].
  cbn [validate_loop]. rewrite IH; auto.
  - rewrite andb_true_r. destruct (c =? ch_dot) eqn:E.
    + rewrite validate_step_eq, E. destruct s as [|y s].
      * exfalso. apply N.eqb_eq in E. subst c. apply (Hlast []). reflexivity.
      * cbn [hd_error starts_dot andb] in *. exact Hd.
    + apply okchar_step; [exact Hc|now apply N.eqb_neq].
  - intros t Ht. apply (Hlast (c :: t)). now rewrite Ht.
Qed.

Lemma okchar_no_bslash : forall c, okchar c = true -> c <> ch_bslash.
Proof. intros c. charlia. Qed.
