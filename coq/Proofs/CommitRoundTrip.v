(* C12 - whole-command composition: `stg commit -n k` followed by `stg uncommit <the same k names>`
   gives back the stack there was.

   The statement as first pinned (commit_uncommit_roundtrip, with `same_stack st2 st0`) is FALSE:
   same_stack compares the recorded head, and the recorded head of st0 may differ from the
   branch head (external modification that was logged but not repaired, then `git reset --hard`
   back onto the top patch).  The round trip records the branch head.  See
   [commit_uncommit_roundtrip_refuted] below (explicit world reachable by commands).

   Proved instead:
   - commit_uncommit_roundtrip_general: no extra hypothesis, conclusion with
     `s_head st2 = w_branch w` in place of `s_head st2 = s_head st0`;
   - commit_uncommit_roundtrip_partial: the pinned statement under the extra hypothesis
     `s_head st0 = w_branch w`. *)
From Coq Require Import List NArith ZArith Bool Arith Lia.
From StgV Require Import Model.StackSpec Model.LogSpec.
From StgV Require Proofs.ChainBasics Proofs.WfBasics Proofs.ReachBase Proofs.LogProofs
  Proofs.ResolveProofs Proofs.ParserProofs Proofs.ReachFinal Proofs.CommitProofs.
Import ListNotations.
Local Open Scope nat_scope.
Local Open Scope list_scope.

(* ---------------------------------------------------------------- tactics *)

Ltac tsimp :=
  cbn [set_lists set_updated set_head set_base set_objs set_tmp set_wt set_conflict_mode
       t_stack t_stack_base t_branch_head t_opts t_applied t_unapplied t_hidden t_updated
       t_head t_base t_cur_tree t_objs t_tmp_id t_tmp_content t_wt t_wt_unmerged].

Ltac brk_in H :=
  match type of H with
  | context [match ?x with _ => _ end] =>
      lazymatch x with
      | context [match _ with _ => _ end] => fail
      | _ => destruct x eqn:?
      end
  end.

(* ---------------------------------------------------------------- names *)

Lemma rt_name_eqb_eq : forall a b, name_eqb a b = true <-> a = b.
Proof. exact ChainBasics.name_eqb_eq. Qed.

Lemma rt_name_eqb_refl : forall a, name_eqb a a = true.
Proof. intro a. apply rt_name_eqb_eq. reflexivity. Qed.

Lemma valid_from_str : forall n, validate n = true -> from_str n = Some n.
Proof.
  intros n Hv. unfold from_str.
  rewrite ParserProofs.unescape_eq, (ResolveProofs.validate_not_escaped n Hv), Hv. reflexivity.
Qed.

Definition parse_names (names : list str) : option (list name) :=
  fold_right (fun x acc => match from_str x, acc with
                           | Some n, Some l => Some (n :: l)
                           | _, _ => None end) (Some []) names.

Lemma parse_names_valid : forall l,
    Forall (fun n => validate n = true) l -> parse_names l = Some l.
Proof.
  induction l as [|x l IH]; intros H; [reflexivity|].
  inversion H as [|y ys Hx Hl]; subst. unfold parse_names in *. cbn [fold_right].
  rewrite (valid_from_str x Hx), (IH Hl). reflexivity.
Qed.

(* ---------------------------------------------------------------- lists *)

Lemma combine_map_self : forall (A B : Type) (f : A -> B) (l : list A),
    combine l (map f l) = map (fun n => (n, f n)) l.
Proof.
  intros A B f. induction l as [|x l IH]; [reflexivity|]. cbn [map combine]. rewrite IH. reflexivity.
Qed.

Lemma hd_rev_split : forall (A : Type) (a b : list A) (x : A),
    hd_error (rev (a ++ b)) = Some x ->
    (b = [] /\ hd_error (rev a) = Some x) \/ (hd_error (rev b) = Some x /\ In x b).
Proof.
  intros A a b x H. rewrite rev_app_distr in H. destruct (rev b) as [|y r] eqn:E.
  - left. split; [|exact H].
    assert (L : length (rev b) = 0) by (rewrite E; reflexivity).
    rewrite rev_length in L. destruct b; [reflexivity|discriminate].
  - right. cbn [app hd_error] in H. inversion H; subst y. split; [reflexivity|].
    apply in_rev. rewrite E. left. reflexivity.
Qed.

Lemma hd_rev_nonempty : forall (A : Type) (l : list A),
    l <> [] -> exists x, hd_error (rev l) = Some x /\ In x l.
Proof.
  intros A l H. destruct (rev l) as [|y r] eqn:E.
  - exfalso. apply H. assert (L : length (rev l) = 0) by (rewrite E; reflexivity).
    rewrite rev_length in L. destruct l; [reflexivity|discriminate].
  - exists y. split; [reflexivity|]. apply in_rev. rewrite E. left. reflexivity.
Qed.

(* ---------------------------------------------------------------- chains *)

Lemma chain_ext : forall a b xs base top,
    store_extends a b -> chain a base xs top -> chain b base xs top.
Proof.
  intros a b xs. induction xs as [|x xs IH]; intros base top He H; [exact H|].
  cbn [chain] in *. destruct H as [Hp Hr]. split.
  - eapply ChainBasics.parents_of_ext; eassumption.
  - apply IH; assumption.
Qed.

Lemma chain_app_inv : forall objs xs ys base top,
    chain objs base (xs ++ ys) top ->
    exists mid, chain objs base xs mid /\ chain objs mid ys top.
Proof.
  intros objs xs. induction xs as [|x xs IH]; intros ys base top H.
  - exists base. split; [reflexivity|exact H].
  - cbn [app chain] in H. destruct H as [Hp Hr].
    destruct (IH ys x top Hr) as [mid [H1 H2]]. exists mid. split; [|exact H2].
    cbn [chain]. split; assumption.
Qed.

Lemma chain_app_intro : forall objs xs ys base mid top,
    chain objs base xs mid -> chain objs mid ys top -> chain objs base (xs ++ ys) top.
Proof.
  intros objs xs. induction xs as [|x xs IH]; intros ys base mid top H1 H2.
  - cbn [chain] in H1. subst mid. exact H2.
  - cbn [chain] in H1. destruct H1 as [Hp Hr]. cbn [app chain]. split; [exact Hp|].
    eapply IH; eassumption.
Qed.

Lemma walk_down_chain_all : forall objs xs base mid,
    chain objs base xs mid -> walk_down objs mid (length xs) = Some (rev xs).
Proof.
  intros objs xs. induction xs as [|x xs IH] using rev_ind; intros base mid H.
  - reflexivity.
  - apply chain_app_inv in H. destruct H as [m [H1 H2]].
    cbn [chain] in H2. destruct H2 as [Hp Hm]. subst mid.
    rewrite app_length. cbn [length]. rewrite Nat.add_1_r. cbn [walk_down]. rewrite Hp.
    rewrite (IH base m H1). rewrite rev_app_distr. reflexivity.
Qed.

(* ---------------------------------------------------------------- patch maps *)

Lemma t_patch_apply : forall t n,
    t_patch t n = pm_get (pm_apply (s_patches (t_stack t)) (t_updated t)) n.
Proof. intros t n. rewrite WfBasics.pm_get_apply. unfold t_patch. reflexivity. Qed.

Lemma deleted_get_in : forall P l n,
    In n l -> pm_get (pm_apply P (mark_deleted [] l)) n = None.
Proof.
  intros P l n H. rewrite WfBasics.pm_get_apply, (LogProofs.mark_deleted_in l [] n H). reflexivity.
Qed.

Lemma deleted_get_notin : forall P l n,
    ~ In n l -> pm_get (pm_apply P (mark_deleted [] l)) n = pm_get P n.
Proof.
  intros P l n H. rewrite WfBasics.pm_get_apply, (LogProofs.mark_deleted_notin l [] n H). reflexivity.
Qed.

Definition pairs_of (f : name -> oid) (l : list name) : list (name * oid) :=
  map (fun n => (n, f n)) l.

Lemma pairs_of_keys : forall f l, map fst (pairs_of f l) = l.
Proof.
  intros f l. unfold pairs_of. rewrite map_map. cbn [fst]. apply map_id.
Qed.

Lemma pairs_of_get : forall f l n, In n l -> pm_get (pairs_of f l) n = Some (f n).
Proof.
  intros f. induction l as [|x l IH]; intros n H; [destruct H|].
  unfold pairs_of. cbn [map pm_get]. fold (pairs_of f l).
  destruct (name_eqb x n) eqn:E.
  - apply rt_name_eqb_eq in E. subst x. reflexivity.
  - destruct H as [->|H]; [rewrite rt_name_eqb_refl in E; discriminate|]. apply IH. exact H.
Qed.

Lemma installed_get_in : forall P f l n,
    NoDup l -> In n l ->
    pm_get (pm_apply P (LogProofs.install (pairs_of f l) [])) n = Some (f n).
Proof.
  intros P f l n Hnd Hin. rewrite WfBasics.pm_get_apply.
  rewrite (LogProofs.install_key (pairs_of f l) [] n (f n)).
  - reflexivity.
  - rewrite pairs_of_keys. exact Hnd.
  - apply pairs_of_get. exact Hin.
Qed.

Lemma installed_get_notin : forall P f l n,
    ~ In n l ->
    pm_get (pm_apply P (LogProofs.install (pairs_of f l) [])) n = pm_get P n.
Proof.
  intros P f l n Hn. rewrite WfBasics.pm_get_apply.
  rewrite LogProofs.install_not_key by (rewrite pairs_of_keys; exact Hn). reflexivity.
Qed.

(* ---------------------------------------------------------------- checkout onto the same tree *)

Lemma tree_eqb_refl : forall a, tree_eqb a a = true.
Proof. exact ChainBasics.tree_eqb_refl. Qed.

Lemma checkout_same_tree : forall o st tt wt um cur r,
    o_discard_changes o = false ->
    checkout o st tt wt um cur cur = Some r -> r = (wt, um).
Proof.
  intros o st tt wt um cur r Hd H. unfold checkout in H.
  rewrite tree_eqb_refl, Hd in H. cbn [negb andb] in H.
  destruct (o_conflict_mode o).
  - destruct um; [discriminate|]. inversion H. reflexivity.
  - inversion H. reflexivity.
  - destruct (match tt with Some a => match st with Some b => name_eqb a b | None => false end
                       | None => false end).
    + inversion H. reflexivity.
    + destruct um; [discriminate|]. inversion H. reflexivity.
Qed.

(* ---------------------------------------------------------------- open_stack on an initialised stack *)

Lemma open_cur : forall p w st op,
    cur_state w = Some st -> (p = PAllow \/ p = PAuto) -> open_stack p w = Some op ->
    op_world op = ensure_patch_refs w st /\ op_state op = st /\ op_initialized op = true
    /\ stack_base (w_objs w) (w_branch w) st = Some (op_base op).
Proof.
  intros p w st op Hc Hp H. unfold cur_state in Hc. unfold open_stack in H.
  destruct (w_stack w) as [so|]; [|discriminate].
  rewrite Hc in H.
  destruct (stack_base (w_objs w) (w_branch w) st) as [b|] eqn:Hb;
    destruct Hp as [-> | ->]; try discriminate; inversion H; subst; cbn [op_world op_state op_initialized op_base];
    repeat split; reflexivity.
Qed.

(* ---------------------------------------------------------------- execute: a successful transaction *)

Lemma logged_inv : forall (w0 : world) (st : sstate) (b : bool) w1 st1,
    (if b then Some (w0, st) else log_external_mods w0 st) = Some (w1, st1) ->
    store_extends (w_objs w0) (w_objs w1)
    /\ w_branch w1 = w_branch w0 /\ w_wt w1 = w_wt w0 /\ w_unmerged w1 = w_unmerged w0
    /\ s_patches st1 = s_patches st.
Proof.
  intros w0 st b w1 st1 H. destruct b.
  - inversion H; subst. split; [apply ReachBase.store_extends_refl|]. repeat split; reflexivity.
  - unfold log_external_mods in H. destruct (w_stack w0) as [so|]; [|discriminate].
    destruct (state_commit _ _ _) as [[objs' so']|] eqn:C; [|discriminate].
    inversion H; subst. cbn [w_objs w_branch w_wt w_unmerged s_patches].
    split; [|repeat split; reflexivity].
    apply ReachBase.state_commit_strong in C. destruct C as [E _].
    eapply ReachBase.ext_by_extends. exact E.
Qed.

Lemma exec_ok_inv : forall w t msg w',
    execute w (TOk t) msg = (w', X0) ->
    exists th prev objsm so',
      t_head_oid t = Some th
      /\ store_extends (t_objs t) objsm
      /\ state_commit objsm
           (mkState (Some prev) th (t_applied t) (t_unapplied t) (t_hidden t)
                    (pm_apply (s_patches (t_stack t)) (t_updated t))) msg = Some (w_objs w', so')
      /\ w_stack w' = Some so'
      /\ w_branch w' = (if o_set_head (t_opts t) then th else w_branch w)
      /\ (o_set_head (t_opts t) && o_use_iw (t_opts t) = false ->
          w_wt w' = t_wt t /\ w_unmerged w' = t_wt_unmerged t)
      /\ (o_set_head (t_opts t) && o_use_iw (t_opts t) = true ->
          checkout (t_opts t) (hd_error (rev (s_applied (t_stack t)))) (hd_error (rev (t_applied t)))
                   (t_wt t) (t_wt_unmerged t) (t_cur_tree t) (tree_of (t_objs t) th)
          = Some (w_wt w', w_unmerged w')).
Proof.
  intros w t msg w' H. cbn [execute] in H.
  destruct (negb _); [discriminate|].
  destruct (t_head_oid t) as [th|]; [|discriminate].
  match type of H with
  | context [if ?b then Some (?w0, ?st) else log_external_mods _ _] =>
      destruct (if b then Some (w0, st) else log_external_mods w0 st) as [[w1 st1]|] eqn:L;
      [apply logged_inv in L; cbn [w_objs w_branch w_wt w_unmerged] in L;
       destruct L as [Lo [Lb [Lw [Lu Lp]]]] | discriminate]
  end.
  rewrite Lp, Lw, Lu in H.
  destruct (o_set_head (t_opts t) && o_use_iw (t_opts t)) eqn:Hco.
  - destruct (negb (o_allow_bad_head (t_opts t)) && _ && _); [discriminate|].
    destruct (checkout _ _ _ _ _ _ (tree_of (t_objs t) th)) as [[wt' um']|] eqn:Hck.
    + destruct (w_stack w1) as [prev|]; [|discriminate].
      destruct (state_commit _ _ _) as [[objs' so']|] eqn:C; [|discriminate].
      injection H as Hw'; subst w'. cbn [w_objs w_stack w_branch w_wt w_unmerged].
      exists th, prev, (w_objs w1), so'. split; [reflexivity|]. split; [exact Lo|].
      split; [exact C|]. split; [reflexivity|]. split; [rewrite Lb; reflexivity|].
      split; [discriminate|]. intros _. exact Hck.
    + exfalso. repeat brk_in H; discriminate.
  - destruct (w_stack w1) as [prev|]; [|discriminate].
    destruct (state_commit _ _ _) as [[objs' so']|] eqn:C; [|discriminate].
    injection H as Hw'; subst w'. cbn [w_objs w_stack w_branch w_wt w_unmerged].
    exists th, prev, (w_objs w1), so'. split; [reflexivity|]. split; [exact Lo|].
    split; [exact C|]. split; [reflexivity|]. split; [rewrite Lb; reflexivity|].
    split; [intros _; split; reflexivity|discriminate].
Qed.

(* ---------------------------------------------------------------- the shape of a successful commit -n k *)

Definition commit_opts (apc : bool) : topts := opts CAllowIfSameTop apc false true true false.

Lemma run_commit_n_inv : forall w k ae w',
    1 <= k ->
    run_commit w None (Some (N.of_nat k)) false ae = (w', X0) ->
    exists op,
      open_stack PAllow w = Some op
      /\ k <= length (s_applied (op_state op))
      /\ head_top_ok op = true
      /\ transact op (commit_opts (w_apc (op_world op)))
                  (commit_patches (firstn k (s_applied (op_state op)))) MOp = (w', X0).
Proof.
  intros w k ae w' Hk H. unfold run_commit in H. cbv zeta in H.
  destruct (open_stack PAllow w) as [op|]; [|discriminate].
  assert (E0 : (N.of_nat k =? 0)%N = false) by (apply N.eqb_neq; lia).
  rewrite E0, Nat2N.id in H.
  destruct (Nat.ltb (length (s_applied (op_state op))) k) eqn:El; [discriminate|].
  apply Nat.ltb_ge in El.
  destruct (firstn k (s_applied (op_state op))) as [|n ps] eqn:Ef; [discriminate|].
  destruct (negb ae && _); [discriminate|].
  destruct (head_top_ok op) eqn:Eh; [|discriminate].
  cbn [negb] in H. exists op. rewrite Ef. repeat split; assumption.
Qed.

Definition uncommit_opts (apc : bool) : topts := opts CAllow apc false false false false.

Lemma run_uncommit_names_inv : forall lower_s w names w',
    Forall (fun n => validate n = true) names -> names <> [] ->
    run_uncommit lower_s w None names = (w', X0) ->
    exists op commits,
      open_stack PAuto w = Some op
      /\ walk_down (w_objs (op_world op)) (op_base op) (length names) = Some commits
      /\ transact op (uncommit_opts (w_apc (op_world op)))
                  (uncommit_patches (rev (combine names commits))) MOp = (w', X0).
Proof.
  intros lower_s w names w' Hv Hne H. unfold run_uncommit in H. cbv zeta in H.
  fold (parse_names names) in H. rewrite (parse_names_valid names Hv) in H.
  destruct (open_stack PAuto w) as [op|]; [|discriminate].
  destruct (negb (head_top_ok op)); [discriminate|].
  destruct names as [|n0 ns]; [contradiction|].
  destruct (negb (check_patchnames (op_state op) (n0 :: ns))); [discriminate|].
  destruct (walk_down _ _ _) as [commits|] eqn:W; [|discriminate].
  destruct (negb _); [discriminate|].
  exists op, commits. repeat split; assumption.
Qed.

(* ---------------------------------------------------------------- commit_patches on the bottom-most patches *)

Lemma common_prefix_firstn : forall (l : list name) k,
    common_prefix_len l (firstn k l) = length (firstn k l).
Proof.
  induction l as [|x l IH]; intros k.
  - rewrite firstn_nil. reflexivity.
  - destruct k as [|k]; [reflexivity|]. cbn [firstn common_prefix_len length].
    rewrite rt_name_eqb_refl, IH. reflexivity.
Qed.

Definition committed (k : nat) (lasto : oid) (t : txn) : txn :=
  set_tmp
    (set_lists (set_updated (set_base t (Some lasto))
                            (mark_deleted (t_updated t) (firstn k (t_applied t))))
               (skipn k (t_applied t)) (t_unapplied t) (t_hidden t))
    None [].

Lemma commit_bottom_explicit :
  forall k t lastn lasto,
    1 <= k -> k <= length (t_applied t) ->
    hd_error (rev (firstn k (t_applied t))) = Some lastn -> t_patch t lastn = Some lasto ->
    commit_patches (firstn k (t_applied t)) t = TOk (committed k lasto t).
Proof.
  intros k t lastn lasto Hk1 Hk2 Hlast Hpatch.
  assert (Hlen : length (firstn k (t_applied t)) = k) by (rewrite firstn_length; lia).
  unfold commit_patches. rewrite common_prefix_firstn. rewrite Nat.ltb_irrefl.
  cbv zeta. cbn [tbind]. rewrite Hlast, Hpatch. tsimp.
  rewrite Hlen.
  assert (Hlt : Nat.ltb (length (t_applied t)) k = false) by (apply Nat.ltb_ge; exact Hk2).
  rewrite Hlt. unfold push_patches. cbn [push_list]. reflexivity.
Qed.

(* ---------------------------------------------------------------- simplification of projections *)

Ltac wsimp :=
  cbn [committed begin_txn op_world op_state op_base op_initialized ensure_patch_refs
       w_objs w_branch w_stack w_prefs w_wt w_unmerged w_base w_apc
       s_prev s_head s_applied s_unapplied s_hidden s_patches
       opts commit_opts uncommit_opts
       o_conflict_mode o_allow_push_conflicts o_discard_changes o_use_iw o_set_head o_allow_bad_head
       set_lists set_updated set_head set_base set_objs set_tmp set_wt
       t_stack t_stack_base t_branch_head t_opts t_applied t_unapplied t_hidden t_updated
       t_head t_base t_cur_tree t_objs t_tmp_id t_tmp_content t_wt t_wt_unmerged
       andb negb].

Tactic Notation "wsimp" "in" hyp(H) :=
  cbn [committed begin_txn op_world op_state op_base op_initialized ensure_patch_refs
       w_objs w_branch w_stack w_prefs w_wt w_unmerged w_base w_apc
       s_prev s_head s_applied s_unapplied s_hidden s_patches
       opts commit_opts uncommit_opts
       o_conflict_mode o_allow_push_conflicts o_discard_changes o_use_iw o_set_head o_allow_bad_head
       set_lists set_updated set_head set_base set_objs set_tmp set_wt
       t_stack t_stack_base t_branch_head t_opts t_applied t_unapplied t_hidden t_updated
       t_head t_base t_cur_tree t_objs t_tmp_id t_tmp_content t_wt t_wt_unmerged
       andb negb] in H.

(* ---------------------------------------------------------------- small facts about states *)

Lemma nodup_app_disjoint : forall (A : Type) (a b : list A) x,
    NoDup (a ++ b) -> In x b -> ~ In x a.
Proof.
  intros A a. induction a as [|y a IH]; intros b x Hnd Hb Ha; [destruct Ha|].
  cbn [app] in Hnd. inversion Hnd as [|z zs Hnotin Hnd']; subst.
  destruct Ha as [->|Ha].
  - apply Hnotin. apply in_or_app. right. exact Hb.
  - exact (IH b x Hnd' Hb Ha).
Qed.

Lemma nodup_app_l : forall (A : Type) (a b : list A), NoDup (a ++ b) -> NoDup a.
Proof.
  intros A a. induction a as [|y a IH]; intros b H; [constructor|].
  cbn [app] in H. inversion H as [|z zs Hnotin Hnd']; subst. constructor.
  - intro Hy. apply Hnotin. apply in_or_app. left. exact Hy.
  - exact (IH b Hnd').
Qed.

Lemma s_top_eq : forall s ln o,
    hd_error (rev (s_applied s)) = Some ln -> pm_get (s_patches s) ln = Some o -> s_top s = o.
Proof.
  intros s ln o H1 H2. unfold s_top, last_error. rewrite H1, H2. reflexivity.
Qed.

Lemma patch_oid_eq : forall s n o, pm_get (s_patches s) n = Some o -> patch_oid s n = o.
Proof. intros s n o H. unfold patch_oid. rewrite H. reflexivity. Qed.

Lemma cur_state_inv : forall w st,
    cur_state w = Some st -> exists so, w_stack w = Some so /\ state_of (w_objs w) so = Some st.
Proof.
  intros w st H. unfold cur_state in H. destruct (w_stack w) as [so|]; [|discriminate].
  exists so. split; [reflexivity|exact H].
Qed.

Lemma firstn_nonempty : forall (A : Type) (l : list A) k,
    1 <= k -> k <= length l -> firstn k l <> [].
Proof.
  intros A l k H1 H2 E. assert (L : length (firstn k l) = 0) by (rewrite E; reflexivity).
  rewrite firstn_length in L. lia.
Qed.

(* the recorded head after committing the k bottom-most patches: the old top *)
Lemma committed_head : forall k t lastn lasto ln o,
    t_head t = None -> t_updated t = [] -> NoDup (t_applied t) ->
    hd_error (rev (firstn k (t_applied t))) = Some lastn ->
    pm_get (s_patches (t_stack t)) lastn = Some lasto ->
    hd_error (rev (t_applied t)) = Some ln ->
    pm_get (s_patches (t_stack t)) ln = Some o ->
    t_head_oid (committed k lasto t) = Some o.
Proof.
  intros k t lastn lasto ln o Hh Hu Hnd Hlast Hlasto Hln Ho.
  unfold t_head_oid. wsimp. rewrite Hh. unfold t_top. wsimp.
  rewrite <- (firstn_skipn k (t_applied t)) in Hln, Hnd.
  apply hd_rev_split in Hln. destruct Hln as [[E1 E2]|[E1 E2]].
  - rewrite E1. cbn [rev hd_error]. unfold t_base_oid. wsimp. congruence.
  - rewrite E1. rewrite t_patch_apply. wsimp. rewrite Hu.
    rewrite deleted_get_notin; [exact Ho|]. eapply nodup_app_disjoint; eassumption.
Qed.

(* ---------------------------------------------------------------- the commit side *)

Lemma commit_side : forall w st0 k ae w1,
    Inv6 w -> cur_state w = Some st0 ->
    1 <= k -> k <= length (s_applied st0) ->
    run_commit w None (Some (N.of_nat k)) false ae = (w1, X0) ->
    exists prev objsm so1,
      store_extends (w_objs w) objsm
      /\ state_commit objsm
           (mkState (Some prev) (w_branch w) (skipn k (s_applied st0)) (s_unapplied st0)
                    (s_hidden st0)
                    (pm_apply (s_patches st0) (mark_deleted [] (firstn k (s_applied st0))))) MOp
         = Some (w_objs w1, so1)
      /\ w_stack w1 = Some so1
      /\ w_branch w1 = w_branch w /\ w_wt w1 = w_wt w /\ w_unmerged w1 = w_unmerged w
      /\ s_top st0 = w_branch w.
Proof.
  intros w st0 k ae w1 I6 Hcur Hk1 Hk2 H.
  destruct (cur_state_inv _ _ Hcur) as [so [Hso Hst]].
  destruct I6 as [[[_ [Hwf _]] _] _]. specialize (Hwf so st0 Hst).
  destruct Hwf as [[Hnd _] [_ [Hmap _]]].
  assert (HndA : NoDup (s_applied st0)).
  { unfold all_of in Hnd. apply nodup_app_l in Hnd. exact Hnd. }
  assert (HmapA : forall n, In n (s_applied st0) -> exists o, pm_get (s_patches st0) n = Some o).
  { intros n Hn. assert (Hin : In n (all_of st0)) by (unfold all_of; apply in_or_app; left; exact Hn).
    apply Hmap in Hin. destruct (pm_get (s_patches st0) n) as [o|]; [exists o; reflexivity|congruence]. }
  destruct (run_commit_n_inv _ _ _ _ Hk1 H) as [op [Hop [_ [Hht Htr]]]].
  destruct (open_cur _ _ _ _ Hcur (or_introl eq_refl) Hop) as [Ew [Es [Ei Eb]]].
  destruct op as [ow os ob oi]. cbn [op_world op_state op_initialized op_base] in Ew, Es, Ei, Eb.
  subst ow os oi.
  (* the last committed patch and the top patch *)
  destruct (hd_rev_nonempty _ (firstn k (s_applied st0)) (firstn_nonempty _ _ _ Hk1 Hk2))
    as [lastn [Hlast Hlastin]].
  assert (HlastA : In lastn (s_applied st0)).
  { rewrite <- (firstn_skipn k (s_applied st0)). apply in_or_app. left. exact Hlastin. }
  destruct (HmapA lastn HlastA) as [lasto Hlasto].
  assert (HneA : s_applied st0 <> []).
  { intro E. rewrite E in Hk2. cbn [length] in Hk2. lia. }
  destruct (hd_rev_nonempty _ (s_applied st0) HneA) as [ln [Hln Hlnin]].
  destruct (HmapA ln Hlnin) as [o Ho].
  pose proof (s_top_eq st0 ln o Hln Ho) as Htop.
  (* head = top *)
  assert (Hbr : s_top st0 = w_branch w).
  { unfold head_top_ok in Hht. wsimp in Hht.
    destruct (s_applied st0) as [|a A']; [contradiction HneA; reflexivity|].
    apply Nat.eqb_eq in Hht. exact Hht. }
  (* the transaction *)
  unfold transact in Htr. wsimp in Htr.
  match type of Htr with
  | execute _ (commit_patches ?l ?t) _ = _ =>
      assert (Ecp : commit_patches l t = TOk (committed k lasto t))
        by exact (commit_bottom_explicit k t lastn lasto Hk1 Hk2 Hlast Hlasto);
      rewrite Ecp in Htr; clear Ecp;
      pose proof (committed_head k t lastn lasto ln o eq_refl eq_refl HndA Hlast Hlasto Hln Ho) as Hth
  end.
  destruct (exec_ok_inv _ _ _ _ Htr) as [th [prev [objsm [so1 [Hth' [Hext [Hsc [Hst1 [Hb1 [_ Hco]]]]]]]]]].
  rewrite Hth in Hth'. injection Hth' as <-.
  wsimp in Hext. wsimp in Hsc. wsimp in Hb1. wsimp in Hco. wsimp in Hst1.
  specialize (Hco eq_refl).
  rewrite Htop, Hbr in *.
  apply checkout_same_tree in Hco; [|reflexivity].
  injection Hco as Hwt Hum.
  exists prev, objsm, so1. repeat split; assumption.
Qed.

(* ---------------------------------------------------------------- the uncommit side *)

Definition after_commit (st0 : sstate) (k : nat) (prev : option oid) (head : oid) : sstate :=
  mkState prev head (skipn k (s_applied st0)) (s_unapplied st0) (s_hidden st0)
          (pm_apply (s_patches st0) (mark_deleted [] (firstn k (s_applied st0)))).

(* the patch map after commit then uncommit of the same names *)
Lemma roundtrip_patches : forall st0 k n,
    NoDup (s_applied st0) ->
    (forall m, In m (s_applied st0) -> exists o, pm_get (s_patches st0) m = Some o) ->
    pm_get (pm_apply (pm_apply (s_patches st0) (mark_deleted [] (firstn k (s_applied st0))))
                     (LogProofs.install (pairs_of (patch_oid st0) (firstn k (s_applied st0))) []))
           n
    = pm_get (s_patches st0) n.
Proof.
  intros st0 k n Hnd Hmap.
  assert (Hnd1 : NoDup (firstn k (s_applied st0))).
  { rewrite <- (firstn_skipn k (s_applied st0)) in Hnd. apply nodup_app_l in Hnd. exact Hnd. }
  destruct (in_dec LogProofs.name_eq_dec n (firstn k (s_applied st0))) as [Hin|Hni].
  - rewrite installed_get_in by assumption.
    assert (HinA : In n (s_applied st0)).
    { rewrite <- (firstn_skipn k (s_applied st0)). apply in_or_app. left. exact Hin. }
    destruct (Hmap n HinA) as [o Ho]. rewrite Ho, (patch_oid_eq _ _ _ Ho). reflexivity.
  - rewrite installed_get_notin by assumption. apply deleted_get_notin. exact Hni.
Qed.

Lemma uncommit_side : forall lower_s w1 w2 st0 k prev1 base,
    1 <= k -> k <= length (s_applied st0) ->
    NoDup (s_applied st0) ->
    Forall (fun n => validate n = true) (s_applied st0) ->
    (forall m, In m (s_applied st0) -> exists o, pm_get (s_patches st0) m = Some o) ->
    cur_state w1 = Some (after_commit st0 k prev1 (w_branch w1)) ->
    chain (w_objs w1) base (applied_oids st0) (s_top st0) ->
    s_top st0 = w_branch w1 ->
    run_uncommit lower_s w1 None (rev (firstn k (s_applied st0))) = (w2, X0) ->
    exists st2, cur_state w2 = Some st2
                /\ s_applied st2 = s_applied st0 /\ s_unapplied st2 = s_unapplied st0
                /\ s_hidden st2 = s_hidden st0 /\ s_head st2 = w_branch w1
                /\ (forall n, pm_get (s_patches st2) n = pm_get (s_patches st0) n).
Proof.
  intros lower_s w1 w2 st0 k prev1 base Hk1 Hk2 Hnd Hval Hmap Hcur Hch Htop H.
  set (l1 := firstn k (s_applied st0)) in *.
  assert (Hl1 : length l1 = k) by (unfold l1; rewrite firstn_length; lia).
  assert (Hv1 : Forall (fun n => validate n = true) (rev l1)).
  { apply Forall_forall. intros n Hn. apply in_rev in Hn. rewrite Forall_forall in Hval.
    apply Hval. rewrite <- (firstn_skipn k (s_applied st0)). apply in_or_app. left. exact Hn. }
  assert (Hne1 : rev l1 <> []).
  { intro E. assert (L : length (rev l1) = 0) by (rewrite E; reflexivity).
    rewrite rev_length in L. lia. }
  destruct (run_uncommit_names_inv _ _ _ _ Hv1 Hne1 H) as [op [commits [Hop [Hwd Htr]]]].
  destruct (open_cur _ _ _ _ Hcur (or_intror eq_refl) Hop) as [Ew [Es [Ei Eb]]].
  destruct op as [ow os ob oi]. cbn [op_world op_state op_initialized op_base] in Ew, Es, Ei, Eb, Hwd.
  subst ow os oi. wsimp in Hwd.
  (* the chain splits at the new base *)
  unfold applied_oids in Hch. rewrite <- (firstn_skipn k (s_applied st0)) in Hch.
  rewrite map_app in Hch. fold l1 in Hch.
  apply chain_app_inv in Hch. destruct Hch as [mid [Hc1 Hc2]].
  assert (Hbase : ob = mid).
  { unfold stack_base, after_commit in Eb. wsimp in Eb.
    destruct (skipn k (s_applied st0)) as [|n l2] eqn:E2.
    - cbn [map chain] in Hc2. congruence.
    - cbn [map chain] in Hc2. destruct Hc2 as [Hp _].
      assert (HnA : In n (s_applied st0)).
      { rewrite <- (firstn_skipn k (s_applied st0)). apply in_or_app. right. rewrite E2. left. reflexivity. }
      assert (Hn1 : ~ In n l1).
      { rewrite <- (firstn_skipn k (s_applied st0)) in Hnd. fold l1 in Hnd. rewrite E2 in Hnd.
        eapply nodup_app_disjoint; [exact Hnd|]. left. reflexivity. }
      destruct (Hmap n HnA) as [o Ho].
      rewrite (deleted_get_notin _ _ _ Hn1), Ho in Eb.
      rewrite (patch_oid_eq _ _ _ Ho) in Hp. unfold first_parent in Eb. rewrite Hp in Eb.
      cbn [hd_error] in Eb. congruence. }
  subst ob.
  (* the walk finds the same commits *)
  assert (Hcommits : commits = rev (map (patch_oid st0) l1)).
  { rewrite rev_length, Hl1 in Hwd. rewrite <- Hl1 in Hwd.
    rewrite <- (map_length (patch_oid st0) l1) in Hwd.
    rewrite (walk_down_chain_all _ _ _ _ Hc1) in Hwd. congruence. }
  subst commits.
  assert (Eps : rev (combine (rev l1) (rev (map (patch_oid st0) l1))) = pairs_of (patch_oid st0) l1).
  { rewrite <- map_rev, combine_map_self, <- map_rev, rev_involutive. reflexivity. }
  match type of Htr with
  | context [uncommit_patches ?p] =>
      assert (Eps' : p = pairs_of (patch_oid st0) l1) by exact Eps; rewrite Eps' in Htr; clear Eps Eps'
  end.
  (* the transaction *)
  unfold transact in Htr. wsimp in Htr. unfold uncommit_patches in Htr.
  destruct (exec_ok_inv _ _ _ _ Htr) as [th [prev [objsm [so2 [Hth [_ [Hsc [Hst2 _]]]]]]]].
  unfold after_commit in Hsc, Hth. wsimp in Hsc.
  rewrite pairs_of_keys in Hsc.
  fold (LogProofs.install (pairs_of (patch_oid st0) l1) []) in Hsc.
  unfold l1 in Hsc at 1. rewrite firstn_skipn in Hsc.
  apply ReachBase.state_commit_strong in Hsc. destruct Hsc as [_ [_ [Hso2 _]]].
  (* the recorded head *)
  assert (HneA : s_applied st0 <> []).
  { intro E. rewrite E in Hk2. cbn [length] in Hk2. lia. }
  destruct (hd_rev_nonempty _ (s_applied st0) HneA) as [ln [Hln Hlnin]].
  destruct (Hmap ln Hlnin) as [o Ho].
  assert (Eth : th = w_branch w1).
  { rewrite <- Htop, (s_top_eq st0 ln o Hln Ho).
    unfold t_head_oid in Hth. wsimp in Hth. unfold t_top in Hth. wsimp in Hth.
    rewrite pairs_of_keys in Hth. unfold l1 in Hth at 1. rewrite firstn_skipn, Hln in Hth.
    rewrite t_patch_apply in Hth. wsimp in Hth.
    fold (LogProofs.install (pairs_of (patch_oid st0) l1) []) in Hth.
    unfold l1 in Hth. rewrite (roundtrip_patches st0 k ln Hnd Hmap), Ho in Hth. congruence. }
  subst th.
  eexists. split.
  - unfold cur_state. rewrite Hst2. exact Hso2.
  - cbn [s_applied s_unapplied s_hidden s_head s_patches]. repeat split.
    intro n. unfold l1. apply roundtrip_patches; assumption.
Qed.

(* ---------------------------------------------------------------- the round trip *)

(* what is true without any extra hypothesis: everything of same_stack except that the recorded
   head afterwards is the branch head (= the top patch), not necessarily the head recorded in st0 *)
Theorem commit_uncommit_roundtrip_general :
  forall lower_s w st0 k ae w1 w2,
    Inv6 w ->
    cur_state w = Some st0 ->
    (1 <= k)%nat -> (k <= length (s_applied st0))%nat ->
    step lower_s w (CCommit None (Some (N.of_nat k)) false ae) = (w1, X0) ->
    step lower_s w1 (CUncommit None (rev (firstn k (s_applied st0)))) = (w2, X0) ->
    (exists st2, cur_state w2 = Some st2
                 /\ s_applied st2 = s_applied st0 /\ s_unapplied st2 = s_unapplied st0
                 /\ s_hidden st2 = s_hidden st0
                 /\ s_head st2 = w_branch w
                 /\ (forall n, pm_get (s_patches st2) n = pm_get (s_patches st0) n))
    /\ w_branch w1 = w_branch w /\ w_branch w2 = w_branch w
    /\ w_wt w2 = w_wt w /\ w_unmerged w2 = w_unmerged w.
Proof.
  intros lower_s w st0 k ae w1 w2 I6 Hcur Hk1 Hk2 H1 H2.
  cbn [step] in H1, H2.
  destruct (commit_side _ _ _ _ _ I6 Hcur Hk1 Hk2 H1)
    as [prev [objsm [so1 [Hext [Hsc [Hst1 [Hb1 [Hwt1 [Hum1 Htop]]]]]]]]].
  apply ReachBase.state_commit_strong in Hsc. destruct Hsc as [Hext2 [_ [Hso1 _]]].
  apply ReachBase.ext_by_extends in Hext2.
  pose proof (ReachBase.store_extends_trans _ _ _ Hext Hext2) as Hext1.
  destruct (cur_state_inv _ _ Hcur) as [so [Hso Hst]].
  destruct I6 as [[[_ [Hwf _]] Hchain] _].
  specialize (Hwf so st0 Hst). specialize (Hchain so st0 Hst).
  destruct Hwf as [[Hnd [Hval _]] [_ [Hmap _]]].
  assert (HndA : NoDup (s_applied st0)).
  { unfold all_of in Hnd. apply nodup_app_l in Hnd. exact Hnd. }
  assert (HvalA : Forall (fun n => validate n = true) (s_applied st0)).
  { apply Forall_forall. intros n Hn. rewrite Forall_forall in Hval. apply Hval.
    unfold all_of. apply in_or_app. left. exact Hn. }
  assert (HmapA : forall n, In n (s_applied st0) -> exists o, pm_get (s_patches st0) n = Some o).
  { intros n Hn. assert (Hin : In n (all_of st0)) by (unfold all_of; apply in_or_app; left; exact Hn).
    apply Hmap in Hin. destruct (pm_get (s_patches st0) n) as [o|]; [exists o; reflexivity|congruence]. }
  destruct Hchain as [base Hch]. apply (chain_ext _ _ _ _ _ Hext1) in Hch.
  assert (Hcur1 : cur_state w1 = Some (after_commit st0 k (Some prev) (w_branch w1))).
  { unfold cur_state. rewrite Hst1, Hb1. exact Hso1. }
  rewrite <- Hb1 in Htop.
  destruct (uncommit_side _ _ _ _ _ _ _ Hk1 Hk2 HndA HvalA HmapA Hcur1 Hch Htop H2)
    as [st2 [Hc2 [Ha [Hu [Hh [Hhd Hp]]]]]].
  destruct (CommitProofs.uncommit_keeps_head _ _ _ _ _ _ H2) as [Hb2 [Hwt2 Hum2]].
  split.
  - exists st2. rewrite Hhd, Hb1. repeat split; assumption.
  - rewrite Hb2, Hwt2, Hum2. repeat split; assumption.
Qed.

(* the pinned statement under the extra hypothesis that the recorded head of st0 is the branch
   head (no un-logged external modification of the branch) *)
Theorem commit_uncommit_roundtrip_partial :
  forall lower_s, LowerOK lower_s ->
  forall w st0 k ae w1 w2,
    Inv6 w -> prev_decreasing (w_objs w) ->
    cur_state w = Some st0 ->
    s_head st0 = w_branch w ->                       (* the extra hypothesis *)
    (1 <= k)%nat -> (k <= length (s_applied st0))%nat ->
    step lower_s w (CCommit None (Some (N.of_nat k)) false ae) = (w1, X0) ->
    step lower_s w1 (CUncommit None (rev (firstn k (s_applied st0)))) = (w2, X0) ->
    (exists st2, cur_state w2 = Some st2 /\ same_stack st2 st0)
    /\ w_branch w1 = w_branch w /\ w_branch w2 = w_branch w
    /\ w_wt w2 = w_wt w /\ w_unmerged w2 = w_unmerged w.
Proof.
  intros lower_s _ w st0 k ae w1 w2 I6 _ Hcur Hhead Hk1 Hk2 H1 H2.
  destruct (commit_uncommit_roundtrip_general _ _ _ _ _ _ _ I6 Hcur Hk1 Hk2 H1 H2)
    as [[st2 [Hc2 [Ha [Hu [Hh [Hhd Hp]]]]]] Hrest].
  split; [|exact Hrest].
  exists st2. split; [exact Hc2|]. unfold same_stack. rewrite Hhead.
  repeat split; assumption.
Qed.

(* ---------------------------------------------------------------- non-vacuity *)

Definition rt_p0 : str := [112; 48]%N.      (* "p0" *)
Definition rt_p1 : str := [112; 49]%N.      (* "p1" *)
Definition rt_q0 : str := [113; 48]%N.      (* "q0" *)
Definition rt_lower (s : str) : str := s.

Definition rt_cmds : list cmd :=
  [CInit; CNew rt_p0 1%N [120%N]; GEdit 0 5%N; CRefresh None;
   CNew rt_p1 2%N [121%N]; GEdit 1 6%N; CRefresh None].

Definition rt_world : world := run rt_lower (init_world [1; 1; 1; 0]%N) rt_cmds.

Example commit_uncommit_nonvacuous :
  exists w st0 w1 w2,
    cur_state w = Some st0 /\ length (s_applied st0) = 2
    /\ step (fun s => s) w (CCommit None (Some 2%N) false false) = (w1, X0)
    /\ step (fun s => s) w1 (CUncommit None (rev (firstn 2 (s_applied st0)))) = (w2, X0).
Proof.
  exists rt_world.
  exists (match cur_state rt_world with Some s => s | None => empty_state 0 end).
  exists (fst (step (fun s => s) rt_world (CCommit None (Some 2%N) false false))).
  exists (fst (step (fun s => s)
                    (fst (step (fun s => s) rt_world (CCommit None (Some 2%N) false false)))
                    (CUncommit None [rt_p1; rt_p0]))).
  split; [vm_compute; reflexivity|].
  split; [vm_compute; reflexivity|].
  split; vm_compute; reflexivity.
Qed.

(* ---------------------------------------------------------------- the pinned statement is false *)

Lemma rt_lower_ok : LowerOK rt_lower.
Proof. intros s H. exact H. Qed.

Lemma init_inv6 : forall t, Inv6 (init_world t) /\ prev_decreasing (w_objs (init_world t)).
Proof.
  intros t.
  assert (Hst : forall so s, state_of (w_objs (init_world t)) so = Some s -> False).
  { intros so s H. unfold init_world, state_of, get in H. cbn [w_objs] in H.
    destruct so as [|so]; cbn in H; [discriminate|]. destruct so; discriminate. }
  split.
  - split; [split; [split; [|split; [|split]]|]|].
    + intros o p _ Hin. unfold init_world, parents_of, get in Hin. cbn [w_objs] in Hin.
      destruct o as [|o]; cbn in Hin; [destruct Hin|]. destruct o; destruct Hin.
    + intros so s H. destruct (Hst so s H).
    + unfold init_world, is_plain. cbn [w_objs w_branch]. eexists. split; [reflexivity|].
      split; [reflexivity|discriminate].
    + exact I.
    + intros so s H. destruct (Hst so s H).
    + exact I.
  - intros so s p H. destruct (Hst so s H).
Qed.

Lemma run_inv6 : forall lower_s, LowerOK lower_s ->
  forall cs w, forallb in_scope cs = true ->
    Inv6 w -> prev_decreasing (w_objs w) ->
    Inv6 (run lower_s w cs) /\ prev_decreasing (w_objs (run lower_s w cs)).
Proof.
  intros lower_s L. induction cs as [|c cs IH]; intros w Hs I6 PD.
  - split; assumption.
  - cbn [forallb] in Hs. apply andb_true_iff in Hs. destruct Hs as [Hc Hcs].
    unfold run. cbn [fold_left]. fold (run lower_s (fst (step lower_s w c)) cs).
    destruct (ReachFinal.step_reach lower_s L w c Hc I6 PD) as [I6' PD'].
    apply IH; assumption.
Qed.

(* a world reachable by commands: two applied patches; a plain `git commit` on top; `stg rename`
   logs the external modification (recorded head = the git commit) and moves the branch back;
   `stg undo` returns to the logged state, recorded head and branch = the git commit;
   `git reset --hard p1` puts the branch back on the top patch.  Now the recorded head (21) is
   not the branch head (18), the head/top check passes, commit -n 2 and uncommit p1 p0 both
   succeed, and the state afterwards records the branch head 18 as its head. *)
Definition rt_cx_cmds : list cmd :=
  rt_cmds ++ [GEdit 2 7%N; GCommit 3%N [122%N]; CRename (Some rt_p1) rt_q0; CUndo 1%Z false;
              GResetHard (TPatch rt_p1)].

Definition rt_cx_world : world := run rt_lower (init_world [1; 1; 1; 0]%N) rt_cx_cmds.

Definition rt_cx_st0 : sstate :=
  match cur_state rt_cx_world with Some s => s | None => empty_state 0 end.

Definition rt_cx_w1 : world :=
  fst (step rt_lower rt_cx_world (CCommit None (Some (N.of_nat 2)) false false)).

Definition rt_cx_w2 : world :=
  fst (step rt_lower rt_cx_w1 (CUncommit None (rev (firstn 2 (s_applied rt_cx_st0))))).

Lemma rt_cx_facts :
  Inv6 rt_cx_world /\ prev_decreasing (w_objs rt_cx_world)
  /\ cur_state rt_cx_world = Some rt_cx_st0
  /\ length (s_applied rt_cx_st0) = 2
  /\ s_head rt_cx_st0 = 21 /\ w_branch rt_cx_world = 18
  /\ step rt_lower rt_cx_world (CCommit None (Some (N.of_nat 2)) false false) = (rt_cx_w1, X0)
  /\ step rt_lower rt_cx_w1 (CUncommit None (rev (firstn 2 (s_applied rt_cx_st0)))) = (rt_cx_w2, X0)
  /\ (forall st2, cur_state rt_cx_w2 = Some st2 -> s_head st2 = 18).
Proof.
  destruct (init_inv6 [1; 1; 1; 0]%N) as [I0 P0].
  destruct (run_inv6 rt_lower rt_lower_ok rt_cx_cmds _ eq_refl I0 P0) as [I6 PD].
  split; [exact I6|]. split; [exact PD|].
  split; [vm_compute; reflexivity|].
  split; [vm_compute; reflexivity|].
  split; [vm_compute; reflexivity|].
  split; [vm_compute; reflexivity|].
  split; [vm_compute; reflexivity|].
  split; [vm_compute; reflexivity|].
  intros st2 H. vm_compute in H. injection H as <-. reflexivity.
Qed.

Theorem commit_uncommit_roundtrip_refuted :
  ~ (forall lower_s, LowerOK lower_s ->
     forall w st0 k ae w1 w2,
       Inv6 w -> prev_decreasing (w_objs w) ->
       cur_state w = Some st0 ->
       (1 <= k)%nat -> (k <= length (s_applied st0))%nat ->
       step lower_s w (CCommit None (Some (N.of_nat k)) false ae) = (w1, X0) ->
       step lower_s w1 (CUncommit None (rev (firstn k (s_applied st0)))) = (w2, X0) ->
       (exists st2, cur_state w2 = Some st2 /\ same_stack st2 st0)
       /\ w_branch w1 = w_branch w /\ w_branch w2 = w_branch w
       /\ w_wt w2 = w_wt w /\ w_unmerged w2 = w_unmerged w).
Proof.
  intro H.
  destruct rt_cx_facts as [I6 [PD [Hcur [Hlen [Hhd [Hbr [H1 [H2 Hh2]]]]]]]].
  assert (Hk2 : 2 <= length (s_applied rt_cx_st0)) by (rewrite Hlen; apply le_n).
  destruct (H rt_lower rt_lower_ok rt_cx_world rt_cx_st0 2 false rt_cx_w1 rt_cx_w2 I6 PD Hcur
              (le_S _ _ (le_n 1)) Hk2 H1 H2) as [[st2 [Hc2 [_ [_ [_ [Hsame _]]]]]] _].
  rewrite (Hh2 st2 Hc2), Hhd in Hsame. discriminate.
Qed.
