(* C01 proofs, part 3: the patch refs mirror the recorded patch map (open_mirror, step_mirror). *)
From Coq Require Import Lia.
From StgV Require Import Model.StackSpec Proofs.WfBasics Proofs.WfFrame.

(* ---------------------------------------------------------------- opening *)

Definition op_mir (op : opened) : Prop :=
  w_prefs (op_world op) = s_patches (op_state op)
  /\ (cur_state (op_world op) = Some (op_state op)
      \/ (w_stack (op_world op) = None /\ op_initialized op = false)).

Lemma op_mir_mirror : forall op, op_mir op -> mirror (op_world op).
Proof.
  intros op [Hp [Hc|[Hs _]]]; unfold mirror.
  - rewrite Hc, Hp. reflexivity.
  - unfold cur_state. now rewrite Hs.
Qed.

Lemma open_op_mir : forall p w op, open_stack p w = Some op -> op_mir op.
Proof.
  intros p w op H. unfold open_stack in H.
  assert (Href : forall so,
    match state_of (w_objs w) so with
    | None => None
    | Some s => match stack_base (w_objs w) (w_branch w) s with
                | None => None
                | Some b => Some (mkOpened (ensure_patch_refs w s) s b true) end
    end = Some op -> w_stack w = Some so -> op_mir op).
  { intros so E Hs. destruct (state_of (w_objs w) so) as [s|] eqn:Es; [|discriminate].
    destruct (stack_base _ _ s); [|discriminate]. injection E as <-.
    split; [reflexivity|]. left. unfold cur_state, ensure_patch_refs. cbn. now rewrite Hs. }
  assert (Hini :
    match state_commit (w_objs w) (empty_state (w_branch w)) MOp with
    | None => None
    | Some (objs', so) =>
        Some (mkOpened (ensure_patch_refs
                 (mkWorld objs' (w_branch w) (Some so) (w_prefs w) (w_wt w) (w_unmerged w) (w_base w) (w_apc w))
                 (empty_state (w_branch w))) (empty_state (w_branch w)) (w_branch w) true)
    end = Some op -> op_mir op).
  { intros E. destruct (state_commit _ _ _) as [[objs' so]|] eqn:Ec; [|discriminate].
    injection E as <-. apply state_commit_state in Ec as [_ Ec].
    split; [reflexivity|]. left. unfold cur_state. cbn. exact Ec. }
  destruct p, (w_stack w) as [so|] eqn:Es; try discriminate; eauto.
  injection H as <-. split; [reflexivity|]. right. cbn. auto.
Qed.

Lemma open_mirror : forall p w op, open_stack p w = Some op -> mirror (op_world op).
Proof. intros p w op H. apply op_mir_mirror. now apply open_op_mir in H. Qed.

(* ---------------------------------------------------------------- execute *)

Lemma mirror_dep : forall w w',
  w_objs w' = w_objs w -> w_stack w' = w_stack w -> w_prefs w' = w_prefs w -> mirror w -> mirror w'.
Proof. intros w w' H1 H2 H3. unfold mirror, cur_state. now rewrite H1, H2, H3. Qed.

Lemma cur_state_ext : forall w w' s,
  store_extends (w_objs w) (w_objs w') -> w_stack w' = w_stack w ->
  cur_state w = Some s -> cur_state w' = Some s.
Proof.
  intros w w' s He Hs. unfold cur_state. rewrite Hs. destruct (w_stack w); [|discriminate].
  now apply state_of_ext.
Qed.

Lemma prefs_fold_get : forall u prefs m,
  (forall n, pm_get prefs n = pm_get m n) ->
  forall n, pm_get (exec_prefs prefs u) n = pm_get (pm_apply m u) n.
Proof.
  unfold exec_prefs.
  induction u as [|[k [o|]] u IH]; intros prefs m H n; cbn [fold_right pm_apply fst snd]; [apply H| |].
  - rewrite !pm_get_set. destruct (name_eqb k n); [reflexivity|now apply IH].
  - rewrite !pm_get_remove. destruct (name_eqb k n); [reflexivity|now apply IH].
Qed.

Definition frame_w (w : world) (st : sstate) (r : tres) : Prop :=
  match r with
  | TOk t | THalt t _ | TErr t => t_stack t = st /\ store_extends (w_objs w) (t_objs t)
  | TPanic => True
  end.

Lemma exec_w0_cur : forall w t st,
  cur_state w = Some st -> store_extends (w_objs w) (t_objs t) -> cur_state (exec_w0 w t) = Some st.
Proof. intros w t st Hc He. eapply cur_state_ext; [| |exact Hc]; [exact He|reflexivity]. Qed.

Lemma exec_logged_mirror : forall w t st w1 st1,
  cur_state w = Some st -> (forall n, pm_get (w_prefs w) n = pm_get (s_patches st) n) ->
  t_stack t = st -> store_extends (w_objs w) (t_objs t) ->
  exec_logged w t = Some (w1, st1) ->
  mirror w1 /\ forall n, pm_get (w_prefs w1) n = pm_get (s_patches st1) n.
Proof.
  intros w t st w1 st1 Hc Hpw Hst He E. unfold exec_logged in E.
  pose proof (exec_w0_cur w t st Hc He) as Hc0. destruct (Nat.eqb _ _).
  - injection E as <- <-. rewrite Hst. split; [|exact Hpw]. unfold mirror. rewrite Hc0. exact Hpw.
  - unfold log_external_mods in E. destruct (w_stack (exec_w0 w t)) as [so|]; [|discriminate].
    destruct (state_commit _ _ _) as [[objs' so']|] eqn:Ec; [|discriminate].
    injection E as <- <-. apply state_commit_state in Ec as [_ Ec].
    unfold mirror, cur_state. cbn. rewrite Ec. cbn. rewrite Hst. split; exact Hpw.
Qed.

Lemma exec_body_mirror : forall w t halted msg st,
  mirror w -> cur_state w = Some st -> t_stack t = st -> store_extends (w_objs w) (t_objs t) ->
  mirror (fst (exec_body w t halted msg)).
Proof.
  intros w t halted msg st Hm Hc Hst He.
  assert (Hpw : forall n, pm_get (w_prefs w) n = pm_get (s_patches st) n).
  { unfold mirror in Hm. now rewrite Hc in Hm. }
  unfold exec_body.
  destruct (negb _); [exact Hm|].
  destruct (t_head_oid t) as [th|]; [|exact Hm].
  destruct (exec_logged w t) as [[w1 st1]|] eqn:El.
  - destruct (exec_logged_mirror w t st w1 st1 Hc Hpw Hst He El) as [Hm1 Hp1].
    destruct (exec_co t th w1 st1) as [[wt' um']|[[wt' um'] x]].
    + unfold exec_fin. destruct (w_stack w1) as [prev|]; [|exact Hm1].
      destruct (state_commit _ _ _) as [[objs' so]|] eqn:Ec; [|exact Hm1].
      apply state_commit_state in Ec as [_ Ec].
      assert (Hfin : forall b x,
        mirror (mkWorld objs' b (Some so) (exec_prefs (w_prefs w1) (t_updated t)) wt' um' x (w_apc w1))).
      { intros b x. unfold mirror, cur_state. cbn. rewrite Ec. cbn. now apply prefs_fold_get. }
      destruct halted; apply Hfin.
    + cbn [fst]. eapply mirror_dep; [| | |exact Hm1]; reflexivity.
  - cbn [fst]. unfold mirror. rewrite (exec_w0_cur w t st Hc He). exact Hpw.
Qed.

Lemma execute_mirror : forall w r msg st,
  mirror w -> cur_state w = Some st -> frame_w w st r -> mirror (fst (execute w r msg)).
Proof.
  intros w r msg st Hm Hc Hf. rewrite execute_eq.
  destruct r as [t|t h|t|]; cbn [frame_w] in Hf.
  - destruct Hf as [Hf1 Hf2]. eapply exec_body_mirror; eauto.
  - destruct Hf as [Hf1 Hf2]. eapply exec_body_mirror; eauto.
  - destruct Hf as [Hf1 Hf2]. cbn [fst]. unfold mirror. rewrite (exec_w0_cur w t st Hc Hf2).
    unfold mirror in Hm. now rewrite Hc in Hm.
  - exact Hm.
Qed.

Lemma transact_mirror : forall op o f msg,
  op_mir op -> frame (begin_txn op o) (f (begin_txn op o)) ->
  mirror (fst (transact op o f msg)).
Proof.
  intros op o f msg Hop Hf. pose proof (op_mir_mirror op Hop) as Hm. destruct Hop as [Hp Hi].
  unfold transact. destruct (op_initialized op) eqn:Ei; cbn [negb].
  - destruct Hi as [Hi|[_ Hi]]; [|discriminate].
    apply (execute_mirror _ _ _ (op_state op)); [exact Hm|exact Hi|].
    destruct (f (begin_txn op o)); cbn in *; try exact I; destruct Hf as [H1 H2]; now split.
  - destruct (f (begin_txn op o)); exact Hm.
Qed.

Lemma op_mir_with_objs : forall op objs' b,
  op_mir op -> store_extends (w_objs (op_world op)) objs' ->
  op_mir (mkOpened (with_objs (op_world op) objs') (op_state op) b (op_initialized op)).
Proof.
  intros op objs' b [Hp Hi] He. split; [exact Hp|]. destruct Hi as [Hi|Hi]; [left|right; exact Hi].
  eapply cur_state_ext; [| |exact Hi]; [exact He|reflexivity].
Qed.

(* ---------------------------------------------------------------- commands *)

Lemma frame_fold_tbind : forall (A : Type) (F : A -> txn -> tres) l t r,
  (forall c t1, frame t1 (F c t1)) ->
  frame t r -> frame t (fold_left (fun r c => tbind r (F c)) l r).
Proof.
  intros A F l t r HF. revert r. induction l as [|c l IH]; intros r Hr; cbn [fold_left]; [exact Hr|].
  apply IH. apply frame_tbind; [exact Hr|]. intros t1 _. apply HF.
Qed.

#[export] Hint Resolve fr_refl frame_push_patch frame_push_list frame_push_patches frame_push_tree
  frame_push_tree_list frame_reorder frame_commit frame_uncommit frame_hide frame_unhide frame_rename
  frame_new_applied frame_update_patch frame_repair_appliedness frame_reset frame_reset_partially
  frame_refresh_absorb : frames.

Ltac frame_auto :=
  cbv beta;
  repeat match goal with
  | |- frame ?t (match delete_patches ?f ?t with _ => _ end) =>
      let H := fresh "Hd" in
      pose proof (fr_delete f t) as H; destruct (delete_patches f t) as [? ?]; cbn [fst] in H;
      eapply frame_fr; [exact H|clear H]
  | |- frame _ (if ?b then _ else _) => destruct b
  | |- frame _ (match ?x with _ => _ end) => destruct x
  end; cbn [frame]; first [exact I | apply fr_refl | solve [auto with frames]].

Ltac mir_leaf :=
  cbn [fst err2 ok0];
  first
    [ assumption
    | match goal with H : op_mir ?op |- mirror (op_world ?op) => exact (op_mir_mirror op H) end
    | match goal with H : op_mir ?op |- mirror (fst (transact ?op _ _ _)) =>
        apply transact_mirror; [exact H|frame_auto] end
    | match goal with H : op_mir ?op |- mirror (fst (transact (mkOpened (with_objs (op_world ?op) _) _ _ _) _ _ _)) =>
        apply transact_mirror; [apply op_mir_with_objs; [exact H|apply store_extends_put]|frame_auto] end ].

Ltac mir_destruct :=
  match goal with
  | |- mirror (fst (rres_bind _ ?r _)) => destruct r; cbn [rres_bind]
  | |- context [match ?x with _ => _ end] =>
      lazymatch x with
      | context [match _ with _ => _ end] => fail
      | open_stack ?p ?w =>
          let E := fresh "Eo" in destruct (open_stack p w) as [?op|] eqn:E; [apply open_op_mir in E|]
      | _ => destruct x
      end
  | |- mirror (fst (if ?b then _ else _)) => destruct b
  | |- mirror (fst (match ?x with _ => _ end)) => destruct x
  end.

Ltac mir := repeat (first [mir_leaf | mir_destruct]).

Lemma run_push_mirror : forall w r n al rv na st mg kp cf,
  mirror w -> mirror (fst (run_push w r n al rv na st mg kp cf)).
Proof. intros. unfold run_push. mir. Qed.

Lemma run_pop_mirror : forall w r n al kp sp, mirror w -> mirror (fst (run_pop w r n al kp sp)).
Proof. intros. unfold run_pop. mir. Qed.
Lemma run_goto_mirror : forall w l kp mg cf, mirror w -> mirror (fst (run_goto w l kp mg cf)).
Proof. intros. unfold run_goto. mir. Qed.
Lemma run_float_mirror : forall w r na kp, mirror w -> mirror (fst (run_float w r na kp)).
Proof. intros. unfold run_float. mir. Qed.
Lemma run_sink_mirror : forall w r t np kp, mirror w -> mirror (fst (run_sink w r t np kp)).
Proof. intros. unfold run_sink. mir. Qed.
Lemma run_delete_mirror : forall w r tp al a u h sp cf, mirror w -> mirror (fst (run_delete w r tp al a u h sp cf)).
Proof. intros. unfold run_delete. mir. Qed.
Lemma run_hide_mirror : forall w r, mirror w -> mirror (fst (run_hide w r)).
Proof. intros. unfold run_hide. mir. Qed.
Lemma run_unhide_mirror : forall w r, mirror w -> mirror (fst (run_unhide w r)).
Proof. intros. unfold run_unhide. mir. Qed.
Lemma run_rename_mirror : forall w o n, mirror w -> mirror (fst (run_rename w o n)).
Proof. intros. unfold run_rename. mir. Qed.
Lemma run_commit_mirror : forall w r n al ae, mirror w -> mirror (fst (run_commit w r n al ae)).
Proof. intros. unfold run_commit. mir. Qed.
Lemma run_uncommit_mirror : forall lower_s w n names, mirror w -> mirror (fst (run_uncommit lower_s w n names)).
Proof. intros. unfold run_uncommit. mir. Qed.
Lemma run_clean_mirror : forall w a u, mirror w -> mirror (fst (run_clean w a u)).
Proof. intros. unfold run_clean. mir. Qed.

Lemma run_new_mirror : forall w nm meta msg, mirror w -> mirror (fst (run_new w nm meta msg)).
Proof. intros. unfold run_new, put. mir. Qed.
Lemma run_spill_mirror : forall w, mirror w -> mirror (fst (run_spill w)).
Proof. intros. unfold run_spill, put. mir. Qed.
Lemma log_extmods_first_op_mir : forall op0 op,
  op_mir op0 -> log_extmods_first op0 = Some op -> op_mir op.
Proof.
  intros op0 op [Hp Hi] E. unfold log_extmods_first in E.
  destruct (Nat.eqb _ _); [injection E as <-; split; assumption|].
  unfold log_external_mods in E. destruct (w_stack (op_world op0)) as [so|]; [|discriminate].
  destruct (state_commit _ _ _) as [[objs' so']|] eqn:Ec; [|discriminate].
  injection E as <-. apply state_commit_state in Ec as [_ Ec].
  split; cbn; [exact Hp|]. left. unfold cur_state. cbn. exact Ec.
Qed.

Lemma run_undo_like_mirror : forall w s h m, mirror w -> mirror (fst (run_undo_like w s h m)).
Proof.
  intros w s h m H. unfold run_undo_like.
  destruct (open_stack PRequire w) as [op0|] eqn:Eo; [apply open_op_mir in Eo|exact H].
  destruct (log_extmods_first op0) as [op|] eqn:El.
  - apply (log_extmods_first_op_mir _ _ Eo) in El. mir.
  - mir.
Qed.
Lemma run_undo_mirror: forall w n h, mirror w -> mirror (fst (run_undo w n h)).
Proof. intros. unfold run_undo. destruct (n <? 1)%Z; [assumption|now apply run_undo_like_mirror]. Qed.
Lemma run_redo_mirror : forall w n h, mirror w -> mirror (fst (run_redo w n h)).
Proof.
  intros. unfold run_redo. destruct (n =? 0)%N; [assumption|].
  destruct (isize_max <? n)%N; [assumption|now apply run_undo_like_mirror].
Qed.
Lemma run_reset_mirror : forall w e r h, mirror w -> mirror (fst (run_reset w e r h)).
Proof.
  intros. unfold run_reset. destruct e as [k|].
  - mir.
  - destruct h; cbn [fst]; [|assumption]. eapply mirror_dep; [| | |eassumption]; reflexivity.
Qed.

Lemma run_refresh_mirror : forall w p, mirror w -> mirror (fst (run_refresh w p)).
Proof.
  intros w p H. unfold run_refresh, put.
  destruct (match p with Some o => _ | None => _ end) as [loc_l|]; [|exact H].
  destruct (open_stack PAllow w) as [op|] eqn:Eo; [apply open_op_mir in Eo|exact H].
  destruct (negb (head_top_ok op)); [mir|].
  match goal with |- mirror (fst (rres_bind _ ?r _)) => destruct r as [pn| |]; cbn [rres_bind]; [|mir|mir] end.
  destruct (w_unmerged (op_world op)); [mir|].
  match goal with |- context [transact ?o ?a ?f ?m] =>
    assert (Hm : mirror (fst (transact o a f m))) by mir;
    destruct (transact o a f m) as [w2 x] end.
  cbn [fst] in Hm. destruct x; try exact Hm.
  destruct (open_stack PAllow w2) as [op2|] eqn:Eo2; [apply open_op_mir in Eo2|exact Hm].
  apply transact_mirror; [exact Eo2|]. apply frame_refresh_absorb.
Qed.

Lemma run_repair_mirror : forall lower_s w, mirror w -> mirror (fst (run_repair lower_s w)).
Proof.
  intros lower_s w H. unfold run_repair.
  destruct (open_stack PRequire w) as [op|] eqn:Eo; [apply open_op_mir in Eo|exact H].
  destruct (repair_walk _ _ _ _ _ _ _ _) as [[ar pr] stop].
  apply transact_mirror; [exact Eo|]. cbv beta.
  apply frame_tbind; [auto with frames|]. intros t0 _.
  eapply frame_fr; [|apply frame_fold_tbind].
  - instantiate (1 := set_base t0 (Some _)). fr_triv.
  - intros c t1. cbv beta. frame_auto.
  - apply fr_refl.
Qed.

Lemma run_log_clear_mirror : forall w, mirror w -> mirror (fst (run_log_clear w)).
Proof.
  intros w H. unfold run_log_clear.
  destruct (open_stack PRequire w) as [op|] eqn:Eo; [apply open_op_mir in Eo|exact H].
  destruct (state_commit _ _ _) as [[objs' so]|] eqn:Ec; [|mir].
  apply state_commit_state in Ec as [_ Ec]. cbn [fst].
  unfold mirror, cur_state. cbn. rewrite Ec. cbn. destruct Eo as [Hp _]. now rewrite Hp.
Qed.

Lemma state_of_put_plain : forall objs ps t m sj so,
  state_of (objs ++ [plain ps t m sj]) so = state_of objs so.
Proof.
  intros objs ps t m sj so. unfold state_of.
  destruct (get (objs ++ [plain ps t m sj]) so) as [c|] eqn:E.
  - apply get_app_inv in E as [E|[E Hi]]; rewrite E; [reflexivity|].
    destruct Hi as [<-|[]]. reflexivity.
  - destruct (get objs so) as [c|] eqn:E2; [|reflexivity].
    apply (get_app_l _ [plain ps t m sj]) in E2. congruence.
Qed.

Lemma mirror_put_plain : forall w ps t m sj b wt um,
  mirror w ->
  mirror (mkWorld (w_objs w ++ [plain ps t m sj]) b (w_stack w) (w_prefs w) wt um (w_base w) (w_apc w)).
Proof.
  intros w ps t m sj b wt um H. unfold mirror, cur_state in *. cbn.
  destruct (w_stack w) as [so|]; [|exact I]. now rewrite state_of_put_plain.
Qed.

Lemma run_git_mirror : forall w c, mirror w -> mirror (fst (run_git w c)).
Proof.
  intros w c H. destruct c; cbn [run_git]; unfold put; cbn [fst]; try exact H.
  - unfold with_branch. now apply mirror_put_plain.
  - unfold with_branch. now apply mirror_put_plain.
  - match goal with |- context [match ?x with Some _ => _ | None => _ end] => destruct x end; [|exact H].
    cbn [fst]. eapply mirror_dep; [| | |exact H]; reflexivity.
  - destruct (first_parent _ _); [|exact H]. now apply mirror_put_plain.
Qed.

Lemma frame_edit_body : forall pn o t,
  frame t (let above := after_name pn (t_applied t) in
           let '(t1, extra) := pop_patches (fun n => mem n above) t in
           match extra with
           | _ :: _ => TPanic
           | [] => tbind (update_patch pn o t1) (push_patches above false)
           end).
Proof.
  intros pn o t. cbv zeta.
  pose proof (fr_pop (fun n => mem n (after_name pn (t_applied t))) t) as Hp.
  destruct (pop_patches _ t) as [t1 extra]. cbn [fst] in Hp.
  destruct extra; [|exact I].
  eapply frame_fr; [exact Hp|]. apply frame_tbind; [apply frame_update_patch|].
  intros t2 _. apply frame_push_patches.
Qed.

Lemma run_edit_mirror : forall w l m msg, mirror w -> mirror (fst (run_edit w l m msg)).
Proof.
  intros w l m msg H. unfold run_edit, put.
  destruct (match l with Some o => _ | None => _ end) as [loc_l|]; [|exact H].
  destruct (open_stack PAllow w) as [op|] eqn:Eo; [apply open_op_mir in Eo|exact H].
  destruct (negb (head_top_ok op)); [mir|].
  match goal with |- mirror (fst (rres_bind _ ?r _)) => destruct r as [pn| |]; cbn [rres_bind]; [|mir|mir] end.
  destruct (pm_get _ pn) as [pc|]; [|mir].
  destruct (get _ pc) as [old|]; [|mir].
  destruct (_ && _); [mir|].
  apply transact_mirror; [apply op_mir_with_objs; [exact Eo|apply store_extends_put]|].
  apply frame_edit_body.
Qed.

Lemma mirror_reset_hard : forall w o wt um, mirror w ->
  mirror (mkWorld (w_objs w) o (w_stack w) (w_prefs w) wt um (w_base w) (w_apc w)).
Proof. intros w o wt um H. eapply mirror_dep; [| | |exact H]; reflexivity. Qed.

Lemma run_rebase_mirror : forall w t, mirror w -> mirror (fst (run_rebase w t)).
Proof.
  intros w tg H. unfold run_rebase.
  destruct (open_stack PRequire w) as [op|] eqn:Eo; [apply open_op_mir in Eo|exact H].
  destruct (resolve_gtarget (op_world op) tg) as [target|]; [|mir].
  destruct (Nat.eqb target (op_base op)); [mir|].
  destruct (negb (head_top_ok op)); [mir|].
  destruct (dirty (op_world op)); [mir|].
  match goal with |- context [transact ?o ?a ?f ?m] =>
    assert (Hm : mirror (fst (transact o a f m)));
    [|destruct (transact o a f m) as [w2 x]] end.
  { apply transact_mirror; [exact Eo|]. cbv beta. cbn [frame]. apply fr_pop. }
  cbn [fst] in Hm. destruct x; try exact Hm.
  pose proof (mirror_reset_hard w2 target (tree_of (w_objs w2) target) false Hm) as Hm3.
  destruct (open_stack PRequire _) as [op3|] eqn:Eo3; [apply open_op_mir in Eo3|exact Hm3].
  destruct (log_extmods_first op3) as [op4|] eqn:El.
  - apply (log_extmods_first_op_mir _ _ Eo3) in El.
    destruct (negb (head_top_ok op4)); [mir|].
    apply transact_mirror; [exact El|]. apply frame_push_patches.
  - mir.
Qed.

Lemma run_squash_mirror : forall w r nm meta msg, mirror w -> mirror (fst (run_squash w r nm meta msg)).
Proof.
  intros w r nm meta msg H. unfold run_squash.
  destruct (parse_ranges r) as [prs|]; [|exact H].
  destruct (from_str nm) as [newn|]; [|exact H].
  destruct (open_stack PAllow w) as [op|] eqn:Eo; [apply open_op_mir in Eo|exact H].
  destruct (w_unmerged (op_world op)); [mir|].
  destruct (negb (head_top_ok op)); [mir|].
  match goal with |- mirror (fst (rres_bind _ ?r _)) => destruct r as [ps| |]; cbn [rres_bind]; [|mir|mir] end.
  destruct (_ && _); [mir|].
  destruct (Nat.ltb _ _); [mir|].
  rewrite squash_exit_fst.
  apply transact_mirror; [exact Eo|]. apply frame_squash_closure.
Qed.

Lemma run_pick_mirror : forall lower_s w src nm na, mirror w -> mirror (fst (run_pick lower_s w src nm na)).
Proof.
  intros lower_s w src nm na H.
  destruct (run_pick_case lower_s w src nm na) as
    [_|_|op Eo|op given o Eo _ _ _ _|op given o pn0 Eo _ _ _ _ _|op given o pn0 pn c par Eo _ _ _ _ _ _ _ _];
    cbn [fst]; try exact H; try (apply open_op_mir in Eo; exact (op_mir_mirror op Eo)).
  apply open_op_mir in Eo.
  apply transact_mirror; [apply op_mir_with_objs; [exact Eo|apply store_extends_put]|].
  apply frame_pick_body.
Qed.

Theorem step_mirror : forall lower_s w c, mirror w -> mirror (fst (step lower_s w c)).
Proof.
  intros lower_s w c H. destruct c; cbn [step].
  - destruct (open_stack PMust w) as [op|] eqn:Eo; [|exact H]. now apply open_mirror in Eo.
  - now apply run_new_mirror.
  - now apply run_refresh_mirror.
  - now apply run_push_mirror.
  - now apply run_pop_mirror.
  - now apply run_goto_mirror.
  - now apply run_float_mirror.
  - now apply run_sink_mirror.
  - now apply run_delete_mirror.
  - now apply run_hide_mirror.
  - now apply run_unhide_mirror.
  - now apply run_rename_mirror.
  - now apply run_commit_mirror.
  - now apply run_uncommit_mirror.
  - now apply run_clean_mirror.
  - now apply run_spill_mirror.
  - now apply run_undo_mirror.
  - now apply run_redo_mirror.
  - now apply run_reset_mirror.
  - now apply run_repair_mirror.
  - now apply run_log_clear_mirror.
  - now apply run_edit_mirror.
  - now apply run_rebase_mirror.
  - now apply run_squash_mirror.
  - now apply run_pick_mirror.
  - destruct (open_stack PAllow w) as [op|] eqn:Eo; [|exact H]. now apply open_mirror in Eo.
  - now apply run_git_mirror.
  - now apply run_git_mirror.
  - now apply run_git_mirror.
  - now apply run_git_mirror.
  - now apply run_git_mirror.
  - now apply run_git_mirror.
Qed.
