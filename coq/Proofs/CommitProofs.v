(* C12 - proofs: commit and uncommit move the stack base without rewriting history. *)
From Coq Require Import List NArith ZArith Bool Arith Lia.
From StgV Require Import Model.CmdSpec.
From StgV Require Import Proofs.CharsProofs Proofs.ReorderProofs Proofs.ReachBase Proofs.ReachStep
  Proofs.ConflictProofs.
From StgV Require Proofs.LogProofs.
From Coq Require Export List.   (* after Model.GenTypes, which exports String: [length] must be List.length, also for importers *)
Import ListNotations.
Local Open Scope nat_scope.
Local Open Scope list_scope.

(* ---------------------------------------------------------------- commit_bottom *)

Lemma common_prefix_firstn : forall (l : list name) k,
    common_prefix_len l (firstn k l) = length (firstn k l).
Proof.
  induction l as [|x l IH]; intros k.
  - rewrite firstn_nil. reflexivity.
  - destruct k as [|k]; [reflexivity|]. cbn [firstn common_prefix_len length].
    rewrite name_eqb_refl, IH. reflexivity.
Qed.

Lemma commit_bottom :
  forall k t lastn lasto,
    (1 <= k)%nat -> (k <= length (t_applied t))%nat ->
    hd_error (rev (firstn k (t_applied t))) = Some lastn -> t_patch t lastn = Some lasto ->
    exists t',
      commit_patches (firstn k (t_applied t)) t = TOk t'
      /\ t_objs t' = t_objs t
      /\ t_applied t' = skipn k (t_applied t)
      /\ t_unapplied t' = t_unapplied t /\ t_hidden t' = t_hidden t
      /\ t_base t' = Some lasto
      /\ t_head t' = t_head t
      /\ (forall n, In n (firstn k (t_applied t)) -> up_get (t_updated t') n = Some None)
      /\ (forall n, ~ In n (firstn k (t_applied t)) -> up_get (t_updated t') n = up_get (t_updated t) n).
Proof.
  intros k t lastn lasto Hk1 Hk2 Hlast Hpatch.
  assert (Hlen : length (firstn k (t_applied t)) = k) by (rewrite firstn_length; lia).
  unfold commit_patches. rewrite common_prefix_firstn. rewrite Nat.ltb_irrefl.
  cbv zeta. cbn [tbind]. rewrite Hlast, Hpatch. tsimp.
  rewrite Hlen.
  assert (Hlt : Nat.ltb (length (t_applied t)) k = false) by (apply Nat.ltb_ge; exact Hk2).
  rewrite Hlt. unfold push_patches. cbn [push_list]. eexists. split; [reflexivity|].
  tsimp. repeat split; try reflexivity.
  - intros n Hn. apply LogProofs.mark_deleted_in. exact Hn.
  - intros n Hn. apply LogProofs.mark_deleted_notin. exact Hn.
Qed.

(* ---------------------------------------------------------------- uncommit_patches_spec *)

Lemma pm_get_in_nodup : forall (ps : list (name * oid)) n o,
    NoDup (map fst ps) -> In (n, o) ps -> pm_get ps n = Some o.
Proof.
  induction ps as [|[k v] ps IH]; intros n o Hnd Hin; [destruct Hin|].
  cbn [map fst] in Hnd. inversion Hnd as [|x xs Hnotin Hnd']; subst.
  cbn [pm_get]. destruct Hin as [E|Hin].
  - inversion E; subst. rewrite name_eqb_refl. reflexivity.
  - destruct (name_eqb k n) eqn:E.
    + apply name_eqb_eq in E. subst k. exfalso. apply Hnotin.
      apply in_map_iff. exists (n, o). split; [reflexivity|exact Hin].
    + apply IH; assumption.
Qed.

Lemma uncommit_patches_spec :
  forall ps t,
    NoDup (map fst ps) ->
    exists t',
      uncommit_patches ps t = TOk t'
      /\ t_applied t' = map fst ps ++ t_applied t
      /\ t_objs t' = t_objs t
      /\ (forall n o, In (n, o) ps -> t_patch t' n = Some o).
Proof.
  intros ps t Hnd. unfold uncommit_patches. eexists. split; [reflexivity|]. tsimp.
  split; [reflexivity|]. split; [reflexivity|].
  intros n o Hin. unfold t_patch. tsimp.
  fold (LogProofs.install ps (t_updated t)).
  rewrite (LogProofs.install_key ps (t_updated t) n o Hnd (pm_get_in_nodup _ _ _ Hnd Hin)).
  reflexivity.
Qed.

(* ---------------------------------------------------------------- walk_down *)

Lemma walk_refuses :
  forall objs o k l,
    walk_down objs o k = Some l ->
    length l = k /\ forall c, In c l -> exists p, parents_of objs c = [p].
Proof.
  intros objs o k. revert o. induction k as [|k IH]; intros o l H; cbn [walk_down] in H.
  - inversion H; subst. split; [reflexivity|]. intros c [].
  - destruct (parents_of objs o) as [|p [|q ps]] eqn:Hp; try discriminate.
    destruct (walk_down objs p k) as [l'|] eqn:Hw; [|discriminate].
    inversion H; subst. destruct (IH p l' Hw) as [Hlen Hall]. split.
    + cbn [length]. rewrite Hlen. reflexivity.
    + intros c [Hc|Hc]; [subst c; exists p; exact Hp|apply Hall; exact Hc].
Qed.

Lemma chain_parents : forall objs oids base top k,
    chain objs base oids top -> k < length oids ->
    parents_of objs (nth k oids O) = [match k with O => base | S j => nth j oids O end].
Proof.
  intros objs. induction oids as [|p rest IH]; intros base top k Hc Hk; [cbn in Hk; lia|].
  cbn [chain] in Hc. destruct Hc as [Hp Hrest]. destruct k as [|k].
  - cbn [nth]. exact Hp.
  - cbn [nth]. cbn [length] in Hk. rewrite (IH p top k Hrest) by lia.
    destruct k; reflexivity.
Qed.

Lemma firstn_S_nth : forall (l : list oid) k,
    k < length l -> firstn (S k) l = firstn k l ++ [nth k l O].
Proof.
  induction l as [|x l IH]; intros k Hk; [cbn in Hk; lia|].
  destruct k as [|k]; [reflexivity|]. cbn [length] in Hk.
  change (firstn (S (S k)) (x :: l)) with (x :: firstn (S k) l).
  rewrite IH by lia. reflexivity.
Qed.

Lemma walk_down_S : forall objs o k,
    walk_down objs o (S k) =
    match parents_of objs o with
    | [p] => match walk_down objs p k with Some l => Some (o :: l) | None => None end
    | _ => None
    end.
Proof. reflexivity. Qed.

Lemma walk_down_chain_S : forall objs base oids top k,
    chain objs base oids top -> k < length oids ->
    walk_down objs (nth k oids O) (S k) = Some (rev (firstn (S k) oids)).
Proof.
  intros objs base oids top k Hc. induction k as [|k IH]; intros Hk.
  - rewrite walk_down_S. rewrite (chain_parents _ _ _ _ 0 Hc Hk).
    rewrite firstn_S_nth by exact Hk. reflexivity.
  - rewrite walk_down_S. rewrite (chain_parents _ _ _ _ (S k) Hc Hk).
    rewrite IH by lia. rewrite (firstn_S_nth oids (S k)) by exact Hk.
    rewrite rev_app_distr. reflexivity.
Qed.

Lemma walk_down_chain :
  forall objs base oids top k,
    chain objs base oids top -> (1 <= k)%nat -> (k <= length oids)%nat ->
    walk_down objs (nth (k - 1) oids O) k = Some (rev (firstn k oids)).
Proof.
  intros objs base oids top k Hc Hk1 Hk2. destruct k as [|k]; [lia|].
  replace (S k - 1) with k by lia. eapply walk_down_chain_S; [exact Hc|lia].
Qed.

(* ---------------------------------------------------------------- the shape of run_uncommit *)

Definition uncommit_opts (apc : bool) : topts := opts CAllow apc false false false false.

Lemma run_uncommit_shape : forall lower_s w number names w' x,
    run_uncommit lower_s w number names = (w', x) ->
    w' = w
    \/ exists op, open_stack PAuto w = Some op
                  /\ (w' = op_world op
                      \/ exists ps, transact op (uncommit_opts (w_apc (op_world op))) (uncommit_patches ps) MOp = (w', x)).
Proof.
  intros lower_s w number names w' x H. unfold run_uncommit in H. cbv zeta in H.
  repeat brk_any_in H;
    first [ left; unfold err2 in H; congruence
          | right; eexists; split; [reflexivity|];
            first [ left; unfold err2 in H; congruence | right; eexists; exact H ] ].
Qed.

Lemma uncommit_patches_keeps_wt : forall ps, keeps_wt (uncommit_patches ps).
Proof.
  intros ps t t' H. unfold uncommit_patches in H. cbn [txn_of] in H. inversion H; subst.
  repeat split; reflexivity.
Qed.

Lemma uncommit_keeps_head :
  forall lower_s w number names w' x,
    run_uncommit lower_s w number names = (w', x) ->
    w_branch w' = w_branch w /\ w_wt w' = w_wt w /\ w_unmerged w' = w_unmerged w.
Proof.
  intros lower_s w number names w' x H. apply run_uncommit_shape in H.
  destruct H as [->|[op [Hop H]]]; [repeat split; reflexivity|].
  destruct (open_stack_frame _ _ _ Hop) as [Hb [Hwt Hum]].
  destruct H as [->|[ps H]]; [repeat split; assumption|].
  apply transact_frame in H; [|reflexivity|apply uncommit_patches_keeps_wt].
  destruct H as [A [B C]]. rewrite A, B, (C eq_refl). repeat split; assumption.
Qed.

(* ---------------------------------------------------------------- no new plain commit *)

(* commits that are not plain: stack state commits and parent-grouping commits *)
Definition npc (c : commit) : Prop := c_state c <> None \/ c_msg c = MGroup.

Definition np_extends : store -> store -> Prop := ext_by npc.

Lemma np_extends_no_new_plain : forall a b,
    np_extends a b -> store_extends a b /\ no_new_plain a b.
Proof.
  intros a b H. split; [eapply ext_by_extends; exact H|].
  destruct H as [ext [-> Hall]]. intros o Ho [c [Hg [Hst Hmsg]]].
  unfold Stack.get in Hg. rewrite nth_error_app2 in Hg by exact Ho.
  apply nth_error_In in Hg. rewrite Forall_forall in Hall. destruct (Hall c Hg) as [Hn|Hm].
  - apply Hn. exact Hst.
  - apply Hmsg. exact Hm.
Qed.

Lemma group_parents_np : forall fuel maxp objs tree ps objs' ps',
    group_parents fuel maxp objs tree ps = (objs', ps') -> np_extends objs objs'.
Proof.
  induction fuel as [|fuel IH]; intros maxp objs tree ps objs' ps' H; cbn [group_parents] in H.
  - inversion H; subst. apply ext_by_refl.
  - destruct (Nat.ltb maxp (length ps)).
    + unfold put in H. apply IH in H. eapply ext_by_trans; [|exact H].
      apply ext_by_put. right. reflexivity.
    + inversion H; subst. apply ext_by_refl.
Qed.

Lemma state_commit_np : forall objs s msg objs' so,
    state_commit objs s msg = Some (objs', so) -> np_extends objs objs'.
Proof.
  intros objs s msg objs' so H.
  destruct (state_commit_inv _ _ _ _ _ H) as [prev [sp [objs2 [grouped [_ [G [E1 _]]]]]]].
  apply group_parents_np in G. subst objs'.
  eapply ext_by_trans; [apply ext_by_put|eapply ext_by_trans; [exact G|apply ext_by_put]];
    left; discriminate.
Qed.

Lemma open_stack_np : forall p w op,
    open_stack p w = Some op -> np_extends (w_objs w) (w_objs (op_world op)).
Proof.
  intros p w op H. unfold open_stack in H.
  repeat brk_any_in H; inversion H; subst; cbn [op_world ensure_patch_refs w_objs];
    first [ apply ext_by_refl | eapply state_commit_np; eassumption ].
Qed.

Lemma log_external_mods_np : forall w s w1 s1,
    log_external_mods w s = Some (w1, s1) -> np_extends (w_objs w) (w_objs w1).
Proof.
  intros w s w1 s1 H. unfold log_external_mods in H.
  repeat brk_any_in H; inversion H; subst; cbn [w_objs]. eapply state_commit_np; eassumption.
Qed.

Lemma exec_body_np : forall w t halted msg w' x,
    np_extends (w_objs w) (t_objs t) ->
    exec_body w t halted msg = (w', x) -> np_extends (w_objs w) (w_objs w').
Proof.
  intros w t halted msg w' x E H. unfold exec_body in H. cbv zeta in H.
  repeat brk_any_in H;
    repeat match goal with
           | Hl : log_external_mods _ _ = Some _ |- _ =>
               apply log_external_mods_np in Hl; cbn [w_objs] in Hl
           | Hc : state_commit _ _ _ = Some _ |- _ => apply state_commit_np in Hc
           end;
    inversion H; subst; cbn [w_objs]; unfold np_extends in *;
    eauto using ext_by_trans, ext_by_refl.
Qed.

Lemma uncommit_no_new_commit :
  forall lower_s w number names w' x,
    run_uncommit lower_s w number names = (w', x) ->
    store_extends (w_objs w) (w_objs w') /\ no_new_plain (w_objs w) (w_objs w').
Proof.
  intros lower_s w number names w' x H. apply np_extends_no_new_plain.
  apply run_uncommit_shape in H.
  destruct H as [->|[op [Hop H]]]; [apply ext_by_refl|].
  pose proof (open_stack_np _ _ _ Hop) as Hnp.
  destruct H as [->|[ps H]]; [exact Hnp|].
  unfold transact in H. destruct (negb (op_initialized op)).
  - unfold uncommit_patches in H. inversion H; subst. exact Hnp.
  - unfold uncommit_patches in H. rewrite execute_ok_body in H.
    apply exec_body_np in H; [|apply ext_by_refl].
    eapply ext_by_trans; [exact Hnp|exact H].
Qed.

(* Model/Cmd.v leaves N_scope open and Gen/CmdTable.v string_scope; the statements of
   Properties/C12.v are about lists and nat. *)
Global Open Scope list_scope.
Global Open Scope nat_scope.
