(* C09 / C05, whole-command theorem for HALTED commands: a command that stops with status 3 (a
   push that conflicts, or a check-out that was refused and could not be rolled back) has
   recorded at most one ordinary entry, and `stg undo --hard` after it gives back the stack the
   command found, with a clean index and the work tree of the branch head. *)
From Coq Require Import List ZArith NArith Bool Arith Lia.
From StgV Require Import Model.UndoSpec.
From StgV Require Import Proofs.LogProofs Proofs.ChainBasics Proofs.ChainExec.
From StgV Require Import Proofs.ReachBase Proofs.ReachEvolve Proofs.ReachTxn Proofs.ReachStep
  Proofs.PickBasics.
From StgV Require Import Proofs.ReachFinal.
From StgV Require Import Proofs.UndoStepProofs Proofs.UndoHaltOpts.
From StgV Require Import Proofs.ChainTxn Proofs.ChainStep Proofs.UncommitNames.
Import ListNotations.
Local Open Scope nat_scope.

(* ---------------------------------------------------------------- Q, continued *)

Lemma CM_Q : forall a b c, CM a b -> Q b c -> CM a c.
Proof. intros a b c H [H2|H2]; [eapply CM_NC|eapply CM_CM]; eauto. Qed.

Lemma NC_world0 : forall w t, store_extends (w_objs w) (t_objs t) -> NC w (world0 w t).
Proof. intros w t E. split; [exact E|split; reflexivity]. Qed.

Lemma logged_of_Q : forall w t w1 st1,
  store_extends (w_objs w) (t_objs t) -> logged_of w t = Some (w1, st1) -> Q w w1.
Proof.
  intros w t w1 st1 E H. unfold logged_of in H.
  destruct (Nat.eqb _ _).
  - injection H as <- _. left. now apply NC_world0.
  - right. eapply NC_CM; [apply NC_world0; exact E|]. eapply log_external_mods_CM; exact H.
Qed.

(* the state commit written at the end of execute, whatever the exit status *)
Lemma execute_commit_CM : forall w t w1 st1 prev th objs' so w',
  store_extends (w_objs w) (t_objs t) ->
  logged_of w t = Some (w1, st1) -> w_stack w1 = Some prev ->
  state_commit (w_objs w1) (new_state t st1 prev th) MOp = Some (objs', so) ->
  w_objs w' = objs' -> w_stack w' = Some so -> w_branch w' = th ->
  CM w w'.
Proof.
  intros w t w1 st1 prev th objs' so w' Ext Hl Hprev Hsc Eo Es Hbr.
  destruct (state_commit_get _ _ _ _ _ Hsc) as [E2 [Hle [c [G [C M]]]]].
  unfold logged_of in Hl. destruct (Nat.eqb (s_head (t_stack t)) (w_branch w)).
  - injection Hl as <- <-. cbn [world0 w_objs w_stack] in *.
    split; [rewrite Eo; eapply store_extends_trans; eauto|].
    exists so, c, (new_state t (t_stack t) prev th). rewrite Eo.
    split; [exact Es|]. split; [exact G|]. split; [exact C|].
    pose proof (store_extends_len _ _ Ext) as L.
    split; [lia|]. left. cbn [new_state s_prev s_head]. split; [now symmetry|]. split; assumption.
  - pose proof Hl as Hl'. apply log_external_mods_CM in Hl'.
    destruct Hl' as (E1 & so1 & c1 & st1' & F1 & _ & _ & Hle1 & _).
    cbn [world0 w_objs] in E1, Hle1.
    rewrite Hprev in F1. injection F1 as <-.
    pose proof (store_extends_len _ _ Ext) as L.
    pose proof (store_extends_len _ _ E1) as L1.
    split; [rewrite Eo; eapply store_extends_trans; [exact Ext|eapply store_extends_trans; eauto]|].
    exists so, c, (new_state t st1 prev th). rewrite Eo.
    split; [exact Es|]. split; [exact G|]. split; [exact C|].
    split; [lia|]. right. cbn [new_state s_prev]. intros p Hp. injection Hp as <-. lia.
Qed.

(* the result of the closure is a live transaction (finished or halted) *)
Definition live (r : tres) (t : txn) : Prop := r = TOk t \/ exists h, r = THalt t h.

(* execute, whatever the exit status, leaves a Q-related world *)
Lemma execute_Q : forall w r w' x,
  texts (w_objs w) r ->
  (forall t th, live r t -> t_head_oid t = Some th ->
     (if o_set_head (t_opts t) then th else w_branch w) = th) ->
  execute w r MOp = (w', x) -> Q w w'.
Proof.
  intros w r w' x Htx Hh H.
  assert (Hlive : forall t, live r t -> Q w w').
  { intros t Hr.
    assert (Ext : store_extends (w_objs w) (t_objs t)).
    { destruct Hr as [-> | [h ->]]; cbn [texts] in Htx; eapply ext_by_extends; exact Htx. }
    destruct (execute_spec w r MOp t w' x Hr H)
      as [[-> _]|[[_ [-> _]]|[w1 [st1 [Hl Hcases]]]]].
    - apply Q_refl.
    - left. now apply NC_world0.
    - pose proof (logged_of_Q _ _ _ _ Ext Hl) as Hq1.
      destruct Hcases as [[wt [um [-> _]]]|[[-> _]|Hfin]].
      + eapply Q_same; [exact Hq1|reflexivity|reflexivity|reflexivity].
      + exact Hq1.
      + destruct Hfin as (th & prev & objs' & so2 & prefs' & wt & um & Hth & Hprev & Hsc & -> & _).
        right. eapply execute_commit_CM; try eassumption; try reflexivity.
        cbn [w_branch]. apply logged_of_spec in Hl as (L1 & _). rewrite L1.
        apply (Hh t th Hr Hth). }
  destruct r as [t|t h|t|].
  - apply (Hlive t). now left.
  - apply (Hlive t). right. now exists h.
  - cbn [execute] in H. injection H as <- _. left.
    split; [cbn [w_objs]; eapply ext_by_extends; exact Htx|split; reflexivity].
  - cbn [execute] in H. injection H as <- _. apply Q_refl.
Qed.

Lemma transact_Q : forall op o f w' x,
  keeps f -> skeeps3 f ->
  (o_set_head o = true
   \/ forall t th, live (f (begin_txn op o)) t -> t_head_oid t = Some th ->
        th = w_branch (op_world op)) ->
  transact op o f MOp = (w', x) -> Q (op_world op) w'.
Proof.
  intros op o f w' x K SK Hh H. unfold transact in H.
  destruct (negb (op_initialized op)).
  { destruct (f (begin_txn op o)); injection H as <- _; apply Q_refl. }
  eapply execute_Q; [| |exact H].
  - apply K. apply ext_by_refl.
  - intros t th Hr Hth.
    assert (Hsh : sh t = o_set_head o).
    { pose proof (SK (o_set_head o) (begin_txn op o) eq_refl) as S0.
      destruct Hr as [Er | [h Er]]; rewrite Er in S0; exact S0. }
    unfold sh in Hsh. rewrite Hsh.
    destruct Hh as [Hh|Hh]; [now rewrite Hh|].
    destruct (o_set_head o); [reflexivity|]. symmetry. eapply Hh; eassumption.
Qed.

(* ---------------------------------------------------------------- R3: what a status 3 leaves *)

Definition R3 (w : world) (p : world * exitc) : Prop := snd p = X3 -> Q w (fst p).

Lemma R3_fail : forall w w' x, x <> X3 -> R3 w (w', x).
Proof. intros w w' x Hx HX. cbn [snd] in HX. contradiction. Qed.

Lemma R3_Q : forall w w' x, Q w w' -> R3 w (w', x).
Proof. intros w w' x Hq _. exact Hq. Qed.

Lemma transact_R3 : forall w op o f,
  Q w (op_world op) -> keeps f -> skeeps3 f ->
  (o_set_head o = true
   \/ forall t th, live (f (begin_txn op o)) t -> t_head_oid t = Some th ->
        th = w_branch (op_world op)) ->
  R3 w (transact op o f MOp).
Proof.
  intros w op o f Hq K SK Hh _.
  destruct (transact op o f MOp) as [w' x] eqn:E. cbn [fst].
  eapply Q_trans; [exact Hq|]. eapply transact_Q; eauto.
Qed.

(* ---------------------------------------------------------------- the commands *)

Ltac skapply3 :=
  first [ apply push_patches_skeeps3 | apply push_tree_list_skeeps3 | apply reorder_patches_skeeps3
        | apply commit_patches_skeeps3 | apply uncommit_patches_skeeps3 | apply hide_patches_skeeps3
        | apply unhide_patches_skeeps3 | apply rename_patch_skeeps3 | apply new_applied_skeeps3
        | apply update_patch_skeeps3 | apply reset_to_state_skeeps3
        | apply reset_to_state_partially_skeeps3 ].

Ltac sksolve3 :=
  first [ apply delete_push_skeeps3
        | let b := fresh "b" in let t := fresh "t" in let E := fresh "E" in
          intros b t E; cbv beta zeta; repeat sbrk;
          first [ exact I | exact E | skapply3; exact E ] ].

Ltac fail3 := apply R3_fail; discriminate.

Ltac leafR3 Hq :=
  unfold err2, ok0;
  first [ fail3
        | apply transact_R3; [exact Hq|ksolve|sksolve3|left; reflexivity] ].

Ltac open_thenR3 :=
  cbv zeta;
  lazymatch goal with
  | |- context [open_stack ?p ?w] =>
      let op := fresh "op" in let Hop := fresh "Hop" in let Hq := fresh "Hq" in
      destruct (open_stack p w) as [op|] eqn:Hop;
      [ assert (Hq : Q w (op_world op)) by (eapply open_stack_Q; exact Hop);
        unfold rres_bind; repeat (first [brk|brk2]; cbv beta); leafR3 Hq
      | repeat first [brk|brk2]; fail3 ]
  end.

Lemma run_push_R3 : forall w r n al rv na st mg kp cf, R3 w (run_push w r n al rv na st mg kp cf).
Proof. intros. unfold run_push. open_thenR3. Qed.

Lemma run_pop_R3 : forall w r n al kp sp, R3 w (run_pop w r n al kp sp).
Proof. intros. unfold run_pop. open_thenR3. Qed.

Lemma run_goto_R3 : forall w l kp mg cf, R3 w (run_goto w l kp mg cf).
Proof. intros. unfold run_goto. destruct (parse_locator l); [|fail3]. open_thenR3. Qed.

Lemma run_float_R3 : forall w r na kp, R3 w (run_float w r na kp).
Proof. intros. unfold run_float. destruct (parse_ranges r); [|fail3]. open_thenR3. Qed.

Lemma run_sink_R3 : forall w r tg np kp, R3 w (run_sink w r tg np kp).
Proof. intros. unfold run_sink. open_thenR3. Qed.

Lemma run_delete_R3 : forall w r tp al a u h sp cf, R3 w (run_delete w r tp al a u h sp cf).
Proof. intros. unfold run_delete. open_thenR3. Qed.

Lemma run_hide_R3 : forall w r, R3 w (run_hide w r).
Proof. intros. unfold run_hide. open_thenR3. Qed.

Lemma run_unhide_R3 : forall w r, R3 w (run_unhide w r).
Proof. intros. unfold run_unhide. open_thenR3. Qed.

Lemma run_rename_R3 : forall w o n, R3 w (run_rename w o n).
Proof. intros. unfold run_rename. open_thenR3. Qed.

Lemma run_commit_R3 : forall w r n al ae, R3 w (run_commit w r n al ae).
Proof. intros. unfold run_commit. open_thenR3. Qed.

Lemma run_clean_R3 : forall w a u, R3 w (run_clean w a u).
Proof. intros. unfold run_clean. open_thenR3. Qed.

Ltac open_manualR3 op Hop Hq :=
  lazymatch goal with
  | |- context [open_stack ?p ?w] =>
      destruct (open_stack p w) as [op|] eqn:Hop; [|fail3];
      assert (Hq : Q w (op_world op)) by (eapply open_stack_Q; exact Hop);
      cbv zeta
  end.

Lemma run_new_R3 : forall w nm meta msg, R3 w (run_new w nm meta msg).
Proof.
  intros. unfold run_new. destruct (from_str nm) as [pn|]; [|fail3].
  open_manualR3 op Hop Hq. unfold err2.
  destruct (w_unmerged _); [fail3|]. destruct (negb _); [fail3|].
  destruct (stack_collides _ _); [fail3|].
  unfold put. cbv beta iota zeta.
  apply transact_R3; [|ksolve|sksolve3|left; reflexivity]. cbn [op_world].
  apply Q_with_objs_put; [exact Hq|reflexivity].
Qed.

Lemma run_spill_R3 : forall w, R3 w (run_spill w).
Proof.
  intros. unfold run_spill. open_manualR3 op Hop Hq. unfold err2.
  destruct (w_unmerged _); [fail3|]. destruct (dirty _); [fail3|].
  destruct (negb _); [fail3|].
  destruct (last_error _) as [pn|]; [|fail3].
  destruct (pm_get _ _) as [pc|]; [|fail3].
  destruct (first_parent _ _) as [par|]; [|fail3].
  unfold put. cbv beta iota zeta.
  apply transact_R3; [|ksolve|sksolve3|left; reflexivity]. cbn [op_world].
  apply Q_with_objs_put; [exact Hq|reflexivity].
Qed.

Lemma run_reset_R3 : forall w e r hard, R3 w (run_reset w e r hard).
Proof.
  intros. unfold run_reset. destruct e as [k|].
  - open_thenR3.
  - destruct hard; fail3.
Qed.

Lemma run_repair_R3 : forall lower_s w, R3 w (run_repair lower_s w).
Proof.
  intros. unfold run_repair. open_manualR3 op Hop Hq.
  destruct (repair_walk _ _ _ _ _ _ _ _) as [[ar pr] x].
  apply transact_R3; [exact Hq| | |left; reflexivity].
  - apply (keeps_tbind (repair_appliedness _ _ _)); [apply repair_appliedness_keeps|].
    intros objs t1 E1. cbv zeta.
    apply (fold_tbind_keeps _ (fun c t =>
             match make lower_s (subj_of (t_objs t) c) true (Some 30%N) with
             | Ok nm => match uniquify nm [] (t_all t) with
                        | UOk pn => new_applied pn c t
                        | UFuel => TPanic
                        end
             | _ => TPanic
             end)); [|exact E1].
    intros c objs' t' E'. destruct (make _ _ _ _); try exact I.
    destruct (uniquify _ _ _); [|exact I]. now apply new_applied_keeps.
  - intros b t E. apply sok3_tbind; [now apply repair_appliedness_skeeps3|].
    intros b1 t1 E1. cbv zeta.
    apply (fold_tbind_skeeps3 _ (fun c t =>
             match make lower_s (subj_of (t_objs t) c) true (Some 30%N) with
             | Ok nm => match uniquify nm [] (t_all t) with
                        | UOk pn => new_applied pn c t
                        | UFuel => TPanic
                        end
             | _ => TPanic
             end)); [|exact E1].
    intros c b' t' E'. destruct (make _ _ _ _); try exact I.
    destruct (uniquify _ _ _); [|exact I]. now apply new_applied_skeeps3.
Qed.

Lemma run_log_clear_R3 : forall w, R3 w (run_log_clear w).
Proof.
  intros. unfold run_log_clear. open_manualR3 op Hop Hq.
  destruct (state_commit _ _ _) as [[objs' so]|] eqn:Hsc; fail3.
Qed.

Lemma run_edit_R3 : forall w l m msg, R3 w (run_edit w l m msg).
Proof.
  intros. unfold run_edit.
  destruct (match l with Some o => _ | None => _ end) as [loc_l|]; [|fail3].
  open_manualR3 op Hop Hq. unfold err2, ok0.
  destruct (negb _); [fail3|].
  unfold rres_bind.
  match goal with |- R3 _ (match ?r with ROk _ => _ | RErr _ => _ | RPanic => _ end) =>
    destruct r as [pn| |]; [|fail3|fail3] end.
  destruct (pm_get _ _) as [pc|]; [|fail3].
  destruct (get _ _) as [old|]; [|fail3].
  destruct (_ && _); [fail3|].
  unfold put. cbv beta iota zeta.
  apply transact_R3; [|apply edit_body_keeps|apply edit_body_skeeps3|left; reflexivity]. cbn [op_world].
  apply Q_with_objs_put; [exact Hq|reflexivity].
Qed.

Lemma run_refresh_R3 : forall w p, R3 w (run_refresh w p).
Proof.
  intros. unfold run_refresh.
  destruct (match p with Some o => _ | None => _ end) as [loc_l|]; [|fail3].
  open_manualR3 op Hop Hq. unfold err2.
  destruct (negb _); [fail3|].
  unfold rres_bind.
  match goal with |- R3 _ (match ?r with ROk _ => _ | RErr _ => _ | RPanic => _ end) =>
    destruct r as [pn| |]; [|fail3|fail3] end.
  destruct (w_unmerged _); [fail3|].
  unfold put. cbv beta iota zeta.
  match goal with
  | |- R3 _ (match ?T with pair _ _ => _ end) =>
      assert (H1 : Q w (fst T));
      [ destruct T as [w2 x] eqn:ET; cbn [fst];
        eapply Q_trans; [|eapply transact_Q; [| | |exact ET]; [ksolve|sksolve3|left; reflexivity]];
        cbn [op_world]; apply Q_with_objs_put; [exact Hq|reflexivity]
      | destruct T as [w2 x] ]
  end.
  cbn [fst] in H1.
  destruct x; try (apply R3_Q; exact H1).
  destruct (open_stack PAllow w2) as [op2|] eqn:Hop2; [|fail3].
  apply transact_R3; [|apply refresh_absorb_keeps|apply refresh_absorb_skeeps3|left; reflexivity].
  eapply Q_trans; [exact H1|]. eapply open_stack_Q; exact Hop2.
Qed.

Lemma run_squash_R3 : forall w r nm meta msg, R3 w (run_squash w r nm meta msg).
Proof.
  intros. unfold run_squash.
  destruct (parse_ranges r) as [prs|]; [|fail3].
  destruct (from_str nm) as [newn|]; [|fail3].
  open_manualR3 op Hop Hq. unfold err2.
  destruct (w_unmerged _); [fail3|].
  destruct (negb _); [fail3|].
  unfold rres_bind.
  match goal with |- R3 _ (match ?r with ROk _ => _ | RErr _ => _ | RPanic => _ end) =>
    destruct r as [ps| |]; [|fail3|fail3] end.
  destruct (_ && _); [fail3|].
  destruct (Nat.ltb _ _); [fail3|].
  match goal with
  | |- R3 _ (match ?T with pair _ _ => _ end) => destruct T as [w' x] eqn:ET
  end.
  assert (H1 : Q w w').
  { eapply Q_trans; [exact Hq|].
    eapply transact_Q; [| | |exact ET];
      [apply squash_closure_keeps|apply squash_closure_skeeps3|left; reflexivity]. }
  destruct (_ && _); apply R3_Q; exact H1.
Qed.

Lemma run_pick_R3 : forall lower_s w src nm na, R3 w (run_pick lower_s w src nm na).
Proof.
  intros lower_s w src nm na.
  destruct (run_pick_case lower_s w src nm na) as
    [_|_|op Eo|op given o Eo _ _ _ _|op given o pn0 Eo _ _ _ _ _|op given o pn0 pn c par Eo _ _ _ _ _ _ _ _];
    try fail3.
  assert (Hq : Q w (op_world op)) by (eapply open_stack_Q; exact Eo).
  apply transact_R3; [|apply pick_body_keeps|apply pick_body_skeeps3|left; reflexivity].
  unfold pick_op, pick_commit. cbn [op_world].
  apply Q_with_objs_put; [exact Hq|reflexivity].
Qed.

(* ---- rebase: two transactions with a `git reset --hard` in between ---- *)

Lemma run_rebase_R3 : forall w tg, R3 w (run_rebase w tg).
Proof.
  intros. unfold run_rebase. open_manualR3 op Hop Hq. unfold err2, ok0.
  destruct (resolve_gtarget _ _) as [target|]; [|fail3].
  destruct (Nat.eqb _ _); [fail3|].
  destruct (negb _); [fail3|].
  destruct (dirty _); [fail3|].
  match goal with
  | |- R3 _ (match ?T with pair _ _ => _ end) => destruct T as [w2 x] eqn:E1
  end.
  pose proof E1 as E1q.
  apply transact_Q in E1q; [| | |left; reflexivity].
  2:{ intros objs t E. cbn [texts].
      destruct (pop_patches _ t) as [t1 inc] eqn:PP. apply objs_pop_patches in PP. cbn [fst]. now rewrite PP. }
  2:{ intros b t E. cbn [sok3].
      destruct (pop_patches _ t) as [t1 inc] eqn:PP. apply sh_pop_patches in PP. cbn [fst]. congruence. }
  destruct x; try (apply R3_Q; eapply Q_trans; [exact Hq|exact E1q]).
  apply transact_CM in E1; [| | |left; reflexivity].
  2:{ intros objs t E. cbn [texts].
      destruct (pop_patches _ t) as [t1 inc] eqn:PP. apply objs_pop_patches in PP. cbn [fst]. now rewrite PP. }
  2:{ intros b t E. cbn [sok].
      destruct (pop_patches _ t) as [t1 inc] eqn:PP. apply sh_pop_patches in PP. cbn [fst]. congruence. }
  destruct E1 as (Ext & so1 & c1 & st1 & F1 & G1 & C1 & Hle & D).
  match goal with |- context [open_stack PRequire ?ww] => set (w3 := ww) end.
  destruct (open_stack PRequire w3) as [op3|] eqn:Hop3; [|fail3].
  pose proof (open_stack_Q _ _ _ Hop3) as Hq3.
  destruct (log_extmods_first op3) as [op4|] eqn:Hl; [|fail3].
  destruct (negb _); [fail3|].
  intros HX.
  destruct (transact op4 _ _ MOp) as [w4 x4] eqn:E4. cbn [snd fst] in *. subst x4.
  apply transact_Q in E4; [|apply push_patches_keeps|apply push_patches_skeeps3|left; reflexivity].
  eapply Q_trans; [exact Hq|]. right.
  unfold log_extmods_first in Hl.
  destruct (Nat.eqb (s_head (op_state op3)) (w_branch (op_world op3))) eqn:Eh.
  - injection Hl as <-.
    destruct (Q_trans _ _ _ Hq3 E4) as [N|C4].
    + destruct N as (E & S & B).
      split; [eapply store_extends_trans; [exact Ext|exact E]|].
      exists so1, c1, st1. split; [rewrite S; exact F1|].
      split; [eapply get_ext; [exact E|exact G1]|]. split; [exact C1|]. split; [exact Hle|].
      destruct D as [(P & M & Br)|D]; [left|right; exact D].
      split; [exact P|]. split; [exact M|]. rewrite B.
      destruct (open_stack_cases _ _ _ Hop3)
        as [(so & s & Hso & Hs & _ & Hw & Hos & _)|[(objs' & so & [Hp|Hn] & _)|(Hn & _)]];
        [|discriminate|cbn [w3 w_stack] in Hn; congruence|cbn [w3 w_stack] in Hn; congruence].
      apply Nat.eqb_eq in Eh. rewrite Hos, Hw in Eh. cbn [ensure_patch_refs w_branch] in Eh.
      cbn [w3 w_stack w_objs] in Hso, Hs. rewrite F1 in Hso. injection Hso as <-.
      unfold state_of in Hs. rewrite G1, C1 in Hs. injection Hs as <-. now symmetry.
    + apply (CM_after (op_world op) w3 w4 so1); [exact Ext|exact F1|exact Hle|exact C4].
  - destruct (log_external_mods _ _) as [[w' s']|] eqn:L; [|discriminate].
    injection Hl as <-. apply log_external_mods_CM in L. cbn [op_world] in E4.
    apply (CM_after (op_world op) w3 w4 so1); [exact Ext|exact F1|exact Hle|].
    eapply Q_CM; [exact Hq3|]. eapply CM_Q; [exact L|exact E4].
Qed.

(* ---- uncommit: the only transaction that does not set the head; it cannot halt ---- *)

Lemma run_uncommit_R3 : forall lower_s w number names, R3 w (run_uncommit lower_s w number names).
Proof.
  intros lower_s w number names. unfold run_uncommit.
  match goal with |- R3 _ (match ?p with Some _ => _ | None => _ end) => destruct p as [pnames|] end;
    [|fail3].
  destruct (open_stack PAuto w) as [op|] eqn:Hop; [|fail3].
  assert (Hq : Q w (op_world op)) by (eapply open_stack_Q; exact Hop).
  pose proof (open_stack_base _ _ _ Hop) as Hbase.
  cbv zeta. unfold err2.
  set (s := op_state op) in *.
  destruct (head_top_ok op) eqn:Hht; cbn [negb]; [|fail3].
  match goal with |- R3 _ (match ?P with inl r => r | inr l => _ end) =>
    assert (HP : match P with
                 | inl r => R3 w r
                 | inr (commits, pns) =>
                     walk_down (w_objs (op_world op)) (op_base op) (length commits) = Some commits
                     /\ (forall n, In n pns -> ~ In n (all_of s))
                 end);
    [|destruct P as [r|[commits pns]]; [exact HP|]] end.
  { destruct number as [k|].
    - destruct (walk_down _ _ (N.to_nat k)) as [commits|] eqn:Ew; [|fail3].
      pose proof (walk_down_chain _ _ _ _ Ew) as [Hlen _].
      destruct pnames as [|prefix [|? ?]]; [| |fail3].
      + destruct (make_patchnames _ _ _ _) as [gen|] eqn:Eg; [|fail3].
        apply make_patchnames_nodup in Eg as [_ [Hnd Hdis]]. rewrite Hlen. auto.
      + destruct (forallb _ _); [|fail3].
        destruct (check_patchnames s _) eqn:Ecp; [|fail3].
        apply check_patchnames_spec in Ecp as [Hnd Hdis].
        rewrite Hlen. auto.
    - destruct pnames as [|pn0 pnames'].
      + destruct (walk_down _ _ 1) as [commits|] eqn:Ew; [|fail3].
        pose proof (walk_down_chain _ _ _ _ Ew) as [Hlen _].
        destruct (make_patchnames _ _ _ _) as [gen|] eqn:Eg; [|fail3].
        apply make_patchnames_nodup in Eg as [_ [Hnd Hdis]]. rewrite Hlen. auto.
      + destruct (check_patchnames s (pn0 :: pnames')) eqn:Ecp; [|fail3]. cbn [negb].
        destruct (walk_down _ _ (length (pn0 :: pnames'))) as [commits|] eqn:Ew; [|fail3].
        apply check_patchnames_spec in Ecp as [Hnd Hdis].
        pose proof (walk_down_chain _ _ _ _ Ew) as [Hlen _]. rewrite Hlen. auto. }
  destruct HP as (Hw & Hdis).
  destruct (Nat.eqb (length commits) (length pns)) eqn:El; [|fail3]. cbn [negb].
  apply Nat.eqb_eq in El.
  apply transact_R3; [exact Hq|apply uncommit_patches_keeps|apply uncommit_patches_skeeps3|right].
  intros t th [Hu|[h Hu]] Hth; [eapply uncommit_head; eauto|].
  unfold uncommit_patches in Hu. discriminate.
Qed.

(* ---- every command of the stg command line that logs a plain operation ---- *)

Lemma step_R3 : forall lower_s w c, logs_plain_op c = true -> R3 w (step lower_s w c).
Proof.
  intros lower_s w c Hc. destruct c; try discriminate Hc; cbn [step].
  - destruct (open_stack PMust w) as [op|] eqn:Hop; fail3.
  - apply run_new_R3.
  - apply run_refresh_R3.
  - apply run_push_R3.
  - apply run_pop_R3.
  - apply run_goto_R3.
  - apply run_float_R3.
  - apply run_sink_R3.
  - apply run_delete_R3.
  - apply run_hide_R3.
  - apply run_unhide_R3.
  - apply run_rename_R3.
  - apply run_commit_R3.
  - apply run_uncommit_R3.
  - apply run_clean_R3.
  - apply run_spill_R3.
  - apply run_reset_R3.
  - apply run_repair_R3.
  - apply run_log_clear_R3.
  - apply run_edit_R3.
  - apply run_rebase_R3.
  - apply run_squash_R3.
  - apply run_pick_R3.
  - destruct (open_stack PAllow w) as [op|] eqn:Hop; fail3.
Qed.

(* a halted (status 3) command that recorded exactly one entry on top of the old log: the entry
   is an ordinary operation and the branch is on the recorded head *)
Lemma step_one_entry_halted : forall lower_s w c w1 so0 st0 so1 st1,
  prev_decreasing (w_objs w) -> logs_plain_op c = true ->
  w_stack w = Some so0 -> state_of (w_objs w) so0 = Some st0 ->
  step lower_s w c = (w1, X3) ->
  w_stack w1 = Some so1 -> state_of (w_objs w1) so1 = Some st1 ->
  s_prev st1 = Some so0 ->
  logged_as_op (w_objs w1) so1 /\ w_branch w1 = s_head st1.
Proof.
  intros lower_s w c w1 so0 st0 so1 st1 PD Hc Hs0 Hst0 Hstep Hs1 Hst1 Hp.
  pose proof (step_R3 lower_s w c Hc) as HR. rewrite Hstep in HR. specialize (HR eq_refl).
  cbn [fst] in HR.
  pose proof (state_of_lt _ _ _ Hst0) as Hlt.
  destruct HR as [(E & S & B)|(E & so1' & c1 & st1' & F1 & G & C & Hle & D)].
  - exfalso. rewrite S, Hs0 in Hs1. injection Hs1 as <-.
    rewrite (state_of_ext_lt _ _ _ E Hlt), Hst0 in Hst1. injection Hst1 as <-.
    pose proof (PD _ _ _ Hst0 Hp). lia.
  - rewrite Hs1 in F1. injection F1 as <-.
    unfold state_of in Hst1. rewrite G, C in Hst1. injection Hst1 as <-.
    destruct D as [(P & M & Br)|D].
    + split; [exists c1; split; assumption|exact Br].
    + exfalso. specialize (D _ Hp). lia.
Qed.

(* ---------------------------------------------------------------- undo --hard: the check-out *)

Ltac brk_in H :=
  match type of H with
  | context [match ?x with _ => _ end] =>
      lazymatch x with
      | context [match _ with _ => _ end] => fail
      | _ => destruct x eqn:?
      end
  end.

Lemma logged_inv_h : forall (w0 : world) (st : sstate) (b : bool) w1 st1,
    (if b then Some (w0, st) else log_external_mods w0 st) = Some (w1, st1) ->
    store_extends (w_objs w0) (w_objs w1)
    /\ w_branch w1 = w_branch w0 /\ w_wt w1 = w_wt w0 /\ w_unmerged w1 = w_unmerged w0
    /\ s_patches st1 = s_patches st.
Proof.
  intros w0 st b w1 st1 H. destruct b.
  - inversion H; subst. split; [apply store_extends_refl|]. repeat split; reflexivity.
  - unfold log_external_mods in H. destruct (w_stack w0) as [so|]; [|discriminate].
    destruct (state_commit _ _ _) as [[objs' so']|] eqn:C; [|discriminate].
    inversion H; subst. cbn [w_objs w_branch w_wt w_unmerged s_patches].
    split; [|repeat split; reflexivity].
    apply state_commit_get in C. destruct C as [E _]. exact E.
Qed.

(* a successful transaction that sets the head through the index and the work tree *)
Lemma exec_ok_checkout : forall w t msg w',
    execute w (TOk t) msg = (w', X0) ->
    o_set_head (t_opts t) && o_use_iw (t_opts t) = true ->
    exists th objsm,
      t_head_oid t = Some th
      /\ store_extends (t_objs t) objsm /\ store_extends objsm (w_objs w')
      /\ w_branch w' = th
      /\ checkout (t_opts t) (hd_error (rev (s_applied (t_stack t)))) (hd_error (rev (t_applied t)))
                  (t_wt t) (t_wt_unmerged t) (t_cur_tree t) (tree_of (t_objs t) th)
         = Some (w_wt w', w_unmerged w').
Proof.
  intros w t msg w' H Hco. cbn [execute] in H.
  destruct (negb _); [discriminate|].
  destruct (t_head_oid t) as [th|]; [|discriminate].
  match type of H with
  | context [if ?b then Some (?w0, ?st) else log_external_mods _ _] =>
      destruct (if b then Some (w0, st) else log_external_mods w0 st) as [[w1 st1]|] eqn:L;
      [apply logged_inv_h in L; cbn [w_objs w_branch w_wt w_unmerged] in L;
       destruct L as [Lo [Lb [Lw [Lu Lp]]]] | discriminate]
  end.
  rewrite Lp, Lw, Lu in H. rewrite Hco in H.
  apply andb_true_iff in Hco as [Hsh _].
  destruct (negb (o_allow_bad_head (t_opts t)) && _ && _); [discriminate|].
  destruct (checkout _ _ _ _ _ _ (tree_of (t_objs t) th)) as [[wt' um']|] eqn:Hck.
  - destruct (w_stack w1) as [prev|]; [|discriminate].
    destruct (state_commit _ _ _) as [[objs' so']|] eqn:C; [|discriminate].
    injection H as Hw'; subst w'. cbn [w_objs w_stack w_branch w_wt w_unmerged].
    exists th, (w_objs w1). split; [reflexivity|]. split; [exact Lo|].
    split; [apply state_commit_get in C; destruct C as [E _]; exact E|].
    split; [now rewrite Hsh|]. exact Hck.
  - exfalso. repeat brk_in H; discriminate.
Qed.

Lemma Q_store : forall a b, Q a b -> store_extends (w_objs a) (w_objs b).
Proof. intros a b [(E & _)|(E & _)]; exact E. Qed.

Lemma run_undo_like_hard : forall w steps msg w2,
  run_undo_like w steps true msg = (w2, X0) ->
  exists objs, store_extends (w_objs w) objs /\ store_extends objs (w_objs w2)
               /\ w_wt w2 = tree_of objs (w_branch w2) /\ w_unmerged w2 = false.
Proof.
  intros w steps msg w2 H. unfold run_undo_like in H.
  destruct (open_stack PRequire w) as [op0|] eqn:Eop; [|discriminate].
  destruct (log_extmods_first op0) as [op|] eqn:El; [|discriminate].
  pose proof (Q_store _ _ (Q_trans _ _ _ (open_stack_Q _ _ _ Eop) (log_extmods_first_Q _ _ El))) as Ext.
  unfold transact in H.
  destruct (negb (op_initialized op)).
  { match type of H with (match ?r with _ => _ end) = _ => destruct r end; discriminate. }
  set (t0 := begin_txn op (opts CDisallow (w_apc (op_world op)) true true true true)) in *.
  assert (Eo : t_objs t0 = w_objs (op_world op)) by reflexivity.
  destruct (execute_X0_inv _ _ _ _ H) as (t & w1' & st1' & th' & prev' & objs' & so' & Er & _).
  rewrite Er in H.
  destruct (w_stack (op_world op)) as [so|]; [|discriminate].
  destruct (find_undo_state _ _ _ _) as [st|]; [|discriminate].
  destruct (reset_objs _ _ _ Er) as [Ro Rop].
  destruct (exec_ok_checkout _ _ _ _ H) as (th & objsm & Hth & E1 & E2 & Hbr & Hck).
  { rewrite Rop. reflexivity. }
  unfold checkout in Hck. rewrite Rop in Hck.
  change (o_discard_changes (t_opts t0)) with true in Hck.
  rewrite andb_false_r in Hck. cbv iota in Hck. injection Hck as Hwt Hum.
  exists (w_objs (op_world op)). rewrite Ro, Eo in E1, Hwt.
  split; [exact Ext|]. split; [eapply store_extends_trans; eauto|].
  split; [|now symmetry]. rewrite <- Hwt, Hbr. reflexivity.
Qed.

(* ---------------------------------------------------------------- the pinned theorem *)

Lemma undo_hard_undoes_halted_step :
  forall lower_s, LowerOK lower_s ->
  forall w c w1 so0 st0 so1 st1 w2,
    Inv6 w -> prev_decreasing (w_objs w) ->
    in_scope c = true -> logs_plain_op c = true ->
    w_stack w = Some so0 -> state_of (w_objs w) so0 = Some st0 ->
    step lower_s w c = (w1, X3) ->
    w_stack w1 = Some so1 -> state_of (w_objs w1) so1 = Some st1 ->
    s_prev st1 = Some so0 ->
    run_undo w1 1 true = (w2, X0) ->
    at_state w2 st0 /\ w_unmerged w2 = false /\ w_wt w2 = tree_of (w_objs w2) (w_branch w2).
Proof.
  intros lower_s L w c w1 so0 st0 so1 st1 w2 I6 PD SC Hc Hs0 Hst0 Hstep Hs1 Hst1 Hp H.
  destruct (step_one_entry_halted lower_s w c w1 so0 st0 so1 st1 PD Hc Hs0 Hst0 Hstep Hs1 Hst1 Hp)
    as [Hop Hbr].
  pose proof (step_reach lower_s L w c SC I6 PD) as SR. rewrite Hstep in SR. cbn [fst] in SR.
  destruct SR as [I6' PD'].
  assert (Hst0' : state_of (w_objs w1) so0 = Some st0).
  { pose proof (step_ev lower_s w c) as EV. rewrite Hstep in EV. cbn [fst] in EV.
    eapply state_of_ext; [|exact Hst0]. eapply evolve_extends; exact EV. }
  destruct (undo_restores_logged_state w1 so1 st1 so0 st0 true w2 I6' PD' Hs1 Hst1 Hop Hp Hst0' Hbr H)
    as [Hat _].
  split; [exact Hat|].
  unfold run_undo in H. cbn [Z.ltb Z.compare Pos.compare Pos.compare_cont] in H.
  destruct (run_undo_like_hard _ _ _ _ H) as (objs & E1 & E2 & Hwt & Hum).
  split; [exact Hum|]. rewrite Hwt.
  destruct Hat as (so2 & st2 & _ & _ & _ & Hb2). rewrite Hb2.
  destruct I6' as [[I _] _]. destruct I as (_ & Hwf & _).
  destruct (Hwf so0 st0 Hst0') as (_ & _ & _ & _ & (c0 & G0 & _)).
  unfold tree_of.
  rewrite (ReachBase.get_ext _ _ _ _ E1 G0).
  rewrite (ReachBase.get_ext _ _ _ _ (store_extends_trans _ _ _ E1 E2) G0). reflexivity.
Qed.

(* ---------------------------------------------------------------- non-vacuity *)

Definition hv_pa : str := [112;48]%N.
Definition hv_pb : str := [112;49]%N.

(* two patches that set cell 0 to different values; the first one is unapplied *)
Definition hv_cmds : list cmd :=
  [CInit; CNew hv_pa 1%N [120]%N; GEdit 0 5%N; CRefresh None;
   CPop None None false false false;
   CNew hv_pb 2%N [121]%N; GEdit 0 6%N; CRefresh None].

Definition hv_w : world := run (fun s => s) (init_world [1;1;1;0]%N) hv_cmds.

(* stg push p0: conflicts with p1 *)
Definition hv_c : cmd := CPush (Some [hv_pa]) None false false false false false false None.

Example undo_halt_nonvacuous : exists w c w1 so0 st0 so1 st1 w2,
    w_stack w = Some so0 /\ state_of (w_objs w) so0 = Some st0 /\ logs_plain_op c = true
    /\ step (fun s => s) w c = (w1, X3) /\ w_unmerged w1 = true
    /\ w_stack w1 = Some so1 /\ state_of (w_objs w1) so1 = Some st1 /\ s_prev st1 = Some so0
    /\ run_undo w1 1 true = (w2, X0).
Proof.
  exists hv_w, hv_c, (fst (step (fun s => s) hv_w hv_c)). do 5 eexists.
  split; [vm_compute; reflexivity|].
  split; [vm_compute; reflexivity|].
  split; [reflexivity|].
  split; [vm_compute; reflexivity|].
  split; [vm_compute; reflexivity|].
  split; [vm_compute; reflexivity|].
  split; [vm_compute; reflexivity|].
  split; [vm_compute; reflexivity|].
  vm_compute; reflexivity.
Qed.

(* the hypotheses of the theorem hold on that world: its conclusion, instantiated *)
Definition hv_w1 : world := fst (step (fun s => s) hv_w hv_c).
Definition hv_w2 : world := fst (run_undo hv_w1 1 true).

Example undo_halt_instance :
  (exists st0, cur_state hv_w = Some st0 /\ at_state hv_w2 st0)
  /\ w_unmerged hv_w2 = false /\ w_wt hv_w2 = tree_of (w_objs hv_w2) (w_branch hv_w2).
Proof.
  assert (L : LowerOK (fun s => s)) by (intros s H; exact H).
  destruct (init_inv6 [1;1;1;0]%N) as [I0 P0].
  assert (I6PD : Inv6 hv_w /\ prev_decreasing (w_objs hv_w))
    by (unfold hv_w; apply (run_reach _ L); [reflexivity|exact I0|exact P0]).
  destruct I6PD as [I6 PD].
  assert (A0 : step (fun s => s) hv_w hv_c = (hv_w1, X3)) by (vm_compute; reflexivity).
  assert (A6 : run_undo hv_w1 1 true = (hv_w2, X0)) by (vm_compute; reflexivity).
  assert (A1 : w_stack hv_w = Some 22) by (vm_compute; reflexivity).
  assert (A3 : w_stack hv_w1 = Some 25) by (vm_compute; reflexivity).
  destruct (state_of (w_objs hv_w) 22) as [st0|] eqn:A2; [|vm_compute in A2; discriminate].
  destruct (state_of (w_objs hv_w1) 25) as [st1|] eqn:A4; [|vm_compute in A4; discriminate].
  assert (A5 : s_prev st1 = Some 22). { vm_compute in A4. injection A4 as <-. reflexivity. }
  destruct (undo_hard_undoes_halted_step _ L hv_w hv_c hv_w1 22 st0 25 st1 hv_w2 I6 PD
              eq_refl eq_refl A1 A2 A0 A3 A4 A5 A6) as (B1 & B2 & B3).
  split; [|split; assumption]. exists st0. split; [|exact B1].
  unfold cur_state. rewrite A1. exact A2.
Qed.
