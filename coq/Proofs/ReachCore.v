(* C06, part 5: the step theorems.  [step_reach_core] is parametrised (section hypotheses)
   by the preservation of Inv (C01) and of the chain invariant (C02), proved elsewhere. *)
From StgV Require Import Model.StackSpec Model.LogSpec.
From StgV Require Export Proofs.ReachBase Proofs.ReachEvolve Proofs.ReachTxn Proofs.ReachStep.
Local Open Scope nat_scope.

Section Core.
  Hypothesis step_inv :
    forall lower_s, LowerOK lower_s ->
    forall w c, in_scope c = true -> Inv w -> Inv (fst (step lower_s w c)).

  Hypothesis step_chain :
    forall lower_s w c, in_scope c = true -> Inv w ->
      (forall so s, state_of (w_objs w) so = Some s -> chain_ok (w_objs w) s) ->
      (forall so s, state_of (w_objs (fst (step lower_s w c))) so = Some s ->
                    chain_ok (w_objs (fst (step lower_s w c))) s).

  Lemma step_reach_core :
    forall lower_s, LowerOK lower_s ->
    forall w c, in_scope c = true -> Inv6 w -> prev_decreasing (w_objs w) ->
      let w' := fst (step lower_s w c) in
      Inv6 w' /\ prev_decreasing (w_objs w').
  Proof.
    intros lower_s L w c SC I6 PD w'.
    apply (evolve_inv6 true w w'); [apply step_ev|exact I6|exact PD|].
    destruct I6 as [[I Hch] _]. split.
    - apply step_inv; assumption.
    - apply step_chain; assumption.
  Qed.
End Core.

Lemma append_only :
  forall lower_s w c top so,
    c <> CLogClear -> Inv w -> prev_decreasing (w_objs w) ->
    w_stack w = Some top -> on_log (w_objs w) top so ->
    let w' := fst (step lower_s w c) in
    exists top', w_stack w' = Some top' /\ on_log (w_objs w') top' so
                 /\ get (w_objs w') so = get (w_objs w) so.
Proof.
  intros lower_s w c top so NC I PD Et Hl w'.
  apply (evolve_append_only w w' top so); try assumption. apply step_ev_noclear. exact NC.
Qed.
