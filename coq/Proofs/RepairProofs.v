(* C13 - proofs: stg repair is a pure rearrangement, never touches the work tree, and its
   first-parent walk finds exactly the applied patches of a consistent stack. *)
From Coq Require Import List NArith ZArith Bool Arith Lia Permutation.
From StgV Require Import Model.CmdSpec.
From StgV Require Import Proofs.CharsProofs Proofs.ReorderProofs Proofs.ReachStep
  Proofs.ConflictProofs.
From Coq Require Export List.   (* after Model.GenTypes, which exports String: [length] must be List.length, also for importers *)
Import ListNotations.
Local Open Scope nat_scope.
Local Open Scope list_scope.

(* ---------------------------------------------------------------- appliedness_is_permutation *)

Lemma remove_first_perm : forall n l, In n l -> Permutation l (n :: remove_first n l).
Proof.
  intros n l. induction l as [|x l IH]; intros Hin; [destruct Hin|].
  cbn [remove_first]. destruct (name_eqb x n) eqn:E.
  - apply name_eqb_eq in E. subst x. apply Permutation_refl.
  - destruct Hin as [Hx|Hin].
    + subst x. rewrite name_eqb_refl in E. discriminate.
    + eapply Permutation_trans; [apply perm_skip; apply IH; exact Hin|apply perm_swap].
Qed.

Lemma is_perm_of_perm : forall new old, is_perm_of new old = true -> Permutation new old.
Proof.
  induction new as [|n new IH]; intros old H; cbn [is_perm_of] in H.
  - destruct old; [apply perm_nil|discriminate].
  - apply andb_true_iff in H. destruct H as [Hm Hp]. apply mem_In in Hm.
    apply IH in Hp. eapply Permutation_trans; [apply perm_skip; exact Hp|].
    apply Permutation_sym. apply remove_first_perm. exact Hm.
Qed.

Lemma appliedness_is_permutation :
  forall a u h t t',
    repair_appliedness a u h t = TOk t' ->
    Permutation (t_all t') (t_all t) /\ t_applied t' = a /\ t_unapplied t' = u /\ t_hidden t' = h
    /\ t_objs t' = t_objs t /\ t_updated t' = t_updated t.
Proof.
  intros a u h t t' H. unfold repair_appliedness in H.
  destruct (is_perm_of (a ++ u ++ h) (t_all t)) eqn:Hp; [|discriminate].
  inversion H; subst t'. split; [|repeat split; reflexivity].
  apply is_perm_of_perm in Hp. exact Hp.
Qed.

(* ---------------------------------------------------------------- repair_keeps_worktree *)

Definition same_wt (t t' : txn) : Prop :=
  t_opts t' = t_opts t /\ t_wt t' = t_wt t /\ t_wt_unmerged t' = t_wt_unmerged t.

Lemma same_wt_refl : forall t, same_wt t t.
Proof. intros t. repeat split; reflexivity. Qed.

Lemma same_wt_trans : forall a b c, same_wt a b -> same_wt b c -> same_wt a c.
Proof. intros a b c [A [B C]] [A' [B' C']]. repeat split; congruence. Qed.

Lemma fold_tbind_same_wt : forall (A : Type) (g : A -> txn -> tres) l t r,
    (forall c, keeps_wt (g c)) ->
    (forall t1, txn_of r = Some t1 -> same_wt t t1) ->
    forall t', txn_of (fold_left (fun r c => tbind r (g c)) l r) = Some t' -> same_wt t t'.
Proof.
  intros A g l. induction l as [|c l IH]; intros t r Kg Hr t' H; cbn [fold_left] in H.
  - apply Hr. exact H.
  - eapply IH; [exact Kg| |exact H]. intros t1 H1.
    destruct r as [t0|t0 h0|t0|]; cbn [tbind] in H1.
    + eapply same_wt_trans; [apply Hr; reflexivity|]. apply (Kg c t0 t1 H1).
    + apply Hr. exact H1.
    + apply Hr. exact H1.
    + discriminate.
Qed.

Lemma repair_appliedness_keeps_wt : forall a u h, keeps_wt (repair_appliedness a u h).
Proof.
  intros a u h t t' H. unfold repair_appliedness in H.
  destruct (is_perm_of _ _); cbn [txn_of] in H; [|discriminate].
  inversion H; subst. repeat split; reflexivity.
Qed.

Lemma new_applied_keeps_wt : forall n o, keeps_wt (new_applied n o).
Proof.
  intros n o t t' H. unfold new_applied in H.
  destruct (first_parent (t_objs t) o); [|discriminate].
  destruct (t_top t); [|discriminate].
  destruct (Nat.eqb _ _); cbn [txn_of] in H; [|discriminate].
  inversion H; subst. repeat split; reflexivity.
Qed.

Lemma repair_keeps_worktree :
  forall lower_s w w' x,
    run_repair lower_s w = (w', x) -> w_wt w' = w_wt w /\ w_unmerged w' = w_unmerged w.
Proof.
  intros lower_s w w' x H. unfold run_repair in H.
  destruct (open_stack PRequire w) as [op|] eqn:Hop.
  2:{ unfold err2 in H. inversion H; subst. split; reflexivity. }
  destruct (open_stack_frame _ _ _ Hop) as [_ [Hwt Hum]].
  cbv zeta in H.
  destruct (repair_walk _ _ _ _ _ _ _ _) as [[applied_rev patchify_rev] stop].
  apply transact_frame in H.
  - destruct H as [A [B _]]. rewrite A, B. split; assumption.
  - reflexivity.
  - apply keeps_wt_tbind; [apply repair_appliedness_keeps_wt|].
    intros t0 t' Ht. apply (fold_tbind_same_wt _ _ _ t0 _) in Ht; [exact Ht| |].
    + intros c t1 t2 H12. destruct (make _ _ _ _); try discriminate.
      destruct (uniquify _ _ _); try discriminate. eapply new_applied_keeps_wt. exact H12.
    + intros t1 H1. cbn [txn_of] in H1. inversion H1; subst. repeat split; reflexivity.
Qed.

(* ---------------------------------------------------------------- walk_on_chain *)

Lemma last_cons : forall (A : Type) (y : A) l d, last (y :: l) d = last l y.
Proof.
  intros A y l. revert y. induction l as [|z l IH]; intros y d; [reflexivity|].
  change (last (y :: z :: l) d) with (last (z :: l) d). rewrite IH.
  change (last (z :: l) y) with (match l with [] => z | _ => last l y end).
  destruct l; [reflexivity|]. symmetry. rewrite <- (IH z y). reflexivity.
Qed.

Lemma chain_split_parent : forall objs l1 x l2 base top,
    chain objs base (l1 ++ x :: l2) top -> parents_of objs x = [last l1 base].
Proof.
  intros objs. induction l1 as [|y l1 IH]; intros x l2 base top H.
  - cbn [app chain] in H. destruct H as [Hp _]. exact Hp.
  - cbn [app chain] in H. destruct H as [_ Hrest]. rewrite last_cons. eapply IH. exact Hrest.
Qed.

Lemma find_unique : forall (f : name -> bool) l n,
    In n l -> f n = true -> (forall m, In m l -> f m = true -> m = n) -> find f l = Some n.
Proof.
  intros f. induction l as [|x l IH]; intros n Hin Hf Hu; [destruct Hin|].
  cbn [find]. destruct (f x) eqn:Ex.
  - f_equal. apply Hu; [left; reflexivity|exact Ex].
  - destruct Hin as [->|Hin]; [congruence|].
    apply IH; [exact Hin|exact Hf|]. intros m Hm. apply Hu. right. exact Hm.
Qed.

Section WalkChain.
  Variables (objs : store) (s : sstate) (base : oid).
  Hypothesis Hchain : chain objs base (applied_oids s) (s_top s).
  Hypothesis Hpatch : forall n, In n (s_applied s) -> pm_get (s_patches s) n <> None.
  Hypothesis Hinj : forall a b, In a (all_of s) -> In b (all_of s) ->
                               patch_oid s a = patch_oid s b -> a = b.
  Hypothesis Hbase : forall n, In n (all_of s) -> patch_oid s n <> base.

  Lemma applied_in_all : forall n, In n (s_applied s) -> In n (all_of s).
  Proof. intros n H. unfold all_of. apply in_or_app. left. exact H. Qed.

  Lemma patch_of_commit_applied : forall n,
      In n (s_applied s) -> patch_of_commit s (patch_oid s n) = Some n.
  Proof.
    intros n Hn. unfold patch_of_commit. apply find_unique.
    - apply applied_in_all. exact Hn.
    - unfold patch_oid. destruct (pm_get (s_patches s) n) as [o|] eqn:E.
      + apply Nat.eqb_refl.
      + exfalso. apply (Hpatch n Hn). exact E.
    - intros m Hm Hf. apply Hinj; [exact Hm|apply applied_in_all; exact Hn|].
      unfold patch_oid at 1. destruct (pm_get (s_patches s) m) as [o|]; [|discriminate].
      apply Nat.eqb_eq in Hf. exact Hf.
  Qed.

  Lemma walk_chain_gen : forall pre n suf fuel,
      s_applied s = pre ++ n :: suf -> length pre < fuel ->
      repair_walk fuel objs s base (patch_oid s n) (rev suf) [] []
      = (rev (s_applied s), [], base).
  Proof.
    intros pre. induction pre as [|m pre IH] using rev_ind; intros n suf fuel Happ Hfuel.
    - destruct fuel as [|fuel]; [cbn in Hfuel; lia|].
      assert (Hpar : parents_of objs (patch_oid s n) = [base]).
      { pose proof Hchain as Hc. unfold applied_oids in Hc. rewrite Happ in Hc.
        cbn [app map] in Hc. apply (chain_split_parent objs [] _ _ _ _ Hc). }
      cbn [repair_walk]. rewrite Hpar.
      rewrite patch_of_commit_applied by (rewrite Happ; left; reflexivity).
      rewrite Nat.eqb_refl. rewrite Happ. cbn [app rev]. reflexivity.
    - destruct fuel as [|fuel]; [cbn in Hfuel; lia|].
      rewrite app_length in Hfuel. cbn [length] in Hfuel.
      assert (Happ' : s_applied s = pre ++ m :: n :: suf).
      { rewrite Happ, <- app_assoc. reflexivity. }
      assert (Hpar : parents_of objs (patch_oid s n) = [patch_oid s m]).
      { pose proof Hchain as Hc. unfold applied_oids in Hc. rewrite Happ in Hc.
        rewrite map_app in Hc. cbn [map] in Hc.
        rewrite (chain_split_parent _ _ _ _ _ _ Hc). rewrite map_app. cbn [map].
        rewrite last_last. reflexivity. }
      assert (Hm : In m (s_applied s)).
      { rewrite Happ'. apply in_or_app. right. left. reflexivity. }
      cbn [repair_walk]. rewrite Hpar.
      rewrite patch_of_commit_applied
        by (rewrite Happ; apply in_or_app; right; left; reflexivity).
      destruct (Nat.eqb base (patch_oid s m)) eqn:E.
      + apply Nat.eqb_eq in E. exfalso. apply (Hbase m (applied_in_all m Hm)). congruence.
      + cbn [app]. change (rev suf ++ [n]) with (rev (n :: suf)).
        apply (IH m (n :: suf) fuel Happ'). lia.
  Qed.
End WalkChain.

Lemma walk_on_chain :
  forall objs s base fuel,
    chain objs base (applied_oids s) (s_top s) ->
    NoDup (s_applied s) ->
    (forall n, In n (s_applied s) -> pm_get (s_patches s) n <> None) ->
    (forall a b, In a (all_of s) -> In b (all_of s) -> patch_oid s a = patch_oid s b -> a = b) ->
    (forall n, In n (all_of s) -> patch_oid s n <> base) ->
    (length (s_applied s) < fuel)%nat ->
    s_applied s <> [] ->
    repair_walk fuel objs s base (s_top s) [] [] [] = (rev (s_applied s), [], base).
Proof.
  intros objs s base fuel Hchain _ Hpatch Hinj Hbase Hfuel Hne.
  destruct (exists_last Hne) as [pre [n Happ]].
  assert (Htop : s_top s = patch_oid s n).
  { unfold s_top, last_error, patch_oid. rewrite Happ, rev_unit. cbn [hd_error].
    destruct (pm_get (s_patches s) n) eqn:E; [reflexivity|].
    exfalso. apply (Hpatch n); [|exact E]. rewrite Happ. apply in_or_app. right. left. reflexivity. }
  rewrite Htop. change (@nil name) with (rev (@nil name)) at 1.
  apply (walk_chain_gen objs s base Hchain Hpatch Hinj Hbase pre n [] fuel Happ).
  rewrite Happ, app_length in Hfuel. cbn [length] in Hfuel. lia.
Qed.

(* ---------------------------------------------------------------- walk_sound *)

Section WalkSound.
  Variables (objs : store) (s : sstate) (base : oid).

  Definition names_ok_acc (l : list name) : Prop := forall n, In n l -> In n (all_of s).

  Definition commits_ok_acc (l : list oid) : Prop :=
    forall c, In c l -> patch_of_commit s c = None /\ exists p, parents_of objs c = [p].

  Lemma commits_ok_app : forall a b, commits_ok_acc a -> commits_ok_acc b -> commits_ok_acc (a ++ b).
  Proof. intros a b Ha Hb c Hc. apply in_app_or in Hc. destruct Hc; [apply Ha|apply Hb]; assumption. Qed.

  Lemma commits_ok_nil : commits_ok_acc [].
  Proof. intros c []. Qed.

  Lemma walk_sound_gen : forall fuel commit applied patchify maybe applied' patchify' stop,
      names_ok_acc applied -> commits_ok_acc patchify -> commits_ok_acc maybe ->
      repair_walk fuel objs s base commit applied patchify maybe = (applied', patchify', stop) ->
      names_ok_acc applied' /\ commits_ok_acc patchify'.
  Proof.
    induction fuel as [|fuel IH]; intros commit applied patchify maybe applied' patchify' stop
                                         Ha Hp Hm H; cbn [repair_walk] in H.
    - inversion H; subst. split; assumption.
    - destruct (parents_of objs commit) as [|parent [|q ps]] eqn:Hpar;
        try (inversion H; subst; split; assumption).
      destruct (patch_of_commit s commit) as [pn|] eqn:Hpc.
      + assert (Ha' : names_ok_acc (applied ++ [pn])).
        { intros n Hn. apply in_app_or in Hn. destruct Hn as [Hn|[<-|[]]]; [apply Ha; exact Hn|].
          unfold patch_of_commit in Hpc. apply find_some in Hpc. destruct Hpc as [Hin _]. exact Hin. }
        pose proof (commits_ok_app _ _ Hp Hm) as Hp'.
        destruct (Nat.eqb base parent).
        * inversion H; subst. split; [exact Ha'|]. rewrite app_nil_r. exact Hp'.
        * eapply IH; [exact Ha'|exact Hp'|apply commits_ok_nil|exact H].
      + assert (Hm' : commits_ok_acc (maybe ++ [commit])).
        { apply commits_ok_app; [exact Hm|]. intros c [<-|[]]. split; [exact Hpc|].
          exists parent. exact Hpar. }
        destruct (Nat.eqb base parent).
        * inversion H; subst. split; [exact Ha|]. apply commits_ok_app; assumption.
        * eapply IH; [exact Ha|exact Hp|exact Hm'|exact H].
  Qed.
End WalkSound.

Lemma walk_sound :
  forall fuel objs s base head applied patchify stop,
    repair_walk fuel objs s base head [] [] [] = (applied, patchify, stop) ->
    (forall n, In n applied -> In n (all_of s))
    /\ (forall c, In c patchify -> patch_of_commit s c = None /\ exists p, parents_of objs c = [p]).
Proof.
  intros fuel objs s base head applied patchify stop H.
  eapply (walk_sound_gen objs s base fuel head [] [] []); [| | |exact H].
  - intros n [].
  - apply commits_ok_nil.
  - apply commits_ok_nil.
Qed.

(* Model/Cmd.v leaves N_scope open and Gen/CmdTable.v string_scope; the statements of
   Properties/C13.v are about lists and nat. *)
Global Open Scope list_scope.
Global Open Scope nat_scope.
