(* plain_parents_older through transactions: an oid-level invariant of the transaction state
   ([ob]: every commit id the transaction can hand to a new commit as parent is a plain object
   of its store) that every transaction primitive keeps without preconditions on names, and
   execute / transact (state commits only). *)
From Coq Require Import List NArith ZArith Bool Arith Lia.
From StgV Require Import Model.StackSpec.
From StgV Require Import Proofs.RepairNoopProofs Proofs.RepairNoopInv.
From StgV Require Import Proofs.WfBasics Proofs.WfFrame Proofs.WfTxn.
Import ListNotations.
Local Open Scope nat_scope.
Local Open Scope list_scope.

(* ---------------------------------------------------------------- update maps *)

Definition updok (objs : store) (u : upd) : Prop :=
  forall n o, up_get u n = Some (Some o) -> is_plain objs o.

Lemma updok_set : forall objs u n o, updok objs u -> is_plain objs o -> updok objs (up_set u n (Some o)).
Proof.
  intros objs u n o H Ho n' o' E. rewrite up_get_set in E. destruct (name_eqb n n').
  - injection E as <-. exact Ho.
  - exact (H n' o' E).
Qed.

Lemma updok_del : forall objs u n, updok objs u -> updok objs (up_set u n None).
Proof.
  intros objs u n H n' o' E. rewrite up_get_set in E. destruct (name_eqb n n').
  - discriminate E.
  - exact (H n' o' E).
Qed.

Lemma updok_mark_deleted : forall objs ns u, updok objs u -> updok objs (mark_deleted u ns).
Proof.
  intros objs ns u H n o E. rewrite up_get_mark_deleted in E. destruct (mem n ns).
  - discriminate E.
  - exact (H n o E).
Qed.

Lemma updok_set_all : forall objs ps u, updok objs u ->
  (forall n o, In (n, o) ps -> is_plain objs o) ->
  updok objs (fold_left (fun u p => up_set u (fst p) (Some (snd p))) ps u).
Proof.
  intros objs ps u H Hp n o E. change (up_get (set_all ps u) n = Some (Some o)) in E.
  rewrite up_get_set_all in E. destruct (pm_get (rev ps) n) as [o'|] eqn:G.
  - injection E as <-. apply pm_get_rev_In in G. exact (Hp n o' G).
  - exact (H n o E).
Qed.

Lemma updok_mono : forall objs ext u, updok objs u -> updok (objs ++ ext) u.
Proof. intros objs ext u H n o E. apply is_plain_mono. exact (H n o E). Qed.

Lemma updok_nil : forall objs, updok objs [].
Proof. intros objs n o E. discriminate E. Qed.

(* ---------------------------------------------------------------- the invariant *)

Record ob (b : store) (t : txn) : Prop := mk_ob {
  ob_ext : store_extends b (t_objs t);
  ob_ppo : plain_parents_older (t_objs t);
  ob_closed : plain_closed (t_objs t);
  ob_stack : forall n o, pm_get (s_patches (t_stack t)) n = Some o -> is_plain (t_objs t) o;
  ob_upd : updok (t_objs t) (t_updated t);
  ob_base : is_plain (t_objs t) (t_base_oid t)
}.

Definition rs (Q : txn -> Prop) (r : tres) : Prop :=
  match r with
  | TOk t | THalt t _ | TErr t => Q t
  | TPanic => True
  end.

Definition okeeps (b : store) (f : txn -> tres) : Prop := forall t, ob b t -> rs (ob b) (f t).

Lemma rs_tbind : forall (Q : txn -> Prop) r f,
  rs Q r -> (forall t, Q t -> rs Q (f t)) -> rs Q (tbind r f).
Proof. intros Q [t|t h|t|] f H1 H2; cbn in *; auto. Qed.

Lemma okeeps_tbind : forall b f g, okeeps b f -> okeeps b g -> okeeps b (fun t => tbind (f t) g).
Proof. intros b f g Kf Kg t H. apply rs_tbind; [exact (Kf t H)|exact Kg]. Qed.

Lemma okeeps_ok : forall b, okeeps b TOk.
Proof. intros b t H. exact H. Qed.

Lemma ob_change : forall b t t',
  t_objs t' = t_objs t -> t_stack t' = t_stack t -> t_updated t' = t_updated t ->
  t_base_oid t' = t_base_oid t -> ob b t -> ob b t'.
Proof.
  intros b t t' E1 E2 E3 E4 [H1 H2 H3 H4 H5 H6].
  constructor; rewrite ?E1, ?E2, ?E3, ?E4; assumption.
Qed.

Lemma ob_set_lists : forall b t a u h, ob b t -> ob b (set_lists t a u h).
Proof. intros b t a u h. apply ob_change; reflexivity. Qed.
Lemma ob_set_head : forall b t h, ob b t -> ob b (set_head t h).
Proof. intros b t h. apply ob_change; reflexivity. Qed.
Lemma ob_set_tmp : forall b t i c, ob b t -> ob b (set_tmp t i c).
Proof. intros b t i c. apply ob_change; reflexivity. Qed.
Lemma ob_set_wt : forall b t c w u, ob b t -> ob b (set_wt t c w u).
Proof. intros b t c w u. apply ob_change; reflexivity. Qed.
Lemma ob_set_cm : forall b t m, ob b t -> ob b (set_conflict_mode t m).
Proof. intros b t m. apply ob_change; reflexivity. Qed.

Lemma ob_move : forall b t n, ob b t -> ob b (move_to_applied t n).
Proof.
  intros b t n H. unfold move_to_applied.
  destruct (mem n (t_unapplied t)); [now apply ob_set_lists|].
  destruct (mem n (t_hidden t)); now apply ob_set_lists.
Qed.

Lemma ob_core_eq : forall b t t2, core_eq t t2 -> ob b t -> ob b t2.
Proof.
  intros b t t2 [E1 [E2 [_ [_ [_ [E6 [_ [E8 E9]]]]]]]]. apply ob_change; try assumption.
  unfold t_base_oid. now rewrite E8, E2.
Qed.

Lemma ob_set_updated : forall b t u, ob b t -> updok (t_objs t) u -> ob b (set_updated t u).
Proof. intros b t u [H1 H2 H3 H4 H5 H6] Hu. constructor; assumption. Qed.

Lemma ob_up_set : forall b t n o, ob b t -> is_plain (t_objs t) o ->
  ob b (set_updated t (up_set (t_updated t) n (Some o))).
Proof. intros b t n o H Ho. apply ob_set_updated; [exact H|]. apply updok_set; [apply H|exact Ho]. Qed.

Lemma ob_set_base : forall b t x, ob b t -> is_plain (t_objs t) x -> ob b (set_base t (Some x)).
Proof. intros b t x [H1 H2 H3 H4 H5 H6] Hx. constructor; assumption. Qed.

Lemma plain_closed_put : forall objs c,
  plain_closed objs -> (forall p, In p (c_parents c) -> is_plain objs p) -> plain_closed (objs ++ [c]).
Proof.
  intros objs c Hc Hx o p [c' [Hg [Hn Hm]]] Hin. pose proof Hg as Hg0.
  apply get_app_inv in Hg as [Hg|[Hg Hi]].
  - apply is_plain_mono. apply (Hc o p).
    + exists c'. auto.
    + now rewrite (parents_of_mono _ _ _ _ Hg) in Hin.
  - destruct Hi as [<-|[]]. apply is_plain_mono. apply Hx. unfold parents_of in Hin. now rewrite Hg0 in Hin.
Qed.

Lemma ob_put : forall b t ps tr m sj, ob b t ->
  (forall p, In p ps -> is_plain (t_objs t) p) ->
  ob b (set_objs t (t_objs t ++ [plain ps tr m sj])).
Proof.
  intros b t ps tr m sj [H1 H2 H3 H4 H5 H6] Hp. constructor.
  - eapply store_extends_trans; [exact H1|apply store_extends_put].
  - apply older_put; [exact H2|]. intros p E. apply plain_lt. apply Hp. cbn in E. rewrite E. now left.
  - apply plain_closed_put; [exact H3|exact Hp].
  - intros n o E. apply is_plain_mono. exact (H4 n o E).
  - apply updok_mono. exact H5.
  - apply is_plain_mono. exact H6.
Qed.

Lemma ob_patch : forall b t n o, ob b t -> t_patch t n = Some o -> is_plain (t_objs t) o.
Proof.
  intros b t n o H E. unfold t_patch in E. destruct (up_get (t_updated t) n) as [v|] eqn:U.
  - subst v. exact (ob_upd b t H n o U).
  - exact (ob_stack b t H n o E).
Qed.

Lemma ob_top : forall b t x, ob b t -> t_top t = Some x -> is_plain (t_objs t) x.
Proof.
  intros b t x H E. unfold t_top in E. destruct (hd_error (rev (t_applied t))) as [n|].
  - exact (ob_patch b t n x H E).
  - injection E as <-. apply H.
Qed.

Lemma ob_plain_in : forall b t o, ob b t -> is_plain b o -> is_plain (t_objs t) o.
Proof. intros b t o H Ho. eapply is_plain_ext; [apply H|exact Ho]. Qed.

Lemma wf_ob : forall t, wf_txn t -> plain_parents_older (t_objs t) -> ob (t_objs t) t.
Proof.
  intros t W A. constructor.
  - apply store_extends_refl.
  - exact A.
  - apply (wt_store t W).
  - intros n o E. destruct (wt_stack t W) as [_ [_ [_ [Hp _]]]]. apply (Hp n o E).
  - intros n o E. apply (wt_patch t W n o). unfold t_patch. now rewrite E.
  - apply (wt_base t W).
Qed.

(* ---------------------------------------------------------------- pop / delete *)

Lemma ob_pop : forall b f t t1 inc, pop_patches f t = (t1, inc) -> ob b t -> ob b t1.
Proof.
  intros b f t t1 inc E H. unfold pop_patches in E. destruct (split_at_first f (t_applied t)).
  injection E as <- _. now apply ob_set_lists.
Qed.

Lemma ob_delete : forall b f t t1 inc, delete_patches f t = (t1, inc) -> ob b t -> ob b t1.
Proof.
  intros b f t t1 inc E H. unfold delete_patches in E. destruct (split_at_first f (t_applied t)).
  injection E as <- _. apply ob_set_updated; [now apply ob_set_lists|].
  apply updok_mark_deleted. apply H.
Qed.

(* ---------------------------------------------------------------- push *)

Lemma ob_recommit : forall b t old tr par t' o,
  recommit t old tr par = (t', o) -> ob b t -> is_plain (t_objs t) par ->
  ob b t' /\ is_plain (t_objs t') o.
Proof.
  intros b t old tr par t' o E H Hp. unfold recommit, put in E. injection E as <- <-. split.
  - apply ob_put; [exact H|]. intros p [<-|[]]. exact Hp.
  - cbn [t_objs set_objs]. apply plain_new.
Qed.

Lemma push_fin_ob : forall b n t2 pc ptree tr np op st,
  ob b t2 -> is_plain (t_objs t2) np -> rs (ob b) (push_fin n t2 pc ptree tr np op st).
Proof.
  intros b n t2 pc ptree tr np op st H Hnp. unfold push_fin.
  assert (Hfin : forall t3, ob b t3 ->
    rs (ob b)
      (match st with
       | PSConflict => THalt (move_to_applied (set_conflict_mode t3 CAllow) n) HConflict
       | _ => TOk (move_to_applied t3 n) end)).
  { intros t3 H3. destruct st; cbn [rs]; apply ob_move; try exact H3. now apply ob_set_cm. }
  destruct (negb (tree_eqb tr ptree) || negb (Nat.eqb np op)).
  - destruct (recommit t2 pc tr np) as [t' o] eqn:R.
    destruct (ob_recommit b _ _ _ _ _ _ R H Hnp) as [H' Ho].
    destruct st; apply Hfin.
    + now apply ob_up_set.
    + now apply ob_up_set.
    + apply (ob_up_set b (set_head t' (Some o)) n o); [now apply ob_set_head|exact Ho].
  - destruct st; apply Hfin; exact H.
Qed.

Lemma push_patch_ob : forall b n am, okeeps b (push_patch n am).
Proof.
  intros b n am t H. rewrite push_patch_eq.
  destruct (t_patch t n) as [pc|]; [|exact I].
  destruct (t_top t) as [np|] eqn:Et; [|exact I].
  pose proof (ob_top b t np H Et) as Hnp.
  destruct (first_parent (t_objs t) pc) as [op|]; [|exact H].
  pose proof (push_sel_spec am t pc op np) as S.
  destruct (push_sel am t pc op np) as [[[t2 tr] st]|r].
  - pose proof (ob_core_eq b _ _ S H) as H2.
    apply push_fin_ob; [exact H2|]. destruct S as [_ [_ [_ [_ [_ [_ [_ [_ E9]]]]]]]]. now rewrite E9.
  - destruct r; try contradiction. cbn [rs]. exact (ob_core_eq b _ _ S H).
Qed.

Lemma push_list_ob : forall b ns merged, okeeps b (push_list ns merged).
Proof.
  intros b. induction ns as [|n ns IH]; intros merged t H; cbn [push_list]; [exact H|].
  apply rs_tbind; [now apply push_patch_ob|apply IH].
Qed.

Lemma push_patches_ob : forall b ns cm, okeeps b (push_patches ns cm).
Proof.
  intros b ns cm t H. unfold push_patches. destruct cm.
  - destruct (check_merged_loop _ _ _ _) as [[m c] id]. apply push_list_ob.
    apply ob_set_tmp. now apply ob_set_tmp.
  - apply push_list_ob. now apply ob_set_tmp.
Qed.

Lemma push_tree_ob : forall b n, okeeps b (push_tree n).
Proof.
  intros b n t H. unfold push_tree.
  destruct (t_patch t n) as [pc|]; [|exact I].
  destruct (t_top t) as [top|] eqn:Et; [|exact I].
  pose proof (ob_top b t top H Et) as Htop.
  destruct (first_parent (t_objs t) pc) as [par|]; [|exact H].
  assert (H1 : ob b (if Nat.eqb par top then t
                     else let '(t', o) := recommit t pc (tree_of (t_objs t) pc) top in
                          set_updated t' (up_set (t_updated t') n (Some o)))).
  { destruct (Nat.eqb par top); [exact H|].
    destruct (recommit t pc (tree_of (t_objs t) pc) top) as [t' o] eqn:R.
    destruct (ob_recommit b _ _ _ _ _ _ R H Htop) as [H' Ho]. now apply ob_up_set. }
  match goal with |- rs _ (if ?c then _ else _) => destruct c end; [|exact I].
  cbn [rs]. now apply ob_move.
Qed.

Lemma push_tree_list_ob : forall b ns, okeeps b (push_tree_list ns).
Proof.
  intros b. induction ns as [|n ns IH]; intros t H; cbn [push_tree_list]; [exact H|].
  apply rs_tbind; [now apply push_tree_ob|apply IH].
Qed.

(* ---------------------------------------------------------------- reorder and friends *)

Lemma reorder_patches_ob : forall b a u h, okeeps b (reorder_patches a u h).
Proof.
  intros b a u h t H. unfold reorder_patches. apply rs_tbind.
  - destruct a as [applied|]; [|exact H].
    destruct (pop_patches _ t) as [t1 inc] eqn:PP. apply (ob_pop b) in PP; [|exact H].
    apply rs_tbind; [now apply push_patches_ob|].
    intros t2 H2. destruct (list_name_eqb _ _); [exact H2|exact I].
  - intros t3 H3. destruct u, h; cbn [rs]; repeat apply ob_set_lists; exact H3.
Qed.

Lemma commit_patches_ob : forall b tc, okeeps b (commit_patches tc).
Proof.
  intros b tc t H. unfold commit_patches. apply rs_tbind.
  - destruct (Nat.ltb _ _); [|exact H].
    destruct (pop_patches _ t) as [t1 inc] eqn:PP. apply (ob_pop b) in PP; [|exact H].
    apply rs_tbind; [now apply push_patches_ob|apply okeeps_ok].
  - intros t2 H2. destruct (hd_error (rev tc)) as [lastn|]; [|exact I].
    destruct (t_patch t2 lastn) as [nb|] eqn:Ep; [|exact I].
    pose proof (ob_patch b t2 lastn nb H2 Ep) as Hnb.
    destruct (Nat.ltb _ _); [exact I|].
    apply push_patches_ob. apply ob_set_lists.
    apply ob_set_updated; [now apply ob_set_base|].
    apply updok_mark_deleted. apply H2.
Qed.

Lemma uncommit_patches_ob : forall b ps,
  (forall n o, In (n, o) ps -> is_plain b o) -> okeeps b (uncommit_patches ps).
Proof.
  intros b ps Hp t H. unfold uncommit_patches. cbn [rs]. apply ob_set_lists.
  apply ob_set_updated; [exact H|]. apply updok_set_all; [apply H|].
  intros n o Hi. eapply ob_plain_in; [exact H|exact (Hp n o Hi)].
Qed.

Lemma hide_patches_ob : forall b th, okeeps b (hide_patches th).
Proof. intros b th t H. unfold hide_patches. now apply reorder_patches_ob. Qed.

Lemma unhide_patches_ob : forall b tu, okeeps b (unhide_patches tu).
Proof. intros b tu t H. unfold unhide_patches. now apply reorder_patches_ob. Qed.

Lemma rename_patch_ob : forall b old new, okeeps b (rename_patch old new).
Proof.
  intros b old new t H. unfold rename_patch.
  destruct (name_eqb new old); [exact H|].
  match goal with |- rs _ (if ?c then _ else _) => destruct c end; [exact H|].
  match goal with |- rs _ (if ?c then _ else _) => destruct c end; [exact H|].
  match goal with |- rs _ (match ?l with Some _ => _ | None => _ end) => destruct l as [[[a u] h]|] end;
    [|exact I].
  destruct (match up_get (t_updated t) old with Some (Some o) => Some o | _ => pm_get (s_patches (t_stack t)) old end)
    as [o|] eqn:Eo; [|exact I].
  assert (Ho : is_plain (t_objs t) o).
  { destruct (up_get (t_updated t) old) as [[o'|]|] eqn:U.
    - injection Eo as <-. exact (ob_upd b t H old o' U).
    - exact (ob_stack b t H old o Eo).
    - exact (ob_stack b t H old o Eo). }
  cbn [rs]. apply ob_set_updated; [now apply ob_set_lists|].
  apply updok_set; [|exact Ho]. apply updok_del. apply H.
Qed.

Lemma new_applied_ob : forall b n o, is_plain b o -> okeeps b (new_applied n o).
Proof.
  intros b n o Ho t H. unfold new_applied.
  destruct (first_parent (t_objs t) o); [|exact I]. destruct (t_top t); [|exact I].
  destruct (Nat.eqb _ _); [|exact I]. cbn [rs].
  apply (ob_set_updated b (set_lists t (t_applied t ++ [n]) (t_unapplied t) (t_hidden t)));
    [now apply ob_set_lists|].
  apply updok_set; [apply H|]. exact (ob_plain_in b t o H Ho).
Qed.

Lemma new_unapplied_ob : forall b n o pos, is_plain b o -> okeeps b (new_unapplied n o pos).
Proof.
  intros b n o pos Ho t H. unfold new_unapplied. destruct (Nat.ltb _ _); [exact I|]. cbn [rs].
  apply (ob_set_updated b (set_lists t (t_applied t) (insert_at pos n (t_unapplied t)) (t_hidden t)));
    [now apply ob_set_lists|].
  apply updok_set; [apply H|]. exact (ob_plain_in b t o H Ho).
Qed.

(* the same with the new commit in the transaction's own store *)
Lemma new_unapplied_ob' : forall b n o pos t,
  ob b t -> is_plain (t_objs t) o -> rs (ob b) (new_unapplied n o pos t).
Proof.
  intros b n o pos t H Ho. unfold new_unapplied. destruct (Nat.ltb _ _); [exact I|]. cbn [rs].
  apply (ob_set_updated b (set_lists t (t_applied t) (insert_at pos n (t_unapplied t)) (t_hidden t)));
    [now apply ob_set_lists|].
  apply updok_set; [apply H|exact Ho].
Qed.

Lemma update_patch_ob' : forall b n o t,
  ob b t -> is_plain (t_objs t) o -> rs (ob b) (update_patch n o t).
Proof.
  intros b n o t H Ho. unfold update_patch. destruct (t_patch t n); [|exact I]. cbn [rs].
  now apply ob_up_set.
Qed.

Lemma update_patch_ob : forall b n o, is_plain b o -> okeeps b (update_patch n o).
Proof. intros b n o Ho t H. apply update_patch_ob'; [exact H|]. exact (ob_plain_in b t o H Ho). Qed.

Lemma repair_appliedness_ob : forall b a u h, okeeps b (repair_appliedness a u h).
Proof.
  intros b a u h t H. unfold repair_appliedness. destruct (is_perm_of _ _); [|exact I].
  cbn [rs]. now apply ob_set_lists.
Qed.

Lemma reset_to_state_ob : forall b s,
  (forall n o, In (n, o) (s_patches s) -> is_plain b o) -> is_plain b (s_head s) ->
  okeeps b (reset_to_state s).
Proof.
  intros b s Hp Hh t H. unfold reset_to_state.
  match goal with |- rs _ (match ?x with Some _ => _ | None => _ end) => destruct x as [nb|] eqn:Eb end;
    [|exact H].
  assert (Hnb : is_plain (t_objs t) nb).
  { destruct (s_applied s) as [|n0 r].
    - injection Eb as <-. exact (ob_plain_in b t _ H Hh).
    - destruct (pm_get (s_patches s) n0) as [o|] eqn:G; [|discriminate Eb].
      eapply first_parent_plain; [apply H| |exact Eb]. eapply ob_plain_in; [exact H|].
      apply (Hp n0 o). now apply pm_get_In. }
  cbn [rs]. apply ob_set_lists. apply ob_set_head. apply ob_set_base.
  - apply ob_set_updated; [exact H|]. apply updok_set_all.
    + apply updok_mark_deleted. apply H.
    + intros n o Hi. eapply ob_plain_in; [exact H|exact (Hp n o Hi)].
  - exact Hnb.
Qed.

Lemma wf_state_patches_plain : forall objs s, wf_state objs s ->
  (forall n o, In (n, o) (s_patches s) -> is_plain objs o) /\ is_plain objs (s_head s).
Proof.
  intros objs s [_ [Hk [_ [Hp Hh]]]]. split; [|exact Hh].
  intros n o Hi. apply (Hp n o). now apply In_pm_get.
Qed.

(* ---------------------------------------------------------------- execute / transact *)

Definition ppo_res (r : tres) : Prop := rs (fun t => plain_parents_older (t_objs t)) r.

Lemma rs_ob_ppo : forall b r, rs (ob b) r -> ppo_res r.
Proof. intros b [t|t h|t|] H; cbn in *; try exact I; apply H. Qed.

Lemma exec_logged_older : forall w t w1 st1,
  exec_logged w t = Some (w1, st1) -> plain_parents_older (t_objs t) ->
  plain_parents_older (w_objs w1).
Proof.
  intros w t w1 st1 E A. unfold exec_logged in E. destruct (Nat.eqb _ _).
  - injection E as <- _. exact A.
  - unfold log_external_mods in E. destruct (w_stack (exec_w0 w t)); [|discriminate E].
    destruct (state_commit _ _ _) as [[objs' so']|] eqn:C; [|discriminate E].
    injection E as <- _. cbn [w_objs]. eapply older_state_commit; [exact C|exact A].
Qed.

Lemma exec_body_older : forall w t halted msg,
  plain_parents_older (w_objs w) -> plain_parents_older (t_objs t) ->
  plain_parents_older (w_objs (fst (exec_body w t halted msg))).
Proof.
  intros w t halted msg Aw At. unfold exec_body.
  destruct (negb _); [exact Aw|].
  destruct (t_head_oid t) as [th|]; [|exact Aw].
  destruct (exec_logged w t) as [[w1 st1]|] eqn:El; [|exact At].
  pose proof (exec_logged_older _ _ _ _ El At) as A1.
  destruct (exec_co t th w1 st1) as [[wt' um']|[[wt' um'] x]]; [|exact A1].
  unfold exec_fin. destruct (w_stack w1) as [prev|]; [|exact A1].
  destruct (state_commit _ _ _) as [[objs' so]|] eqn:C; [|exact A1].
  pose proof (older_state_commit _ _ _ _ _ C A1) as A2.
  destruct halted; exact A2.
Qed.

Lemma execute_older : forall w r msg,
  plain_parents_older (w_objs w) -> ppo_res r ->
  plain_parents_older (w_objs (fst (execute w r msg))).
Proof.
  intros w r msg Aw Ar. rewrite execute_eq. destruct r as [t|t h|t|]; cbn in Ar.
  - now apply exec_body_older.
  - now apply exec_body_older.
  - exact Ar.
  - exact Aw.
Qed.

Lemma transact_older : forall op o f msg,
  plain_parents_older (w_objs (op_world op)) -> ppo_res (f (begin_txn op o)) ->
  plain_parents_older (w_objs (fst (transact op o f msg))).
Proof.
  intros op o f msg A Ar. unfold transact. destruct (negb (op_initialized op)).
  - destruct (f (begin_txn op o)); exact A.
  - now apply execute_older.
Qed.

Lemma begin_ob : forall op o, op_ok op -> plain_parents_older (w_objs (op_world op)) ->
  ob (w_objs (op_world op)) (begin_txn op o).
Proof.
  intros op o Hop A. apply (wf_ob (begin_txn op o)); [now apply begin_wf|exact A].
Qed.

Lemma transact_ob : forall op o f msg,
  op_ok op -> plain_parents_older (w_objs (op_world op)) ->
  okeeps (w_objs (op_world op)) f ->
  plain_parents_older (w_objs (fst (transact op o f msg))).
Proof.
  intros op o f msg Hop A K. apply transact_older; [exact A|].
  eapply rs_ob_ppo. apply K. now apply begin_ob.
Qed.
