(* Projection lemmas for the record-update functions of Model/Stack.v (generated; all by reflexivity). *)
From StgV Require Import Model.Stack.

Lemma t_stack_set_lists : forall t a u h, t_stack (set_lists t a u h) = t_stack t.
Proof. reflexivity. Qed.
Lemma t_stack_base_set_lists : forall t a u h, t_stack_base (set_lists t a u h) = t_stack_base t.
Proof. reflexivity. Qed.
Lemma t_branch_head_set_lists : forall t a u h, t_branch_head (set_lists t a u h) = t_branch_head t.
Proof. reflexivity. Qed.
Lemma t_opts_set_lists : forall t a u h, t_opts (set_lists t a u h) = t_opts t.
Proof. reflexivity. Qed.
Lemma t_applied_set_lists : forall t a u h, t_applied (set_lists t a u h) = a.
Proof. reflexivity. Qed.
Lemma t_unapplied_set_lists : forall t a u h, t_unapplied (set_lists t a u h) = u.
Proof. reflexivity. Qed.
Lemma t_hidden_set_lists : forall t a u h, t_hidden (set_lists t a u h) = h.
Proof. reflexivity. Qed.
Lemma t_updated_set_lists : forall t a u h, t_updated (set_lists t a u h) = t_updated t.
Proof. reflexivity. Qed.
Lemma t_head_set_lists : forall t a u h, t_head (set_lists t a u h) = t_head t.
Proof. reflexivity. Qed.
Lemma t_base_set_lists : forall t a u h, t_base (set_lists t a u h) = t_base t.
Proof. reflexivity. Qed.
Lemma t_cur_tree_set_lists : forall t a u h, t_cur_tree (set_lists t a u h) = t_cur_tree t.
Proof. reflexivity. Qed.
Lemma t_objs_set_lists : forall t a u h, t_objs (set_lists t a u h) = t_objs t.
Proof. reflexivity. Qed.
Lemma t_tmp_id_set_lists : forall t a u h, t_tmp_id (set_lists t a u h) = t_tmp_id t.
Proof. reflexivity. Qed.
Lemma t_tmp_content_set_lists : forall t a u h, t_tmp_content (set_lists t a u h) = t_tmp_content t.
Proof. reflexivity. Qed.
Lemma t_wt_set_lists : forall t a u h, t_wt (set_lists t a u h) = t_wt t.
Proof. reflexivity. Qed.
Lemma t_wt_unmerged_set_lists : forall t a u h, t_wt_unmerged (set_lists t a u h) = t_wt_unmerged t.
Proof. reflexivity. Qed.
Lemma t_stack_set_updated : forall t x, t_stack (set_updated t x) = t_stack t.
Proof. reflexivity. Qed.
Lemma t_stack_base_set_updated : forall t x, t_stack_base (set_updated t x) = t_stack_base t.
Proof. reflexivity. Qed.
Lemma t_branch_head_set_updated : forall t x, t_branch_head (set_updated t x) = t_branch_head t.
Proof. reflexivity. Qed.
Lemma t_opts_set_updated : forall t x, t_opts (set_updated t x) = t_opts t.
Proof. reflexivity. Qed.
Lemma t_applied_set_updated : forall t x, t_applied (set_updated t x) = t_applied t.
Proof. reflexivity. Qed.
Lemma t_unapplied_set_updated : forall t x, t_unapplied (set_updated t x) = t_unapplied t.
Proof. reflexivity. Qed.
Lemma t_hidden_set_updated : forall t x, t_hidden (set_updated t x) = t_hidden t.
Proof. reflexivity. Qed.
Lemma t_updated_set_updated : forall t x, t_updated (set_updated t x) = x.
Proof. reflexivity. Qed.
Lemma t_head_set_updated : forall t x, t_head (set_updated t x) = t_head t.
Proof. reflexivity. Qed.
Lemma t_base_set_updated : forall t x, t_base (set_updated t x) = t_base t.
Proof. reflexivity. Qed.
Lemma t_cur_tree_set_updated : forall t x, t_cur_tree (set_updated t x) = t_cur_tree t.
Proof. reflexivity. Qed.
Lemma t_objs_set_updated : forall t x, t_objs (set_updated t x) = t_objs t.
Proof. reflexivity. Qed.
Lemma t_tmp_id_set_updated : forall t x, t_tmp_id (set_updated t x) = t_tmp_id t.
Proof. reflexivity. Qed.
Lemma t_tmp_content_set_updated : forall t x, t_tmp_content (set_updated t x) = t_tmp_content t.
Proof. reflexivity. Qed.
Lemma t_wt_set_updated : forall t x, t_wt (set_updated t x) = t_wt t.
Proof. reflexivity. Qed.
Lemma t_wt_unmerged_set_updated : forall t x, t_wt_unmerged (set_updated t x) = t_wt_unmerged t.
Proof. reflexivity. Qed.
Lemma t_stack_set_head : forall t x, t_stack (set_head t x) = t_stack t.
Proof. reflexivity. Qed.
Lemma t_stack_base_set_head : forall t x, t_stack_base (set_head t x) = t_stack_base t.
Proof. reflexivity. Qed.
Lemma t_branch_head_set_head : forall t x, t_branch_head (set_head t x) = t_branch_head t.
Proof. reflexivity. Qed.
Lemma t_opts_set_head : forall t x, t_opts (set_head t x) = t_opts t.
Proof. reflexivity. Qed.
Lemma t_applied_set_head : forall t x, t_applied (set_head t x) = t_applied t.
Proof. reflexivity. Qed.
Lemma t_unapplied_set_head : forall t x, t_unapplied (set_head t x) = t_unapplied t.
Proof. reflexivity. Qed.
Lemma t_hidden_set_head : forall t x, t_hidden (set_head t x) = t_hidden t.
Proof. reflexivity. Qed.
Lemma t_updated_set_head : forall t x, t_updated (set_head t x) = t_updated t.
Proof. reflexivity. Qed.
Lemma t_head_set_head : forall t x, t_head (set_head t x) = x.
Proof. reflexivity. Qed.
Lemma t_base_set_head : forall t x, t_base (set_head t x) = t_base t.
Proof. reflexivity. Qed.
Lemma t_cur_tree_set_head : forall t x, t_cur_tree (set_head t x) = t_cur_tree t.
Proof. reflexivity. Qed.
Lemma t_objs_set_head : forall t x, t_objs (set_head t x) = t_objs t.
Proof. reflexivity. Qed.
Lemma t_tmp_id_set_head : forall t x, t_tmp_id (set_head t x) = t_tmp_id t.
Proof. reflexivity. Qed.
Lemma t_tmp_content_set_head : forall t x, t_tmp_content (set_head t x) = t_tmp_content t.
Proof. reflexivity. Qed.
Lemma t_wt_set_head : forall t x, t_wt (set_head t x) = t_wt t.
Proof. reflexivity. Qed.
Lemma t_wt_unmerged_set_head : forall t x, t_wt_unmerged (set_head t x) = t_wt_unmerged t.
Proof. reflexivity. Qed.
Lemma t_stack_set_base : forall t x, t_stack (set_base t x) = t_stack t.
Proof. reflexivity. Qed.
Lemma t_stack_base_set_base : forall t x, t_stack_base (set_base t x) = t_stack_base t.
Proof. reflexivity. Qed.
Lemma t_branch_head_set_base : forall t x, t_branch_head (set_base t x) = t_branch_head t.
Proof. reflexivity. Qed.
Lemma t_opts_set_base : forall t x, t_opts (set_base t x) = t_opts t.
Proof. reflexivity. Qed.
Lemma t_applied_set_base : forall t x, t_applied (set_base t x) = t_applied t.
Proof. reflexivity. Qed.
Lemma t_unapplied_set_base : forall t x, t_unapplied (set_base t x) = t_unapplied t.
Proof. reflexivity. Qed.
Lemma t_hidden_set_base : forall t x, t_hidden (set_base t x) = t_hidden t.
Proof. reflexivity. Qed.
Lemma t_updated_set_base : forall t x, t_updated (set_base t x) = t_updated t.
Proof. reflexivity. Qed.
Lemma t_head_set_base : forall t x, t_head (set_base t x) = t_head t.
Proof. reflexivity. Qed.
Lemma t_base_set_base : forall t x, t_base (set_base t x) = x.
Proof. reflexivity. Qed.
Lemma t_cur_tree_set_base : forall t x, t_cur_tree (set_base t x) = t_cur_tree t.
Proof. reflexivity. Qed.
Lemma t_objs_set_base : forall t x, t_objs (set_base t x) = t_objs t.
Proof. reflexivity. Qed.
Lemma t_tmp_id_set_base : forall t x, t_tmp_id (set_base t x) = t_tmp_id t.
Proof. reflexivity. Qed.
Lemma t_tmp_content_set_base : forall t x, t_tmp_content (set_base t x) = t_tmp_content t.
Proof. reflexivity. Qed.
Lemma t_wt_set_base : forall t x, t_wt (set_base t x) = t_wt t.
Proof. reflexivity. Qed.
Lemma t_wt_unmerged_set_base : forall t x, t_wt_unmerged (set_base t x) = t_wt_unmerged t.
Proof. reflexivity. Qed.
Lemma t_stack_set_objs : forall t x, t_stack (set_objs t x) = t_stack t.
Proof. reflexivity. Qed.
Lemma t_stack_base_set_objs : forall t x, t_stack_base (set_objs t x) = t_stack_base t.
Proof. reflexivity. Qed.
Lemma t_branch_head_set_objs : forall t x, t_branch_head (set_objs t x) = t_branch_head t.
Proof. reflexivity. Qed.
Lemma t_opts_set_objs : forall t x, t_opts (set_objs t x) = t_opts t.
Proof. reflexivity. Qed.
Lemma t_applied_set_objs : forall t x, t_applied (set_objs t x) = t_applied t.
Proof. reflexivity. Qed.
Lemma t_unapplied_set_objs : forall t x, t_unapplied (set_objs t x) = t_unapplied t.
Proof. reflexivity. Qed.
Lemma t_hidden_set_objs : forall t x, t_hidden (set_objs t x) = t_hidden t.
Proof. reflexivity. Qed.
Lemma t_updated_set_objs : forall t x, t_updated (set_objs t x) = t_updated t.
Proof. reflexivity. Qed.
Lemma t_head_set_objs : forall t x, t_head (set_objs t x) = t_head t.
Proof. reflexivity. Qed.
Lemma t_base_set_objs : forall t x, t_base (set_objs t x) = t_base t.
Proof. reflexivity. Qed.
Lemma t_cur_tree_set_objs : forall t x, t_cur_tree (set_objs t x) = t_cur_tree t.
Proof. reflexivity. Qed.
Lemma t_objs_set_objs : forall t x, t_objs (set_objs t x) = x.
Proof. reflexivity. Qed.
Lemma t_tmp_id_set_objs : forall t x, t_tmp_id (set_objs t x) = t_tmp_id t.
Proof. reflexivity. Qed.
Lemma t_tmp_content_set_objs : forall t x, t_tmp_content (set_objs t x) = t_tmp_content t.
Proof. reflexivity. Qed.
Lemma t_wt_set_objs : forall t x, t_wt (set_objs t x) = t_wt t.
Proof. reflexivity. Qed.
Lemma t_wt_unmerged_set_objs : forall t x, t_wt_unmerged (set_objs t x) = t_wt_unmerged t.
Proof. reflexivity. Qed.
Lemma t_stack_set_tmp : forall t x y, t_stack (set_tmp t x y) = t_stack t.
Proof. reflexivity. Qed.
Lemma t_stack_base_set_tmp : forall t x y, t_stack_base (set_tmp t x y) = t_stack_base t.
Proof. reflexivity. Qed.
Lemma t_branch_head_set_tmp : forall t x y, t_branch_head (set_tmp t x y) = t_branch_head t.
Proof. reflexivity. Qed.
Lemma t_opts_set_tmp : forall t x y, t_opts (set_tmp t x y) = t_opts t.
Proof. reflexivity. Qed.
Lemma t_applied_set_tmp : forall t x y, t_applied (set_tmp t x y) = t_applied t.
Proof. reflexivity. Qed.
Lemma t_unapplied_set_tmp : forall t x y, t_unapplied (set_tmp t x y) = t_unapplied t.
Proof. reflexivity. Qed.
Lemma t_hidden_set_tmp : forall t x y, t_hidden (set_tmp t x y) = t_hidden t.
Proof. reflexivity. Qed.
Lemma t_updated_set_tmp : forall t x y, t_updated (set_tmp t x y) = t_updated t.
Proof. reflexivity. Qed.
Lemma t_head_set_tmp : forall t x y, t_head (set_tmp t x y) = t_head t.
Proof. reflexivity. Qed.
Lemma t_base_set_tmp : forall t x y, t_base (set_tmp t x y) = t_base t.
Proof. reflexivity. Qed.
Lemma t_cur_tree_set_tmp : forall t x y, t_cur_tree (set_tmp t x y) = t_cur_tree t.
Proof. reflexivity. Qed.
Lemma t_objs_set_tmp : forall t x y, t_objs (set_tmp t x y) = t_objs t.
Proof. reflexivity. Qed.
Lemma t_tmp_id_set_tmp : forall t x y, t_tmp_id (set_tmp t x y) = x.
Proof. reflexivity. Qed.
Lemma t_tmp_content_set_tmp : forall t x y, t_tmp_content (set_tmp t x y) = y.
Proof. reflexivity. Qed.
Lemma t_wt_set_tmp : forall t x y, t_wt (set_tmp t x y) = t_wt t.
Proof. reflexivity. Qed.
Lemma t_wt_unmerged_set_tmp : forall t x y, t_wt_unmerged (set_tmp t x y) = t_wt_unmerged t.
Proof. reflexivity. Qed.
Lemma t_stack_set_wt : forall t x y z, t_stack (set_wt t x y z) = t_stack t.
Proof. reflexivity. Qed.
Lemma t_stack_base_set_wt : forall t x y z, t_stack_base (set_wt t x y z) = t_stack_base t.
Proof. reflexivity. Qed.
Lemma t_branch_head_set_wt : forall t x y z, t_branch_head (set_wt t x y z) = t_branch_head t.
Proof. reflexivity. Qed.
Lemma t_opts_set_wt : forall t x y z, t_opts (set_wt t x y z) = t_opts t.
Proof. reflexivity. Qed.
Lemma t_applied_set_wt : forall t x y z, t_applied (set_wt t x y z) = t_applied t.
Proof. reflexivity. Qed.
Lemma t_unapplied_set_wt : forall t x y z, t_unapplied (set_wt t x y z) = t_unapplied t.
Proof. reflexivity. Qed.
Lemma t_hidden_set_wt : forall t x y z, t_hidden (set_wt t x y z) = t_hidden t.
Proof. reflexivity. Qed.
Lemma t_updated_set_wt : forall t x y z, t_updated (set_wt t x y z) = t_updated t.
Proof. reflexivity. Qed.
Lemma t_head_set_wt : forall t x y z, t_head (set_wt t x y z) = t_head t.
Proof. reflexivity. Qed.
Lemma t_base_set_wt : forall t x y z, t_base (set_wt t x y z) = t_base t.
Proof. reflexivity. Qed.
Lemma t_cur_tree_set_wt : forall t x y z, t_cur_tree (set_wt t x y z) = x.
Proof. reflexivity. Qed.
Lemma t_objs_set_wt : forall t x y z, t_objs (set_wt t x y z) = t_objs t.
Proof. reflexivity. Qed.
Lemma t_tmp_id_set_wt : forall t x y z, t_tmp_id (set_wt t x y z) = t_tmp_id t.
Proof. reflexivity. Qed.
Lemma t_tmp_content_set_wt : forall t x y z, t_tmp_content (set_wt t x y z) = t_tmp_content t.
Proof. reflexivity. Qed.
Lemma t_wt_set_wt : forall t x y z, t_wt (set_wt t x y z) = y.
Proof. reflexivity. Qed.
Lemma t_wt_unmerged_set_wt : forall t x y z, t_wt_unmerged (set_wt t x y z) = z.
Proof. reflexivity. Qed.
Lemma t_stack_set_conflict_mode : forall t x, t_stack (set_conflict_mode t x) = t_stack t.
Proof. reflexivity. Qed.
Lemma t_stack_base_set_conflict_mode : forall t x, t_stack_base (set_conflict_mode t x) = t_stack_base t.
Proof. reflexivity. Qed.
Lemma t_branch_head_set_conflict_mode : forall t x, t_branch_head (set_conflict_mode t x) = t_branch_head t.
Proof. reflexivity. Qed.
Lemma t_applied_set_conflict_mode : forall t x, t_applied (set_conflict_mode t x) = t_applied t.
Proof. reflexivity. Qed.
Lemma t_unapplied_set_conflict_mode : forall t x, t_unapplied (set_conflict_mode t x) = t_unapplied t.
Proof. reflexivity. Qed.
Lemma t_hidden_set_conflict_mode : forall t x, t_hidden (set_conflict_mode t x) = t_hidden t.
Proof. reflexivity. Qed.
Lemma t_updated_set_conflict_mode : forall t x, t_updated (set_conflict_mode t x) = t_updated t.
Proof. reflexivity. Qed.
Lemma t_head_set_conflict_mode : forall t x, t_head (set_conflict_mode t x) = t_head t.
Proof. reflexivity. Qed.
Lemma t_base_set_conflict_mode : forall t x, t_base (set_conflict_mode t x) = t_base t.
Proof. reflexivity. Qed.
Lemma t_cur_tree_set_conflict_mode : forall t x, t_cur_tree (set_conflict_mode t x) = t_cur_tree t.
Proof. reflexivity. Qed.
Lemma t_objs_set_conflict_mode : forall t x, t_objs (set_conflict_mode t x) = t_objs t.
Proof. reflexivity. Qed.
Lemma t_tmp_id_set_conflict_mode : forall t x, t_tmp_id (set_conflict_mode t x) = t_tmp_id t.
Proof. reflexivity. Qed.
Lemma t_tmp_content_set_conflict_mode : forall t x, t_tmp_content (set_conflict_mode t x) = t_tmp_content t.
Proof. reflexivity. Qed.
Lemma t_wt_set_conflict_mode : forall t x, t_wt (set_conflict_mode t x) = t_wt t.
Proof. reflexivity. Qed.
Lemma t_wt_unmerged_set_conflict_mode : forall t x, t_wt_unmerged (set_conflict_mode t x) = t_wt_unmerged t.
Proof. reflexivity. Qed.
#[export] Hint Rewrite t_stack_set_lists t_stack_base_set_lists t_branch_head_set_lists t_opts_set_lists t_applied_set_lists t_unapplied_set_lists t_hidden_set_lists t_updated_set_lists t_head_set_lists t_base_set_lists t_cur_tree_set_lists t_objs_set_lists t_tmp_id_set_lists t_tmp_content_set_lists t_wt_set_lists t_wt_unmerged_set_lists t_stack_set_updated t_stack_base_set_updated t_branch_head_set_updated t_opts_set_updated t_applied_set_updated t_unapplied_set_updated t_hidden_set_updated t_updated_set_updated t_head_set_updated t_base_set_updated t_cur_tree_set_updated t_objs_set_updated t_tmp_id_set_updated t_tmp_content_set_updated t_wt_set_updated t_wt_unmerged_set_updated t_stack_set_head t_stack_base_set_head t_branch_head_set_head t_opts_set_head t_applied_set_head t_unapplied_set_head t_hidden_set_head t_updated_set_head t_head_set_head t_base_set_head t_cur_tree_set_head t_objs_set_head t_tmp_id_set_head t_tmp_content_set_head t_wt_set_head t_wt_unmerged_set_head t_stack_set_base t_stack_base_set_base t_branch_head_set_base t_opts_set_base t_applied_set_base t_unapplied_set_base t_hidden_set_base t_updated_set_base t_head_set_base t_base_set_base t_cur_tree_set_base t_objs_set_base t_tmp_id_set_base t_tmp_content_set_base t_wt_set_base t_wt_unmerged_set_base t_stack_set_objs t_stack_base_set_objs t_branch_head_set_objs t_opts_set_objs t_applied_set_objs t_unapplied_set_objs t_hidden_set_objs t_updated_set_objs t_head_set_objs t_base_set_objs t_cur_tree_set_objs t_objs_set_objs t_tmp_id_set_objs t_tmp_content_set_objs t_wt_set_objs t_wt_unmerged_set_objs t_stack_set_tmp t_stack_base_set_tmp t_branch_head_set_tmp t_opts_set_tmp t_applied_set_tmp t_unapplied_set_tmp t_hidden_set_tmp t_updated_set_tmp t_head_set_tmp t_base_set_tmp t_cur_tree_set_tmp t_objs_set_tmp t_tmp_id_set_tmp t_tmp_content_set_tmp t_wt_set_tmp t_wt_unmerged_set_tmp t_stack_set_wt t_stack_base_set_wt t_branch_head_set_wt t_opts_set_wt t_applied_set_wt t_unapplied_set_wt t_hidden_set_wt t_updated_set_wt t_head_set_wt t_base_set_wt t_cur_tree_set_wt t_objs_set_wt t_tmp_id_set_wt t_tmp_content_set_wt t_wt_set_wt t_wt_unmerged_set_wt t_stack_set_conflict_mode t_stack_base_set_conflict_mode t_branch_head_set_conflict_mode t_applied_set_conflict_mode t_unapplied_set_conflict_mode t_hidden_set_conflict_mode t_updated_set_conflict_mode t_head_set_conflict_mode t_base_set_conflict_mode t_cur_tree_set_conflict_mode t_objs_set_conflict_mode t_tmp_id_set_conflict_mode t_tmp_content_set_conflict_mode t_wt_set_conflict_mode t_wt_unmerged_set_conflict_mode : txn.
