(* C10 proofs, part 2: a successful `stg refresh` of the top patch leaves the work tree exactly
   as it was ([refresh_keeps_worktree_top]).  The same statement for `stg refresh -p <patch>` with
   an applied patch further down is FALSE ([refresh_keeps_worktree_refuted]): the patches above
   are pushed back onto the refreshed patch, and a patch above that sets a region back to an
   older content wins over the refreshed change without any conflict. *)
From Coq Require Import Lia List NArith Bool.
From StgV Require Import Model.StackSpec Model.CmdSpec Model.IdentSpec.
From StgV Require Import Proofs.WfBasics Proofs.WfFrame Proofs.MirrorProofs Proofs.WfTxn Proofs.WfCmd.
From StgV Require Import Proofs.IdentTxn Proofs.IdentProofs.
From Coq Require Import List.   (* after Model.CmdSpec: [length] must be List.length *)
Import ListNotations.
Local Open Scope nat_scope.

(* ---------------------------------------------------------------- the first transaction *)

(* the transaction that adds the temporary patch runs without the index / work tree *)
Lemma refresh_first_wt : forall op tmpname sj w2,
  transact (mkOpened (with_objs (op_world op)
                        (w_objs (op_world op)
                         ++ [plain [w_branch (op_world op)] (w_wt (op_world op)) 0%N sj]))
                     (op_state op) (op_base op) (op_initialized op))
           default_opts (new_applied tmpname (length (w_objs (op_world op)))) MOp = (w2, X0) ->
  w_wt w2 = w_wt (op_world op).
Proof.
  intros op tmpname sj w2 Et.
  apply transact_X0 in Et as [t1 [Ef [_ Eb]]]. apply new_applied_ok in Ef.
  apply exec_ok_shape in Eb as (th & w1' & st1 & wt' & um' & prev & objs' & so & _ & _ & El & Eco & _ & _ & Ew & _).
  apply exec_logged_fields in El as (_ & L2 & _).
  unfold exec_co in Eco. rewrite Ef in Eco.
  rewrite t_opts_set_updated, t_opts_set_lists in Eco.
  cbn [t_opts begin_txn default_opts o_set_head o_use_iw andb] in Eco.
  injection Eco as <- _. subst w2. cbn [w_wt]. rewrite L2, Ef. reflexivity.
Qed.

(* ---------------------------------------------------------------- the second transaction *)

(* a transaction under the options of refresh whose head carries the tree that is checked out
   leaves the work tree alone *)
Lemma exec_body_keeps_wt : forall apc w t th pn w',
  t_opts t = refresh_opts apc -> t_head t = None ->
  last_error (t_applied t) = Some pn -> t_patch t pn = Some th ->
  tree_eqb (t_cur_tree t) (tree_of (t_objs t) th) = true ->
  exec_body w t None MOp = (w', X0) -> w_wt w' = t_wt t.
Proof.
  intros apc w t th pn w' Ho Hh Hl Hp Htr E.
  apply exec_ok_shape in E as (th' & w1 & st1 & wt' & um' & prev & objs' & so & _ & Hth & El & Eco & _ & _ & Ew & _).
  assert (th' = th).
  { unfold t_head_oid, t_top in Hth. rewrite Hh in Hth. unfold last_error in Hl. rewrite Hl, Hp in Hth.
    now injection Hth as <-. }
  subst th'. apply exec_logged_fields in El as (_ & L2 & _).
  unfold exec_co in Eco. rewrite Ho in Eco.
  cbn [refresh_opts opts o_set_head o_use_iw o_allow_bad_head andb negb] in Eco.
  match type of Eco with (if ?c then _ else _) = _ => destruct c end; [discriminate|].
  unfold checkout at 1 in Eco. rewrite Htr in Eco.
  cbn [refresh_opts opts o_discard_changes o_conflict_mode negb andb] in Eco.
  destruct (w_unmerged w1);
    [destruct (checkout _ _ _ _ _ _ _) as [[? ?]|]; discriminate|]. injection Eco as <- _.
  subst w'. cbn [w_wt]. exact L2.
Qed.

Lemma refresh_second_wt : forall w2 so s2 A tmpname tmpc pn pc w',
  Inv w2 -> w_stack w2 = Some so -> state_of (w_objs w2) so = Some s2 ->
  w_branch w2 = tmpc ->
  s_applied s2 = A ++ [tmpname] -> last_error A = Some pn ->
  pm_get (s_patches s2) tmpname = Some tmpc -> pm_get (s_patches s2) pn = Some pc ->
  match open_stack PAllow w2 with
  | None => err2 w2
  | Some op2 => transact op2 (refresh_opts (w_apc (op_world op2))) (refresh_absorb pn tmpname) MOp
  end = (w', X0) ->
  w_wt w' = w_wt w2.
Proof.
  intros w2 so s2 A tmpname tmpc pn pc w' Hi Hs Es Hbr Ha Hl Htn Hpn E.
  destruct (open_allow_ok w2 so s2 Hi Hs Es) as [b Eo]. rewrite Eo in E.
  pose proof Hi as [_ [Hst _]]. destruct (Hst so s2 Es) as [[Hnd _] _].
  unfold all_of in Hnd. rewrite Ha in Hnd.
  apply NoDup_app_iff in Hnd as [Hnd1 [_ Hdis]]. pose proof Hnd1 as HndA1.
  apply NoDup_app_iff in Hnd1 as [_ [_ HdA]].
  assert (HA : ~ In tmpname A) by (intros Hin; apply (HdA tmpname Hin); now left).
  assert (HUH : ~ In tmpname (s_unapplied s2 ++ s_hidden s2)).
  { apply Hdis. apply in_or_app. right. now left. }
  assert (HU : ~ In tmpname (s_unapplied s2)) by (intros Hin; apply HUH; apply in_or_app; now left).
  assert (HH : ~ In tmpname (s_hidden s2)) by (intros Hin; apply HUH; apply in_or_app; now right).
  assert (HpA : In pn A) by (now apply last_error_In in Hl).
  assert (Hne : pn <> tmpname) by (intros ->; contradiction).
  assert (Hne' : name_eqb tmpname pn = false) by (apply name_eqb_neq; congruence).
  unfold transact in E. cbn [op_initialized negb] in E.
  set (op2 := mkOpened _ _ _ _) in E. set (t := begin_txn op2 (refresh_opts _)) in E.
  destruct (last_error_snoc _ _ Hl) as [l0 Hl0].
  rewrite (refresh_absorb_top pn tmpname t l0) in E;
    [|change (t_applied t) with (s_applied s2); now rewrite Ha, Hl0
     |change (t_applied t) with (s_applied s2); rewrite Ha; exact HndA1
     |reflexivity|reflexivity].
  change (w_wt w2) with (t_wt t).
  destruct (tree_eqb (tree_of (w_objs w2) tmpc) (tree_of (w_objs w2) pc)) eqn:Etr.
  - rewrite (refresh_body_same pn tmpname t pc tmpc A Hpn Htn Etr Ha HA HU HH) in E.
    set (tf := set_updated _ _) in E. rewrite execute_eq in E.
    apply (exec_body_keeps_wt (w_apc (op_world op2)) _ tf pc pn) in E; [exact E|reflexivity|reflexivity|exact Hl| |].
    + unfold tf. rewrite t_patch_upd. cbn [t_updated t begin_txn up_set up_remove up_get].
      rewrite Hne'. exact Hpn.
    + unfold tf. cbn. rewrite Hbr. exact Etr.
  - rewrite (refresh_body_new pn tmpname t pc tmpc A Hpn Htn Hne Etr Ha HA HU HH) in E.
    set (c := refreshed (t_objs t) pc (tree_of (t_objs t) tmpc)) in E.
    set (tf := set_updated _ _) in E. rewrite execute_eq in E.
    assert (Hobjs : t_objs tf = w_objs w2 ++ [c]) by reflexivity.
    assert (Hup : t_updated tf = [(pn, Some (length (w_objs w2))); (tmpname, None)]).
    { unfold tf. rewrite t_updated_set_updated. cbn [t_updated t begin_txn].
      unfold up_set. cbn [up_remove]. now rewrite Hne'. }
    apply (exec_body_keeps_wt (w_apc (op_world op2)) _ tf (length (w_objs w2)) pn) in E;
      [exact E|reflexivity|reflexivity|exact Hl| |].
    + unfold t_patch. rewrite Hup. cbn [up_get]. now rewrite name_eqb_refl.
    + rewrite Hobjs. unfold tree_of at 1. rewrite get_put_new. cbn [c refreshed plain c_tree].
      change (t_cur_tree tf) with (tree_of (w_objs w2) (w_branch w2)). rewrite Hbr.
      apply tree_eqb_refl.
Qed.

(* ---------------------------------------------------------------- the top patch *)

Lemma refresh_keeps_worktree_top :
  forall lower_s, LowerOK lower_s ->
  forall w w' s pn,
    Inv w -> w_stack w <> None -> cur_state w = Some s ->
    refresh_target s None = Some pn -> In pn (s_applied s) ->
    step lower_s w (CRefresh None) = (w', X0) ->
    w_wt w' = w_wt w.
Proof.
  intros lower_s _ w w' s pn0 Hi _ _ _ _ E. cbn [step] in E. rewrite run_refresh_eq in E.
  destruct (open_stack PAllow w) as [op|] eqn:Eo; [|discriminate].
  pose proof (open_ok _ _ _ Hi Eo) as Hok. cbv zeta in E.
  destruct (negb (head_top_ok op)); [discriminate|].
  destruct (last_error (s_applied (op_state op))) as [pn|] eqn:El; [|discriminate].
  destruct (w_unmerged (op_world op)) eqn:Eu; [discriminate|].
  unfold put in E. cbv beta iota zeta in E.
  set (tmpname := match uniquify s_refresh_temp [] (all_of (op_state op)) with
                  | UOk n => n | UFuel => s_refresh_temp end) in *.
  pose proof Hok as [Hiw [Hs Hb]]. pose proof Hs as [Hn [_ [Hd [Hp _]]]].
  assert (Hnm : names_ok (tmpname :: all_of (op_state op))).
  { apply uniquify_names_ok; [exact Hn|exact refresh_temp_valid]. }
  match type of E with match ?tr with _ => _ end = _ => destruct tr as [w2 x2] eqn:Et end.
  destruct x2; try discriminate.
  destruct (refresh_first op tmpname (List.app s_refresh_of pn) w2 Hok Eu Hnm Et)
    as (so & s2 & Hi2 & Hs2 & Es2 & _ & Hbr2 & _ & _ & Ha2 & Hpm2 & _ & Hini).
  pose proof (refresh_first_wt op tmpname (List.app s_refresh_of pn) w2 Et) as Hwt2.
  destruct (open_allow_init w op Eo Hini) as [_ [_ Hwt]].
  assert (HpnA : In pn (all_of (op_state op))).
  { unfold all_of. apply in_or_app. left. now apply last_error_In in El. }
  destruct (pm_get (s_patches (op_state op)) pn) as [pc|] eqn:Epc; [|now apply Hd in HpnA].
  assert (Htmp : ~ In tmpname (all_of (op_state op))).
  { destruct Hnm as [Hnd _]. now inversion Hnd. }
  assert (Hne' : name_eqb tmpname pn = false).
  { apply name_eqb_neq. intros ->. contradiction. }
  assert (Hpm_tn : pm_get (s_patches s2) tmpname = Some (length (w_objs (op_world op)))).
  { now rewrite Hpm2, name_eqb_refl. }
  assert (Hpm_pn : pm_get (s_patches s2) pn = Some pc) by (now rewrite Hpm2, Hne').
  rewrite (refresh_second_wt w2 so s2 (s_applied (op_state op)) tmpname (length (w_objs (op_world op)))
             pn pc w' Hi2 Hs2 Es2 Hbr2 Ha2 El Hpm_tn Hpm_pn E).
  now rewrite Hwt2, Hwt.
Qed.

(* ---------------------------------------------------------------- further down: refuted *)

(* p0 touches region 3; p1 sets region 0 to 3; p2 sets it back to 1; the work tree sets it to 3
   again.  `stg refresh -p p0` succeeds (exit 0): p0 now carries region 0 = 3, p1 is pushed back
   as an empty patch, and p2 - still "region 0: 3 -> 1" - applies cleanly.  The work tree ends
   with region 0 = 1: the local change is in p0 but no longer in the work tree. *)
Definition rk_lower (s : str) : str := s.
Definition rk_p0 : str := [112; 48]%N.
Definition rk_p1 : str := [112; 49]%N.
Definition rk_p2 : str := [112; 50]%N.

Definition rk_cmds : list cmd :=
  [CInit; CNew rk_p0 1 [120]%N; GEdit 3 2; CRefresh None;
   CNew rk_p1 2 [121]%N; GEdit 0 3; CRefresh None;
   CNew rk_p2 3 [122]%N; GEdit 0 1; CRefresh None;
   GEdit 0 3].

Definition rk_world : world :=
  run rk_lower (init_world [1; 1; 1; 1; 1; 1; 1; 1; 1; 0; 0; 0]%N) rk_cmds.

Lemma rk_lower_ok : LowerOK rk_lower.
Proof. intros s H. exact H. Qed.

Lemma rk_world_inv : Inv rk_world.
Proof.
  apply (run_inv rk_lower rk_lower_ok); [reflexivity|apply init_inv].
Qed.

Lemma refresh_keeps_worktree_refuted :
  ~ (forall lower_s, LowerOK lower_s ->
     forall w p w' s pn,
       Inv w -> w_stack w <> None -> cur_state w = Some s ->
       refresh_target s p = Some pn -> In pn (s_applied s) ->
       step lower_s w (CRefresh p) = (w', X0) ->
       w_wt w' = w_wt w).
Proof.
  intros H.
  assert (Hs : exists s, cur_state rk_world = Some s /\ refresh_target s (Some rk_p0) = Some rk_p0
                         /\ In rk_p0 (s_applied s)).
  { eexists. split; [vm_compute; reflexivity|]. split; [vm_compute; reflexivity|].
    vm_compute. left. reflexivity. }
  destruct Hs as (s & Hc & Ht & Hin).
  specialize (H rk_lower rk_lower_ok rk_world (Some rk_p0)
                (fst (step rk_lower rk_world (CRefresh (Some rk_p0)))) s rk_p0
                rk_world_inv).
  assert (Hst : w_stack rk_world <> None) by (vm_compute; discriminate).
  assert (Hx : step rk_lower rk_world (CRefresh (Some rk_p0))
               = (fst (step rk_lower rk_world (CRefresh (Some rk_p0))), X0)) by (vm_compute; reflexivity).
  assert (Hneq : w_wt (fst (step rk_lower rk_world (CRefresh (Some rk_p0)))) <> w_wt rk_world)
    by (vm_compute; discriminate).
  exact (Hneq (H Hst Hc Ht Hin Hx)).
Qed.
