(* make: the derived name is always valid (no panic) and bounded. *)
From StgV Require Import Model.Chars Model.Name Model.NameSpec.
From StgV Require Import Proofs.CharsProofs Proofs.ValidateProofs.
From Coq Require Import Lia ZifyBool PeanoNat.

(* ---------------------------------------------------------------- sanitize *)

Lemma emit_ok : forall c r,
  okchar c = true -> forallb okchar r = true -> no_dotdot r = true ->
  (c =? ch_dot) && starts_dot r = false ->
  forallb okchar (c :: r) = true /\ no_dotdot (c :: r) = true.
Proof.
  intros c r H1 H2 H3 H4. cbn [forallb]. rewrite no_dotdot_cons, H1, H2, H3, H4. auto.
Qed.

Lemma sanitize_inv : forall s prev,
  forallb okchar (sanitize prev s) = true /\ no_dotdot (sanitize prev s) = true
  /\ (prev = ch_dot -> starts_dot (sanitize prev s) = false).
Proof.
  assert (Hdash : forall r prev,
     forallb okchar r = true /\ no_dotdot r = true /\ (ch_dash = ch_dot -> starts_dot r = false) ->
     forallb okchar (ch_dash :: r) = true /\ no_dotdot (ch_dash :: r) = true
     /\ (prev = ch_dot -> starts_dot (ch_dash :: r) = false)).
  { intros r prev [H1 [H2 _]].
    destruct (emit_ok ch_dash r) as [H4 H5]; auto. }
  induction s as [|c s IH]; intros prev; [cbn; auto|].
  cbn [sanitize].
  destruct (is_whitespace c || is_control c) eqn:E1.
  { destruct (negb (prev =? ch_dash)); [apply Hdash|]; apply IH. }
  destruct (is_ascii_alnum c || (c =? ch_uscore) || negb (is_ascii c)) eqn:E2.
  { destruct (IH c) as [H1 [H2 _]].
    assert (Hok : okchar c = true) by (revert E1 E2; charlia).
    assert (Hnd : c =? ch_dot = false) by (revert E2; charlia).
    assert (Hp : (c =? ch_dot) && starts_dot (sanitize c s) = false) by now rewrite Hnd.
    destruct (emit_ok c (sanitize c s) Hok H1 H2 Hp) as [H4 H5].
    split; [exact H4|]. split; [exact H5|]. intros _. cbn [starts_dot]. exact Hnd. }
  destruct ((c =? ch_dash) || (c =? ch_dot)) eqn:E3.
  { destruct (negb (prev =? ch_dash) && negb (prev =? ch_dot)) eqn:E4; [|apply IH].
    destruct (IH c) as [H1 [H2 H3]].
    assert (Hok : okchar c = true) by (revert E3; charlia).
    assert (Hp : (c =? ch_dot) && starts_dot (sanitize c s) = false).
    { destruct (c =? ch_dot) eqn:E5; [|reflexivity]. apply N.eqb_eq in E5.
      now rewrite (H3 E5). }
    destruct (emit_ok c (sanitize c s) Hok H1 H2 Hp) as [H4 H5].
    split; [exact H4|]. split; [exact H5|]. intros ->.
    vm_compute in E4. discriminate E4. }
  destruct (negb (prev =? ch_dash) && negb (prev =? ch_dot)); [apply Hdash|]; apply IH.
Qed.

Lemma sanitize_clean : forall s, clean (sanitize 0 s) = true.
Proof.
  intros s. destruct (sanitize_inv s 0) as [H1 [H2 _]]. unfold clean. now rewrite H1, H2.
Qed.

(* ---------------------------------------------------------------- the strip loop *)

Lemma strip_round_seg : forall s, seg (strip_round s) s.
Proof.
  intros s. unfold strip_round.
  eapply seg_trans; [apply trim_by_seg|apply trim_end_matches_seg].
Qed.

Lemma strip_round_fix : forall s,
  strip_round s = s ->
  ends_with s_dotlock s = false /\ head_fails is_dash_or_dot s /\ last_fails is_dash_or_dot s.
Proof.
  intros s H. unfold strip_round in H.
  pose proof (trim_end_matches_seg s_dotlock s) as S1.
  pose proof (trim_by_seg is_dash_or_dot (trim_end_matches_str s_dotlock s)) as S2.
  rewrite H in S2.
  assert (E : trim_end_matches_str s_dotlock s = s).
  { apply seg_len_eq; [exact S1|]. apply seg_length in S1. apply seg_length in S2. lia. }
  rewrite E in H. split; [|split].
  - destruct (ends_with s_dotlock s) eqn:Ee; [|reflexivity].
    apply trim_end_matches_shortens in Ee; [|discriminate]. rewrite E in Ee. lia.
  - now apply trim_by_fix_head.
  - now apply trim_by_fix_last.
Qed.

Lemma strip_loop_spec : forall fuel s,
  (length s < fuel)%nat ->
  seg (strip_loop fuel s) s /\ strip_round (strip_loop fuel s) = strip_loop fuel s.
Proof.
  induction fuel as [|fuel IH]; intros s Hf; [lia|]. cbn [strip_loop].
  pose proof (strip_round_seg s) as Hs.
  destruct (Nat.eqb (length (strip_round s)) (length s)) eqn:E.
  - apply Nat.eqb_eq in E. apply seg_len_eq in E; [|exact Hs]. rewrite E.
    split; [apply seg_refl|exact E].
  - apply Nat.eqb_neq in E. pose proof (seg_length _ _ Hs) as Hl.
    destruct (IH (strip_round s)) as [H1 H2]; [lia|].
    split; [eapply seg_trans; eauto|exact H2].
Qed.

Lemma strip_all_spec : forall s,
  seg (strip_all s) s /\ strip_round (strip_all s) = strip_all s.
Proof. intros s. apply strip_loop_spec. lia. Qed.

(* ---------------------------------------------------------------- good names *)

Definition good (r : str) : Prop := clean r = true /\ r <> [] /\ strip_round r = r.

Lemma good_validate : forall r, good r -> validate r = true.
Proof.
  intros r [Hc [Hne Hfix]]. apply strip_round_fix in Hfix as [He [Hh Hl]].
  unfold clean in Hc. apply andb_true_iff in Hc as [Hok Hdd].
  destruct r as [|c t]; [congruence|]. unfold validate.
  assert (Hc0 : c =? ch_dot = false) by (cbn in Hh; revert Hh; charlia).
  rewrite Hc0, He. cbn [negb andb]. rewrite clean_validate_loop; auto.
  - cbn [andb]. destruct (str_eqb (c :: t) s_base) eqn:E1.
    { apply str_eqb_eq in E1. rewrite E1 in Hok. discriminate Hok. }
    destruct (str_eqb (c :: t) s_at) eqn:E2; [|reflexivity].
    apply str_eqb_eq in E2. rewrite E2 in Hok. discriminate Hok.
  - intros u Hu. unfold last_fails in Hl. rewrite Hu, rev_app_distr in Hl.
    cbn in Hl. discriminate Hl.
Qed.

Lemma good_unescape : forall r, good r -> unescape_dash r = r.
Proof.
  intros r [Hc _]. unfold clean in Hc. apply andb_true_iff in Hc as [Hok _].
  destruct r as [|b [|d rest]]; try reflexivity. cbn [unescape_dash].
  cbn [forallb] in Hok. apply andb_true_iff in Hok as [Hb _].
  apply okchar_no_bslash in Hb. apply N.eqb_neq in Hb. now rewrite Hb.
Qed.

Lemma good_from_str : forall r, good r -> from_str r = Some r.
Proof.
  intros r H. unfold from_str. rewrite (good_unescape _ H), (good_validate _ H). reflexivity.
Qed.

Lemma good_patch : good s_patch.
Proof. split; [|split]; [vm_compute; reflexivity|discriminate|vm_compute; reflexivity]. Qed.

Definition or_patch (s : str) : str := match s with [] => s_patch | x :: l => x :: l end.

Lemma strip_all_good : forall s, clean s = true -> good (or_patch (strip_all s)).
Proof.
  intros s Hc. destruct (strip_all_spec s) as [H1 H2].
  destruct (strip_all s) as [|c t] eqn:E; [apply good_patch|]. cbn [or_patch].
  split; [|split]; [|discriminate|exact H2]. eapply seg_clean; eauto.
Qed.

(* ---------------------------------------------------------------- words, shorten *)

Lemma split_on_aux_seg : forall sep s cur w,
  In w (split_on_aux sep s cur) -> seg w (rev cur ++ s).
Proof.
  intros sep. induction s as [|c s IH]; intros cur w H; cbn [split_on_aux] in H.
  - destruct H as [<-|[]]. apply seg_prefix.
  - destruct (c =? sep).
    + destruct H as [<-|H]; [apply seg_prefix|].
      apply IH in H. cbn [rev app] in H. eapply seg_trans; [exact H|].
      exists (rev cur ++ [c]), []. now rewrite app_nil_r, <- app_assoc.
    + apply IH in H. cbn [rev] in H. now rewrite <- app_assoc in H.
Qed.

Lemma split_on_aux_nosep : forall sep s cur w,
  In w (split_on_aux sep s cur) ->
  forallb (fun x => negb (x =? sep)) cur = true ->
  forallb (fun x => negb (x =? sep)) w = true.
Proof.
  intros sep. induction s as [|c s IH]; intros cur w H Hcur; cbn [split_on_aux] in H.
  - destruct H as [<-|[]]. rewrite forallb_forall in *. intros x Hx. apply Hcur.
    now apply in_rev.
  - destruct (c =? sep) eqn:E.
    + destruct H as [<-|H].
      * rewrite forallb_forall in *. intros x Hx. apply Hcur. now apply in_rev.
      * eapply IH; [exact H|reflexivity].
    + eapply IH; [exact H|]. cbn [forallb]. now rewrite E, Hcur.
Qed.

Lemma words_In : forall c w,
  In w (words c) ->
  w <> [] /\ exists p, In p (split_on ch_dash c) /\ w = trim_by is_dot p.
Proof.
  intros c w H. unfold words in H. apply filter_In in H as [H1 H2].
  apply in_map_iff in H1 as [p [Hp1 Hp2]]. split; [|eauto].
  destruct w; [discriminate|discriminate].
Qed.

Lemma words_clean : forall c w, clean c = true -> In w (words c) -> clean w = true.
Proof.
  intros c w Hc H. apply words_In in H as [_ [p [Hp ->]]].
  eapply seg_clean; [|exact Hc]. eapply seg_trans; [apply trim_by_seg|].
  apply split_on_aux_seg in Hp. exact Hp.
Qed.

Lemma words_head : forall c w,
  In w (words c) -> exists c0 t, w = c0 :: t /\ is_dash_or_dot c0 = false.
Proof.
  intros c w H. apply words_In in H as [Hne [p [Hp Hw]]].
  destruct w as [|c0 t]; [congruence|]. exists c0, t. split; [reflexivity|].
  pose proof (trim_by_head is_dot p) as Hh. rewrite <- Hw in Hh. cbn in Hh.
  pose proof (split_on_aux_nosep _ _ _ _ Hp eq_refl) as Hns.
  rewrite forallb_forall in Hns. specialize (Hns c0).
  assert (Hin : In c0 p).
  { eapply seg_In; [apply (trim_by_seg is_dot)|]. rewrite <- Hw. now left. }
  apply Hns in Hin. unfold is_dash_or_dot. unfold is_dot in Hh. rewrite Hh.
  apply negb_true_iff in Hin. now rewrite Hin.
Qed.

Lemma take_words_clean : forall l ws short,
  clean short = true -> (forall w, In w ws -> clean w = true) ->
  clean (take_words l short ws) = true.
Proof.
  intros l. induction ws as [|w ws IH]; intros short Hs Hws; cbn [take_words]; [exact Hs|].
  destruct (utf8_len short + 1 + utf8_len w <=? l); [|exact Hs].
  apply IH.
  - apply clean_app_mid; [reflexivity|discriminate|exact Hs|]. apply Hws. now left.
  - intros w' Hw'. apply Hws. now right.
Qed.

Lemma take_words_bound : forall l ws short,
  take_words l short ws = short \/ utf8_len (take_words l short ws) <= l.
Proof.
  intros l. induction ws as [|w ws IH]; intros short; cbn [take_words]; [now left|].
  destruct (utf8_len short + 1 + utf8_len w <=? l) eqn:E; [|now left]. right.
  destruct (IH (short ++ ch_dash :: w)) as [H|H]; [|exact H].
  rewrite H, utf8_len_app. cbn [utf8_len]. change (utf8_width ch_dash) with 1. lia.
Qed.

Lemma take_words_prefix : forall l ws short, exists t, take_words l short ws = short ++ t.
Proof.
  intros l. induction ws as [|w ws IH]; intros short; cbn [take_words].
  - exists []. now rewrite app_nil_r.
  - destruct (utf8_len short + 1 + utf8_len w <=? l).
    + destruct (IH (short ++ ch_dash :: w)) as [t Ht]. rewrite Ht, <- app_assoc. eauto.
    + exists []. now rewrite app_nil_r.
Qed.

Lemma shorten_clean : forall l c, clean c = true -> clean (shorten l c) = true.
Proof.
  intros l c Hc. unfold shorten. destruct (words c) as [|w ws] eqn:E; [reflexivity|].
  apply take_words_clean.
  - apply (words_clean c); [exact Hc|]. rewrite E. now left.
  - intros w' Hw'. apply (words_clean c); [exact Hc|]. rewrite E. now right.
Qed.

Lemma shorten_bound : forall l c,
  shorten l c = first_word c \/ utf8_len (shorten l c) <= l.
Proof.
  intros l c. unfold shorten, first_word. destruct (words c) as [|w ws]; cbn [hd].
  - now left.
  - apply take_words_bound.
Qed.

Lemma shorten_head : forall l c,
  exists c0 t, shorten l c = c0 :: t /\ is_dash_or_dot c0 = false.
Proof.
  intros l c. unfold shorten. destruct (words c) as [|w ws] eqn:E.
  - exists 112, [97; 116; 99; 104]. split; reflexivity.
  - destruct (words_head c w) as [c0 [t [-> H]]]; [rewrite E; now left|].
    destruct (take_words_prefix l ws (c0 :: t)) as [u ->]. cbn [app]. eauto.
Qed.

(* ---------------------------------------------------------------- make_valid *)

Definition make_final (lower_s : str -> str) (raw : str) (lower : bool) (limit : option N) : str :=
  let candidate := make_candidate lower_s raw lower in
  let truncate :=
    match limit with
    | Some l => (0 <? l) && (l <? utf8_len candidate)
    | None => false
    end in
  if truncate then
    or_patch (strip_all (shorten (match limit with Some l => l | None => 0 end) candidate))
  else candidate.

Lemma make_eq : forall lower_s raw lower limit,
  make lower_s raw lower limit =
  match from_str (make_final lower_s raw lower limit) with Some n => Ok n | None => Panic end.
Proof. reflexivity. Qed.

Lemma candidate_good : forall lower_s, LowerOK lower_s ->
  forall raw lower, good (make_candidate lower_s raw lower).
Proof.
  intros lower_s HL raw lower. unfold make_candidate.
  change (good (or_patch (strip_all
    (if lower then lower_s (sanitize 0 (make_base raw)) else sanitize 0 (make_base raw))))).
  apply strip_all_good. destruct lower; [apply HL|]; apply sanitize_clean.
Qed.

Lemma final_good : forall lower_s, LowerOK lower_s ->
  forall raw lower limit, good (make_final lower_s raw lower limit).
Proof.
  intros lower_s HL raw lower limit. unfold make_final.
  pose proof (candidate_good lower_s HL raw lower) as Hg.
  destruct (match limit with Some l => (0 <? l) && (l <? utf8_len _) | None => false end);
    [|exact Hg].
  apply strip_all_good, shorten_clean. apply Hg.
Qed.

Theorem make_valid : forall lower_s, LowerOK lower_s ->
  forall raw lower limit, exists n, make lower_s raw lower limit = Ok n /\ validate n = true.
Proof.
  intros lower_s HL raw lower limit. pose proof (final_good lower_s HL raw lower limit) as Hg.
  exists (make_final lower_s raw lower limit). rewrite make_eq, (good_from_str _ Hg).
  split; [reflexivity|now apply good_validate].
Qed.

(* ---------------------------------------------------------------- make_bounded *)

Lemma strip_prefix_rep_nil : forall fuel s,
  strip_prefix_rep fuel (rev s_dotlock) s = [] -> s = [] \/ exists u, s = u ++ [ch_dot].
Proof.
  induction fuel as [|fuel IH]; intros s H; cbn [strip_prefix_rep] in H; [now left|].
  change (rev s_dotlock) with [107; 99; 111; 108; 46] in *.
  destruct (starts_with [107; 99; 111; 108; 46] s) eqn:E; [|now left].
  apply starts_with_iff in E as [t ->]. right.
  change (length [107; 99; 111; 108; 46]) with 5%nat in H. cbn [skipn app] in H.
  apply IH in H as [->|[u ->]].
  - exists [107; 99; 111; 108]. reflexivity.
  - exists ([107; 99; 111; 108; 46] ++ u). reflexivity.
Qed.

Lemma trim_end_matches_keep_head : forall c t,
  c <> ch_dot -> exists t', trim_end_matches_str s_dotlock (c :: t) = c :: t'.
Proof.
  intros c t Hc. unfold trim_end_matches_str. cbn [rev].
  remember (strip_prefix_rep (length (c :: t)) (rev s_dotlock) (rev t ++ [c])) as sp eqn:Esp.
  pose proof (strip_prefix_rep_seg (length (c :: t)) (rev s_dotlock) (rev t ++ [c])) as Hseg.
  rewrite <- Esp in Hseg.
  destruct (rev sp) as [|x r] eqn:Er.
  - exfalso. apply (f_equal (@rev N)) in Er. rewrite rev_involutive in Er. cbn in Er.
    subst sp. apply strip_prefix_rep_nil in Er as [Er|[u Er]].
    + destruct (rev t); discriminate.
    + apply app_inj_tail in Er as [_ Er]. congruence.
  - (* sp is a suffix of rev t ++ [c] (strip only drops from the front) *)
    assert (Hsuf : exists q, rev t ++ [c] = q ++ sp).
    { rewrite Esp. clear. generalize (length (c :: t)) as fuel. generalize (rev t ++ [c]) as s.
      intros s fuel. revert s. induction fuel as [|fuel IH]; intros s; cbn [strip_prefix_rep].
      - exists []. reflexivity.
      - change (rev s_dotlock) with [107; 99; 111; 108; 46].
        destruct (starts_with [107; 99; 111; 108; 46] s) eqn:E; [|exists []; reflexivity].
        apply starts_with_iff in E as [u ->].
        change (length [107; 99; 111; 108; 46]) with 5%nat. cbn [skipn app].
        destruct (IH u) as [q Hq]. exists ([107; 99; 111; 108; 46] ++ q).
        rewrite <- app_assoc. cbn [app]. do 5 f_equal. exact Hq. }
    destruct Hsuf as [q Hq].
    apply (f_equal (@rev N)) in Hq. rewrite !rev_app_distr, rev_involutive, Er in Hq.
    cbn in Hq. injection Hq as <- _. eauto.
Qed.

Lemma strip_round_keep_head : forall c t,
  is_dash_or_dot c = false -> exists t', strip_round (c :: t) = c :: t'.
Proof.
  intros c t Hc. unfold strip_round.
  destruct (trim_end_matches_keep_head c t) as [t1 ->]; [revert Hc; charlia|].
  now apply trim_by_keep_head.
Qed.

Lemma strip_loop_keep_head : forall fuel c t,
  is_dash_or_dot c = false -> exists t', strip_loop fuel (c :: t) = c :: t'.
Proof.
  induction fuel as [|fuel IH]; intros c t Hc; cbn [strip_loop]; [eauto|].
  destruct (strip_round_keep_head c t Hc) as [t1 ->].
  destruct (Nat.eqb _ _); eauto.
Qed.

Theorem make_bounded : forall lower_s, LowerOK lower_s ->
  forall raw lower l n,
    0 < l -> make lower_s raw lower (Some l) = Ok n ->
    utf8_len n <= l \/ l < utf8_len (first_word (make_candidate lower_s raw lower)).
Proof.
  intros lower_s HL raw lower l n Hl Hmake.
  pose proof (final_good lower_s HL raw lower (Some l)) as Hg.
  rewrite make_eq, (good_from_str _ Hg) in Hmake. injection Hmake as <-.
  unfold make_final. set (cand := make_candidate lower_s raw lower).
  destruct ((0 <? l) && (l <? utf8_len cand)) eqn:Et.
  - destruct (shorten_head l cand) as [c0 [t [Hsh Hc0]]].
    pose proof (strip_all_spec (shorten l cand)) as [Hseg _].
    unfold strip_all in *. rewrite Hsh in *.
    destruct (strip_loop_keep_head (S (length (c0 :: t))) c0 t Hc0) as [t' Ht'].
    rewrite Ht' in *. cbn [or_patch]. apply seg_utf8 in Hseg.
    destruct (shorten_bound l cand) as [Hb|Hb]; rewrite Hsh in Hb.
    + rewrite <- Hb. lia.
    + left. lia.
  - left. lia.
Qed.
