(* C01 proofs, part 2: every transaction operation keeps [t_stack] and only extends the store
   (unconditionally); push_patch is split into its tree selection and its final part. *)
From Coq Require Import Lia.
From StgV Require Import Model.StackSpec Proofs.WfBasics.
From StgV Require Export Proofs.PickBasics.

Ltac fr_triv := solve [ split; [reflexivity | apply store_extends_refl] ].

Ltac frame_cases :=
  repeat match goal with
  | |- frame _ (if ?b then _ else _) => destruct b
  | |- frame _ (match ?x with _ => _ end) => destruct x
  end; cbn [frame]; try exact I; try fr_triv.

(* ---------------------------------------------------------------- push_patch, in two parts *)

(* fields that matter to well-formedness are untouched by the tree selection *)
Definition core_eq (t t2 : txn) : Prop :=
  t_stack t2 = t_stack t /\ t_stack_base t2 = t_stack_base t /\ t_applied t2 = t_applied t
  /\ t_unapplied t2 = t_unapplied t /\ t_hidden t2 = t_hidden t /\ t_updated t2 = t_updated t
  /\ t_head t2 = t_head t /\ t_base t2 = t_base t /\ t_objs t2 = t_objs t.

Lemma core_eq_fr : forall t t2, core_eq t t2 -> fr t t2.
Proof.
  intros t t2 H. destruct H as [H1 [_ [_ [_ [_ [_ [_ [_ H9]]]]]]]].
  split; [exact H1|]. rewrite H9. apply store_extends_refl.
Qed.

Definition push_sel (already_merged : bool) (t : txn) (pc old_parent new_parent : oid)
  : (txn * tree * pstatus) + tres :=
  let ptree := tree_of (t_objs t) pc in
  let otree := tree_of (t_objs t) old_parent in
  let ntree := tree_of (t_objs t) new_parent in
  if already_merged then inl (t, ntree, PSMerged)
  else if tree_eqb otree ntree then inl (t, ptree, PSNormal)
  else if tree_eqb otree ptree then inl (t, ntree, PSNormal)
  else if tree_eqb ntree ptree then inl (t, ptree, PSNormal)
  else
    let swap := match t_tmp_id t with Some c => tree_eqb c ptree | None => false end in
    let ours := if swap then ptree else ntree in
    let theirs := if swap then ntree else ptree in
    let t1 :=
      match t_tmp_id t with
      | Some c => if tree_eqb c ours then t else set_tmp t (Some ours) ours
      | None => set_tmp t (Some ours) ours
      end in
    match apply3way (t_wt t1) otree (t_tmp_content t1) theirs with
    | Some merged => inl (set_tmp t1 (Some merged) merged, merged, PSNormal)
    | None =>
        let t1 := set_tmp t1 None (t_tmp_content t1) in
        if negb (o_use_iw (t_opts t1)) then inr (THalt t1 HNoConflict)
        else if negb (o_allow_push_conflicts (t_opts t1)) then inr (THalt t1 HNoConflict)
        else
          if t_wt_unmerged t1 then inr (THalt t1 HNoConflict)
          else
            match twoway (t_cur_tree t1) ours (t_wt t1) with
            | None => inr (THalt t1 HNoConflict)
            | Some wt1 =>
                let t2 := set_wt t1 ours wt1 false in
                match merge3 otree ours theirs with
                | Some merged =>
                    match twoway ours merged wt1 with
                    | Some wt2 => inl (set_wt t2 merged wt2 false, merged, PSNormal)
                    | None => inr (THalt t2 HNoConflict)
                    end
                | None => inl (set_wt t2 ours ours true, ours, PSConflict)
                end
            end
    end.

Definition push_fin (n : name) (t2 : txn) (pc : oid) (ptree new_tree : tree)
           (new_parent old_parent : oid) (st : pstatus) : tres :=
  let needs_commit := negb (tree_eqb new_tree ptree) || negb (Nat.eqb new_parent old_parent) in
  let t3 :=
    if needs_commit then
      let '(t', o) := recommit t2 pc new_tree new_parent in
      let t'' := match st with PSConflict => set_head t' (Some o) | _ => t' end in
      set_updated t'' (up_set (t_updated t'') n (Some o))
    else t2 in
  let t4 := match st with PSConflict => set_conflict_mode t3 CAllow | _ => t3 end in
  let t5 := move_to_applied t4 n in
  match st with
  | PSConflict => THalt t5 HConflict
  | _ => TOk t5
  end.

Lemma push_sel_spec : forall am t pc op np,
  match push_sel am t pc op np with
  | inl (t2, _, _) => core_eq t t2
  | inr (THalt t2 _) => core_eq t t2
  | inr _ => False
  end.
Proof.
  intros am t pc op np. unfold push_sel.
  repeat match goal with
  | |- context [if ?b then _ else _] => destruct b
  | |- context [match t_tmp_id ?x with _ => _ end] => destruct (t_tmp_id x)
  | |- context [match apply3way ?a ?x ?y ?z with _ => _ end] => destruct (apply3way a x y z)
  | |- context [match twoway ?x ?y ?z with _ => _ end] => destruct (twoway x y z)
  | |- context [match merge3 ?x ?y ?z with _ => _ end] => destruct (merge3 x y z)
  end; repeat split; reflexivity.
Qed.

Lemma push_sel_objs : forall am t pc op np t2 tr st,
  push_sel am t pc op np = inl (t2, tr, st) -> t_objs t2 = t_objs t.
Proof.
  intros am t pc op np t2 tr st H. pose proof (push_sel_spec am t pc op np) as S.
  rewrite H in S. apply S.
Qed.

Lemma push_patch_eq : forall n am t,
  push_patch n am t =
  match t_patch t n, t_top t with
  | Some pc, Some new_parent =>
      match first_parent (t_objs t) pc with
      | None => TErr t
      | Some old_parent =>
          match push_sel am t pc old_parent new_parent with
          | inr r => r
          | inl (t2, new_tree, st) =>
              push_fin n t2 pc (tree_of (t_objs t) pc) new_tree new_parent old_parent st
          end
      end
  | _, _ => TPanic
  end.
Proof. reflexivity. Qed.

(* ---------------------------------------------------------------- frames *)

Lemma fr_pop : forall f t, fr t (fst (pop_patches f t)).
Proof. intros f t. unfold pop_patches. destruct (split_at_first f (t_applied t)). fr_triv. Qed.

Lemma fr_delete : forall f t, fr t (fst (delete_patches f t)).
Proof. intros f t. unfold delete_patches. destruct (split_at_first f (t_applied t)). fr_triv. Qed.

Lemma fr_recommit : forall t old tr par, fr t (fst (recommit t old tr par)).
Proof.
  intros t old tr par. unfold recommit, put. cbn [fst]. split; [reflexivity|].
  rewrite t_objs_set_objs. apply store_extends_put.
Qed.

Lemma fr_move : forall t n, fr t (move_to_applied t n).
Proof. intros t n. unfold move_to_applied. destruct (mem n (t_unapplied t)); [|destruct (mem n (t_hidden t))]; fr_triv. Qed.

Lemma frame_push_fin : forall n t2 pc ptree tr np op st, frame t2 (push_fin n t2 pc ptree tr np op st).
Proof.
  intros n t2 pc ptree tr np op st. unfold push_fin.
  assert (H : forall t3, fr t2 t3 ->
            frame t2 (match st with
                      | PSConflict => THalt (move_to_applied (set_conflict_mode t3 CAllow) n) HConflict
                      | _ => TOk (move_to_applied t3 n) end)).
  { intros t3 H3. destruct st; cbn [frame]; (eapply fr_trans; [exact H3|]);
      (eapply fr_trans; [|apply fr_move]); fr_triv. }
  destruct (negb (tree_eqb tr ptree) || negb (Nat.eqb np op)).
  - pose proof (fr_recommit t2 pc tr np) as Hr. destruct (recommit t2 pc tr np) as [t' o]. cbn [fst] in Hr.
    destruct st; apply H; (eapply fr_trans; [exact Hr|]); fr_triv.
  - destruct st; apply H; apply fr_refl.
Qed.

Lemma frame_push_patch : forall n am t, frame t (push_patch n am t).
Proof.
  intros n am t. rewrite push_patch_eq.
  destruct (t_patch t n) as [pc|]; [|exact I].
  destruct (t_top t) as [np|]; [|exact I].
  destruct (first_parent (t_objs t) pc) as [op|]; [|apply fr_refl].
  pose proof (push_sel_spec am t pc op np) as S.
  destruct (push_sel am t pc op np) as [[[t2 tr] st]|r].
  - eapply frame_fr; [apply core_eq_fr; exact S|apply frame_push_fin].
  - destruct r; try contradiction. cbn. now apply core_eq_fr.
Qed.

Lemma frame_push_list : forall ns m t, frame t (push_list ns m t).
Proof.
  induction ns as [|n ns IH]; intros m t; cbn [push_list]; [apply fr_refl|].
  apply frame_tbind; [apply frame_push_patch|]. intros t1 _. apply IH.
Qed.

Lemma frame_push_patches : forall ns cm t, frame t (push_patches ns cm t).
Proof.
  intros ns cm t. unfold push_patches. destruct cm.
  - destruct (check_merged_loop _ _ _ _) as [[m c] id].
    eapply frame_fr; [|apply frame_push_list]. fr_triv.
  - eapply frame_fr; [|apply frame_push_list]. fr_triv.
Qed.

Lemma frame_push_tree : forall n t, frame t (push_tree n t).
Proof.
  intros n t. unfold push_tree.
  destruct (t_patch t n) as [pc|]; [|exact I].
  destruct (t_top t) as [top|]; [|exact I].
  destruct (first_parent (t_objs t) pc) as [par|]; [|apply fr_refl].
  destruct (Nat.eqb par top).
  - destruct (mem n (t_unapplied t) || mem n (t_hidden t)); [|exact I]. apply fr_move.
  - pose proof (fr_recommit t pc (tree_of (t_objs t) pc) top) as Hr.
    destruct (recommit t pc (tree_of (t_objs t) pc) top) as [t' o]. cbn [fst] in Hr.
    match goal with |- frame _ (if ?b then _ else _) => destruct b end; [|exact I].
    cbn [frame]. eapply fr_trans; [exact Hr|]. eapply fr_trans; [|apply fr_move]. fr_triv.
Qed.

Lemma frame_push_tree_list : forall ns t, frame t (push_tree_list ns t).
Proof.
  induction ns as [|n ns IH]; intros t; cbn [push_tree_list]; [apply fr_refl|].
  apply frame_tbind; [apply frame_push_tree|]. intros t1 _. apply IH.
Qed.

Lemma frame_reorder : forall a u h t, frame t (reorder_patches a u h t).
Proof.
  intros a u h t. unfold reorder_patches. apply frame_tbind.
  - destruct a as [al|]; [|apply fr_refl].
    pose proof (fr_pop (fun n => mem n (skipn (common_prefix_len (t_applied t) al) (t_applied t))) t) as Hp.
    destruct (pop_patches _ t) as [t1 inc]. cbn [fst] in Hp.
    eapply frame_fr; [exact Hp|]. apply frame_tbind; [apply frame_push_patches|].
    intros t2 _. destruct (list_name_eqb (t_applied t2) al); [apply fr_refl|exact I].
  - intros t3 _. destruct u, h; fr_triv.
Qed.

Lemma frame_commit : forall tc t, frame t (commit_patches tc t).
Proof.
  intros tc t. unfold commit_patches. apply frame_tbind.
  - destruct (Nat.ltb _ _); [|apply fr_refl].
    match goal with |- context [pop_patches ?f t] =>
      pose proof (fr_pop f t) as Hp; destruct (pop_patches f t) as [t1 inc] end.
    cbn [fst] in Hp. eapply frame_fr; [exact Hp|]. apply frame_tbind; [apply frame_push_patches|].
    intros t2 _. apply fr_refl.
  - intros t2 _. destruct (hd_error (rev tc)) as [lastn|]; [|exact I].
    destruct (t_patch t2 lastn) as [nb|]; [|exact I].
    match goal with |- frame _ (if ?b then _ else _) => destruct b end; [exact I|].
    eapply frame_fr; [|apply frame_push_patches]. fr_triv.
Qed.

Lemma frame_uncommit : forall ps t, frame t (uncommit_patches ps t).
Proof. intros ps t. unfold uncommit_patches. fr_triv. Qed.

Lemma frame_hide : forall l t, frame t (hide_patches l t).
Proof. intros l t. apply frame_reorder. Qed.

Lemma frame_unhide : forall l t, frame t (unhide_patches l t).
Proof. intros l t. apply frame_reorder. Qed.

Lemma frame_rename : forall old new t, frame t (rename_patch old new t).
Proof. intros old new t. unfold rename_patch. frame_cases. Qed.

Lemma frame_new_applied : forall n o t, frame t (new_applied n o t).
Proof. intros n o t. unfold new_applied. frame_cases. Qed.

Lemma frame_update_patch : forall n o t, frame t (update_patch n o t).
Proof. intros n o t. unfold update_patch. frame_cases. Qed.

Lemma frame_repair_appliedness : forall a u h t, frame t (repair_appliedness a u h t).
Proof. intros a u h t. unfold repair_appliedness. frame_cases. Qed.

Lemma frame_reset : forall s t, frame t (reset_to_state s t).
Proof. intros s t. unfold reset_to_state. frame_cases. Qed.

Lemma frame_reset_partially : forall s only t, frame t (reset_to_state_partially s only t).
Proof.
  intros s only t. unfold reset_to_state_partially.
  match goal with |- context [pop_patches ?f t] =>
    pose proof (fr_pop f t) as Hp; destruct (pop_patches f t) as [t1 inc1] end.
  cbn [fst] in Hp.
  match goal with |- context [delete_patches ?f t1] =>
    pose proof (fr_delete f t1) as Hd; destruct (delete_patches f t1) as [t2 inc2] end.
  cbn [fst] in Hd.
  eapply frame_fr; [|apply frame_push_patches].
  eapply fr_trans; [exact Hp|]. eapply fr_trans; [exact Hd|].
  generalize (filter (fun n => mem n only) (all_of s)). intros l. clear Hp Hd.
  revert t2. induction l as [|n l IH]; intros t2; cbn [fold_left]; [apply fr_refl|].
  eapply fr_trans; [|apply IH].
  destruct (mem n (t_all t)).
  - destruct (mem n _); [apply fr_refl|]. destruct (pm_get (s_patches s) n); [fr_triv|apply fr_refl].
  - destruct (mem n (s_hidden s)); destruct (pm_get (s_patches s) n); fr_triv.
Qed.

(* ---------------------------------------------------------------- execute, in parts *)

Definition exec_w0 (w : world) (t : txn) : world :=
  mkWorld (t_objs t) (w_branch w) (w_stack w) (w_prefs w) (t_wt t) (t_wt_unmerged t) (w_base w) (w_apc w).

Definition exec_logged (w : world) (t : txn) : option (world * sstate) :=
  if Nat.eqb (s_head (t_stack t)) (w_branch w) then Some (exec_w0 w t, t_stack t)
  else log_external_mods (exec_w0 w t) (t_stack t).

Definition exec_co (t : txn) (trans_head : oid) (w1 : world) (st1 : sstate)
  : (tree * bool) + (tree * bool * exitc) :=
  let trans_head_tree := tree_of (t_objs t) trans_head in
  let trans_top := hd_error (rev (t_applied t)) in
  let stack_top := hd_error (rev (s_applied (t_stack t))) in
  let o := t_opts t in
  if o_set_head o && o_use_iw o then
    if negb (o_allow_bad_head o)
       && negb (match s_applied st1 with [] => true | _ => false end)
       && negb (Nat.eqb (s_top st1) (w_branch w1))
    then inr (w_wt w1, w_unmerged w1, X2)
    else
      match checkout o stack_top trans_top (w_wt w1) (w_unmerged w1)
                     (t_cur_tree t) trans_head_tree with
      | Some (wt', um') => inl (wt', um')
      | None =>
          let rollback_tree := tree_of (w_objs w1) (w_branch w1) in
          match checkout o stack_top trans_top (w_wt w1) (w_unmerged w1)
                         (t_cur_tree t) rollback_tree with
          | Some (wt', um') => inr (wt', um', X2)
          | None =>
              inr (w_wt w1, w_unmerged w1,
                   if tree_eqb (t_cur_tree t) rollback_tree then X2 else X3)
          end
      end
  else inl (w_wt w1, w_unmerged w1).

Definition exec_prefs (prefs : list (name * oid)) (u : upd) : list (name * oid) :=
  fold_right (fun (p : name * option oid) prefs =>
                match snd p with
                | Some o' => pm_set prefs (fst p) o'
                | None => pm_remove prefs (fst p)
                end) prefs u.

Definition exec_state (t : txn) (trans_head prev : oid) (st1 : sstate) : sstate :=
  mkState (Some prev) trans_head (t_applied t) (t_unapplied t) (t_hidden t)
          (pm_apply (s_patches st1) (t_updated t)).

Definition exec_fin (t : txn) (trans_head : oid) (w1 : world) (st1 : sstate) (wt' : tree) (um' : bool)
           (halted : option halt) (msg : msgkind) : world * exitc :=
  match w_stack w1 with
  | None => (w1, X2)
  | Some prev =>
      match state_commit (w_objs w1) (exec_state t trans_head prev st1) msg with
      | None => (w1, XPanic)
      | Some (objs', so) =>
          let w2 := mkWorld objs' (if o_set_head (t_opts t) then trans_head else w_branch w1) (Some so)
                            (exec_prefs (w_prefs w1) (t_updated t)) wt' um'
                            (match t_base t with Some b => b | None => w_base w1 end) (w_apc w1) in
          match halted with
          | Some _ => (w2, X3)
          | None => (w2, X0)
          end
      end
  end.

Definition exec_consistent (t : txn) : bool :=
  forallb (fun p => match snd p with
                    | None => match pm_get (s_patches (t_stack t)) (fst p) with
                              | Some _ => true | None => false end
                    | Some _ => mem (fst p) (t_all t)
                    end) (t_updated t).

Definition exec_body (w : world) (t : txn) (halted : option halt) (msg : msgkind) : world * exitc :=
  if negb (exec_consistent t) then (w, XPanic)
  else
    match t_head_oid t with
    | None => (w, XPanic)
    | Some trans_head =>
        match exec_logged w t with
        | None => (exec_w0 w t, X2)
        | Some (w1, st1) =>
            match exec_co t trans_head w1 st1 with
            | inr (wt', um', x) =>
                (mkWorld (w_objs w1) (w_branch w1) (w_stack w1) (w_prefs w1) wt' um' (w_base w1) (w_apc w1), x)
            | inl (wt', um') => exec_fin t trans_head w1 st1 wt' um' halted msg
            end
        end
    end.

Lemma execute_eq : forall w r msg,
  execute w r msg =
  match r with
  | TPanic => (w, XPanic)
  | TErr t => (exec_w0 w t, X2)
  | TOk t => exec_body w t None msg
  | THalt t h => exec_body w t (Some h) msg
  end.
Proof. intros w [t|t h|t|] msg; reflexivity. Qed.

(* ---------------------------------------------------------------- squash *)

Lemma frame_new_unapplied : forall n o pos t, frame t (new_unapplied n o pos t).
Proof. intros n o pos t. unfold new_unapplied. frame_cases. Qed.

Lemma try_squash_fr : forall t ps meta msg t1 o, try_squash t ps meta msg = Some (t1, o) -> fr t t1.
Proof.
  intros t ps meta msg t1 o H. unfold try_squash in H.
  destruct ps as [|b rest]; [discriminate|].
  destruct (t_patch t b) as [bc|]; [|discriminate].
  destruct (squash_tree (t_objs t) t rest (tree_of (t_objs t) bc)) as [tr|]; [|discriminate].
  unfold put in H. injection H as <- _. split; [reflexivity|].
  rewrite t_objs_set_objs. apply store_extends_put.
Qed.

Lemma frame_squash_finish : forall newn o to_push sp t, frame t (squash_finish newn o to_push sp t).
Proof.
  intros newn o to_push sp t. unfold squash_finish.
  apply frame_tbind; [apply frame_new_unapplied|]. intros t1 _. apply frame_push_patches.
Qed.

Lemma frame_squash_closure : forall ps newn meta msg sp t, frame t (squash_closure ps newn meta msg sp t).
Proof.
  intros ps newn meta msg sp t. unfold squash_closure.
  destruct (try_squash t ps meta msg) as [[t1 o]|] eqn:Et.
  - apply try_squash_fr in Et.
    pose proof (fr_delete (fun n => mem n ps) t1) as Hd.
    destruct (delete_patches _ t1) as [t2 to_push]. cbn [fst] in Hd.
    eapply frame_fr; [eapply fr_trans; [exact Et|exact Hd]|]. apply frame_squash_finish.
  - pose proof (fr_pop (fun n => mem n ps) t) as Hp.
    destruct (pop_patches _ t) as [t1 to_push]. cbn [fst] in Hp.
    eapply frame_fr; [exact Hp|]. apply frame_tbind; [apply frame_push_patches|].
    intros t2 _. destruct (try_squash t2 ps meta msg) as [[t3 o]|] eqn:Et2; [|apply fr_refl].
    apply try_squash_fr in Et2.
    pose proof (fr_delete (fun n => mem n ps) t3) as Hd.
    destruct (delete_patches _ t3) as [t4 extra]. cbn [fst] in Hd.
    destruct extra; [|exact I].
    eapply frame_fr; [eapply fr_trans; [exact Et2|exact Hd]|]. apply frame_squash_finish.
Qed.

(* the world of run_squash is the one its transaction returned *)
Lemma squash_exit_fst : forall (p : world * exitc) (b : bool),
  fst (let '(w', x) := p in if b then (w', X3) else (w', x)) = fst p.
Proof. intros [w' x] b. destruct b; reflexivity. Qed.

(* ---------------------------------------------------------------- pick *)

Lemma frame_pick_body : forall pn o na t, frame t (pick_body pn o na t).
Proof.
  intros pn o na t. unfold pick_body. apply frame_tbind; [apply frame_new_unapplied|].
  intros t1 _. destruct na; [apply fr_refl|apply frame_push_patches].
Qed.

(* ---------------------------------------------------------------- refresh *)

Lemma fr_refresh_commit : forall t pc tr, fr t (fst (refresh_commit t pc tr)).
Proof.
  intros t pc tr. unfold refresh_commit. destruct (tree_eqb _ _); cbn [fst]; [apply fr_refl|].
  unfold put. cbn [fst]. split; [reflexivity|]. rewrite t_objs_set_objs. apply store_extends_put.
Qed.

Lemma frame_refresh_absorb : forall pn tmpname t, frame t (refresh_absorb pn tmpname t).
Proof.
  intros pn tmpname t. unfold refresh_absorb. destruct (mem pn (t_applied t)).
  - cbv zeta. apply frame_tbind.
    + destruct (Nat.ltb _ _); [|apply fr_refl].
      match goal with |- context [pop_patches ?f t] =>
        pose proof (fr_pop f t) as Hp; destruct (pop_patches f t) as [t1 extra] end.
      cbn [fst] in Hp. destruct extra; [|exact I].
      eapply frame_fr; [exact Hp|apply frame_push_patches].
    + intros t1 _. destruct (t_patch t1 pn) as [pc|]; [|exact I].
      destruct (t_patch t1 tmpname) as [tc|]; [|exact I].
      destruct (last_error _) as [top|]; [|exact I].
      destruct (negb _); [exact I|].
      pose proof (fr_refresh_commit t1 pc (tree_of (t_objs t1) tc)) as H2.
      destruct (refresh_commit t1 pc _) as [t2 newc]. cbn [fst] in H2.
      pose proof (fr_delete (fun n => name_eqb n tmpname) t2) as H3.
      destruct (delete_patches _ t2) as [t3 inc]. cbn [fst] in H3.
      eapply frame_fr; [eapply fr_trans; [exact H2|exact H3]|].
      apply frame_tbind; [destruct newc; [apply frame_update_patch|apply fr_refl]|].
      intros t4 _. apply frame_push_patches.
  - pose proof (fr_pop (fun n => name_eqb n tmpname) t) as Hp.
    destruct (pop_patches _ t) as [t1 extra]. cbn [fst] in Hp.
    destruct extra; [|exact I].
    destruct (t_patch t1 pn) as [pc|]; [|exact I].
    destruct (t_patch t1 tmpname) as [tc|]; [|exact I].
    destruct (first_parent _ _) as [tpar|]; [|exact Hp].
    destruct (apply3way _ _ _ _) as [tree'|]; [|exact Hp].
    pose proof (fr_refresh_commit t1 pc tree') as H2.
    destruct (refresh_commit t1 pc tree') as [t2 newc]. cbn [fst] in H2.
    eapply frame_fr; [eapply fr_trans; [exact Hp|exact H2]|].
    apply frame_tbind; [destruct newc; [apply frame_update_patch|apply fr_refl]|].
    intros t3 _. cbn [frame]. apply fr_delete.
Qed.
