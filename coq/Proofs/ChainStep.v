(* C02 proofs, part 4: every in-scope command preserves the chain invariant. *)
From Coq Require Import List Arith Bool Lia.
From StgV Require Import Model.StackSpec Model.LocatorSpec Proofs.CharsProofs Proofs.LocatorProofs
  Proofs.ChainBasics Proofs.ChainTxn Proofs.ChainExec.
Import ListNotations.
Local Open Scope nat_scope.

(* ---------------------------------------------------------------- resolved ranges *)

Lemma parse_ranges_wf : forall l prs, parse_ranges l = Some prs -> Forall wf_range prs.
Proof.
  induction l as [|x l IH]; intros prs H; cbn in H.
  - injection H as <-. constructor.
  - destruct (parse_range x) as [r|] eqn:Er; [|discriminate].
    destruct (parse_ranges l) as [rs|]; [|discriminate]. injection H as <-.
    constructor; [now apply parsed_range_wf in Er|now apply IH].
Qed.

Lemma resolve_names_ok : forall v rc prs l,
  Forall wf_range prs -> resolve_names v rc prs = ROk l ->
  NoDup l /\ incl l (allowed v (lc_of rc)).
Proof.
  intros v rc prs l Hwf H. pose proof (ranges_sound v rc prs Hwf) as Hs.
  rewrite H in Hs. exact Hs.
Qed.

(* trivial worlds *)
Lemma cinv_same_objs : forall w w', w_objs w' = w_objs w -> CInv w -> CInv w'.
Proof. intros w w' E H. unfold CInv in *. now rewrite E. Qed.

Lemma all_of_nodup_au : forall objs s, sgood objs s -> NoDup (s_applied s ++ s_unapplied s).
Proof.
  intros objs s (H & _). unfold all_of in H. rewrite app_assoc in H. now apply nodup_app in H as [? _].
Qed.

Lemma nodup_applied_push : forall objs s ps,
  sgood objs s -> NoDup ps -> incl ps (s_unapplied s) -> NoDup (s_applied s ++ ps).
Proof.
  intros objs s ps Hg Hnd Hi. pose proof (all_of_nodup_au objs s Hg) as H.
  apply (nodup_sub_app _ _ _ _ _ H); [eapply sgood_applied_nodup; exact Hg|exact Hnd|apply incl_refl|exact Hi].
Qed.
Ltac open_cmd Hinv Hc op Eop Hok :=
  match goal with |- context [open_stack ?p ?w] =>
    destruct (open_stack p w) as [op|] eqn:Eop; [|exact Hc] end;
  let Hext := fresh "Hext" in let Hbr := fresh "Hbr" in
  destruct (open_stack_ok _ _ _ Eop Hinv Hc) as (Hok & Hext & Hbr).

Ltac triv Hc Hok := cbn [fst err2 ok0 rres_bind]; first [exact Hc | exact (oo_cinv _ Hok)].

Lemma step_push : forall w ranges number all reverse noapply settree merged keep conflicts,
  Inv w -> CInv w ->
  CInv (fst (run_push w ranges number all reverse noapply settree merged keep conflicts)).
Proof.
  intros w ranges number all reverse noapply settree merged keep conflicts Hinv Hc. unfold run_push.
  open_cmd Hinv Hc op Eop Hok. cbv zeta.
  destruct (match number with Some z => (z =? 0)%Z | None => false end); [triv Hc Hok|].
  set (s := op_state op) in *. pose proof (oo_good op Hok) as Hg. fold s in Hg.
  (* the patches to push: no duplicates, all unapplied *)
  match goal with |- CInv (fst (match ?P with inl r => r | inr l => _ end)) =>
    assert (HP : match P with inl r => CInv (fst r) | inr l => NoDup l /\ incl l (s_unapplied s) end);
    [|destruct P as [r|ps]; [exact HP|]] end.
  { destruct ranges as [rs|].
    - destruct (parse_ranges rs) as [prs|] eqn:Epr; [|triv Hc Hok].
      destruct (resolve_names (view_of s) RCUnapplied prs) as [l| |] eqn:Er; [|triv Hc Hok|triv Hc Hok].
      apply (resolve_names_ok _ _ _ _ (parse_ranges_wf _ _ Epr)) in Er. exact Er.
    - destruct (s_unapplied s) as [|u0 us] eqn:Eu; [triv Hc Hok|]. rewrite <- Eu.
      pose proof (all_of_nodup_au _ _ Hg) as Hnd. apply nodup_app in Hnd as [_ [Hnd _]].
      destruct all; [split; [exact Hnd|apply incl_refl]|].
      destruct number as [z|]; (split; [now apply nodup_firstn|intros x Hx; now apply in_firstn in Hx]). }
  destruct HP as [Hnd Hincl].
  destruct ps as [|p0 ps']; [triv Hc Hok|]. set (ps := p0 :: ps') in *.
  destruct (w_unmerged (op_world op)); [triv Hc Hok|].
  destruct (negb (head_top_ok op)); [triv Hc Hok|].
  destruct (negb keep && negb noapply && dirty (op_world op)); [triv Hc Hok|].
  set (ps2 := if reverse then rev ps else ps).
  assert (Hnd2 : NoDup ps2 /\ incl ps2 (s_unapplied s)).
  { unfold ps2. destruct reverse; [|auto]. split; [now apply NoDup_rev|].
    intros x Hx. apply Hincl. now apply in_rev. }
  destruct Hnd2 as [Hnd2 Hincl2].
  eapply transact_cinv_inv with (P := fun _ => True); [exact Hok|].
  intros t0 H0 Hh0 ->.
  assert (Hpush : NoDup (s_applied s ++ ps2)) by now apply (nodup_applied_push _ _ _ Hg).
  destruct settree.
  - eapply rinvP_weaken; [|apply push_tree_list_inv; [eassumption|eassumption|exact Hpush]]. auto.
  - destruct noapply.
    + eapply rinvP_weaken; [|apply reorder_inv; [eassumption|eassumption|discriminate]]. auto.
    + eapply rinvP_weaken; [|apply push_patches_inv; [eassumption|eassumption|exact Hpush]]. auto.
Qed.
Lemma rinvP_rinv : forall K P r, rinvP K P r -> rinv K r.
Proof. intros K P r H. unfold rinv. eapply rinvP_weaken; [|exact H]. auto. Qed.

Lemma transact_cinv_rinv : forall op o f msg,
  opened_ok op ->
  (forall t0, tinv (K0 op o) t0 -> t_head t0 = None -> t0 = begin_txn op o -> rinv (K0 op o) (f t0)) ->
  CInv (fst (transact op o f msg)).
Proof. intros op o f msg Hok Hf. now apply (transact_cinv_inv op o f msg (fun _ => True)). Qed.

Lemma reorder_some_rinv : forall K al u h t,
  tinv K t -> t_head t = None -> NoDup al -> rinv K (reorder_patches (Some al) u h t).
Proof.
  intros K al u h t H Hh Hnd. eapply rinvP_rinv. apply reorder_inv; [exact H|exact Hh|].
  intros al' E. congruence.
Qed.

Lemma step_pop : forall w ranges number all keep spill,
  Inv w -> CInv w -> CInv (fst (run_pop w ranges number all keep spill)).
Proof.
  intros w ranges number all keep spill Hinv Hc. unfold run_pop.
  open_cmd Hinv Hc op Eop Hok. cbv zeta.
  destruct (match number with Some z => (z =? 0)%Z | None => false end); [triv Hc Hok|].
  set (s := op_state op) in *. pose proof (oo_good op Hok) as Hg. fold s in Hg.
  destruct (s_applied s) as [|a0 al] eqn:Ea; [triv Hc Hok|]. rewrite <- Ea.
  match goal with |- CInv (fst (match ?P with inl r => r | inr l => _ end)) =>
    assert (HP : match P with inl r => CInv (fst r) | inr l => True end);
    [|destruct P as [r|ps]; [exact HP|]] end.
  { destruct all; [exact I|]. destruct number as [z|].
    - destruct (num_to_take z _); [exact I|triv Hc Hok].
    - destruct ranges as [rs|]; [|exact I].
      destruct (parse_ranges rs) as [prs|]; [|triv Hc Hok].
      destruct (resolve_names _ _ _); [exact I|triv Hc Hok|triv Hc Hok]. }
  destruct ps as [|p0 ps']; [triv Hc Hok|]. set (ps := p0 :: ps') in *.
  destruct (w_unmerged (op_world op)); [triv Hc Hok|].
  destruct (negb (head_top_ok op)); [triv Hc Hok|].
  destruct (negb keep && negb spill && dirty (op_world op)); [triv Hc Hok|].
  match goal with |- CInv (fst (if ?c then _ else _)) => destruct c end; [triv Hc Hok|].
  eapply transact_cinv_rinv; [exact Hok|]. intros t0 H0 Hh0 _.
  apply reorder_some_rinv; [exact H0|exact Hh0|].
  apply nodup_filter. eapply sgood_applied_nodup. exact Hg.
Qed.

Lemma step_goto : forall w loc keep merged conflicts,
  Inv w -> CInv w -> CInv (fst (run_goto w loc keep merged conflicts)).
Proof.
  intros w loc keep merged conflicts Hinv Hc. unfold run_goto.
  destruct (parse_locator loc) as [l|]; [|exact Hc].
  open_cmd Hinv Hc op Eop Hok. cbv zeta.
  set (s := op_state op) in *. pose proof (oo_good op Hok) as Hg. fold s in Hg.
  destruct (w_unmerged (op_world op)); [triv Hc Hok|].
  destruct (negb (head_top_ok op)); [triv Hc Hok|].
  destruct (negb keep && dirty (op_world op)); [triv Hc Hok|].
  destruct (resolve_constrained (view_of s) LCVisible l) as [pn| |]; [|triv Hc Hok|triv Hc Hok].
  cbn [rres_bind].
  eapply transact_cinv_rinv; [exact Hok|]. intros t0 H0 Hh0 E0.
  destruct (position (name_eqb pn) (t_applied t0)) as [pos|].
  - apply reorder_some_rinv; [exact H0|exact Hh0|].
    apply (nodup_firstn _ (S pos)). apply (ti_nodup _ _ H0).
  - destruct (position (name_eqb pn) (t_unapplied t0)) as [pos|]; [|exact I].
    eapply rinvP_rinv. apply push_patches_inv; [exact H0|exact Hh0|].
    subst t0. cbn [begin_txn t_applied t_unapplied].
    apply (nodup_applied_push _ _ _ Hg).
    + apply (nodup_firstn _ (S pos)). pose proof (all_of_nodup_au _ _ Hg) as Hnd. now apply nodup_app in Hnd as [_ [? _]].
    + intros x Hx. now apply (in_firstn _ (S pos)) in Hx.
Qed.

Lemma nodup_filter_notin_app : forall (l ps : list name),
  NoDup l -> NoDup ps -> NoDup (filter (fun n => negb (mem n ps)) l ++ ps).
Proof.
  intros l ps Hl Hp. apply nodup_app. repeat split; [now apply nodup_filter|exact Hp|].
  intros x Hx. apply filter_In in Hx as [_ Hx]. apply negb_true_iff in Hx. now apply mem_false.
Qed.

Lemma step_float : forall w ranges noapply keep,
  Inv w -> CInv w -> CInv (fst (run_float w ranges noapply keep)).
Proof.
  intros w ranges noapply keep Hinv Hc. unfold run_float.
  destruct (parse_ranges ranges) as [prs|] eqn:Epr; [|exact Hc].
  open_cmd Hinv Hc op Eop Hok. cbv zeta.
  set (s := op_state op) in *. pose proof (oo_good op Hok) as Hg. fold s in Hg.
  destruct (w_unmerged (op_world op)); [triv Hc Hok|].
  destruct (negb (head_top_ok op)); [triv Hc Hok|].
  destruct (resolve_names (view_of s) RCVisible prs) as [ps| |] eqn:Er; [|triv Hc Hok|triv Hc Hok].
  apply (resolve_names_ok _ _ _ _ (parse_ranges_wf _ _ Epr)) in Er as [Hnd _].
  cbn [rres_bind]. destruct ps as [|p0 ps']; [triv Hc Hok|]. set (ps := p0 :: ps') in *.
  match goal with |- CInv (fst (if ?c then _ else _)) => destruct c end; [triv Hc Hok|].
  pose proof (sgood_applied_nodup _ _ Hg) as Hna.
  destruct noapply.
  - eapply transact_cinv_rinv; [exact Hok|]. intros t0 H0 Hh0 _.
    apply reorder_some_rinv; [exact H0|exact Hh0|]. now apply nodup_filter.
  - eapply transact_cinv_rinv; [exact Hok|]. intros t0 H0 Hh0 _.
    apply reorder_some_rinv; [exact H0|exact Hh0|].
    now apply nodup_filter_notin_app.
Qed.

Lemma nodup_insert_mid : forall (l ps : list name) k,
  NoDup l -> NoDup ps -> (forall x, In x l -> ~ In x ps) ->
  NoDup (firstn k l ++ ps ++ skipn k l) /\ NoDup (firstn k l ++ ps).
Proof.
  intros l ps k Hl Hp Hd. rewrite <- (firstn_skipn k l) in Hl. apply nodup_app in Hl as (H1 & H2 & H3).
  split.
  - apply nodup_app. repeat split; [exact H1| |].
    + apply nodup_app. repeat split; [exact Hp|exact H2|].
      intros x Hx Hx'. apply (Hd x); [now apply in_skipn in Hx'|exact Hx].
    + intros x Hx Hx'. apply in_app_or in Hx' as [Hx'|Hx']; [|now apply (H3 x)].
      apply (Hd x); [now apply in_firstn in Hx|exact Hx'].
  - apply nodup_app. repeat split; [exact H1|exact Hp|].
    intros x Hx Hx'. apply (Hd x); [now apply in_firstn in Hx|exact Hx'].
Qed.

Lemma step_sink : forall w ranges target nopush keep,
  Inv w -> CInv w -> CInv (fst (run_sink w ranges target nopush keep)).
Proof.
  intros w ranges target nopush keep Hinv Hc. unfold run_sink.
  destruct (match ranges with Some rs => parse_ranges rs | None => Some [] end) as [prs|] eqn:Epr; [|exact Hc].
  destruct (match target with
            | Some (above, tl) => match parse_locator tl with Some l => Some (Some (above, l)) | None => None end
            | None => Some None end) as [tgt|]; [|exact Hc].
  open_cmd Hinv Hc op Eop Hok. cbv zeta.
  set (s := op_state op) in *. pose proof (oo_good op Hok) as Hg. fold s in Hg.
  destruct (w_unmerged (op_world op)); [triv Hc Hok|].
  destruct (negb (head_top_ok op)); [triv Hc Hok|].
  match goal with |- CInv (fst (rres_bind _ ?r _)) => destruct r as [opt_target| |] end;
    [|triv Hc Hok|triv Hc Hok].
  cbn [rres_bind].
  assert (Hwf : Forall wf_range prs).
  { destruct ranges as [rs|]; [now apply (parse_ranges_wf rs)|]. injection Epr as <-. constructor. }
  match goal with |- CInv (fst (rres_bind _ ?r _)) => 
    assert (Hr : match r with ROk ps => NoDup ps | _ => True end); [|destruct r as [ps| |]] end;
    [|cbn [rres_bind]|triv Hc Hok|triv Hc Hok].
  { destruct ranges as [rs|].
    - destruct (resolve_names (view_of s) RCAll prs) as [ps| |] eqn:Er; try exact I.
      now apply (resolve_names_ok _ _ _ _ Hwf) in Er as [? _].
    - destruct (last_error (s_applied s)); [|exact I]. constructor; [tauto|constructor]. }
  match goal with |- CInv (fst (if ?c then _ else _)) => destruct c end; [triv Hc Hok|].
  match goal with |- CInv (fst (match ?tpos with Some _ => _ | None => _ end)) => destruct tpos as [tp|] end;
    [|triv Hc Hok].
  pose proof (sgood_applied_nodup _ _ Hg) as Hna.
  set (rem_a := filter (fun n => negb (mem n ps)) (s_applied s)).
  assert (Hrem : NoDup rem_a) by now apply nodup_filter.
  assert (Hdis : forall x, In x rem_a -> ~ In x ps).
  { intros x Hx. apply filter_In in Hx as [_ Hx]. apply negb_true_iff in Hx. now apply mem_false. }
  destruct (nodup_insert_mid rem_a ps tp Hrem Hr Hdis) as [N1 N2].
  destruct nopush.
  - eapply transact_cinv_rinv; [exact Hok|]. intros t0 H0 Hh0 _.
    apply reorder_some_rinv; [exact H0|exact Hh0|exact N2].
  - eapply transact_cinv_rinv; [exact Hok|]. intros t0 H0 Hh0 _.
    apply reorder_some_rinv; [exact H0|exact Hh0|exact N1].
Qed.

(* delete then push back the incidentally popped patches (delete, clean) *)
Lemma delete_push_rinv : forall K f t,
  tinv K t -> t_head t = None ->
  rinv K (let '(t1, to_push) := delete_patches f t in push_patches to_push false t1).
Proof.
  intros K f t H Hh. destruct (delete_patches_inv K f t H Hh) as (H1 & Hh1 & popped & E1 & _ & E3 & _).
  destruct (delete_patches f t) as [t1 to_push]. cbn [fst snd] in *.
  eapply rinvP_rinv. apply push_patches_inv; [exact H1|exact Hh1|].
  pose proof (ti_nodup K t H) as Hnd. rewrite E1 in Hnd. subst to_push.
  apply (nodup_sub_app _ _ _ _ _ Hnd); [now apply nodup_app in Hnd as [? _]| |apply incl_refl|].
  - apply nodup_filter. now apply nodup_app in Hnd as [_ [? _]].
  - intros x Hx. now apply filter_In in Hx as [? _].
Qed.

Lemma step_delete : forall w ranges top all fa fu fh spill conflicts,
  Inv w -> CInv w -> CInv (fst (run_delete w ranges top all fa fu fh spill conflicts)).
Proof.
  intros w ranges top all fa fu fh spill conflicts Hinv Hc. unfold run_delete.
  destruct (match ranges with Some rs => parse_ranges rs | None => Some [] end) as [prs|]; [|exact Hc].
  open_cmd Hinv Hc op Eop Hok. cbv zeta.
  match goal with |- CInv (fst (rres_bind _ ?r _)) => destruct r as [ps| |] end;
    [|triv Hc Hok|triv Hc Hok].
  cbn [rres_bind].
  match goal with |- CInv (fst (if ?c then _ else _)) => destruct c end; [triv Hc Hok|].
  destruct (w_unmerged (op_world op)); [triv Hc Hok|].
  destruct (negb (head_top_ok op)); [triv Hc Hok|].
  destruct ps as [|p0 ps']; [triv Hc Hok|].
  eapply transact_cinv_rinv; [exact Hok|]. intros t0 H0 Hh0 _.
  now apply delete_push_rinv.
Qed.

Lemma step_clean : forall w fa fu, Inv w -> CInv w -> CInv (fst (run_clean w fa fu)).
Proof.
  intros w fa fu Hinv Hc. unfold run_clean.
  open_cmd Hinv Hc op Eop Hok. cbv zeta.
  destruct (negb (head_top_ok op)); [triv Hc Hok|].
  destruct (if negb fa && negb fu then (true, true) else (fa, fu)) as [ca cu].
  match goal with |- CInv (fst (match ?l with [] => _ | _ :: _ => _ end)) => destruct l as [|d0 dl] end;
    [triv Hc Hok|].
  eapply transact_cinv_rinv; [exact Hok|]. intros t0 H0 Hh0 _.
  now apply delete_push_rinv.
Qed.

Lemma step_hide : forall w ranges, Inv w -> CInv w -> CInv (fst (run_hide w ranges)).
Proof.
  intros w ranges Hinv Hc. unfold run_hide.
  destruct (parse_ranges ranges) as [prs|]; [|exact Hc].
  open_cmd Hinv Hc op Eop Hok. cbv zeta.
  destruct (negb (head_top_ok op)); [triv Hc Hok|].
  destruct (resolve_names _ _ _) as [ps| |]; [|triv Hc Hok|triv Hc Hok]. cbn [rres_bind].
  eapply transact_cinv_rinv; [exact Hok|]. intros t0 H0 Hh0 _. now apply hide_inv.
Qed.

Lemma step_unhide : forall w ranges, Inv w -> CInv w -> CInv (fst (run_unhide w ranges)).
Proof.
  intros w ranges Hinv Hc. unfold run_unhide.
  destruct (parse_ranges ranges) as [prs|]; [|exact Hc].
  open_cmd Hinv Hc op Eop Hok. cbv zeta.
  destruct (negb (head_top_ok op)); [triv Hc Hok|].
  destruct (resolve_names _ _ _) as [ps| |]; [|triv Hc Hok|triv Hc Hok]. cbn [rres_bind].
  eapply transact_cinv_rinv; [exact Hok|]. intros t0 H0 Hh0 _. now apply unhide_inv.
Qed.

Lemma stack_collides_none : forall s n, stack_collides s n = None -> ~ In n (all_of s).
Proof.
  intros s n H Hin. unfold stack_collides in H.
  apply (find_none _ _ H) in Hin. now rewrite collides_refl in Hin.
Qed.

Lemma step_rename : forall w old new, Inv w -> CInv w -> CInv (fst (run_rename w old new)).
Proof.
  intros w old new Hinv Hc. unfold run_rename.
  destruct (from_str new) as [newn|]; [|exact Hc].
  destruct (match old with
            | Some o => match parse_locator o with Some l => Some (Some l) | None => None end
            | None => Some None end) as [old_l|]; [|exact Hc].
  open_cmd Hinv Hc op Eop Hok. cbv zeta.
  set (s := op_state op) in *.
  match goal with |- CInv (fst (rres_bind _ ?r _)) => destruct r as [oldn| |] end;
    [|triv Hc Hok|triv Hc Hok].
  cbn [rres_bind].
  assert (G : ~ In newn (s_applied s) ->
              CInv (fst (transact op (opts CAllow true false false true false) (rename_patch oldn newn) MOp))).
  { intros Hn. eapply transact_cinv_rinv; [exact Hok|]. intros t0 H0 Hh0 E0.
    apply rename_inv; [exact H0|exact Hh0| |]; subst t0; cbn [begin_txn t_applied t_updated up_get].
    - exact Hn.
    - discriminate. }
  destruct (stack_collides s newn) as [c|] eqn:Esc.
  - destruct (mem newn (all_of s)) eqn:Em; [triv Hc Hok|].
    destruct (negb (name_eqb c oldn)); [triv Hc Hok|].
    apply G. apply mem_false in Em. intros Hi. apply Em. unfold all_of. apply in_or_app. now left.
  - apply G. apply stack_collides_none in Esc. intros Hi. apply Esc. unfold all_of. apply in_or_app. now left.
Qed.

Lemma ns_extends_put_plain : forall objs ps tr meta subj,
  ns_extends objs (objs ++ [plain ps tr meta subj]).
Proof. intros. now apply ns_extends_app1. Qed.

Lemma parents_put_new : forall objs ps tr meta subj,
  parents_of (objs ++ [plain ps tr meta subj]) (length objs) = ps.
Proof. intros. unfold parents_of. now rewrite get_put_new. Qed.

Lemma step_new : forall w nm meta msg, Inv w -> CInv w -> CInv (fst (run_new w nm meta msg)).
Proof.
  intros w nm meta msg Hinv Hc. unfold run_new.
  destruct (from_str nm) as [pn|]; [|exact Hc].
  open_cmd Hinv Hc op Eop Hok. cbv zeta.
  set (s := op_state op) in *.
  destruct (w_unmerged (op_world op)); [triv Hc Hok|].
  destruct (negb (head_top_ok op)); [triv Hc Hok|].
  destruct (stack_collides s pn) eqn:Esc; [triv Hc Hok|].
  apply stack_collides_none in Esc. unfold put.
  set (c := plain _ _ _ _). set (objs' := w_objs (op_world op) ++ [c]).
  pose proof (opened_ok_with_objs op objs' Hok (ns_extends_put_plain _ _ _ _ _)) as Hok'.
  eapply transact_cinv_rinv; [exact Hok'|]. intros t0 H0 Hh0 E0.
  eapply rinvP_rinv. apply new_applied_inv; [exact H0|exact Hh0| |].
  - subst t0. cbn [begin_txn t_applied op_state]. intros Hi. apply Esc. unfold all_of.
    apply in_or_app. now left.
  - subst t0. cbn [begin_txn t_objs op_world with_objs w_objs]. eexists. apply parents_put_new.
Qed.

Lemma last_error_split : forall (l : list name) n, last_error l = Some n -> exists l', l = l' ++ [n].
Proof.
  intros l n H. unfold last_error in H. destruct l as [|x l]; [discriminate|].
  destruct (@exists_last _ (x :: l)) as [l' [y Hy]]; [discriminate|]. rewrite Hy in *.
  rewrite hd_error_rev_snoc in H. injection H as ->. now exists l'.
Qed.

Lemma step_spill : forall w, Inv w -> CInv w -> CInv (fst (run_spill w)).
Proof.
  intros w Hinv Hc. unfold run_spill.
  open_cmd Hinv Hc op Eop Hok. cbv zeta.
  set (s := op_state op) in *.
  destruct (w_unmerged (op_world op)); [triv Hc Hok|].
  destruct (dirty (op_world op)); [triv Hc Hok|].
  destruct (negb (head_top_ok op)); [triv Hc Hok|].
  destruct (last_error (s_applied s)) as [pn|] eqn:El; [|triv Hc Hok].
  destruct (pm_get (s_patches s) pn) as [pc|] eqn:Epc; [|triv Hc Hok].
  destruct (first_parent (w_objs (op_world op)) pc) as [par|] eqn:Efp; [|triv Hc Hok].
  unfold put. set (c := plain _ _ _ _). set (objs' := w_objs (op_world op) ++ [c]).
  pose proof (opened_ok_with_objs op objs' Hok (ns_extends_put_plain _ _ _ _ _)) as Hok'.
  apply last_error_split in El as [l El].
  eapply transact_cinv_rinv; [exact Hok'|]. intros t0 H0 Hh0 E0.
  eapply rinvP_rinv. apply (update_top_inv _ pn _ pc l); [exact H0|exact Hh0| | |]; subst t0.
  - exact El.
  - exact Epc.
  - cbn [begin_txn t_objs op_world with_objs w_objs]. unfold objs', c. rewrite parents_put_new.
    unfold first_parent in Efp. destruct (parents_of (w_objs (op_world op)) pc) as [|q qs] eqn:Ep; [discriminate|].
    symmetry. apply (parents_of_ext (w_objs (op_world op))); [apply store_extends_app|exact Ep].
Qed.

Lemma step_init : forall w, Inv w -> CInv w ->
  CInv (fst (match open_stack PMust w with Some op => (op_world op, X0) | None => err2 w end)).
Proof. intros w Hinv Hc. open_cmd Hinv Hc op Eop Hok. triv Hc Hok. Qed.

Lemma step_inspect : forall w, Inv w -> CInv w ->
  CInv (fst (match open_stack PAllow w with Some op => (op_world op, X0) | None => err2 w end)).
Proof. intros w Hinv Hc. open_cmd Hinv Hc op Eop Hok. triv Hc Hok. Qed.

Lemma step_log_clear : forall w, Inv w -> CInv w -> CInv (fst (run_log_clear w)).
Proof.
  intros w Hinv Hc. unfold run_log_clear.
  open_cmd Hinv Hc op Eop Hok. cbv zeta.
  destruct (state_commit _ _ _) as [[objs' so]|] eqn:Esc; [|triv Hc Hok].
  cbn [fst]. unfold CInv. cbn [w_objs].
  match type of Esc with state_commit _ ?s' _ = _ =>
    apply (SInv_transfer (w_objs (op_world op)) objs' (fun x => x = s') (oo_cinv op Hok)) end.
  - eapply state_commit_extends; exact Esc.
  - intros so' s' Hs'. eapply state_commit_states; eassumption.
  - intros x ->. apply (chain_ok_same objs' (op_state op)); try reflexivity.
    + intros n Hn. eapply sgood_applied_has; [apply (oo_good op Hok)|exact Hn].
    + apply (chain_ok_ext (w_objs (op_world op))); [eapply state_commit_extends; exact Esc|apply (oo_chain op Hok)].
Qed.

Lemma step_git : forall w c, is_stg c = false -> CInv w -> CInv (fst (run_git w c)).
Proof.
  intros w c Hg Hc. destruct c; try discriminate; cbn [run_git].
  - exact Hc.
  - unfold put. cbn [fst]. unfold CInv. cbn. apply (SInv_ns (w_objs w)); [exact Hc|apply ns_extends_put_plain].
  - unfold put. cbn [fst]. unfold CInv. cbn. apply (SInv_ns (w_objs w)); [exact Hc|apply ns_extends_put_plain].
  - match goal with |- CInv (fst (match ?t with Some _ => _ | None => _ end)) => destruct t end; exact Hc.
  - destruct (first_parent _ _); [|exact Hc].
    unfold put. cbn [fst]. unfold CInv. cbn. apply (SInv_ns (w_objs w)); [exact Hc|apply ns_extends_put_plain].
Qed.

(* ---- commit ---- *)

Lemma cpl_prefix : forall p r, common_prefix_len (p ++ r) p = length p.
Proof.
  induction p as [|x p IH]; intros r; cbn; [now destruct r|].
  rewrite name_eqb_refl. f_equal. apply IH.
Qed.

Lemma filter_all : forall (A : Type) (g : A -> bool) l, Forall (fun x => g x = true) l -> filter g l = l.
Proof.
  intros A g l H. induction H as [|x l Hx _ IH]; cbn; [reflexivity|]. now rewrite Hx, IH.
Qed.

Lemma commit_pre_prefix : forall A j x r,
  common_prefix_len A (firstn j A) < length (firstn j A) ->
  skipn (common_prefix_len A (firstn j A)) A = x :: r -> ~ In x (firstn j A).
Proof.
  intros A j x r H. exfalso. rewrite <- (firstn_skipn j A) in H at 1. rewrite cpl_prefix in H. lia.
Qed.

Lemma commit_pre_filter : forall (g : name -> bool) A U x r,
  let C := filter g (A ++ U) in
  skipn (common_prefix_len A C) A = x :: r -> ~ In x C.
Proof.
  intros g A U x r C Hs Hin. set (k := common_prefix_len A C) in *.
  assert (Hg : forall y, In y C -> g y = true) by (intros y Hy; now apply filter_In in Hy).
  pose proof (cpl_firstn A C) as Hpre. fold k in Hpre.
  assert (HA : A = firstn k A ++ x :: r) by (rewrite <- Hs; symmetry; apply firstn_skipn).
  assert (Hk : length (firstn k A) = k).
  { apply firstn_length_le. apply cpl_le_l. }
  assert (HC : C = firstn k A ++ x :: (filter g r ++ filter g U)).
  { unfold C. rewrite filter_app. rewrite HA at 1. rewrite filter_app. cbn [filter].
    rewrite (Hg x Hin). rewrite filter_all.
    - now rewrite <- app_assoc.
    - apply Forall_forall. intros y Hy. apply Hg. rewrite Hpre in Hy. now apply in_firstn in Hy. }
  assert (HsC : skipn k C = x :: (filter g r ++ filter g U)).
  { rewrite HC. rewrite <- Hk at 1. rewrite skipn_app, skipn_all, Nat.sub_diag. reflexivity. }
  exact (cpl_next A C x r x _ Hs HsC eq_refl).
Qed.

Lemma step_commit : forall w ranges number all allow_empty,
  Inv w -> CInv w -> CInv (fst (run_commit w ranges number all allow_empty)).
Proof.
  intros w ranges number all allow_empty Hinv Hc. unfold run_commit.
  destruct (match ranges with Some rs => parse_ranges rs | None => Some [] end) as [prs|]; [|exact Hc].
  open_cmd Hinv Hc op Eop Hok. cbv zeta.
  set (s := op_state op) in *. pose proof (oo_good op Hok) as Hg. fold s in Hg.
  pose proof (sgood_applied_nodup _ _ Hg) as Hna.
  pose proof (all_of_nodup_au _ _ Hg) as Hnau.
  match goal with |- CInv (fst (match ?P with inl r => r | inr l => _ end)) =>
    assert (HP : match P with
                 | inl r => CInv (fst r)
                 | inr C => NoDup C /\
                     (forall x r, common_prefix_len (s_applied s) C < length C ->
                        skipn (common_prefix_len (s_applied s) C) (s_applied s) = x :: r -> ~ In x C)
                 end);
    [|destruct P as [r|ps]; [exact HP|]] end.
  { destruct ranges as [rs|].
    - destruct (resolve_names _ _ _) as [l| |]; [|triv Hc Hok|triv Hc Hok].
      unfold sort_by_position. split; [now apply nodup_filter|].
      intros x r _. apply commit_pre_filter.
    - destruct number as [k|].
      + destruct (k =? 0)%N; [triv Hc Hok|]. destruct (Nat.ltb _ _); [triv Hc Hok|].
        split; [now apply nodup_firstn|apply commit_pre_prefix].
      + destruct (s_applied s) as [|first rest] eqn:Ea; [triv Hc Hok|]. rewrite <- Ea in Hna |- *.
        destruct all.
        * split; [exact Hna|]. intros x r H. exfalso.
          rewrite <- (app_nil_r (s_applied s)) in H at 1. rewrite cpl_prefix in H. lia.
        * replace [first] with (firstn 1 (s_applied s)) by now rewrite Ea.
          split; [now apply nodup_firstn|apply commit_pre_prefix]. }
  destruct HP as [HndC Hnext].
  destruct ps as [|p0 ps']; [triv Hc Hok|]. set (ps := p0 :: ps') in *.
  match goal with |- CInv (fst (if ?c then _ else _)) => destruct c end; [triv Hc Hok|].
  destruct (negb (head_top_ok op)); [triv Hc Hok|].
  apply transact_cinv; [exact Hok|].
  destruct (begin_txn_inv op (opts CAllowIfSameTop true false true true false) Hok) as [H0 Hh0].
  destruct (commit_inv _ ps _ H0 Hh0 HndC Hnext) as [K' [(E1 & E2 & _) Hr]].
  apply rinvP_final in Hr. now rewrite E1, E2 in Hr.
Qed.
