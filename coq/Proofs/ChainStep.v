(* C02 proofs, part 4: every in-scope command preserves the chain invariant. *)
From Coq Require Import List Arith Bool Lia.
From StgV Require Import Model.StackSpec Model.LocatorSpec Proofs.CharsProofs Proofs.NameProofs Proofs.LocatorProofs
  Proofs.ChainBasics Proofs.ChainTxn Proofs.ChainExec Proofs.PickBasics Proofs.UncommitNames.
From StgV Require Proofs.WfCmd.
Import ListNotations.
Local Open Scope nat_scope.

(* ---------------------------------------------------------------- resolved ranges *)

Lemma parse_ranges_wf : forall l prs, parse_ranges l = Some prs -> Forall wf_range prs.
Proof.
  induction l as [|x l IH]; intros prs H; cbn in H.
  - injection H as <-. constructor.
  - destruct (parse_range x) as [r|] eqn:Er; [|discriminate].
    destruct (parse_ranges l) as [rs|]; [|discriminate]. injection H as <-.
    constructor; [now apply parsed_range_wf in Er|now apply IH].
Qed.

Lemma resolve_names_ok : forall v rc prs l,
  Forall wf_range prs -> resolve_names v rc prs = ROk l ->
  NoDup l /\ incl l (allowed v (lc_of rc)).
Proof.
  intros v rc prs l Hwf H. pose proof (ranges_sound v rc prs Hwf) as Hs.
  rewrite H in Hs. exact Hs.
Qed.

(* trivial worlds *)
Lemma cinv_same_objs : forall w w', w_objs w' = w_objs w -> CInv w -> CInv w'.
Proof. intros w w' E H. unfold CInv in *. now rewrite E. Qed.

Lemma all_of_nodup_au : forall objs s, sgood objs s -> NoDup (s_applied s ++ s_unapplied s).
Proof.
  intros objs s (H & _). unfold all_of in H. rewrite app_assoc in H. now apply nodup_app in H as [? _].
Qed.

Lemma nodup_applied_push : forall objs s ps,
  sgood objs s -> NoDup ps -> incl ps (s_unapplied s) -> NoDup (s_applied s ++ ps).
Proof.
  intros objs s ps Hg Hnd Hi. pose proof (all_of_nodup_au objs s Hg) as H.
  apply (nodup_sub_app _ _ _ _ _ H); [eapply sgood_applied_nodup; exact Hg|exact Hnd|apply incl_refl|exact Hi].
Qed.
Ltac open_cmd Hinv Hc op Eop Hok :=
  match goal with |- context [open_stack ?p ?w] =>
    destruct (open_stack p w) as [op|] eqn:Eop; [|exact Hc] end;
  let Hext := fresh "Hext" in let Hbr := fresh "Hbr" in
  destruct (open_stack_ok _ _ _ Eop Hinv Hc) as (Hok & Hext & Hbr).

Ltac triv Hc Hok := cbn [fst err2 ok0 rres_bind]; first [exact Hc | exact (oo_cinv _ Hok)].

Lemma step_push : forall w ranges number all reverse noapply settree merged keep conflicts,
  Inv w -> CInv w ->
  CInv (fst (run_push w ranges number all reverse noapply settree merged keep conflicts)).
Proof.
  intros w ranges number all reverse noapply settree merged keep conflicts Hinv Hc. unfold run_push.
  open_cmd Hinv Hc op Eop Hok. cbv zeta.
  destruct (match number with Some z => (z =? 0)%Z | None => false end); [triv Hc Hok|].
  set (s := op_state op) in *. pose proof (oo_good op Hok) as Hg. fold s in Hg.
  (* the patches to push: no duplicates, all unapplied *)
  match goal with |- CInv (fst (match ?P with inl r => r | inr l => _ end)) =>
    assert (HP : match P with inl r => CInv (fst r) | inr l => NoDup l /\ incl l (s_unapplied s) end);
    [|destruct P as [r|ps]; [exact HP|]] end.
  { destruct ranges as [rs|].
    - destruct (parse_ranges rs) as [prs|] eqn:Epr; [|triv Hc Hok].
      destruct (resolve_names (view_of s) RCUnapplied prs) as [l| |] eqn:Er; [|triv Hc Hok|triv Hc Hok].
      apply (resolve_names_ok _ _ _ _ (parse_ranges_wf _ _ Epr)) in Er. exact Er.
    - destruct (s_unapplied s) as [|u0 us] eqn:Eu; [triv Hc Hok|]. rewrite <- Eu.
      pose proof (all_of_nodup_au _ _ Hg) as Hnd. apply nodup_app in Hnd as [_ [Hnd _]].
      destruct all; [split; [exact Hnd|apply incl_refl]|].
      destruct number as [z|]; (split; [now apply nodup_firstn|intros x Hx; now apply in_firstn in Hx]). }
  destruct HP as [Hnd Hincl].
  destruct ps as [|p0 ps']; [triv Hc Hok|]. set (ps := p0 :: ps') in *.
  destruct (w_unmerged (op_world op)); [triv Hc Hok|].
  destruct (negb (head_top_ok op)); [triv Hc Hok|].
  destruct (negb keep && negb noapply && dirty (op_world op)); [triv Hc Hok|].
  set (ps2 := if reverse then rev ps else ps).
  assert (Hnd2 : NoDup ps2 /\ incl ps2 (s_unapplied s)).
  { unfold ps2. destruct reverse; [|auto]. split; [now apply NoDup_rev|].
    intros x Hx. apply Hincl. now apply in_rev. }
  destruct Hnd2 as [Hnd2 Hincl2].
  eapply transact_cinv_inv with (P := fun _ => True); [exact Hok|].
  intros t0 H0 Hh0 ->.
  assert (Hpush : NoDup (s_applied s ++ ps2)) by now apply (nodup_applied_push _ _ _ Hg).
  destruct settree.
  - eapply rinvP_weaken; [|apply push_tree_list_inv; [eassumption|eassumption|exact Hpush]]. auto.
  - destruct noapply.
    + eapply rinvP_weaken; [|apply reorder_inv; [eassumption|eassumption|discriminate]]. auto.
    + eapply rinvP_weaken; [|apply push_patches_inv; [eassumption|eassumption|exact Hpush]]. auto.
Qed.
Lemma rinvP_rinv : forall K P r, rinvP K P r -> rinv K r.
Proof. intros K P r H. unfold rinv. eapply rinvP_weaken; [|exact H]. auto. Qed.

Lemma transact_cinv_rinv : forall op o f msg,
  opened_ok op ->
  (forall t0, tinv (K0 op o) t0 -> t_head t0 = None -> t0 = begin_txn op o -> rinv (K0 op o) (f t0)) ->
  CInv (fst (transact op o f msg)).
Proof. intros op o f msg Hok Hf. now apply (transact_cinv_inv op o f msg (fun _ => True)). Qed.

Lemma reorder_some_rinv : forall K al u h t,
  tinv K t -> t_head t = None -> NoDup al -> rinv K (reorder_patches (Some al) u h t).
Proof.
  intros K al u h t H Hh Hnd. eapply rinvP_rinv. apply reorder_inv; [exact H|exact Hh|].
  intros al' E. congruence.
Qed.

Lemma step_pop : forall w ranges number all keep spill,
  Inv w -> CInv w -> CInv (fst (run_pop w ranges number all keep spill)).
Proof.
  intros w ranges number all keep spill Hinv Hc. unfold run_pop.
  open_cmd Hinv Hc op Eop Hok. cbv zeta.
  destruct (match number with Some z => (z =? 0)%Z | None => false end); [triv Hc Hok|].
  set (s := op_state op) in *. pose proof (oo_good op Hok) as Hg. fold s in Hg.
  destruct (s_applied s) as [|a0 al] eqn:Ea; [triv Hc Hok|]. rewrite <- Ea.
  match goal with |- CInv (fst (match ?P with inl r => r | inr l => _ end)) =>
    assert (HP : match P with inl r => CInv (fst r) | inr l => True end);
    [|destruct P as [r|ps]; [exact HP|]] end.
  { destruct all; [exact I|]. destruct number as [z|].
    - destruct (num_to_take z _); [exact I|triv Hc Hok].
    - destruct ranges as [rs|]; [|exact I].
      destruct (parse_ranges rs) as [prs|]; [|triv Hc Hok].
      destruct (resolve_names _ _ _); [exact I|triv Hc Hok|triv Hc Hok]. }
  destruct ps as [|p0 ps']; [triv Hc Hok|]. set (ps := p0 :: ps') in *.
  destruct (w_unmerged (op_world op)); [triv Hc Hok|].
  destruct (negb (head_top_ok op)); [triv Hc Hok|].
  destruct (negb keep && negb spill && dirty (op_world op)); [triv Hc Hok|].
  match goal with |- CInv (fst (if ?c then _ else _)) => destruct c end; [triv Hc Hok|].
  eapply transact_cinv_rinv; [exact Hok|]. intros t0 H0 Hh0 _.
  apply reorder_some_rinv; [exact H0|exact Hh0|].
  apply nodup_filter. eapply sgood_applied_nodup. exact Hg.
Qed.

Lemma step_goto : forall w loc keep merged conflicts,
  Inv w -> CInv w -> CInv (fst (run_goto w loc keep merged conflicts)).
Proof.
  intros w loc keep merged conflicts Hinv Hc. unfold run_goto.
  destruct (parse_locator loc) as [l|]; [|exact Hc].
  open_cmd Hinv Hc op Eop Hok. cbv zeta.
  set (s := op_state op) in *. pose proof (oo_good op Hok) as Hg. fold s in Hg.
  destruct (w_unmerged (op_world op)); [triv Hc Hok|].
  destruct (negb (head_top_ok op)); [triv Hc Hok|].
  destruct (negb keep && dirty (op_world op)); [triv Hc Hok|].
  destruct (resolve_constrained (view_of s) LCVisible l) as [pn| |]; [|triv Hc Hok|triv Hc Hok].
  cbn [rres_bind].
  eapply transact_cinv_rinv; [exact Hok|]. intros t0 H0 Hh0 E0.
  destruct (position (name_eqb pn) (t_applied t0)) as [pos|].
  - apply reorder_some_rinv; [exact H0|exact Hh0|].
    apply (nodup_firstn _ (S pos)). apply (ti_nodup _ _ H0).
  - destruct (position (name_eqb pn) (t_unapplied t0)) as [pos|]; [|exact I].
    eapply rinvP_rinv. apply push_patches_inv; [exact H0|exact Hh0|].
    subst t0. cbn [begin_txn t_applied t_unapplied].
    apply (nodup_applied_push _ _ _ Hg).
    + apply (nodup_firstn _ (S pos)). pose proof (all_of_nodup_au _ _ Hg) as Hnd. now apply nodup_app in Hnd as [_ [? _]].
    + intros x Hx. now apply (in_firstn _ (S pos)) in Hx.
Qed.

Lemma nodup_filter_notin_app : forall (l ps : list name),
  NoDup l -> NoDup ps -> NoDup (filter (fun n => negb (mem n ps)) l ++ ps).
Proof.
  intros l ps Hl Hp. apply nodup_app. repeat split; [now apply nodup_filter|exact Hp|].
  intros x Hx. apply filter_In in Hx as [_ Hx]. apply negb_true_iff in Hx. now apply mem_false.
Qed.

Lemma step_float : forall w ranges noapply keep,
  Inv w -> CInv w -> CInv (fst (run_float w ranges noapply keep)).
Proof.
  intros w ranges noapply keep Hinv Hc. unfold run_float.
  destruct (parse_ranges ranges) as [prs|] eqn:Epr; [|exact Hc].
  open_cmd Hinv Hc op Eop Hok. cbv zeta.
  set (s := op_state op) in *. pose proof (oo_good op Hok) as Hg. fold s in Hg.
  destruct (w_unmerged (op_world op)); [triv Hc Hok|].
  destruct (negb (head_top_ok op)); [triv Hc Hok|].
  destruct (resolve_names (view_of s) RCVisible prs) as [ps| |] eqn:Er; [|triv Hc Hok|triv Hc Hok].
  apply (resolve_names_ok _ _ _ _ (parse_ranges_wf _ _ Epr)) in Er as [Hnd _].
  cbn [rres_bind]. destruct ps as [|p0 ps']; [triv Hc Hok|]. set (ps := p0 :: ps') in *.
  match goal with |- CInv (fst (if ?c then _ else _)) => destruct c end; [triv Hc Hok|].
  pose proof (sgood_applied_nodup _ _ Hg) as Hna.
  destruct noapply.
  - eapply transact_cinv_rinv; [exact Hok|]. intros t0 H0 Hh0 _.
    apply reorder_some_rinv; [exact H0|exact Hh0|]. now apply nodup_filter.
  - eapply transact_cinv_rinv; [exact Hok|]. intros t0 H0 Hh0 _.
    apply reorder_some_rinv; [exact H0|exact Hh0|].
    now apply nodup_filter_notin_app.
Qed.

Lemma nodup_insert_mid : forall (l ps : list name) k,
  NoDup l -> NoDup ps -> (forall x, In x l -> ~ In x ps) ->
  NoDup (firstn k l ++ ps ++ skipn k l) /\ NoDup (firstn k l ++ ps).
Proof.
  intros l ps k Hl Hp Hd. rewrite <- (firstn_skipn k l) in Hl. apply nodup_app in Hl as (H1 & H2 & H3).
  split.
  - apply nodup_app. repeat split; [exact H1| |].
    + apply nodup_app. repeat split; [exact Hp|exact H2|].
      intros x Hx Hx'. apply (Hd x); [now apply in_skipn in Hx'|exact Hx].
    + intros x Hx Hx'. apply in_app_or in Hx' as [Hx'|Hx']; [|now apply (H3 x)].
      apply (Hd x); [now apply in_firstn in Hx|exact Hx'].
  - apply nodup_app. repeat split; [exact H1|exact Hp|].
    intros x Hx Hx'. apply (Hd x); [now apply in_firstn in Hx|exact Hx'].
Qed.

Lemma step_sink : forall w ranges target nopush keep,
  Inv w -> CInv w -> CInv (fst (run_sink w ranges target nopush keep)).
Proof.
  intros w ranges target nopush keep Hinv Hc. unfold run_sink.
  destruct (match ranges with Some rs => parse_ranges rs | None => Some [] end) as [prs|] eqn:Epr; [|exact Hc].
  destruct (match target with
            | Some (above, tl) => match parse_locator tl with Some l => Some (Some (above, l)) | None => None end
            | None => Some None end) as [tgt|]; [|exact Hc].
  open_cmd Hinv Hc op Eop Hok. cbv zeta.
  set (s := op_state op) in *. pose proof (oo_good op Hok) as Hg. fold s in Hg.
  destruct (w_unmerged (op_world op)); [triv Hc Hok|].
  destruct (negb (head_top_ok op)); [triv Hc Hok|].
  match goal with |- CInv (fst (rres_bind _ ?r _)) => destruct r as [opt_target| |] end;
    [|triv Hc Hok|triv Hc Hok].
  cbn [rres_bind].
  assert (Hwf : Forall wf_range prs).
  { destruct ranges as [rs|]; [now apply (parse_ranges_wf rs)|]. injection Epr as <-. constructor. }
  match goal with |- CInv (fst (rres_bind _ ?r _)) => 
    assert (Hr : match r with ROk ps => NoDup ps | _ => True end); [|destruct r as [ps| |]] end;
    [|cbn [rres_bind]|triv Hc Hok|triv Hc Hok].
  { destruct ranges as [rs|].
    - destruct (resolve_names (view_of s) RCAll prs) as [ps| |] eqn:Er; try exact I.
      now apply (resolve_names_ok _ _ _ _ Hwf) in Er as [? _].
    - destruct (last_error (s_applied s)); [|exact I]. constructor; [tauto|constructor]. }
  match goal with |- CInv (fst (if ?c then _ else _)) => destruct c end; [triv Hc Hok|].
  match goal with |- CInv (fst (match ?tpos with Some _ => _ | None => _ end)) => destruct tpos as [tp|] end;
    [|triv Hc Hok].
  pose proof (sgood_applied_nodup _ _ Hg) as Hna.
  set (rem_a := filter (fun n => negb (mem n ps)) (s_applied s)).
  assert (Hrem : NoDup rem_a) by now apply nodup_filter.
  assert (Hdis : forall x, In x rem_a -> ~ In x ps).
  { intros x Hx. apply filter_In in Hx as [_ Hx]. apply negb_true_iff in Hx. now apply mem_false. }
  destruct (nodup_insert_mid rem_a ps tp Hrem Hr Hdis) as [N1 N2].
  destruct nopush.
  - eapply transact_cinv_rinv; [exact Hok|]. intros t0 H0 Hh0 _.
    apply reorder_some_rinv; [exact H0|exact Hh0|exact N2].
  - eapply transact_cinv_rinv; [exact Hok|]. intros t0 H0 Hh0 _.
    apply reorder_some_rinv; [exact H0|exact Hh0|exact N1].
Qed.

(* delete then push back the incidentally popped patches (delete, clean) *)
Lemma delete_push_rinv : forall K f t,
  tinv K t -> t_head t = None ->
  rinv K (let '(t1, to_push) := delete_patches f t in push_patches to_push false t1).
Proof.
  intros K f t H Hh. destruct (delete_patches_inv K f t H Hh) as (H1 & Hh1 & popped & E1 & _ & E3 & _).
  destruct (delete_patches f t) as [t1 to_push]. cbn [fst snd] in *.
  eapply rinvP_rinv. apply push_patches_inv; [exact H1|exact Hh1|].
  pose proof (ti_nodup K t H) as Hnd. rewrite E1 in Hnd. subst to_push.
  apply (nodup_sub_app _ _ _ _ _ Hnd); [now apply nodup_app in Hnd as [? _]| |apply incl_refl|].
  - apply nodup_filter. now apply nodup_app in Hnd as [_ [? _]].
  - intros x Hx. now apply filter_In in Hx as [? _].
Qed.

Lemma step_delete : forall w ranges top all fa fu fh spill conflicts,
  Inv w -> CInv w -> CInv (fst (run_delete w ranges top all fa fu fh spill conflicts)).
Proof.
  intros w ranges top all fa fu fh spill conflicts Hinv Hc. unfold run_delete.
  destruct (match ranges with Some rs => parse_ranges rs | None => Some [] end) as [prs|]; [|exact Hc].
  open_cmd Hinv Hc op Eop Hok. cbv zeta.
  match goal with |- CInv (fst (rres_bind _ ?r _)) => destruct r as [ps| |] end;
    [|triv Hc Hok|triv Hc Hok].
  cbn [rres_bind].
  match goal with |- CInv (fst (if ?c then _ else _)) => destruct c end; [triv Hc Hok|].
  destruct (w_unmerged (op_world op)); [triv Hc Hok|].
  destruct (negb (head_top_ok op)); [triv Hc Hok|].
  destruct ps as [|p0 ps']; [triv Hc Hok|].
  eapply transact_cinv_rinv; [exact Hok|]. intros t0 H0 Hh0 _.
  now apply delete_push_rinv.
Qed.

Lemma step_clean : forall w fa fu, Inv w -> CInv w -> CInv (fst (run_clean w fa fu)).
Proof.
  intros w fa fu Hinv Hc. unfold run_clean.
  open_cmd Hinv Hc op Eop Hok. cbv zeta.
  destruct (negb (head_top_ok op)); [triv Hc Hok|].
  destruct (if negb fa && negb fu then (true, true) else (fa, fu)) as [ca cu].
  match goal with |- CInv (fst (match ?l with [] => _ | _ :: _ => _ end)) => destruct l as [|d0 dl] end;
    [triv Hc Hok|].
  eapply transact_cinv_rinv; [exact Hok|]. intros t0 H0 Hh0 _.
  now apply delete_push_rinv.
Qed.

Lemma step_hide : forall w ranges, Inv w -> CInv w -> CInv (fst (run_hide w ranges)).
Proof.
  intros w ranges Hinv Hc. unfold run_hide.
  destruct (parse_ranges ranges) as [prs|]; [|exact Hc].
  open_cmd Hinv Hc op Eop Hok. cbv zeta.
  destruct (negb (head_top_ok op)); [triv Hc Hok|].
  destruct (resolve_names _ _ _) as [ps| |]; [|triv Hc Hok|triv Hc Hok]. cbn [rres_bind].
  eapply transact_cinv_rinv; [exact Hok|]. intros t0 H0 Hh0 _. now apply hide_inv.
Qed.

Lemma step_unhide : forall w ranges, Inv w -> CInv w -> CInv (fst (run_unhide w ranges)).
Proof.
  intros w ranges Hinv Hc. unfold run_unhide.
  destruct (parse_ranges ranges) as [prs|]; [|exact Hc].
  open_cmd Hinv Hc op Eop Hok. cbv zeta.
  destruct (negb (head_top_ok op)); [triv Hc Hok|].
  destruct (resolve_names _ _ _) as [ps| |]; [|triv Hc Hok|triv Hc Hok]. cbn [rres_bind].
  eapply transact_cinv_rinv; [exact Hok|]. intros t0 H0 Hh0 _. now apply unhide_inv.
Qed.

Lemma stack_collides_none : forall s n, stack_collides s n = None -> ~ In n (all_of s).
Proof.
  intros s n H Hin. unfold stack_collides in H.
  apply (find_none _ _ H) in Hin. now rewrite collides_refl in Hin.
Qed.

Lemma step_rename : forall w old new, Inv w -> CInv w -> CInv (fst (run_rename w old new)).
Proof.
  intros w old new Hinv Hc. unfold run_rename.
  destruct (from_str new) as [newn|]; [|exact Hc].
  destruct (match old with
            | Some o => match parse_locator o with Some l => Some (Some l) | None => None end
            | None => Some None end) as [old_l|]; [|exact Hc].
  open_cmd Hinv Hc op Eop Hok. cbv zeta.
  set (s := op_state op) in *.
  match goal with |- CInv (fst (rres_bind _ ?r _)) => destruct r as [oldn| |] end;
    [|triv Hc Hok|triv Hc Hok].
  cbn [rres_bind].
  assert (G : ~ In newn (s_applied s) ->
              CInv (fst (transact op (opts CAllow (w_apc (op_world op)) false false true false) (rename_patch oldn newn) MOp))).
  { intros Hn. eapply transact_cinv_rinv; [exact Hok|]. intros t0 H0 Hh0 E0.
    apply rename_inv; [exact H0|exact Hh0| |]; subst t0; cbn [begin_txn t_applied t_updated up_get].
    - exact Hn.
    - discriminate. }
  destruct (stack_collides s newn) as [c|] eqn:Esc.
  - destruct (mem newn (all_of s)) eqn:Em; [triv Hc Hok|].
    destruct (negb (name_eqb c oldn)); [triv Hc Hok|].
    apply G. apply mem_false in Em. intros Hi. apply Em. unfold all_of. apply in_or_app. now left.
  - apply G. apply stack_collides_none in Esc. intros Hi. apply Esc. unfold all_of. apply in_or_app. now left.
Qed.

Lemma ns_extends_put_plain : forall objs ps tr meta subj,
  ns_extends objs (objs ++ [plain ps tr meta subj]).
Proof. intros. now apply ns_extends_app1. Qed.

Lemma parents_put_new : forall objs ps tr meta subj,
  parents_of (objs ++ [plain ps tr meta subj]) (length objs) = ps.
Proof. intros. unfold parents_of. now rewrite get_put_new. Qed.

Lemma step_new : forall w nm meta msg, Inv w -> CInv w -> CInv (fst (run_new w nm meta msg)).
Proof.
  intros w nm meta msg Hinv Hc. unfold run_new.
  destruct (from_str nm) as [pn|]; [|exact Hc].
  open_cmd Hinv Hc op Eop Hok. cbv zeta.
  set (s := op_state op) in *.
  destruct (w_unmerged (op_world op)); [triv Hc Hok|].
  destruct (negb (head_top_ok op)); [triv Hc Hok|].
  destruct (stack_collides s pn) eqn:Esc; [triv Hc Hok|].
  apply stack_collides_none in Esc. unfold put.
  set (c := plain _ _ _ _). set (objs' := w_objs (op_world op) ++ [c]).
  pose proof (opened_ok_with_objs op objs' Hok (ns_extends_put_plain _ _ _ _ _)) as Hok'.
  eapply transact_cinv_rinv; [exact Hok'|]. intros t0 H0 Hh0 E0.
  eapply rinvP_rinv. apply new_applied_inv; [exact H0|exact Hh0| |].
  - subst t0. cbn [begin_txn t_applied op_state]. intros Hi. apply Esc. unfold all_of.
    apply in_or_app. now left.
  - subst t0. cbn [begin_txn t_objs op_world with_objs w_objs]. eexists. apply parents_put_new.
Qed.

Lemma last_error_split : forall (l : list name) n, last_error l = Some n -> exists l', l = l' ++ [n].
Proof.
  intros l n H. unfold last_error in H. destruct l as [|x l]; [discriminate|].
  destruct (@exists_last _ (x :: l)) as [l' [y Hy]]; [discriminate|]. rewrite Hy in *.
  rewrite hd_error_rev_snoc in H. injection H as ->. now exists l'.
Qed.

Lemma step_spill : forall w, Inv w -> CInv w -> CInv (fst (run_spill w)).
Proof.
  intros w Hinv Hc. unfold run_spill.
  open_cmd Hinv Hc op Eop Hok. cbv zeta.
  set (s := op_state op) in *.
  destruct (w_unmerged (op_world op)); [triv Hc Hok|].
  destruct (dirty (op_world op)); [triv Hc Hok|].
  destruct (negb (head_top_ok op)); [triv Hc Hok|].
  destruct (last_error (s_applied s)) as [pn|] eqn:El; [|triv Hc Hok].
  destruct (pm_get (s_patches s) pn) as [pc|] eqn:Epc; [|triv Hc Hok].
  destruct (first_parent (w_objs (op_world op)) pc) as [par|] eqn:Efp; [|triv Hc Hok].
  unfold put. set (c := plain _ _ _ _). set (objs' := w_objs (op_world op) ++ [c]).
  pose proof (opened_ok_with_objs op objs' Hok (ns_extends_put_plain _ _ _ _ _)) as Hok'.
  apply last_error_split in El as [l El].
  eapply transact_cinv_rinv; [exact Hok'|]. intros t0 H0 Hh0 E0.
  eapply rinvP_rinv. apply (update_top_inv _ pn _ pc l); [exact H0|exact Hh0| | |]; subst t0.
  - exact El.
  - exact Epc.
  - cbn [begin_txn t_objs op_world with_objs w_objs]. unfold objs', c. rewrite parents_put_new.
    unfold first_parent in Efp. destruct (parents_of (w_objs (op_world op)) pc) as [|q qs] eqn:Ep; [discriminate|].
    symmetry. apply (parents_of_ext (w_objs (op_world op))); [apply store_extends_app|exact Ep].
Qed.

Lemma step_init : forall w, Inv w -> CInv w ->
  CInv (fst (match open_stack PMust w with Some op => (op_world op, X0) | None => err2 w end)).
Proof. intros w Hinv Hc. open_cmd Hinv Hc op Eop Hok. triv Hc Hok. Qed.

Lemma step_inspect : forall w, Inv w -> CInv w ->
  CInv (fst (match open_stack PAllow w with Some op => (op_world op, X0) | None => err2 w end)).
Proof. intros w Hinv Hc. open_cmd Hinv Hc op Eop Hok. triv Hc Hok. Qed.

Lemma step_log_clear : forall w, Inv w -> CInv w -> CInv (fst (run_log_clear w)).
Proof.
  intros w Hinv Hc. unfold run_log_clear.
  open_cmd Hinv Hc op Eop Hok. cbv zeta.
  destruct (state_commit _ _ _) as [[objs' so]|] eqn:Esc; [|triv Hc Hok].
  cbn [fst]. unfold CInv. cbn [w_objs].
  match type of Esc with state_commit _ ?s' _ = _ =>
    apply (SInv_transfer (w_objs (op_world op)) objs' (fun x => x = s') (oo_cinv op Hok)) end.
  - eapply state_commit_extends; exact Esc.
  - intros so' s' Hs'. eapply state_commit_states; eassumption.
  - intros x ->. apply (chain_ok_same objs' (op_state op)); try reflexivity.
    + intros n Hn. eapply sgood_applied_has; [apply (oo_good op Hok)|exact Hn].
    + apply (chain_ok_ext (w_objs (op_world op))); [eapply state_commit_extends; exact Esc|apply (oo_chain op Hok)].
Qed.

Lemma step_git : forall w c, is_stg c = false -> CInv w -> CInv (fst (run_git w c)).
Proof.
  intros w c Hg Hc. destruct c; try discriminate; cbn [run_git].
  - exact Hc.
  - unfold put. cbn [fst]. unfold CInv. cbn. apply (SInv_ns (w_objs w)); [exact Hc|apply ns_extends_put_plain].
  - unfold put. cbn [fst]. unfold CInv. cbn. apply (SInv_ns (w_objs w)); [exact Hc|apply ns_extends_put_plain].
  - match goal with |- CInv (fst (match ?t with Some _ => _ | None => _ end)) => destruct t end; exact Hc.
  - destruct (first_parent _ _); [|exact Hc].
    unfold put. cbn [fst]. unfold CInv. cbn. apply (SInv_ns (w_objs w)); [exact Hc|apply ns_extends_put_plain].
  - exact Hc.
Qed.

(* ---- commit ---- *)

Lemma cpl_prefix : forall p r, common_prefix_len (p ++ r) p = length p.
Proof.
  induction p as [|x p IH]; intros r; cbn; [now destruct r|].
  rewrite name_eqb_refl. f_equal. apply IH.
Qed.

Lemma filter_all : forall (A : Type) (g : A -> bool) l, Forall (fun x => g x = true) l -> filter g l = l.
Proof.
  intros A g l H. induction H as [|x l Hx _ IH]; cbn; [reflexivity|]. now rewrite Hx, IH.
Qed.

Lemma commit_pre_prefix : forall A j x r,
  common_prefix_len A (firstn j A) < length (firstn j A) ->
  skipn (common_prefix_len A (firstn j A)) A = x :: r -> ~ In x (firstn j A).
Proof.
  intros A j x r H. exfalso. rewrite <- (firstn_skipn j A) in H at 1. rewrite cpl_prefix in H. lia.
Qed.

Lemma commit_pre_filter : forall (g : name -> bool) A U x r,
  let C := filter g (A ++ U) in
  skipn (common_prefix_len A C) A = x :: r -> ~ In x C.
Proof.
  intros g A U x r C Hs Hin. set (k := common_prefix_len A C) in *.
  assert (Hg : forall y, In y C -> g y = true) by (intros y Hy; now apply filter_In in Hy).
  pose proof (cpl_firstn A C) as Hpre. fold k in Hpre.
  assert (HA : A = firstn k A ++ x :: r) by (rewrite <- Hs; symmetry; apply firstn_skipn).
  assert (Hk : length (firstn k A) = k).
  { apply firstn_length_le. apply cpl_le_l. }
  assert (HC : C = firstn k A ++ x :: (filter g r ++ filter g U)).
  { unfold C. rewrite filter_app. rewrite HA at 1. rewrite filter_app. cbn [filter].
    rewrite (Hg x Hin). rewrite filter_all.
    - now rewrite <- app_assoc.
    - apply Forall_forall. intros y Hy. apply Hg. rewrite Hpre in Hy. now apply in_firstn in Hy. }
  assert (HsC : skipn k C = x :: (filter g r ++ filter g U)).
  { rewrite HC. rewrite <- Hk at 1. rewrite skipn_app, skipn_all, Nat.sub_diag. reflexivity. }
  exact (cpl_next A C x r x _ Hs HsC eq_refl).
Qed.

Lemma step_commit : forall w ranges number all allow_empty,
  Inv w -> CInv w -> CInv (fst (run_commit w ranges number all allow_empty)).
Proof.
  intros w ranges number all allow_empty Hinv Hc. unfold run_commit.
  destruct (match ranges with Some rs => parse_ranges rs | None => Some [] end) as [prs|]; [|exact Hc].
  open_cmd Hinv Hc op Eop Hok. cbv zeta.
  set (s := op_state op) in *. pose proof (oo_good op Hok) as Hg. fold s in Hg.
  pose proof (sgood_applied_nodup _ _ Hg) as Hna.
  pose proof (all_of_nodup_au _ _ Hg) as Hnau.
  match goal with |- CInv (fst (match ?P with inl r => r | inr l => _ end)) =>
    assert (HP : match P with
                 | inl r => CInv (fst r)
                 | inr C => NoDup C /\
                     (forall x r, common_prefix_len (s_applied s) C < length C ->
                        skipn (common_prefix_len (s_applied s) C) (s_applied s) = x :: r -> ~ In x C)
                 end);
    [|destruct P as [r|ps]; [exact HP|]] end.
  { destruct ranges as [rs|].
    - destruct (resolve_names _ _ _) as [l| |]; [|triv Hc Hok|triv Hc Hok].
      unfold sort_by_position. split; [now apply nodup_filter|].
      intros x r _. apply commit_pre_filter.
    - destruct number as [k|].
      + destruct (k =? 0)%N; [triv Hc Hok|]. destruct (Nat.ltb _ _); [triv Hc Hok|].
        split; [now apply nodup_firstn|apply commit_pre_prefix].
      + destruct (s_applied s) as [|first rest] eqn:Ea; [triv Hc Hok|]. rewrite <- Ea in Hna |- *.
        destruct all.
        * split; [exact Hna|]. intros x r H. exfalso.
          rewrite <- (app_nil_r (s_applied s)) in H at 1. rewrite cpl_prefix in H. lia.
        * replace [first] with (firstn 1 (s_applied s)) by now rewrite Ea.
          split; [now apply nodup_firstn|apply commit_pre_prefix]. }
  destruct HP as [HndC Hnext].
  destruct ps as [|p0 ps']; [triv Hc Hok|]. set (ps := p0 :: ps') in *.
  match goal with |- CInv (fst (if ?c then _ else _)) => destruct c end; [triv Hc Hok|].
  destruct (negb (head_top_ok op)); [triv Hc Hok|].
  apply transact_cinv; [exact Hok|].
  destruct (begin_txn_inv op (opts CAllowIfSameTop (w_apc (op_world op)) false true true false) Hok) as [H0 Hh0].
  destruct (commit_inv _ ps _ H0 Hh0 HndC Hnext) as [K' [(E1 & E2 & _) Hr]].
  apply rinvP_final in Hr. now rewrite E1, E2 in Hr.
Qed.

(* ---- uncommit ---- *)

Definition cp_go (s : sstate) : list name -> list name -> bool :=
  fix go (taken names : list name) : bool :=
    match names with
    | [] => true
    | n :: rest =>
        match stack_collides s n with
        | Some _ => false
        | None => if existsb (fun m => collides n m) taken then false else go (taken ++ [n]) rest
        end
    end.

Lemma cp_go_spec : forall s names taken,
  cp_go s taken names = true ->
  NoDup names /\ forall n, In n names -> ~ In n (all_of s) /\ ~ In n taken.
Proof.
  intros s. induction names as [|n rest IH]; intros taken H.
  - split; [constructor|intros n []].
  - cbn in H. destruct (stack_collides s n) eqn:Esc; [discriminate|].
    destruct (existsb (fun m => collides n m) taken) eqn:Et; [discriminate|].
    destruct (IH _ H) as [Hnd Hall].
    assert (Hnt : ~ In n taken).
    { intros Hi. assert (existsb (fun m => collides n m) taken = true); [|congruence].
      apply existsb_exists. exists n. split; [exact Hi|apply collides_refl]. }
    split.
    + constructor; [|exact Hnd]. intros Hi. destruct (Hall n Hi) as [_ Hn]. apply Hn.
      apply in_or_app. right. now left.
    + intros m [<-|Hm].
      * split; [now apply stack_collides_none|exact Hnt].
      * destruct (Hall m Hm) as [H1 H2]. split; [exact H1|]. intros Hi. apply H2. apply in_or_app. now left.
Qed.

Lemma check_patchnames_spec : forall s names,
  check_patchnames s names = true -> NoDup names /\ forall n, In n names -> ~ In n (all_of s).
Proof.
  intros s names H. change (check_patchnames s names) with (cp_go s [] names) in H.
  apply cp_go_spec in H as [H1 H2]. split; [exact H1|]. intros n Hn. now apply H2.
Qed.

Lemma combine_map_fst : forall (A B : Type) (a : list A) (b : list B),
  length a = length b -> map fst (combine a b) = a.
Proof.
  intros A B. induction a as [|x a IH]; intros [|y b] H; cbn in *; try discriminate; [reflexivity|].
  f_equal. apply IH. lia.
Qed.

Lemma combine_map_snd : forall (A B : Type) (a : list A) (b : list B),
  length a = length b -> map snd (combine a b) = b.
Proof.
  intros A B. induction a as [|x a IH]; intros [|y b] H; cbn in *; try discriminate; [reflexivity|].
  f_equal. apply IH. lia.
Qed.

Lemma uncommit_rfinal : forall op o pns commits,
  opened_ok op ->
  walk_down (w_objs (op_world op)) (op_base op) (length commits) = Some commits ->
  length commits = length pns -> NoDup pns ->
  (forall n, In n pns -> ~ In n (all_of (op_state op))) ->
  rfinal (w_objs (op_world op)) (op_state op)
         (uncommit_patches (rev (combine pns commits)) (begin_txn op o)).
Proof.
  intros op o pns commits Hok Hw Hlen Hnd Hdis.
  destruct (begin_txn_inv op o Hok) as [H0 _].
  apply walk_down_chain in Hw as [_ [b [Hch Hlast]]].
  assert (E1 : map fst (rev (combine pns commits)) = rev pns).
  { rewrite map_rev, combine_map_fst by lia. reflexivity. }
  assert (E2 : map snd (rev (combine pns commits)) = rev commits).
  { rewrite map_rev, combine_map_snd by lia. reflexivity. }
  apply (uncommit_final (K0 op o) _ _ b H0).
  - rewrite E1. now apply NoDup_rev.
  - intros n Hn. rewrite E1 in Hn. apply in_rev in Hn. intros Hi. apply (Hdis n Hn).
    unfold all_of. apply in_or_app. left. exact Hi.
  - rewrite E2. exact Hch.
  - rewrite E2. exact Hlast.
Qed.

Lemma step_uncommit : forall lower_s w number names,
  Inv w -> CInv w -> CInv (fst (run_uncommit lower_s w number names)).
Proof.
  intros lower_s w number names Hinv Hc. unfold run_uncommit.
  match goal with |- CInv (fst (match ?p with Some _ => _ | None => _ end)) => destruct p as [pnames|] end;
    [|exact Hc].
  open_cmd Hinv Hc op Eop Hok. cbv zeta.
  set (s := op_state op) in *.
  destruct (negb (head_top_ok op)); [triv Hc Hok|].
  match goal with |- CInv (fst (match ?P with inl r => r | inr l => _ end)) =>
    assert (HP : match P with
                 | inl r => CInv (fst r)
                 | inr (commits, pns) =>
                     walk_down (w_objs (op_world op)) (op_base op) (length commits) = Some commits
                     /\ NoDup pns /\ (forall n, In n pns -> ~ In n (all_of s))
                 end);
    [|destruct P as [r|[commits pns]]; [exact HP|]] end.
  { destruct number as [k|].
    - destruct (walk_down _ _ (N.to_nat k)) as [commits|] eqn:Ew; [|triv Hc Hok].
      pose proof (walk_down_chain _ _ _ _ Ew) as [Hlen _].
      destruct pnames as [|prefix [|? ?]]; [| |triv Hc Hok].
      + destruct (make_patchnames _ _ _ _) as [gen|] eqn:Eg; [|triv Hc Hok].
        apply make_patchnames_nodup in Eg as [_ [Hnd Hdis]]. rewrite Hlen. auto.
      + destruct (forallb _ _); [|triv Hc Hok].
        destruct (check_patchnames s _) eqn:Ecp; [|triv Hc Hok].
        apply check_patchnames_spec in Ecp as [Hnd Hdis].
        rewrite Hlen. auto.
    - destruct pnames as [|pn0 pnames'].
      + destruct (walk_down _ _ 1) as [commits|] eqn:Ew; [|triv Hc Hok].
        pose proof (walk_down_chain _ _ _ _ Ew) as [Hlen _].
        destruct (make_patchnames _ _ _ _) as [gen|] eqn:Eg; [|triv Hc Hok].
        apply make_patchnames_nodup in Eg as [_ [Hnd Hdis]]. rewrite Hlen. auto.
      + destruct (check_patchnames s (pn0 :: pnames')) eqn:Ecp; [|triv Hc Hok]. cbn [negb].
        destruct (walk_down _ _ (length (pn0 :: pnames'))) as [commits|] eqn:Ew; [|triv Hc Hok].
        apply check_patchnames_spec in Ecp as [Hnd Hdis].
        pose proof (walk_down_chain _ _ _ _ Ew) as [Hlen _]. rewrite Hlen. auto. }
  destruct HP as (Hw & Hnd & Hdis).
  destruct (Nat.eqb (length commits) (length pns)) eqn:El; [|triv Hc Hok]. cbn [negb].
  apply Nat.eqb_eq in El.
  apply transact_cinv; [exact Hok|]. now apply uncommit_rfinal.
Qed.

(* ---- undo / redo / reset ---- *)

Lemma find_undo_state_in : forall fuel objs so steps st,
  find_undo_state fuel objs so steps = Some st -> exists so', state_of objs so' = Some st.
Proof.
  induction fuel as [|fuel IH]; intros objs so steps st H; cbn [find_undo_state] in H; [discriminate|].
  destruct (get objs so) as [c|] eqn:Eg; [|discriminate].
  destruct (c_state c) as [st0|] eqn:Ec; [|discriminate].
  destruct (steps =? 0)%Z.
  - injection H as <-. exists so. unfold state_of. now rewrite Eg.
  - match type of H with match ?nx with Some _ => _ | None => _ end = _ => destruct nx as [steps'|] end; [|discriminate].
    destruct (s_prev st0) as [prev|]; [|discriminate]. eapply IH. exact H.
Qed.

Lemma nth_prev_state_in : forall fuel objs so k st,
  nth_prev_state fuel objs so k = Some st -> exists so', state_of objs so' = Some st.
Proof.
  induction fuel as [|fuel IH]; intros objs so k st H; cbn [nth_prev_state] in H; [discriminate|].
  destruct (state_of objs so) as [st0|] eqn:Es; [|discriminate].
  destruct k as [|k].
  - injection H as <-. now exists so.
  - destruct (s_prev st0) as [p|]; [|discriminate]. eapply IH. exact H.
Qed.

(* PRequire opens the recorded state without touching the store *)
Lemma open_require_objs : forall w op,
  open_stack PRequire w = Some op -> w_objs (op_world op) = w_objs w.
Proof.
  intros w op H. destruct (open_stack_cases _ _ _ H)
    as [(so & s & _ & _ & _ & Hw & _)|[(objs' & so & [Hp|Hn] & _)|(Hn & _)]].
  - now rewrite Hw.
  - discriminate.
  - unfold open_stack in H. rewrite Hn in H. discriminate.
  - unfold open_stack in H. rewrite Hn in H. discriminate.
Qed.

Lemma reset_rfinal : forall w op o st so,
  Inv w -> open_stack PRequire w = Some op -> opened_ok op ->
  state_of (w_objs (op_world op)) so = Some st ->
  rfinal (w_objs (op_world op)) (op_state op) (reset_to_state st (begin_txn op o)).
Proof.
  intros w op o st so Hinv Eop Hok Hst.
  destruct (begin_txn_inv op o Hok) as [H0 _].
  pose proof (open_require_objs w op Eop) as Eo.
  assert (Hg : sgood (w_objs w) st). { rewrite Eo in Hst. eapply sgood_of_inv; eassumption. }
  assert (G2 : NoDup (map fst (s_patches st))). { rewrite Eo in Hst. eapply inv_patches_nodup; eassumption. }
  destruct Hg as (G1 & G3 & G4).
  apply (reset_final (K0 op o) st _ H0).
  - exact G2.
  - intros n Hn. apply G3. unfold all_of. apply in_or_app. now left.
  - cbn [begin_txn t_objs]. eapply (oo_cinv op Hok). exact Hst.
Qed.

(* the same with the facts about the logged state given directly *)
Lemma reset_rfinal_gen : forall op o st so,
  opened_ok op -> sgood (w_objs (op_world op)) st -> NoDup (map fst (s_patches st)) ->
  state_of (w_objs (op_world op)) so = Some st ->
  rfinal (w_objs (op_world op)) (op_state op) (reset_to_state st (begin_txn op o)).
Proof.
  intros op o st so Hok Hg G2 Hst.
  destruct (begin_txn_inv op o Hok) as [H0 _].
  destruct Hg as (G1 & G3 & G4).
  apply (reset_final (K0 op o) st _ H0).
  - exact G2.
  - intros n Hn. apply G3. unfold all_of. apply in_or_app. now left.
  - cbn [begin_txn t_objs]. eapply (oo_cinv op Hok). exact Hst.
Qed.

(* external modifications are logged before undo/redo walks through the log: the opened stack
   stays good, and the only new state in the store is the (re-headed) current one *)
Lemma log_extmods_first_ok : forall op0 op,
  opened_ok op0 -> log_extmods_first op0 = Some op ->
  opened_ok op
  /\ store_extends (w_objs (op_world op0)) (w_objs (op_world op))
  /\ s_patches (op_state op) = s_patches (op_state op0)
  /\ (forall so s', state_of (w_objs (op_world op)) so = Some s' ->
        state_of (w_objs (op_world op0)) so = Some s' \/ s' = op_state op).
Proof.
  intros op0 op Hok E. unfold log_extmods_first in E.
  destruct (Nat.eqb _ _).
  { injection E as <-. split; [exact Hok|]. split; [apply store_extends_refl|]. split; [reflexivity|].
    intros so s' Hs. now left. }
  destruct (log_external_mods (op_world op0) (op_state op0)) as [[w1 st1]|] eqn:El; [|discriminate].
  injection E as <-. cbn [op_world op_state].
  pose proof El as El'. unfold log_external_mods in El'.
  destruct (w_stack (op_world op0)) as [so0|]; [|discriminate].
  destruct (state_commit _ _ _) as [[objs' so']|]; [|discriminate].
  injection El' as _ Est.
  apply log_external_mods_spec in El as (L1 & L2 & L3 & L4 & L5 & L6 & L7 & L8 & L9 & L10 & L11).
  destruct Hok as [Hc Hg Hch Hb].
  assert (Hhas : forall n, In n (s_applied (op_state op0)) -> pm_get (s_patches (op_state op0)) n <> None).
  { intros n Hn. eapply sgood_applied_has; [exact Hg|exact Hn]. }
  assert (Hch1 : chain_ok (w_objs w1) st1).
  { apply (chain_ok_same (w_objs w1) (op_state op0) st1); try assumption.
    now apply (chain_ok_ext (w_objs (op_world op0))). }
  split; [|split; [exact L9|split; [exact L7|exact L10]]].
  constructor; cbn [op_world op_state op_base].
  - unfold CInv. apply (SInv_transfer (w_objs (op_world op0)) (w_objs w1) (fun s => s = st1) Hc L9 L10).
    intros s ->. exact Hch1.
  - apply (sgood_ext (w_objs (op_world op0)) (w_objs w1)) in Hg; [|exact L9].
    destruct Hg as (G1 & G2 & G3). rewrite <- Est. unfold sgood, all_of in *. cbn. auto.
  - exact Hch1.
  - rewrite L1. unfold stack_base in *. rewrite L6, L7.
    destruct (s_applied (op_state op0)); [exact Hb|].
    destruct (pm_get _ _); [|exact Hb]. now apply (first_parent_ext (w_objs (op_world op0))).
Qed.

Lemma step_undo_like : forall w steps hard msg,
  Inv w -> CInv w -> CInv (fst (run_undo_like w steps hard msg)).
Proof.
  intros w steps hard msg Hinv Hc. unfold run_undo_like.
  open_cmd Hinv Hc op0 Eop Hok0. cbv zeta.
  destruct (log_extmods_first op0) as [op|] eqn:El; [|triv Hc Hok0].
  destruct (log_extmods_first_ok op0 op Hok0 El) as (Hok & He1 & Hp1 & Hst1).
  apply transact_cinv; [exact Hok|].
  destruct (w_stack (op_world op)) as [so|]; [|cbn; apply ns_extends_refl].
  destruct (find_undo_state _ _ _ _) as [st|] eqn:Ef; [|cbn; apply ns_extends_refl].
  apply find_undo_state_in in Ef as [so' Hst].
  change (t_objs (begin_txn op (opts CDisallow (w_apc (op_world op)) hard true true true))) with (w_objs (op_world op)) in Hst.
  pose proof (open_require_objs w op0 Eop) as Eo.
  destruct (open_stack_cases _ _ _ Eop)
    as [(sow & sw & _ & Hsw & _ & _ & Hsw' & _)|[(objs' & sow & [Hp|Hn] & _)|(Hn & _)]];
    [|discriminate|unfold open_stack in Eop; rewrite Hn in Eop; discriminate
     |unfold open_stack in Eop; rewrite Hn in Eop; discriminate].
  apply (reset_rfinal_gen op _ st so' Hok); [| |exact Hst].
  - destruct (Hst1 so' st Hst) as [Hold| ->]; [|apply (oo_good op Hok)].
    apply (sgood_ext (w_objs (op_world op0))); [exact He1|].
    rewrite Eo in Hold |- *. eapply sgood_of_inv; eassumption.
  - destruct (Hst1 so' st Hst) as [Hold| ->].
    + rewrite Eo in Hold. eapply inv_patches_nodup; eassumption.
    + rewrite Hp1, Hsw'. eapply inv_patches_nodup; eassumption.
Qed.

Lemma step_reset : forall w entry hard,
  Inv w -> CInv w -> CInv (fst (run_reset w entry None hard)).
Proof.
  intros w entry hard Hinv Hc. unfold run_reset.
  destruct entry as [k|]; [|destruct hard; exact Hc].
  open_cmd Hinv Hc op Eop Hok. cbv zeta.
  destruct (w_stack (op_world op)) as [so|]; [|triv Hc Hok].
  destruct (nth_prev_state _ _ _ _) as [st|] eqn:En; [|triv Hc Hok].
  apply nth_prev_state_in in En as [so' Hst].
  apply transact_cinv; [exact Hok|]. eapply reset_rfinal; eassumption.
Qed.

(* ---- refresh ---- *)

Lemma new_applied_cases : forall n o t, (exists t', new_applied n o t = TOk t') \/ new_applied n o t = TPanic.
Proof.
  intros n o t. unfold new_applied. destruct (first_parent (t_objs t) o); [|now right].
  destruct (t_top t); [|now right]. destruct (Nat.eqb _ _); [left; eauto|now right].
Qed.

Lemma nodup_insert_end : forall (a r : list name) x,
  NoDup (a ++ r) -> ~ In x (a ++ r) -> NoDup ((a ++ [x]) ++ r).
Proof.
  intros a r x H Hx. apply nodup_app in H as (Ha & Hr & Hd).
  assert (Hxa : ~ In x a) by (intros Hi; apply Hx, in_or_app; now left).
  assert (Hxr : ~ In x r) by (intros Hi; apply Hx, in_or_app; now right).
  apply nodup_app. repeat split.
  - apply nodup_app. repeat split; [exact Ha|constructor; [tauto|constructor]|].
    intros y Hy [<-|[]]. contradiction.
  - exact Hr.
  - intros y Hy. apply in_app_or in Hy as [Hy|[<-|[]]]; [now apply Hd|exact Hxr].
Qed.

Lemma snoc_split_unique : forall (A2 r L : list name) x,
  A2 ++ x :: r = L ++ [x] -> NoDup (L ++ [x]) -> A2 = L /\ r = [].
Proof.
  intros A2 r L x E Hnd. destruct (@exists_last _ (x :: r)) as [r' [z Hz]]; [discriminate|].
  rewrite Hz, app_assoc in E. apply app_inj_tail in E as [E ->].
  destruct r as [|y r].
  - destruct r' as [|q r']; [|destruct r'; discriminate]. rewrite app_nil_r in E. now split.
  - exfalso. assert (Hin : In x L).
    { rewrite <- E. destruct r' as [|q r']; [discriminate|]. injection Hz as <- _.
      apply in_or_app. right. now left. }
    apply nodup_app in Hnd as (_ & _ & Hd). apply (Hd x Hin). now left.
Qed.

Lemma s_refresh_temp_valid : validate s_refresh_temp = true.
Proof. vm_compute. reflexivity. Qed.

Lemma refresh_tmpname_fresh : forall l,
  ~ In (match uniquify s_refresh_temp [] l with UOk n => n | UFuel => s_refresh_temp end) l.
Proof.
  intros l. destruct (uniquify s_refresh_temp [] l) as [n|] eqn:Eu.
  - apply (uniquify_spec _ _ _ _ s_refresh_temp_valid) in Eu as [_ [Hn|Hf]]; [discriminate|].
    intros Hi. rewrite Forall_forall in Hf. specialize (Hf n Hi). now rewrite collides_refl in Hf.
  - exfalso. now apply (uniquify_never_out_of_fuel s_refresh_temp [] l).
Qed.
Lemma refresh_first : forall op1 tmpname tmpc w2,
  opened_ok op1 -> ~ In tmpname (all_of (op_state op1)) ->
  (exists p, parents_of (w_objs (op_world op1)) tmpc = [p]) ->
  transact op1 default_opts (new_applied tmpname tmpc) MOp = (w2, X0) ->
  CInv w2 /\ exists s2, cur_state w2 = Some s2 /\ sgood (w_objs w2) s2
    /\ s_applied s2 = s_applied (op_state op1) ++ [tmpname]
    /\ (forall m, pm_get (s_patches s2) m =
                  if name_eqb tmpname m then Some tmpc else pm_get (s_patches (op_state op1)) m)
    /\ store_extends (w_objs (op_world op1)) (w_objs w2).
Proof.
  intros op1 tmpname tmpc w2 Hok Hfresh Hpar Ht.
  assert (Hna : ~ In tmpname (s_applied (op_state op1))).
  { intros Hi. apply Hfresh. unfold all_of. apply in_or_app. now left. }
  split.
  { change w2 with (fst (w2, X0)). rewrite <- Ht.
    eapply transact_cinv_rinv; [exact Hok|]. intros t0 H0 Hh0 E0. eapply rinvP_rinv.
    apply new_applied_inv; [exact H0|exact Hh0| |]; subst t0; [exact Hna|exact Hpar]. }
  unfold transact in Ht. destruct (negb (op_initialized op1)).
  { destruct (new_applied _ _ _); discriminate. }
  set (t0 := begin_txn op1 default_opts) in *.
  destruct (new_applied_cases tmpname tmpc t0) as [[t' En]|En]; rewrite En in Ht; [|discriminate].
  apply new_applied_ok in En.
  apply execute_ok_state in Ht as (st1 & prev & th & Hp & Hth & Hcur & Hext & _).
  assert (Hobjs : t_objs t' = w_objs (op_world op1)) by now rewrite En.
  rewrite Hobjs in Hext.
  set (s := op_state op1) in *. set (s2 := new_state t' st1 prev th) in *.
  assert (Hpg : forall m, pm_get (s_patches s2) m =
              if name_eqb tmpname m then Some tmpc else pm_get (s_patches s) m).
  { intros m. unfold s2, new_state. cbn [s_patches]. rewrite pm_get_apply, Hp, En.
    cbn [t_updated set_updated set_lists t_stack]. rewrite up_get_set.
    destruct (name_eqb tmpname m); reflexivity. }
  assert (Hall : all_of s2 = (s_applied s ++ [tmpname]) ++ s_unapplied s ++ s_hidden s).
  { unfold s2, new_state, all_of. cbn [s_applied s_unapplied s_hidden]. now rewrite En. }
  destruct (oo_good op1 Hok) as (G1 & G2 & G3). fold s in G1, G2, G3.
  exists s2. split; [exact Hcur|]. split; [|split; [unfold s2, new_state; cbn [s_applied]; now rewrite En|split; [exact Hpg|exact Hext]]].
  repeat split.
  - rewrite Hall. now apply nodup_insert_end.
  - intros n Hn. rewrite Hpg. destruct (name_eqb tmpname n) eqn:E; [discriminate|].
    apply G2. rewrite Hall in Hn. unfold all_of.
    rewrite <- app_assoc in Hn. apply in_app_or in Hn as [Hn|Hn]; [apply in_or_app; now left|].
    destruct Hn as [Hn|Hn]; [subst; now rewrite name_eqb_refl in E|apply in_or_app; now right].
  - intros n o Hn. rewrite Hpg in Hn. destruct (name_eqb tmpname n).
    + injection Hn as <-. destruct Hpar as [p Hp']. exists p. now apply (parents_of_ext _ _ _ _ _ Hext).
    + destruct (G3 n o Hn) as [p Hp']. exists p. now apply (parents_of_ext _ _ _ _ _ Hext).
Qed.
(* opening a world whose recorded state is known *)
Lemma open_stack_cur : forall p w op s2,
  open_stack p w = Some op -> p <> PForce -> cur_state w = Some s2 ->
  op_state op = s2 /\ w_objs (op_world op) = w_objs w /\ w_branch (op_world op) = w_branch w
  /\ w_stack (op_world op) = w_stack w /\ op_initialized op = true
  /\ stack_base (w_objs w) (w_branch w) s2 = Some (op_base op).
Proof.
  intros p w op s2 H Hp Hcur.
  assert (Hst : w_stack w <> None). { unfold cur_state in Hcur. destruct (w_stack w); [discriminate|discriminate]. }
  destruct (open_stack_cases p w op H)
    as [(so & s & Hso & Hs & Hb & Hw & Hst' & Hi)|[(objs' & so & [Hp'|Hn] & _)|(Hn & _)]]; try contradiction.
  unfold cur_state in Hcur. rewrite Hso in Hcur. rewrite Hs in Hcur. injection Hcur as <-.
  rewrite Hw. cbn. auto 10.
Qed.

(* ---------------------------------------------------------------- repair *)

(* the commits visited by the first-parent walk, top first, with their patch names *)
Definition item : Type := (oid * option name)%type.

Definition names_of (items : list item) : list name :=
  flat_map (fun it => match snd it with Some n => [n] | None => [] end) items.
Definition poids (items : list item) : list oid :=
  flat_map (fun it => match snd it with Some _ => [fst it] | None => [] end) items.
Definition noids (items : list item) : list oid :=
  flat_map (fun it => match snd it with Some _ => [] | None => [fst it] end) items.
Definition has_patch (items : list item) : Prop := exists it, In it items /\ snd it <> None.

Definition step_acc (st : list name * list oid * list oid) (it : item) : list name * list oid * list oid :=
  let '(ap, pf, mb) := st in
  match snd it with
  | Some n => (ap ++ [n], pf ++ mb, [])
  | None => (ap, pf, mb ++ [fst it])
  end.

Fixpoint wchain (objs : store) (c : oid) (items : list item) (stop : oid) : Prop :=
  match items with
  | [] => c = stop
  | it :: r => fst it = c /\ exists p, parents_of objs c = [p] /\ wchain objs p r stop
  end.

Lemma repair_walk_spec : forall objs s base fuel c ap pf mb ar pr stop,
  repair_walk fuel objs s base c ap pf mb = (ar, pr, stop) ->
  exists items, wchain objs c items stop
    /\ (forall it, In it items -> snd it = patch_of_commit s (fst it))
    /\ exists ap' pf' mb', fold_left step_acc items (ap, pf, mb) = (ap', pf', mb')
         /\ ar = ap' /\ (pr = pf' \/ pr = pf' ++ mb').
Proof.
  intros objs s base. induction fuel as [|fuel IH]; intros c ap pf mb ar pr stop H; cbn [repair_walk] in H.
  - injection H as <- <- <-. exists []. cbn. split; [reflexivity|]. split; [tauto|].
    exists ap, pf, mb. auto.
  - destruct (parents_of objs c) as [|p [|q qs]] eqn:Ep.
    + injection H as <- <- <-. exists []. cbn. split; [reflexivity|]. split; [tauto|].
      exists ap, pf, mb. auto.
    + set (it := (c, patch_of_commit s c) : item).
      assert (Hst : (match patch_of_commit s c with
                     | Some pn => (ap ++ [pn], pf ++ mb, [])
                     | None => (ap, pf, mb ++ [c]) end) = step_acc (ap, pf, mb) it).
      { unfold step_acc, it. cbn [fst snd]. now destruct (patch_of_commit s c). }
      rewrite Hst in H. destruct (step_acc (ap, pf, mb) it) as [[ap1 pf1] mb1] eqn:Es.
      destruct (Nat.eqb base p) eqn:Eb.
      * injection H as <- <- <-. exists [it]. cbn [wchain fold_left In]. split; [|split].
        -- split; [reflexivity|]. exists p. auto.
        -- intros it' [<-|[]]. reflexivity.
        -- exists ap1, pf1, mb1. rewrite Es. auto.
      * apply IH in H as (items & Hw & Hl & ap' & pf' & mb' & Hf & Ha & Hp).
        exists (it :: items). cbn [wchain fold_left In]. split; [|split].
        -- split; [reflexivity|]. exists p. auto.
        -- intros it' [<-|Hi]; [reflexivity|now apply Hl].
        -- exists ap', pf', mb'. rewrite Es. auto.
    + injection H as <- <- <-. exists []. cbn. split; [reflexivity|]. split; [tauto|].
      exists ap, pf, mb. auto.
Qed.

Lemma acc_spec : forall items ap pf mb ap' pf' mb',
  fold_left step_acc items (ap, pf, mb) = (ap', pf', mb') ->
  ap' = ap ++ names_of items
  /\ pf' ++ mb' = pf ++ mb ++ noids items
  /\ incl pf pf'
  /\ (has_patch items -> incl mb pf')
  /\ (forall pre g suf, items = pre ++ (g, None) :: suf -> has_patch suf -> In g pf').
Proof.
  induction items as [|it r IH]; intros ap pf mb ap' pf' mb' H; cbn [fold_left] in H.
  - injection H as <- <- <-. cbn. rewrite !app_nil_r. repeat split; try apply incl_refl.
    + intros [it [[] _]].
    + intros pre g suf E. destruct pre; discriminate.
  - destruct it as [x [n|]]; cbn [step_acc snd fst] in H.
    + apply IH in H as (H1 & H2 & H3 & H4 & H5). repeat split.
      * rewrite H1. cbn. now rewrite <- app_assoc.
      * rewrite H2. cbn. now rewrite <- app_assoc.
      * intros y Hy. apply H3. apply in_or_app. now left.
      * intros _ y Hy. apply H3. apply in_or_app. now right.
      * intros pre g suf E Hs. destruct pre as [|it' pre]; [discriminate|]. injection E as _ E.
        now apply (H5 pre g suf).
    + apply IH in H as (H1 & H2 & H3 & H4 & H5).
      assert (Hhp : has_patch ((x, None) :: r) -> has_patch r).
      { intros [it [[<-|Hi] Hn]]; [now cbn in Hn|now exists it]. }
      repeat split.
      * exact H1.
      * rewrite H2. cbn. now rewrite <- !app_assoc.
      * exact H3.
      * intros Hp y Hy. apply (H4 (Hhp Hp)). apply in_or_app. now left.
      * intros pre g suf E Hs. destruct pre as [|it' pre].
        -- injection E as <- <-. apply (H4 Hs). apply in_or_app. right. now left.
        -- injection E as _ E. now apply (H5 pre g suf).
Qed.

(* down-chains: every element's only parent is the next one; the last one sits on [b] *)
Fixpoint dch (objs : store) (l : list oid) (b : oid) : Prop :=
  match l with
  | [] => True
  | x :: r => parents_of objs x = [hd b r] /\ dch objs r b
  end.

Lemma dch_chainl : forall objs l b, dch objs l b <-> chainl objs b (rev l).
Proof.
  intros objs. induction l as [|x r IH]; intros b; cbn [dch rev]; [cbn; tauto|].
  rewrite chainl_app, IH. cbn [chainl].
  assert (E : last (rev r) b = hd b r).
  { destruct r as [|y r']; [reflexivity|]. cbn [rev hd]. apply last_snoc. }
  rewrite E. tauto.
Qed.

Lemma dch_app : forall objs l1 l2 b, dch objs l1 (hd b l2) -> dch objs l2 b -> dch objs (l1 ++ l2) b.
Proof.
  intros objs l1 l2 b H1 H2. apply dch_chainl. rewrite rev_app_distr. apply chainl_app. split.
  - now apply dch_chainl.
  - apply dch_chainl in H1.
    assert (E : last (rev l2) b = hd b l2).
    { destruct l2 as [|y r']; [reflexivity|]. cbn [rev hd]. apply last_snoc. }
    now rewrite E.
Qed.

Lemma dch_parent_in : forall objs l e x y,
  dch objs l e -> In x l -> parents_of objs x = [y] -> In y l \/ y = e.
Proof.
  intros objs. induction l as [|z r IH]; intros e x y H Hx Hp; [destruct Hx|].
  destruct H as [Hz Hr]. destruct Hx as [<-|Hx].
  - rewrite Hz in Hp. injection Hp as <-. destruct r as [|q r']; [now right|left; right; now left].
  - destruct (IH e x y Hr Hx Hp) as [Hi| ->]; [left; now right|now right].
Qed.

(* items: a run of non-patch commits, then the first patch *)
Lemma first_patch_split : forall (items : list item) y rest,
  poids items = y :: rest ->
  exists run n r2, items = run ++ (y, Some n) :: r2 /\ Forall (fun it => snd it = None) run.
Proof.
  induction items as [|[x [n|]] r IH]; intros y rest H; cbn in H; [discriminate| |].
  - injection H as <- _. exists [], n, r. split; [reflexivity|constructor].
  - destruct (IH y rest H) as (run & n & r2 & -> & Hf). exists ((x, None) :: run), n, r2.
    split; [reflexivity|]. constructor; [reflexivity|exact Hf].
Qed.

Lemma wchain_run : forall objs run c y n r2 stop,
  wchain objs c (run ++ (y, Some n) :: r2) stop -> Forall (fun it : item => snd it = None) run ->
  (run = [] /\ c = y)
  \/ exists run' g, run = run' ++ [(g, None)] /\ parents_of objs g = [y].
Proof.
  intros objs. induction run as [|[x o] run IH]; intros c y n r2 stop H Hf.
  - left. cbn in H. destruct H as [H _]. auto.
  - right. inversion Hf as [|? ? Ho Hf']; subst. cbn in Ho. subst o.
    cbn [app wchain fst] in H. destruct H as [-> [p [Hp Hw]]].
    destruct (IH _ _ _ _ _ Hw Hf') as [[-> ->]|(run' & g & -> & Hg)].
    + exists [], c. auto.
    + exists ((c, None) :: run'), g. auto.
Qed.

Lemma gap_free : forall objs s (PR : oid -> Prop) e stop items c,
  wchain objs c items stop ->
  (forall it, In it items -> snd it = patch_of_commit s (fst it)) ->
  (forall y, PR y -> patch_of_commit s y = None) ->
  (forall pre g suf y, items = pre ++ (g, None) :: suf -> has_patch suf ->
                       parents_of objs g = [y] -> PR y \/ y = e) ->
  (forall pre y n suf, items = pre ++ (y, Some n) :: suf -> has_patch pre -> y <> e) ->
  exists b, dch objs (poids items) b.
Proof.
  intros objs s PR e stop. induction items as [|[x [n|]] r IH]; intros c Hw Hl HPR H1 H2.
  - exists O. exact I.
  - cbn [wchain fst] in Hw. destruct Hw as [-> [p [Hp Hw]]].
    destruct (IH p Hw) as [b Hb].
    + intros it Hi. apply Hl. now right.
    + exact HPR.
    + intros pre g suf y E. apply (H1 ((c, Some n) :: pre)). now rewrite E.
    + intros pre y n' suf E Hh. apply (H2 ((c, Some n) :: pre) y n' suf); [now rewrite E|].
      destruct Hh as [it [Hi Hn]]. exists it. split; [now right|exact Hn].
    + change (poids ((c, Some n) :: r)) with (c :: poids r).
      destruct (poids r) as [|y rest] eqn:Ep.
      * exists p. cbn. auto.
      * exists b. cbn [dch hd]. split; [|exact Hb]. rewrite Hp. f_equal.
        destruct (first_patch_split r y rest Ep) as (run & n' & r2 & -> & Hf).
        destruct (wchain_run _ _ _ _ _ _ _ Hw Hf) as [[-> ->]|(run' & g & -> & Hg)]; [reflexivity|].
        exfalso.
        assert (Hy : patch_of_commit s y = Some n').
        { symmetry. apply (Hl (y, Some n')). right. apply in_or_app. right. now left. }
        destruct (H1 ((c, Some n) :: run') g ((y, Some n') :: r2) y) as [Hpr|He].
        -- cbn. now rewrite <- app_assoc.
        -- exists (y, Some n'). split; [now left|discriminate].
        -- exact Hg.
        -- apply HPR in Hpr. congruence.
        -- apply (H2 ((c, Some n) :: run' ++ [(g, None)]) y n' r2); [reflexivity| |exact He].
           exists (c, Some n). split; [now left|discriminate].
  - cbn [wchain fst] in Hw. destruct Hw as [-> [p [Hp Hw]]].
    change (poids ((c, None) :: r)) with (poids r). apply (IH p Hw).
    + intros it Hi. apply Hl. now right.
    + exact HPR.
    + intros pre g suf y E. apply (H1 ((c, None) :: pre)). now rewrite E.
    + intros pre y n' suf E Hh. apply (H2 ((c, None) :: pre) y n' suf); [now rewrite E|].
      destruct Hh as [it [Hi Hn]]. exists it. split; [now right|exact Hn].
Qed.

Lemma remove_first_nodup : forall n l, NoDup l -> NoDup (remove_first n l) /\ ~ In n (remove_first n l).
Proof.
  intros n l. induction l as [|x l IH]; intros H; cbn; [split; [constructor|tauto]|].
  inversion H as [|? ? Hx Hl]; subst. destruct (name_eqb x n) eqn:E.
  - apply name_eqb_eq in E. subst. auto.
  - apply name_eqb_false in E. destruct (IH Hl) as [I1 I2]. split.
    + constructor; [|exact I1]. intros Hi. now apply remove_first_incl in Hi.
    + intros [Hi|Hi]; [congruence|contradiction].
Qed.

Lemma is_perm_of_incl : forall new old x, is_perm_of new old = true -> In x new -> In x old.
Proof.
  induction new as [|n new IH]; intros old x H Hi; [destruct Hi|].
  cbn in H. apply andb_true_iff in H as [Hm H]. destruct Hi as [<-|Hi]; [now apply mem_In|].
  eapply remove_first_incl. eapply IH; eassumption.
Qed.

Lemma is_perm_of_nodup : forall new old, is_perm_of new old = true -> NoDup old -> NoDup new.
Proof.
  induction new as [|n new IH]; intros old H Hnd; [constructor|].
  cbn in H. apply andb_true_iff in H as [_ H].
  destruct (remove_first_nodup n old Hnd) as [R1 R2].
  constructor; [|now apply (IH _ H)].
  intros Hi. apply R2. eapply is_perm_of_incl; eassumption.
Qed.

Lemma patch_of_commit_spec : forall s c n,
  patch_of_commit s c = Some n -> pm_get (s_patches s) n = Some c.
Proof.
  intros s c n H. unfold patch_of_commit in H. apply find_some in H as [_ H].
  destruct (pm_get (s_patches s) n) as [po|]; [|discriminate]. apply Nat.eqb_eq in H. now subst.
Qed.

Lemma wchain_single : forall objs items c stop it,
  wchain objs c items stop -> In it items -> exists p, parents_of objs (fst it) = [p].
Proof.
  intros objs. induction items as [|it0 r IH]; intros c stop it H Hi; [destruct Hi|].
  cbn in H. destruct H as [E [p [Hp Hw]]]. destruct Hi as [<-|Hi]; [rewrite E; eauto|].
  eapply IH; eassumption.
Qed.

Lemma noids_in : forall (items : list item) y, In y (noids items) -> In (y, None) items.
Proof.
  induction items as [|[x [n|]] r IH]; intros y H; cbn in H; [destruct H|right; now apply IH|].
  destruct H as [<-|H]; [now left|right; now apply IH].
Qed.

Lemma poids_names : forall s (items : list item),
  (forall it, In it items -> snd it = patch_of_commit s (fst it)) ->
  map (patch_oid s) (names_of items) = poids items
  /\ forall n, In n (names_of items) -> pm_get (s_patches s) n <> None.
Proof.
  intros s. induction items as [|[x [n|]] r IH]; intros Hl; cbn.
  - split; [reflexivity|tauto].
  - destruct IH as [I1 I2]; [intros it Hi; apply Hl; now right|].
    assert (Hx : pm_get (s_patches s) n = Some x).
    { apply patch_of_commit_spec. symmetry. apply (Hl (x, Some n)). now left. }
    split.
    + unfold patch_oid at 1. rewrite Hx. now f_equal.
    + intros m [<-|Hm]; [congruence|now apply I2].
  - apply IH. intros it Hi. apply Hl. now right.
Qed.

Lemma has_patch_hd : forall (pre suf : list item) d,
  has_patch pre -> exists x n, In (x, Some n) pre /\ hd d (poids (pre ++ suf)) = x
                               /\ exists m, hd_error (names_of (pre ++ suf)) = Some m /\ m = n.
Proof.
  induction pre as [|[x [n|]] r IH]; intros suf d [it [Hi Hn]]; [destruct Hi| |].
  - exists x, n. cbn. split; [now left|]. split; [reflexivity|]. now exists n.
  - destruct Hi as [<-|Hi]; [now cbn in Hn|].
    destruct (IH suf d) as (x' & n' & H1 & H2 & H3); [now exists it|].
    exists x', n'. cbn. split; [now right|]. split; assumption.
Qed.

Lemma make_ok_valid : forall lower_s raw lower limit nm,
  make lower_s raw lower limit = Ok nm -> validate nm = true.
Proof.
  intros lower_s raw lower limit nm H. unfold make in H.
  match type of H with match from_str ?f with _ => _ end = _ => destruct (from_str f) as [n|] eqn:E end;
    [|discriminate].
  injection H as <-. unfold from_str in E. destruct (validate _) eqn:Ev; [|discriminate].
  now injection E as <-.
Qed.

Record rrep (objs0 : store) (s0 : sstate) (boids : list oid) (top0 : oid) (t : txn) (done : list oid)
  : Prop := mkRrep {
  rr_objs : t_objs t = objs0;
  rr_stack : t_stack t = s0;
  rr_nodup : NoDup (t_applied t);
  rr_has : forall n, In n (t_applied t) -> t_patch t n <> None;
  rr_oids : toids t = boids ++ done;
  rr_chain : chainl objs0 top0 done;
  rr_top0 : top0 = last boids (t_base_oid t)
}.

Lemma last_app2 : forall (A : Type) (a b : list A) d, last (a ++ b) d = last b (last a d).
Proof.
  intros A a b d. destruct b as [|y b]; [now rewrite app_nil_r|].
  destruct (@exists_last _ (y :: b)) as [b' [z ->]]; [discriminate|].
  now rewrite app_assoc, !last_snoc.
Qed.

Lemma rrep_top : forall objs0 s0 boids top0 t done,
  rrep objs0 s0 boids top0 t done -> t_top t = Some (last done top0).
Proof.
  intros objs0 s0 boids top0 t done H. rewrite (t_top_spec t (rr_has _ _ _ _ _ _ H)).
  rewrite (rr_oids _ _ _ _ _ _ H), last_app2, (rr_top0 _ _ _ _ _ _ H). reflexivity.
Qed.

Lemma rrep_step : forall objs0 s0 boids top0 t done pn c,
  rrep objs0 s0 boids top0 t done ->
  (exists p, parents_of objs0 c = [p]) -> ~ In pn (t_applied t) ->
  match new_applied pn c t with
  | TOk t' => rrep objs0 s0 boids top0 t' (done ++ [c])
  | TPanic => True
  | _ => False
  end.
Proof.
  intros objs0 s0 boids top0 t done pn c H [p Hp] Hn. unfold new_applied.
  rewrite (rrep_top _ _ _ _ _ _ H). unfold first_parent. rewrite (rr_objs _ _ _ _ _ _ H), Hp. cbn [hd_error].
  destruct (Nat.eqb p (last done top0)) eqn:E; [|exact I]. apply Nat.eqb_eq in E.
  set (t' := set_updated _ _).
  assert (Hpat : forall m, t_patch t' m = if name_eqb pn m then Some c else t_patch t m).
  { intros m. unfold t_patch, t'. tproj. rewrite up_get_set. now destruct (name_eqb pn m). }
  destruct H as [X1 X2 X3 X4 X5 X6 X7]. constructor.
  - exact X1.
  - exact X2.
  - change (t_applied t') with (t_applied t ++ [pn]). apply nodup_app.
    repeat split; [exact X3|constructor; [tauto|constructor]|]. intros x Hx [<-|[]]. contradiction.
  - intros m Hm. change (t_applied t') with (t_applied t ++ [pn]) in Hm. rewrite Hpat.
    destruct (name_eqb pn m) eqn:Em; [discriminate|]. apply X4.
    apply in_app_or in Hm as [Hm|[<-|[]]]; [exact Hm|]. now rewrite name_eqb_refl in Em.
  - unfold toids. change (t_applied t') with (t_applied t ++ [pn]). rewrite map_app. cbn [map].
    unfold toid at 2. rewrite Hpat, name_eqb_refl. rewrite app_assoc. f_equal.
    rewrite <- X5. apply map_ext_in. intros m Hm. unfold toid. rewrite Hpat.
    rewrite name_eqb_neq; [reflexivity|]. intros ->. contradiction.
  - apply chainl_snoc; [exact X6|]. rewrite Hp. now f_equal.
  - exact X7.
Qed.

Section RepairFold.
  Variable lower_s : str -> str.

  Definition repair_step (r : tres) (c : oid) : tres :=
    tbind r (fun t =>
      match make lower_s (subj_of (t_objs t) c) true (Some 30%N) with
      | Ok nm =>
          match uniquify nm [] (t_all t) with
          | UOk pn => new_applied pn c t
          | UFuel => TPanic
          end
      | _ => TPanic
      end).

  Lemma repair_fold_panic : forall cs, fold_left repair_step cs TPanic = TPanic.
  Proof. induction cs as [|c cs IH]; [reflexivity|exact IH]. Qed.

  Lemma repair_fold : forall objs0 s0 boids top0 cs t done,
    rrep objs0 s0 boids top0 t done ->
    (forall c, In c cs -> exists p, parents_of objs0 c = [p]) ->
    match fold_left repair_step cs (TOk t) with
    | TOk t' => rrep objs0 s0 boids top0 t' (done ++ cs)
    | TPanic => True
    | _ => False
    end.
  Proof.
    intros objs0 s0 boids top0. induction cs as [|c cs IH]; intros t done H Hs.
    - cbn. now rewrite app_nil_r.
    - cbn [fold_left]. unfold repair_step at 2. cbn [tbind].
      destruct (make lower_s _ true _) as [nm| |] eqn:Em; try (now rewrite repair_fold_panic).
      destruct (uniquify nm [] (t_all t)) as [pn|] eqn:Eu; [|now rewrite repair_fold_panic].
      apply make_ok_valid in Em.
      apply (uniquify_spec _ _ _ _ Em) in Eu as [_ [Hn|Hf]]; [discriminate|].
      assert (Hpn : ~ In pn (t_applied t)).
      { intros Hi. rewrite Forall_forall in Hf.
        assert (Ha : In pn (t_all t)) by (unfold t_all; apply in_or_app; now left).
        specialize (Hf pn Ha). now rewrite collides_refl in Hf. }
      pose proof (rrep_step _ _ _ _ _ _ pn c H (Hs c (or_introl eq_refl)) Hpn) as Hstep.
      destruct (new_applied pn c t) as [t'| | |]; try contradiction.
      + specialize (IH t' (done ++ [c]) Hstep (fun c' Hc' => Hs c' (or_intror Hc'))).
        now rewrite <- app_assoc in IH.
      + now rewrite repair_fold_panic.
  Qed.
End RepairFold.

Lemma names_of_app : forall a b, names_of (a ++ b) = names_of a ++ names_of b.
Proof. intros a b. unfold names_of. apply flat_map_app. Qed.

Lemma names_of_in : forall (items : list item) x n, In (x, Some n) items -> In n (names_of items).
Proof.
  intros items x n H. unfold names_of. apply in_flat_map. exists (x, Some n). split; [exact H|now left].
Qed.

(* the walk's result, repaired: the final applied list is a chain *)
Lemma repair_rfinal : forall lower_s op o nb fuel ar pr stop U Hd,
  opened_ok op ->
  repair_walk fuel (w_objs (op_world op)) (op_state op) (op_base op) (w_branch (op_world op)) [] [] []
    = (ar, pr, stop) ->
  rfinal (w_objs (op_world op)) (op_state op)
    (tbind (repair_appliedness (rev ar) U Hd (begin_txn op o))
       (fun t0 => fold_left (repair_step lower_s) (rev pr) (TOk (set_base t0 (Some nb))))).
Proof.
  intros lower_s op o nb fuel ar pr stop U Hd Hok Hw.
  set (objs := w_objs (op_world op)) in *. set (s := op_state op) in *.
  apply repair_walk_spec in Hw as (items & Hwc & Hl & ap' & pf' & mb' & Hf & -> & Hpr).
  apply acc_spec in Hf as (Hap & Hpm & _ & _ & Hincl). cbn [app] in Hap, Hpm. subst ap'.
  destruct (poids_names s items Hl) as [Hpo Hhas].
  unfold repair_appliedness.
  destruct (is_perm_of _ _) eqn:Eperm; [|exact I]. cbn [tbind].
  set (t0 := begin_txn op o) in *.
  assert (HndA : NoDup (rev (names_of items))).
  { assert (Hall : NoDup (t_all t0)). { unfold t0, t_all. cbn [begin_txn t_applied t_unapplied t_hidden]. apply (oo_good op Hok). }
    pose proof (is_perm_of_nodup _ _ Eperm Hall) as Hn. now apply nodup_app in Hn as [? _]. }
  set (t1 := set_base (set_lists t0 (rev (names_of items)) U Hd) (Some nb)).
  set (top0 := hd nb (poids items)).
  assert (Hprn : forall y, In y pr -> In (y, None) items).
  { intros y Hy. apply noids_in. rewrite <- Hpm. destruct Hpr as [-> | ->]; [apply in_or_app; now left|exact Hy]. }
  assert (H1 : rrep objs s (rev (poids items)) top0 t1 []).
  { constructor; try reflexivity.
    - exact HndA.
    - intros n Hn. change (t_patch t1 n) with (pm_get (s_patches s) n). apply Hhas.
      now apply in_rev.
    - rewrite app_nil_r. unfold toids. change (t_applied t1) with (rev (names_of items)).
      rewrite <- Hpo, <- map_rev. apply map_ext. reflexivity.
    - change (t_base_oid t1) with nb. unfold top0. destruct (poids items) as [|y r]; [reflexivity|].
      cbn [rev hd]. symmetry. apply last_snoc. }
  assert (Hsingle : forall c, In c (rev pr) -> exists p, parents_of objs c = [p]).
  { intros c Hc. apply in_rev in Hc. apply Hprn in Hc.
    apply (wchain_single _ _ _ _ _ Hwc Hc). }
  pose proof (repair_fold lower_s objs s _ top0 (rev pr) t1 [] H1 Hsingle) as Hfold.
  fold t1. destruct (fold_left (repair_step lower_s) (rev pr) (TOk t1)) as [t'| | |]; try contradiction;
    [|exact I].
  cbn [app] in Hfold. destruct Hfold as [R1 R2 R3 R4 R5 R6 R7]. cbn [rfinal].
  split; [|split; [rewrite R1; apply ns_extends_refl|exact R2]].
  split; [exact R4|].
  (* the guards make pr a down-chain onto top0 *)
  assert (Hg : dch objs pr top0). { apply dch_chainl. exact R6. }
  rewrite R1, R5.
  assert (Hch : exists b, dch objs (pr ++ poids items) b).
  { destruct (poids items) as [|e rest] eqn:Ep.
    - exists nb. rewrite app_nil_r. exact Hg.
    - assert (Hgf : exists b, dch objs (poids items) b).
      { apply (gap_free objs s (fun y => In y pr) e stop items _ Hwc Hl).
        - intros y Hy. apply Hprn in Hy. symmetry. apply (Hl _ Hy).
        - intros pre g suf y E Hs Hp.
          assert (Hgp : In g pr).
          { destruct Hpr as [-> | ->]; [|apply in_or_app; left]; now apply (Hincl pre g suf). }
          unfold top0 in Hg. cbn [hd] in Hg.
          apply (dch_parent_in _ _ _ _ _ Hg Hgp Hp).
        - intros pre y n suf E Hhp Hy.
          destruct (has_patch_hd pre ((y, Some n) :: suf) nb Hhp) as (x & ne & Hin & Hhd & m & Hm & ->).
          assert (Hhd' : hd nb (poids items) = x) by (rewrite E; exact Hhd).
          rewrite Ep in Hhd'. cbn [hd] in Hhd'. clear Hhd. subst x y.
          assert (Hne : Some ne = Some n).
          { assert (A1 : In (e, Some ne) items) by (rewrite E; apply in_or_app; now left).
            assert (A2 : In (e, Some n) items) by (rewrite E; apply in_or_app; right; now left).
            apply Hl in A1. apply Hl in A2. cbn [fst snd] in A1, A2. congruence. }
          injection Hne as <-.
          (* the name occurs twice *)
          apply NoDup_rev in HndA. rewrite rev_involutive in HndA.
          rewrite E, names_of_app in HndA. apply nodup_app in HndA as (_ & _ & Hdis).
          apply (Hdis ne); [eapply names_of_in; exact Hin|]. cbn. now left. }
      destruct Hgf as [b Hb]. rewrite Ep in Hb. exists b. apply dch_app; [|exact Hb].
      unfold top0 in Hg. exact Hg. }
  destruct Hch as [b Hb]. exists b. apply dch_chainl in Hb. now rewrite rev_app_distr in Hb.
Qed.

Lemma step_repair : forall lower_s w, Inv w -> CInv w -> CInv (fst (run_repair lower_s w)).
Proof.
  intros lower_s w Hinv Hc. unfold run_repair.
  open_cmd Hinv Hc op Eop Hok. cbv zeta.
  destruct (repair_walk _ _ _ _ _ _ _ _) as [[ar pr] stop] eqn:Ew.
  apply transact_cinv; [exact Hok|].
  exact (repair_rfinal lower_s op _ _ _ ar pr stop _ _ Hok Ew).
Qed.

(* ---------------------------------------------------------------- edit *)

(* the applied list splits at the edited patch (or the patch is not applied) *)
Lemma after_name_split : forall n l,
  (~ In n l /\ after_name n l = []) \/ exists pre, l = pre ++ n :: after_name n l.
Proof.
  intros n. induction l as [|x r IH]; [left; split; [tauto|reflexivity]|]. cbn [after_name].
  destruct (name_eqb x n) eqn:E.
  - apply name_eqb_eq in E. subst x. right. now exists [].
  - apply name_eqb_false in E. destruct IH as [[Hn Ha]|[pre Hp]].
    + left. split; [|exact Ha]. intros [Hx|Hx]; contradiction.
    + right. exists (x :: pre). cbn [app]. now f_equal.
Qed.

Lemma filter_negmem_incl : forall (l l' : list name),
  incl l l' -> filter (fun n => negb (mem n l')) l = [].
Proof.
  induction l as [|x l IH]; intros l' Hi; cbn [filter]; [reflexivity|].
  assert (Hx : mem x l' = true) by (apply mem_In, Hi; now left).
  rewrite Hx. cbn [negb]. apply IH. intros y Hy. apply Hi. now right.
Qed.

Lemma split_at_first_app : forall (a b : list name),
  (forall x, In x a -> ~ In x b) ->
  split_at_first (fun n => mem n b) (a ++ b) = (a, b).
Proof.
  intros a b. unfold split_at_first. induction a as [|x a IH]; intros Hd.
  - cbn [app]. destruct b as [|y r]; [reflexivity|].
    cbn [position]. assert (Hy : mem y (y :: r) = true) by (apply mem_In; now left).
    rewrite Hy. reflexivity.
  - cbn [app position].
    assert (Hx : mem x b = false). { apply mem_false. apply Hd. now left. }
    rewrite Hx.
    pose proof (IH (fun y Hy => Hd y (or_intror Hy))) as IH'.
    destruct (position (fun n => mem n b) (a ++ b)) as [i|]; cbn [option_map].
    + cbn [firstn skipn]. injection IH' as E1 E2. congruence.
    + injection IH' as E1 E2. congruence.
Qed.

(* popping exactly a suffix of the applied list: nothing is popped incidentally *)
Lemma pop_above : forall t pre ab,
  t_applied t = pre ++ ab -> NoDup (t_applied t) ->
  pop_patches (fun n => mem n ab) t = (set_lists t pre (ab ++ t_unapplied t) (t_hidden t), []).
Proof.
  intros t pre ab Ha Hnd. unfold pop_patches. rewrite Ha.
  rewrite split_at_first_app.
  - rewrite (filter_negmem_incl ab ab (incl_refl _)), filter_all; [reflexivity|].
    apply Forall_forall. intros x Hx. now apply mem_In.
  - rewrite Ha in Hnd. apply nodup_app in Hnd as (_ & _ & Hd). exact Hd.
Qed.

(* replacing the commit of a patch that is not applied *)
Lemma update_notin_inv : forall K pn o pc t,
  tinv K t -> t_head t = None -> ~ In pn (t_applied t) -> t_patch t pn = Some pc ->
  parents_of (t_objs t) o = parents_of (t_objs t) pc ->
  rinvP K (fun t' => t_applied t' = t_applied t) (update_patch pn o t).
Proof.
  intros K pn o pc t H Hh Hn Hpc Hpar. unfold update_patch. rewrite Hpc.
  set (t' := set_updated _ _).
  assert (Hpat : forall m, t_patch t' m = if name_eqb pn m then Some o else t_patch t m).
  { intros m. unfold t_patch, t'. tproj. rewrite up_get_set. now destruct (name_eqb pn m). }
  cbn [rinvP]. split; [|split; [exact Hh|reflexivity]].
  assert (Hoids : toids t' = toids t).
  { unfold toids. change (t_applied t') with (t_applied t). apply map_ext_in. intros m Hm.
    unfold toid. rewrite Hpat. rewrite name_eqb_neq; [reflexivity|]. intros ->. contradiction. }
  destruct H as [X1 X2 X3 X4 X5 X6 ti_has0 ti_single0 ti_chain0 X10]. constructor; try assumption.
  - intros m Hm. rewrite Hpat. destruct (name_eqb pn m); [discriminate|]. now apply ti_has0.
  - intros m o' Hm. rewrite Hpat in Hm. destruct (name_eqb pn m).
    + injection Hm as <-. change (t_objs t') with (t_objs t). rewrite Hpar. eauto.
    + eauto.
  - change (t_objs t') with (t_objs t). change (t_base_oid t') with (t_base_oid t).
    rewrite Hoids. exact ti_chain0.
  - left. exact Hh.
Qed.

(* the closure of edit: pop the patches above, swap in a commit with the same parents, push back *)
Lemma edit_rinv : forall K pn o pc t,
  tinv K t -> t_head t = None -> t_patch t pn = Some pc ->
  parents_of (t_objs t) o = parents_of (t_objs t) pc ->
  rinv K (let above := after_name pn (t_applied t) in
          let '(t1, extra) := pop_patches (fun n => mem n above) t in
          match extra with
          | _ :: _ => TPanic
          | [] => tbind (update_patch pn o t1) (push_patches above false)
          end).
Proof.
  intros K pn o pc t H Hh Hpc Hpar. cbv zeta.
  pose proof (ti_nodup K t H) as Hnd.
  set (above := after_name pn (t_applied t)).
  assert (Hsplit : exists pre, t_applied t = pre ++ above
             /\ (~ In pn pre \/ exists l, pre = l ++ [pn])).
  { destruct (after_name_split pn (t_applied t)) as [[Hn Ha]|[pre Hp]].
    - exists (t_applied t). unfold above. rewrite Ha, app_nil_r. split; [reflexivity|now left].
    - exists (pre ++ [pn]). fold above in Hp. split; [now rewrite <- app_assoc|right; now exists pre]. }
  destruct Hsplit as (pre & Ha & Hcase).
  pose proof (pop_patches_inv K (fun n => mem n above) t H Hh) as Hp. cbv zeta in Hp.
  rewrite (pop_above t pre above Ha Hnd) in Hp |- *. cbn [fst] in Hp. cbv beta iota.
  set (t1 := set_lists t pre (above ++ t_unapplied t) (t_hidden t)) in *.
  destruct Hp as (H1 & Hh1 & _).
  assert (Hpc1 : t_patch t1 pn = Some pc) by exact Hpc.
  assert (Hpar1 : parents_of (t_objs t1) o = parents_of (t_objs t1) pc) by exact Hpar.
  assert (Hup : rinvP K (fun t' => t_applied t' = pre) (update_patch pn o t1)).
  { destruct Hcase as [Hn|[l Hl]].
    - exact (update_notin_inv K pn o pc t1 H1 Hh1 Hn Hpc1 Hpar1).
    - exact (update_top_inv K pn o pc l t1 H1 Hh1 Hl Hpc1 Hpar1). }
  unfold rinv. eapply rinvP_bind; [exact Hup|].
  cbv beta. intros t2 H2 Hh2 Ha2.
  eapply rinvP_weaken; [|apply push_patches_inv; [exact H2|exact Hh2|]]; [auto|].
  rewrite Ha2, <- Ha. exact Hnd.
Qed.

Lemma step_edit : forall w loc meta msg, Inv w -> CInv w -> CInv (fst (run_edit w loc meta msg)).
Proof.
  intros w loc meta msg Hinv Hc. unfold run_edit.
  destruct (match loc with
            | Some o => match parse_locator o with Some l => Some (Some l) | None => None end
            | None => Some None end) as [loc_l|]; [|exact Hc].
  open_cmd Hinv Hc op Eop Hok. cbv zeta.
  set (s := op_state op) in *.
  destruct (negb (head_top_ok op)); [triv Hc Hok|].
  match goal with |- CInv (fst (rres_bind _ ?r _)) => destruct r as [pn| |] end;
    [|triv Hc Hok|triv Hc Hok].
  cbn [rres_bind].
  destruct (pm_get (s_patches s) pn) as [pc|] eqn:Epc; [|triv Hc Hok].
  destruct (get (w_objs (op_world op)) pc) as [old|] eqn:Eg; [|triv Hc Hok].
  match goal with |- CInv (fst (if ?c then _ else _)) => destruct c end; [triv Hc Hok|].
  unfold put. set (c := plain _ _ _ _). set (objs' := w_objs (op_world op) ++ [c]).
  pose proof (opened_ok_with_objs op objs' Hok (ns_extends_put_plain _ _ _ _ _)) as Hok'.
  eapply transact_cinv_rinv; [exact Hok'|]. intros t0 H0 Hh0 E0. cbv beta.
  apply (edit_rinv _ pn _ pc); [exact H0|exact Hh0| |]; subst t0.
  - exact Epc.
  - cbn [begin_txn t_objs op_world with_objs w_objs]. unfold objs', c. rewrite parents_put_new.
    unfold parents_of. now rewrite (get_app_some _ _ _ _ Eg).
Qed.

(* ---------------------------------------------------------------- refresh *)

Lemma after_name_app_in : forall pn A r, In pn A -> after_name pn (A ++ r) = after_name pn A ++ r.
Proof.
  intros pn A r. induction A as [|x A IH]; intros Hin; [destruct Hin|]. cbn [after_name app].
  destruct (name_eqb x pn) eqn:E; [reflexivity|]. apply name_eqb_false in E.
  destruct Hin as [->|Hin]; [congruence|]. now apply IH.
Qed.

(* the EditBuilder step of refresh *)
Lemma refresh_commit_inv : forall K t pc tr t2 newc,
  tinv K t -> (exists n, t_patch t n = Some pc) -> refresh_commit t pc tr = (t2, newc) ->
  tinv K t2 /\ t_head t2 = t_head t /\ t_applied t2 = t_applied t
  /\ (forall m, t_patch t2 m = t_patch t m)
  /\ (forall o, newc = Some o -> parents_of (t_objs t2) o = parents_of (t_objs t2) pc).
Proof.
  intros K t pc tr t2 newc H [n Hn] E. unfold refresh_commit in E.
  destruct (tree_eqb _ _).
  - injection E as <- <-. split; [exact H|]. do 3 (split; [reflexivity|]). intros o Eo. discriminate.
  - unfold put in E. injection E as <- <-. split; [|do 3 (split; [reflexivity|])].
    + apply tinv_set_objs; [exact H|]. now apply ns_extends_app1.
    + intros o Eo. injection Eo as <-. cbn [t_objs set_objs]. rewrite parents_put_new.
      destruct (ti_single K t H _ _ Hn) as [q Hq]. rewrite Hq. symmetry.
      apply (parents_of_ext (t_objs t)); [apply store_extends_app|exact Hq].
Qed.

Lemma nodup_app_l : forall (A : Type) (a b : list A), NoDup (a ++ b) -> NoDup a.
Proof. intros A a b H. now apply nodup_app in H as [? _]. Qed.

Lemma refresh_absorb_rinv : forall K tmpname pn A t0,
  tinv K t0 -> t_head t0 = None -> t_applied t0 = A ++ [tmpname] -> pn <> tmpname ->
  rinv K (refresh_absorb pn tmpname t0).
Proof.
  intros K tmpname pn A t0 H0 Hh0 Ha Hne. unfold refresh_absorb.
  pose proof (ti_nodup K t0 H0) as Hnd.
  assert (Hnt : name_eqb pn tmpname = false) by now apply name_eqb_neq.
  destruct (mem pn (t_applied t0)) eqn:Em.
  - apply mem_In in Em. rewrite Ha in Em. apply in_app_or in Em as [Hin|[Hx|[]]]; [|congruence].
    cbv zeta. rewrite Ha, (after_name_app_in pn A [tmpname] Hin).
    destruct (after_name_split pn A) as [[Hn _]|[pre Hpre]]; [contradiction|].
    set (R := after_name pn A) in *.
    assert (Ha' : t_applied t0 = (pre ++ [pn]) ++ (R ++ [tmpname])).
    { rewrite Ha, Hpre at 1. now rewrite <- !app_assoc. }
    pose proof Hnd as Hnd0. rewrite Ha' in Hnd.
    assert (Hnd1 : NoDup ((pre ++ [pn]) ++ [tmpname])).
    { apply (nodup_sub_app _ _ _ _ _ Hnd).
      - now apply nodup_app_l in Hnd.
      - constructor; [intros []|constructor].
      - apply incl_refl.
      - intros x [<-|[]]. apply in_or_app. right. now left. }
    assert (Hnd2 : NoDup ((pre ++ [pn]) ++ R)).
    { apply (nodup_sub_app _ _ _ _ _ Hnd).
      - now apply nodup_app_l in Hnd.
      - apply nodup_app in Hnd as (_ & Hr & _). now apply nodup_app_l in Hr.
      - apply incl_refl.
      - intros x Hx. apply in_or_app. now left. }
    apply (rinvP_bind K (fun t1 => t_applied t1 = (pre ++ [pn]) ++ [tmpname])).
    + destruct (Nat.ltb 1 (length (R ++ [tmpname]))) eqn:El.
      * pose proof (pop_patches_inv K (fun n => mem n (R ++ [tmpname])) t0 H0 Hh0) as Hp.
        cbv zeta in Hp.
        rewrite (pop_above t0 _ _ Ha' Hnd0) in Hp |- *. cbn [fst] in Hp. cbv beta iota.
        destruct Hp as (H1 & Hh1 & _).
        eapply rinvP_weaken; [|apply push_patches_inv; [exact H1|exact Hh1|exact Hnd1]].
        intros t1 E1. exact E1.
      * cbn [rinvP]. split; [exact H0|]. split; [exact Hh0|]. rewrite Ha'.
        destruct R as [|y r]; [reflexivity|].
        apply Nat.ltb_ge in El. rewrite app_length in El. cbn [length] in El. lia.
    + intros t1 H1 Hh1 Ha1.
      destruct (t_patch t1 pn) as [pc|] eqn:Epc; [|exact I].
      destruct (t_patch t1 tmpname) as [tc|] eqn:Etc; [|exact I].
      unfold last_error. rewrite hd_error_rev_snoc, name_eqb_refl. cbn [negb].
      rewrite removelast_last.
      destruct (refresh_commit t1 pc (tree_of (t_objs t1) tc)) as [t2 newc] eqn:Erc.
      destruct (refresh_commit_inv K t1 pc _ t2 newc H1 (ex_intro _ pn Epc) Erc)
        as (H2 & Hh2 & Ha2 & Hp2 & Hpar2).
      rewrite Hh1 in Hh2. rewrite Ha1 in Ha2.
      destruct (delete_patches_inv K (fun n => name_eqb n tmpname) t2 H2 Hh2)
        as (H3 & Hh3 & popped & E1 & E2 & _ & E3).
      pose proof (delete_patches_patch (fun n => name_eqb n tmpname) t2 pn Hnt) as Hp3.
      pose proof (delete_patches_objs (fun n => name_eqb n tmpname) t2) as Ho3.
      destruct (delete_patches _ t2) as [t3 inc]. cbn [fst] in *.
      assert (Ha3 : t_applied t3 = pre ++ [pn]).
      { rewrite Ha2 in E1. destruct E3 as [->|[x [r [-> Hx]]]].
        - exfalso. rewrite app_nil_r in E1. rewrite Forall_forall in E2.
          assert (Hi : In tmpname (t_applied t3)). { rewrite <- E1. apply in_or_app. right. now left. }
          specialize (E2 _ Hi). cbv beta in E2. now rewrite name_eqb_refl in E2.
        - apply name_eqb_eq in Hx. subst x. symmetry in E1.
          now destruct (snoc_split_unique _ _ _ _ E1 Hnd1). }
      assert (Hpush : forall t4, tinv K t4 -> t_head t4 = None -> t_applied t4 = t_applied t3 ->
                rinvP K (fun _ => True) (push_patches R false t4)).
      { intros t4 H4 Hh4 Ha4. eapply rinvP_weaken; [|apply push_patches_inv; [exact H4|exact Hh4|]]; [auto|].
        rewrite Ha4, Ha3. exact Hnd2. }
      destruct newc as [o|]; cbn [tbind].
      * eapply rinvP_bind; [apply (update_top_inv K pn o pc pre t3 H3 Hh3 Ha3)|].
        -- rewrite Hp3, Hp2. exact Epc.
        -- rewrite Ho3. now apply Hpar2.
        -- cbv beta. intros t4 H4 Hh4 Ha4. now apply Hpush.
      * now apply Hpush.
  - apply mem_false in Em.
    pose proof (pop_patches_inv K (fun n => name_eqb n tmpname) t0 H0 Hh0) as Hp. cbv zeta in Hp.
    destruct (pop_patches _ t0) as [t1 extra]. cbn [fst snd] in Hp.
    destruct Hp as (H1 & Hh1 & popped & E1 & _).
    assert (Hn1 : ~ In pn (t_applied t1)).
    { intros Hi. apply Em. rewrite E1. apply in_or_app. now left. }
    destruct extra; [|exact I].
    destruct (t_patch t1 pn) as [pc|] eqn:Epc; [|exact I].
    destruct (t_patch t1 tmpname) as [tc|] eqn:Etc; [|exact I].
    destruct (first_parent _ _) as [tpar|]; [|exact (ti_ext K t1 H1)].
    destruct (apply3way _ _ _ _) as [tree'|]; [|cbn; auto].
    destruct (refresh_commit t1 pc tree') as [t2 newc] eqn:Erc.
    destruct (refresh_commit_inv K t1 pc _ t2 newc H1 (ex_intro _ pn Epc) Erc)
      as (H2 & Hh2 & Ha2 & Hp2 & Hpar2).
    rewrite Hh1 in Hh2.
    assert (Hdel : forall t3, tinv K t3 -> t_head t3 = None ->
              rinvP K (fun _ => True) (TOk (fst (delete_patches (fun n => name_eqb n tmpname) t3)))).
    { intros t3 H3 Hh3. destruct (delete_patches_inv K (fun n => name_eqb n tmpname) t3 H3 Hh3) as (H4 & Hh4 & _).
      cbn [rinvP]. auto. }
    destruct newc as [o|]; cbn [tbind].
    + eapply rinvP_bind; [apply (update_notin_inv K pn o pc t2 H2 Hh2)|].
      * now rewrite Ha2.
      * now rewrite Hp2.
      * now apply Hpar2.
      * cbv beta. intros t3 H3 Hh3 _. now apply Hdel.
    + now apply Hdel.
Qed.

Lemma step_refresh : forall w p, Inv w -> CInv w -> CInv (fst (run_refresh w p)).
Proof.
  intros w p Hinv Hc. unfold run_refresh.
  destruct (match p with
            | Some o => match parse_locator o with Some l => Some (Some l) | None => None end
            | None => Some None end) as [loc_l|] eqn:Ep; [|exact Hc].
  pose proof (WfCmd.refresh_loc_wf p loc_l Ep) as Hwf. clear Ep.
  open_cmd Hinv Hc op Eop Hok. cbv zeta.
  set (s := op_state op) in *.
  destruct (negb (head_top_ok op)); [triv Hc Hok|].
  match goal with |- CInv (fst (rres_bind _ ?r _)) => destruct r as [pn| |] eqn:Epn end;
    [|triv Hc Hok|triv Hc Hok].
  cbn [rres_bind].
  pose proof (WfCmd.refresh_target_in s loc_l pn Hwf Epn) as Hpn.
  destruct (w_unmerged (op_world op)); [triv Hc Hok|].
  unfold put. set (tmpc := length (w_objs (op_world op))).
  set (c := plain _ _ _ _). set (objs1 := w_objs (op_world op) ++ [c]).
  set (tmpname := match uniquify s_refresh_temp [] (all_of s) with UOk n => n | UFuel => s_refresh_temp end).
  pose proof (refresh_tmpname_fresh (all_of s)) as Hfresh. fold tmpname in Hfresh.
  pose proof (opened_ok_with_objs op objs1 Hok (ns_extends_put_plain _ _ _ _ _)) as Hok1.
  set (op1 := mkOpened _ _ _ _) in *.
  destruct (transact op1 default_opts (new_applied tmpname tmpc) MOp) as [w2 x] eqn:Et1.
  assert (C2 : CInv w2).
  { change w2 with (fst (w2, x)). rewrite <- Et1.
    eapply transact_cinv_rinv; [exact Hok1|]. intros t0 H0 Hh0 E0. eapply rinvP_rinv.
    apply new_applied_inv; [exact H0|exact Hh0| |]; subst t0.
    - intros Hi. apply Hfresh. unfold all_of. apply in_or_app. now left.
    - eexists. apply parents_put_new. }
  destruct x; try exact C2.
  destruct (refresh_first op1 tmpname tmpc w2 Hok1 Hfresh) as (_ & s2 & Hcur & Hg2 & Ha2 & Hpg2 & Hext2);
    [eexists; apply parents_put_new|exact Et1|].
  destruct (open_stack PAllow w2) as [op2|] eqn:Eop2; [|exact C2].
  assert (Hcg : cur_good w2). { intros s' Hs'. rewrite Hcur in Hs'. now injection Hs' as <-. }
  destruct (open_stack_ok_gen _ _ _ Eop2 Hcg C2) as (Hok2 & _ & _).
  destruct (open_stack_cur _ _ _ s2 Eop2 ltac:(discriminate) Hcur) as (Es2 & _).
  eapply transact_cinv_rinv; [exact Hok2|]. intros t0 H0 Hh0 E0.
  apply (refresh_absorb_rinv _ tmpname pn (s_applied s)); [exact H0|exact Hh0| |].
  - subst t0. cbn [begin_txn t_applied]. rewrite Es2, Ha2. reflexivity.
  - intros ->. apply Hfresh. unfold all_of. rewrite app_assoc. apply in_or_app. now left.
Qed.

(* ---------------------------------------------------------------- rebase *)

Lemma log_extmods_first_applied : forall op0 op,
  log_extmods_first op0 = Some op -> s_applied (op_state op) = s_applied (op_state op0).
Proof.
  intros op0 op E. unfold log_extmods_first in E.
  destruct (Nat.eqb _ _); [now injection E as <-|].
  unfold log_external_mods in E. destruct (w_stack (op_world op0)) as [so|]; [|discriminate].
  destruct (state_commit _ _ _) as [[objs' so']|]; [|discriminate].
  injection E as <-. reflexivity.
Qed.

(* the state recorded by the first (pop everything) transaction of rebase *)
Lemma rebase_first : forall op o w2,
  opened_ok op ->
  transact op o (fun t => TOk (fst (pop_patches (fun n => mem n (s_applied (op_state op))) t))) MOp
    = (w2, X0) ->
  exists s2, cur_state w2 = Some s2 /\ sgood (w_objs w2) s2 /\ s_applied s2 = [].
Proof.
  intros op o w2 Hok Ht.
  unfold transact in Ht. cbv beta iota in Ht.
  destruct (negb (op_initialized op)); [discriminate|].
  set (t0 := begin_txn op o) in *. set (s := op_state op) in *.
  pose proof (sgood_applied_nodup _ _ (oo_good op Hok)) as Hnd. fold s in Hnd.
  assert (Ep : pop_patches (fun n => mem n (s_applied s)) t0
               = (set_lists t0 [] (s_applied s ++ t_unapplied t0) (t_hidden t0), [])).
  { apply (pop_above t0 [] (s_applied s)); [reflexivity|exact Hnd]. }
  rewrite Ep in Ht. cbn [fst] in Ht.
  set (t' := set_lists t0 [] (s_applied s ++ t_unapplied t0) (t_hidden t0)) in *.
  apply execute_ok_state in Ht as (st1 & prev & th & Hp & Hth & Hcur & Hext & _).
  change (t_objs t') with (w_objs (op_world op)) in Hext.
  change (t_stack t') with s in Hp.
  set (s2 := new_state t' st1 prev th) in *.
  exists s2. split; [exact Hcur|]. split; [|reflexivity].
  assert (Hpg : forall m, pm_get (s_patches s2) m = pm_get (s_patches s) m).
  { intros m. unfold s2, new_state. cbn [s_patches]. rewrite pm_get_apply, Hp. reflexivity. }
  assert (Hall : all_of s2 = all_of s).
  { change (all_of s2) with ((s_applied s ++ s_unapplied s) ++ s_hidden s).
    unfold all_of. symmetry. apply app_assoc. }
  destruct (oo_good op Hok) as (G1 & G2 & G3). fold s in G1, G2, G3.
  repeat split.
  - rewrite Hall. exact G1.
  - intros n Hn. rewrite Hpg. apply G2. now rewrite <- Hall.
  - intros n o' Hn. rewrite Hpg in Hn. destruct (G3 n o' Hn) as [p Hp']. exists p.
    now apply (parents_of_ext _ _ _ _ _ Hext).
Qed.

Lemma step_rebase : forall w tg, Inv w -> CInv w -> CInv (fst (run_rebase w tg)).
Proof.
  intros w tg Hinv Hc. unfold run_rebase.
  open_cmd Hinv Hc op Eop Hok. cbv zeta.
  set (s := op_state op) in *. pose proof (oo_good op Hok) as Hg. fold s in Hg.
  destruct (resolve_gtarget (op_world op) tg) as [target|]; [|triv Hc Hok].
  destruct (Nat.eqb target (op_base op)); [triv Hc Hok|].
  destruct (negb (head_top_ok op)); [triv Hc Hok|].
  destruct (dirty (op_world op)); [triv Hc Hok|].
  match goal with |- context [transact op ?o ?f MOp] =>
    destruct (transact op o f MOp) as [w2 x] eqn:Et1 end.
  assert (C2 : CInv w2).
  { change w2 with (fst (w2, x)). rewrite <- Et1.
    eapply transact_cinv_rinv; [exact Hok|]. intros t0 H0 Hh0 _.
    destruct (pop_patches_inv _ (fun n => mem n (s_applied s)) t0 H0 Hh0) as (H1 & Hh1 & _).
    cbn [rinv rinvP]. auto. }
  destruct x; try exact C2.
  destruct (rebase_first op _ w2 Hok Et1) as (s2 & Hcur & Hg2 & Ha2).
  set (w3 := mkWorld _ _ _ _ _ _ _ _).
  assert (C3 : CInv w3) by (apply (cinv_same_objs w2); [reflexivity|exact C2]).
  assert (Hcur3 : cur_state w3 = Some s2) by exact Hcur.
  destruct (open_stack PRequire w3) as [op3|] eqn:Eop3; [|exact C3].
  assert (Hcg : cur_good w3). { intros s' Hs'. rewrite Hcur3 in Hs'. injection Hs' as <-. exact Hg2. }
  destruct (open_stack_ok_gen _ _ _ Eop3 Hcg C3) as (Hok3 & _ & _).
  destruct (open_stack_cur _ _ _ s2 Eop3 ltac:(discriminate) Hcur3) as (Es3 & _).
  destruct (log_extmods_first op3) as [op4|] eqn:El; [|triv Hc Hok3].
  destruct (log_extmods_first_ok op3 op4 Hok3 El) as (Hok4 & _).
  pose proof (log_extmods_first_applied _ _ El) as Ea4.
  destruct (negb (head_top_ok op4)); [triv Hc Hok4|].
  eapply transact_cinv_rinv; [exact Hok4|]. intros t0 H0 Hh0 E0.
  eapply rinvP_rinv. apply push_patches_inv; [exact H0|exact Hh0|].
  subst t0. cbn [begin_txn t_applied]. rewrite Ea4, Es3, Ha2. cbn [app].
  eapply sgood_applied_nodup. exact Hg.
Qed.

(* ---------------------------------------------------------------- squash *)

(* registering a commit for a name that is not applied *)
Lemma new_unapplied_inv : forall K n o t,
  tinv K t -> t_head t = None -> ~ In n (t_applied t) ->
  (exists p, parents_of (t_objs t) o = [p]) ->
  rinvP K (fun t' => t_applied t' = t_applied t) (new_unapplied n o 0 t).
Proof.
  intros K n o t H Hh Hn Hp. unfold new_unapplied. cbn [Nat.ltb Nat.leb].
  set (t' := set_updated _ _).
  assert (Hpat : forall m, t_patch t' m = if name_eqb n m then Some o else t_patch t m).
  { intros m. unfold t_patch, t'. tproj. rewrite up_get_set. now destruct (name_eqb n m). }
  cbn [rinvP]. split; [|split; [exact Hh|reflexivity]].
  assert (Hoids : toids t' = toids t).
  { unfold toids. change (t_applied t') with (t_applied t). apply map_ext_in. intros m Hm.
    unfold toid. rewrite Hpat. rewrite name_eqb_neq; [reflexivity|]. intros ->. contradiction. }
  destruct H as [X1 X2 X3 X4 X5 X6 ti_has0 ti_single0 ti_chain0 X10]. constructor; try assumption.
  - intros m Hm. rewrite Hpat. destruct (name_eqb n m); [discriminate|]. now apply ti_has0.
  - intros m o' Hm. rewrite Hpat in Hm. destruct (name_eqb n m).
    + injection Hm as <-. exact Hp.
    + eauto.
  - change (t_objs t') with (t_objs t). change (t_base_oid t') with (t_base_oid t).
    rewrite Hoids. exact ti_chain0.
  - left. exact Hh.
Qed.

Lemma try_squash_inv : forall K t ps meta msg t1 o,
  tinv K t -> try_squash t ps meta msg = Some (t1, o) ->
  tinv K t1 /\ t_head t1 = t_head t /\ t_applied t1 = t_applied t
  /\ exists p, parents_of (t_objs t1) o = [p].
Proof.
  intros K t ps meta msg t1 o H E. unfold try_squash in E.
  destruct ps as [|b rest]; [discriminate|].
  destruct (t_patch t b) as [bc|] eqn:Eb; [|discriminate].
  destruct (squash_tree (t_objs t) t rest (tree_of (t_objs t) bc)) as [tr|]; [|discriminate].
  unfold put in E. injection E as <- <-.
  split; [apply tinv_set_objs; [exact H|apply ns_extends_put_plain]|].
  split; [reflexivity|]. split; [reflexivity|].
  destruct (ti_single K t H b bc Eb) as [p Hp]. exists p.
  cbn [t_objs set_objs]. rewrite parents_put_new. exact Hp.
Qed.

Lemma squash_finish_rinv : forall K newn o to_push sp t,
  tinv K t -> t_head t = None -> ~ In newn (t_applied t) ->
  (exists p, parents_of (t_objs t) o = [p]) ->
  NoDup (t_applied t ++ to_push) -> ~ In newn to_push ->
  rinv K (squash_finish newn o to_push sp t).
Proof.
  intros K newn o to_push sp t H Hh Hn Hp Hnd Hnt. unfold squash_finish, rinv.
  eapply rinvP_bind; [apply new_unapplied_inv; eassumption|].
  cbv beta. intros t3 H3 Hh3 Ha3.
  eapply rinvP_weaken; [|apply push_patches_inv; [exact H3|exact Hh3|]]; [auto|].
  rewrite Ha3. destruct sp; [|exact Hnd].
  apply nodup_app in Hnd as (N1 & N2 & N3). apply nodup_app. repeat split.
  - exact N1.
  - constructor; assumption.
  - intros x Hx [<-|Hx']; [contradiction|now apply (N3 x)].
Qed.

Lemma squash_closure_rinv : forall K ps newn meta msg sp t,
  tinv K t -> t_head t = None -> NoDup ps ->
  (In newn (t_applied t) -> In newn ps) ->
  rinv K (squash_closure ps newn meta msg sp t).
Proof.
  intros K ps newn meta msg sp t H Hh Hdps Hnew. unfold squash_closure.
  pose proof (ti_nodup K t H) as Hnd.
  set (f := fun n => mem n ps).
  destruct (try_squash t ps meta msg) as [[t1 o]|] eqn:Et.
  - destruct (try_squash_inv K _ _ _ _ _ _ H Et) as (H1 & Hh1 & Ha1 & Hp1).
    rewrite Hh in Hh1.
    destruct (delete_patches_inv K f t1 H1 Hh1) as (H2 & Hh2 & popped & E1 & E2 & E3 & _).
    pose proof (delete_patches_objs f t1) as Eo.
    destruct (delete_patches f t1) as [t2 to_push]. cbn [fst snd] in *.
    rewrite Ha1 in E1. rewrite E1 in Hnd, Hnew. rewrite Forall_forall in E2.
    assert (Hnk : ~ In newn (t_applied t2)).
    { intros Hi. pose proof (E2 _ Hi) as Hf. unfold f in Hf. apply mem_false in Hf. apply Hf, Hnew.
      apply in_or_app. now left. }
    assert (Hnp : ~ In newn to_push).
    { subst to_push. intros Hi. apply filter_In in Hi as [Hi Hf]. apply negb_true_iff in Hf.
      unfold f in Hf. apply mem_false in Hf. apply Hf, Hnew. apply in_or_app. now right. }
    apply squash_finish_rinv; [exact H2|exact Hh2|exact Hnk|now rewrite Eo| |exact Hnp].
    subst to_push. apply (nodup_sub_app _ _ _ _ _ Hnd); [now apply nodup_app in Hnd as [? _]| |apply incl_refl|].
    + apply nodup_filter. now apply nodup_app in Hnd as [_ [? _]].
    + intros x Hx. now apply filter_In in Hx as [? _].
  - destruct (pop_patches_inv K f t H Hh) as (H1 & Hh1 & popped & E1 & E2 & E3 & _).
    destruct (pop_patches f t) as [t1 to_push]. cbn [fst snd] in *.
    rewrite E1 in Hnd, Hnew. rewrite Forall_forall in E2.
    assert (Hkp : forall x, In x (t_applied t1) -> ~ In x ps).
    { intros x Hx. apply mem_false. exact (E2 x Hx). }
    unfold rinv. eapply rinvP_bind.
    + apply push_patches_inv; [exact H1|exact Hh1|]. apply nodup_app. repeat split.
      * now apply nodup_app in Hnd as [? _].
      * exact Hdps.
      * exact Hkp.
    + cbv beta. intros t2 H2 Hh2 Ha2.
      destruct (try_squash t2 ps meta msg) as [[t3 o]|] eqn:Et2; [|apply (ti_ext K t2 H2)].
      destruct (try_squash_inv K _ _ _ _ _ _ H2 Et2) as (H3 & Hh3 & Ha3 & Hp3).
      rewrite Hh2 in Hh3.
      destruct (delete_patches_inv K f t3 H3 Hh3) as (H4 & Hh4 & popped' & F1 & F2 & _ & _).
      pose proof (delete_patches_objs f t3) as Eo.
      destruct (delete_patches f t3) as [t4 extra]. cbn [fst snd] in *.
      destruct extra; [|exact I].
      rewrite Ha3, Ha2 in F1. rewrite Forall_forall in F2.
      assert (Hsub : forall x, In x (t_applied t4) -> In x (t_applied t1)).
      { intros x Hx. assert (Hx' : In x (t_applied t1 ++ ps)) by (rewrite F1; apply in_or_app; now left).
        apply in_app_or in Hx' as [Hx'|Hx']; [exact Hx'|].
        pose proof (F2 x Hx) as Hf. unfold f in Hf. apply mem_false in Hf. contradiction. }
      assert (Hnk : ~ In newn (t_applied t4)).
      { intros Hi. apply Hsub in Hi. apply (Hkp _ Hi). apply Hnew. apply in_or_app. now left. }
      assert (Hnp : ~ In newn to_push).
      { subst to_push. intros Hi. apply filter_In in Hi as [Hi Hf]. apply negb_true_iff in Hf.
        unfold f in Hf. apply mem_false in Hf. apply Hf, Hnew. apply in_or_app. now right. }
      apply squash_finish_rinv; [exact H4|exact Hh4|exact Hnk|now rewrite Eo| |exact Hnp].
      subst to_push. apply (nodup_sub_app _ _ _ _ _ Hnd); [apply (ti_nodup K t4 H4)| |exact Hsub|].
      * apply nodup_filter. now apply nodup_app in Hnd as [_ [? _]].
      * intros x Hx. now apply filter_In in Hx as [? _].
Qed.

Lemma squash_exit_fst' : forall (p : world * exitc) (b : bool),
  fst (let '(w', x) := p in if b then (w', X3) else (w', x)) = fst p.
Proof. intros [w' x] b. destruct b; reflexivity. Qed.

Lemma step_squash : forall w ranges nm meta msg,
  Inv w -> CInv w -> CInv (fst (run_squash w ranges nm meta msg)).
Proof.
  intros w ranges nm meta msg Hinv Hc. unfold run_squash.
  destruct (parse_ranges ranges) as [prs|] eqn:Epr; [|exact Hc].
  destruct (from_str nm) as [newn|]; [|exact Hc].
  open_cmd Hinv Hc op Eop Hok. cbv zeta.
  set (s := op_state op) in *.
  destruct (w_unmerged (op_world op)); [triv Hc Hok|].
  destruct (negb (head_top_ok op)); [triv Hc Hok|].
  destruct (resolve_names (view_of s) RCAll prs) as [ps| |] eqn:Er; [|triv Hc Hok|triv Hc Hok].
  cbn [rres_bind].
  apply (resolve_names_ok _ _ _ _ (parse_ranges_wf _ _ Epr)) in Er. destruct Er as [Hdps _].
  destruct (negb (mem newn ps) && _) eqn:Eg; [triv Hc Hok|].
  destruct (Nat.ltb (length ps) 2); [triv Hc Hok|].
  rewrite squash_exit_fst'.
  eapply transact_cinv_rinv; [exact Hok|]. intros t0 H0 Hh0 E0.
  apply squash_closure_rinv; [exact H0|exact Hh0|exact Hdps|].
  subst t0. cbn [begin_txn t_applied]. fold s. intros Hi.
  apply andb_false_iff in Eg as [Eg|Eg].
  - apply negb_false_iff in Eg. now apply mem_In.
  - destruct (stack_collides s newn) eqn:Esc; [discriminate|].
    apply stack_collides_none in Esc. exfalso. apply Esc. unfold all_of. apply in_or_app. now left.
Qed.

(* ---------------------------------------------------------------- pick *)

Lemma pick_body_rinv : forall K pn o na t,
  tinv K t -> t_head t = None -> ~ In pn (t_applied t) ->
  (exists p, parents_of (t_objs t) o = [p]) ->
  rinv K (pick_body pn o na t).
Proof.
  intros K pn o na t H Hh Hn Hp. unfold pick_body, rinv.
  eapply rinvP_bind; [apply new_unapplied_inv; eassumption|].
  cbv beta. intros t3 H3 Hh3 Ha3. destruct na.
  - cbn [rinvP]. auto.
  - eapply rinvP_weaken; [|apply push_patches_inv; [exact H3|exact Hh3|]]; [auto|].
    rewrite Ha3. apply nodup_app. repeat split.
    + apply (ti_nodup K t H).
    + constructor; [intros []|constructor].
    + intros x Hx [<-|[]]. contradiction.
Qed.

Lemma step_pick : forall lower_s w src nm na,
  Inv w -> CInv w -> CInv (fst (run_pick lower_s w src nm na)).
Proof.
  intros lower_s w src nm na Hinv Hc.
  destruct (run_pick_case lower_s w src nm na) as
    [_|_|op Eo|op given o Eo _ _ _ _|op given o pn0 Eo _ _ _ _ _|op given o pn0 pn c par Eo _ _ _ _ _ Eu _ _];
    cbn [fst]; try exact Hc;
    destruct (open_stack_ok _ _ _ Eo Hinv Hc) as (Hok & _ & _); try exact (oo_cinv _ Hok).
  unfold pick_op, pick_commit.
  pose proof (opened_ok_with_objs op _ Hok (ns_extends_put_plain (w_objs (op_world op)) [par] (c_tree c) (c_meta c) (c_subj c))) as Hok'.
  eapply transact_cinv_rinv; [exact Hok'|]. intros t0 H0 Hh0 E0.
  apply pick_body_rinv; [exact H0|exact Hh0| |].
  - subst t0. cbn [begin_txn t_applied op_state]. intros Hi.
    apply (uniquify_notin _ _ _ Eu). unfold all_of. apply in_or_app. now left.
  - subst t0. cbn [begin_txn t_objs op_world with_objs w_objs]. eexists. apply parents_put_new.
Qed.

Theorem step_chain : forall lower_s w c,
  in_scope c = true -> Inv w ->
  (forall so s, state_of (w_objs w) so = Some s -> chain_ok (w_objs w) s) ->
  (forall so s, state_of (w_objs (fst (step lower_s w c))) so = Some s ->
                chain_ok (w_objs (fst (step lower_s w c))) s).
Proof.
  intros lower_s w c Hs Hinv Hc. change (CInv (fst (step lower_s w c))). change (CInv w) in Hc.
  destruct c; cbn [step].
  - now apply step_init.
  - now apply step_new.
  - now apply step_refresh.
  - now apply step_push.
  - now apply step_pop.
  - now apply step_goto.
  - now apply step_float.
  - now apply step_sink.
  - now apply step_delete.
  - now apply step_hide.
  - now apply step_unhide.
  - now apply step_rename.
  - now apply step_commit.
  - now apply step_uncommit.
  - now apply step_clean.
  - now apply step_spill.
  - unfold run_undo. destruct (n <? 1)%Z; [exact Hc|now apply step_undo_like].
  - unfold run_redo. destruct (n =? 0)%N; [exact Hc|]. destruct (isize_max <? n)%N; [exact Hc|].
    now apply step_undo_like.
  - destruct ranges; [discriminate|]. now apply step_reset.
  - now apply step_repair.
  - now apply step_log_clear.
  - now apply step_edit.
  - now apply step_rebase.
  - now apply step_squash.
  - now apply step_pick.
  - now apply step_inspect.
  - now apply step_git.
  - now apply step_git.
  - now apply step_git.
  - now apply step_git.
  - now apply step_git.
  - now apply step_git.
Qed.
