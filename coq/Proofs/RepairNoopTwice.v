(* C13: a second `stg repair` right after a successful one succeeds, hence repair is idempotent
   (under plain_parents_older, an invariant of reachable worlds: Proofs/PlainOlderStep.v). *)
From Coq Require Import List NArith ZArith Bool Arith Lia.
From StgV Require Import Model.RepairSpec.
From StgV Require Import Proofs.ChainBasics Proofs.ReachBase Proofs.RepairProofs.
From StgV Require Proofs.UndoStepProofs Proofs.ReachFinal.
From StgV Require Import Proofs.RepairNoopProofs Proofs.RepairNoopIdem.
Import ListNotations.
Local Open Scope nat_scope.
Local Open Scope list_scope.

(* ---------------------------------------------------------------- small facts *)

Lemma is_perm_of_refl : forall l, is_perm_of l l = true.
Proof.
  induction l as [|n l IH]; [reflexivity|].
  cbn [is_perm_of mem existsb remove_first]. rewrite name_eqb_refl. cbn [orb andb]. exact IH.
Qed.

Lemma state_commit_succeeds : forall objs s msg po ps fp,
    s_prev s = Some po -> state_of objs po = Some ps -> first_parent objs po = Some fp ->
    exists r, state_commit objs s msg = Some r.
Proof.
  intros objs s msg po ps fp Hp Hs Hf. unfold state_commit. rewrite Hp, Hs, Hf. unfold put.
  destruct (group_parents _ _ _ _ _) as [objs2 grouped]. eexists. reflexivity.
Qed.

(* the state commit just written has a first parent *)
Lemma state_commit_parent : forall objs s msg objs' so,
    state_commit objs s msg = Some (objs', so) -> first_parent objs' so = Some (length objs).
Proof.
  intros objs s msg objs' so H.
  destruct (state_commit_inv _ _ _ _ _ H) as [prev [sp [objs2 [grouped [_ [_ [E1 E2]]]]]]].
  subst objs' so. unfold first_parent, parents_of. rewrite get_new. reflexivity.
Qed.

Lemma run_repair_ok_commit : forall lower_s w w1,
    run_repair lower_s w = (w1, X0) ->
    exists objsm s so', state_commit objsm s MOp = Some (w_objs w1, so') /\ w_stack w1 = Some so'.
Proof.
  intros lower_s w w1 H. unfold run_repair in H.
  destruct (open_stack PRequire w) as [op|]; [|discriminate].
  cbv zeta in H. destruct (repair_walk _ _ _ _ _ _ _ _) as [[ar pr] stop].
  unfold transact in H. destruct (negb (op_initialized op)).
  { match type of H with (match ?x with _ => _ end) = _ => destruct x end; discriminate. }
  destruct (UndoStepProofs.execute_X0_inv _ _ _ _ H)
    as (t & wl & stl & th & prev & objs' & so' & _ & _ & _ & _ & Hsc & Eo & Es & _).
  exists (w_objs wl), (ChainExec.new_state t stl prev th), so'. rewrite Eo. split; assumption.
Qed.

(* ---------------------------------------------------------------- execute, forwards *)

Lemma execute_plain_fwd : forall w t msg th prev r,
  t_updated t = [] -> t_head t = None ->
  s_head (t_stack t) = w_branch w ->
  o_set_head (t_opts t) = true -> o_use_iw (t_opts t) = false ->
  t_top t = Some th -> w_stack w = Some prev ->
  state_commit (t_objs t)
    (mkState (Some prev) th (t_applied t) (t_unapplied t) (t_hidden t) (s_patches (t_stack t)))
    msg = Some r ->
  exists w', execute w (TOk t) msg = (w', X0).
Proof.
  intros w t msg th prev r Hu Hh Hs Hsh Hiw Htop Hprev Hsc. cbn [execute].
  rewrite Hu. cbn [forallb negb].
  unfold t_head_oid. rewrite Hh, Htop.
  rewrite Hs, Nat.eqb_refl. rewrite Hsh, Hiw. cbn [andb].
  cbn [w_stack w_wt w_unmerged w_objs w_branch w_prefs w_base w_apc].
  rewrite Hprev. cbn [pm_apply fold_right]. rewrite Hsc. destruct r as [objs' so].
  eexists. reflexivity.
Qed.

(* ---------------------------------------------------------------- repair on a settled stack succeeds *)

Lemma repair_settled_succeeds :
  forall lower_s w st so fp,
    Inv6 w -> plain_parents_older (w_objs w) ->
    w_stack w = Some so -> state_of (w_objs w) so = Some st ->
    first_parent (w_objs w) so = Some fp ->
    repair_settled w st ->
    exists w2, run_repair lower_s w = (w2, X0).
Proof.
  intros lower_s w st so fp I6 Hacyc Es Hcur Hfp Hcons.
  destruct I6 as [[I Hch] _]. destruct I as [Hclosed [Hwf [Hbpl _]]].
  specialize (Hwf so st Hcur). specialize (Hch so st Hcur).
  pose proof Hwf as Hwf0. destruct Hwf0 as [[Hnd _] [_ [Hin [Hpc _]]]].
  assert (Hpatch : forall n, In n (s_applied st) -> pm_get (s_patches st) n <> None).
  { intros n Hn. apply Hin. unfold all_of. apply in_or_app. left. exact Hn. }
  assert (Hbase : exists b, stack_base (w_objs w) (w_branch w) st = Some b).
  { unfold stack_base. destruct (s_applied st) as [|a0 l0] eqn:Ea; [eexists; reflexivity|].
    destruct (pm_get (s_patches st) a0) as [o|] eqn:Ep.
    - destruct (Hpc a0 o Ep) as [_ [p Hp]]. unfold first_parent. rewrite Hp. eexists. reflexivity.
    - exfalso. apply (Hpatch a0); [left; reflexivity|exact Ep]. }
  destruct Hbase as [b Hb].
  assert (Hop : open_stack PRequire w
                = Some (mkOpened (ensure_patch_refs w st) st b true)).
  { unfold open_stack. rewrite Es, Hcur, Hb. reflexivity. }
  rewrite (run_repair_unfold _ _ _ Hop).
  destruct Hcons as [Hbr [Htop Hno]].
  destruct (consistent_walk w so st b Hclosed Hacyc Hbpl Hwf Hch Hcur Hbr Htop Hno Hb)
    as [[stop Hwalk] Hnb].
  cbv zeta.
  cbn [op_world op_state op_base ensure_patch_refs w_objs w_branch w_apc].
  rewrite Hwalk. rewrite rev_involutive. cbn [rev].
  assert (Fa : filter (fun n => negb (mem n (s_applied st))) (s_applied st) = []).
  { apply filter_none. intros x Hx. apply mem_In in Hx. rewrite Hx. reflexivity. }
  assert (Fu : filter (fun n => negb (mem n (s_applied st))) (s_unapplied st) = s_unapplied st).
  { apply filter_all. intros x Hx. apply negb_true_iff. apply mem_false.
    apply (nodup_app_disj _ (s_applied st) (s_unapplied st ++ s_hidden st) x Hnd).
    apply in_or_app. left. exact Hx. }
  assert (Fh : filter (fun n => negb (mem n (s_applied st))) (s_hidden st) = s_hidden st).
  { apply filter_all. intros x Hx. apply negb_true_iff. apply mem_false.
    apply (nodup_app_disj _ (s_applied st) (s_unapplied st ++ s_hidden st) x Hnd).
    apply in_or_app. right. exact Hx. }
  rewrite Fa, Fu, Fh. cbn [app].
  unfold transact. cbn [op_initialized negb].
  unfold repair_body, repair_appliedness.
  unfold t_all at 1. cbn [begin_txn t_applied t_unapplied t_hidden op_state].
  rewrite is_perm_of_refl. cbn [tbind fold_left].
  (* the top of the transaction *)
  set (t := set_base _ _).
  assert (Htt : exists th, t_top t = Some th).
  { unfold t_top. subst t. cbn [set_base set_lists t_applied].
    destruct (hd_error (rev (s_applied st))) as [n|] eqn:El; [|eexists; reflexivity].
    unfold t_patch. cbn [set_base set_lists begin_txn t_updated t_stack up_get op_state].
    destruct (pm_get (s_patches st) n) as [o|] eqn:Ep; [eexists; reflexivity|].
    exfalso. apply (Hpatch n); [|exact Ep]. apply in_rev.
    destruct (rev (s_applied st)); [discriminate|]. injection El as <-. left. reflexivity. }
  destruct Htt as [th Hth].
  destruct (state_commit_succeeds (t_objs t)
              (mkState (Some so) th (t_applied t) (t_unapplied t) (t_hidden t)
                       (s_patches (t_stack t))) MOp so st fp eq_refl Hcur Hfp) as [r Hsc].
  eapply (execute_plain_fwd _ t MOp th so r); try reflexivity; try assumption.
  subst t. cbn. symmetry. exact Hbr.
Qed.

(* ---------------------------------------------------------------- the two pinned lemmas *)

Lemma repair_twice_succeeds :
  forall lower_s, LowerOK lower_s ->
  forall w w1,
    Inv6 w -> prev_decreasing (w_objs w) -> plain_parents_older (w_objs w) ->
    run_repair lower_s w = (w1, X0) ->
    exists w2, run_repair lower_s w1 = (w2, X0).
Proof.
  intros lower_s L w w1 I6 PD Hacyc H1.
  assert (I61 : Inv6 w1 /\ prev_decreasing (w_objs w1)).
  { pose proof (ReachFinal.step_reach lower_s L w CRepair eq_refl I6 PD) as S1.
    cbn [step] in S1. rewrite H1 in S1. exact S1. }
  destruct I61 as [I61 _].
  assert (I1 : Inv w1) by (destruct I61 as [[I1 _] _]; exact I1).
  destruct (repair_result_settled lower_s w w1 I6 Hacyc I1 H1) as [st1 [Hc1 [Hset Hacyc1]]].
  destruct (run_repair_ok_commit lower_s w w1 H1) as (objsm & s & so' & Hsc & Hst).
  apply state_commit_parent in Hsc.
  unfold cur_state in Hc1. rewrite Hst in Hc1.
  eapply repair_settled_succeeds; eassumption.
Qed.

Lemma repair_idempotent :
  forall lower_s, LowerOK lower_s ->
  forall w w1,
    Inv6 w -> prev_decreasing (w_objs w) -> plain_parents_older (w_objs w) ->
    run_repair lower_s w = (w1, X0) ->
    exists w2 st1 st2,
      run_repair lower_s w1 = (w2, X0)
      /\ cur_state w1 = Some st1 /\ cur_state w2 = Some st2 /\ same_stack st2 st1
      /\ w_branch w2 = w_branch w1.
Proof.
  intros lower_s L w w1 I6 PD Hacyc H1.
  destruct (repair_twice_succeeds lower_s L w w1 I6 PD Hacyc H1) as [w2 H2].
  exact (repair_idempotent_partial lower_s L w w1 w2 I6 PD Hacyc H1 H2).
Qed.
