(* C20 proofs, part 2: the stack reference always designates a state commit with a first
   parent ([stack_ref_has_parent], preserved by every step), and execute / transact do not
   panic on a non-panicking, well-formed transaction result. *)
From Coq Require Import List NArith ZArith Bool Arith Lia Permutation.
From StgV Require Import Model.ExitSpec.
From StgV Require Import Proofs.WfProofs Proofs.NoPanicBase.
Import ListNotations.

(* ---------------------------------------------------------------- the stack reference *)

(* StackState::commit unwraps the first parent of the previous state commit: the stack ref
   must never designate the parentless "simplified" copy of an initial state *)
Definition stack_ref_has_parent (w : world) : Prop :=
  forall so, w_stack w = Some so -> first_parent (w_objs w) so <> None.

Lemma first_parent_ext : forall a b o,
  store_extends a b -> first_parent a o <> None -> first_parent b o <> None.
Proof.
  intros a b o [e ->] H. unfold first_parent, parents_of in *.
  destruct (get a o) as [c|] eqn:E; [|cbn in H; congruence].
  now rewrite (get_app_l _ e _ _ E).
Qed.

Lemma state_commit_first_parent : forall objs s msg objs' so,
  state_commit objs s msg = Some (objs', so) -> first_parent objs' so <> None.
Proof.
  intros objs s msg objs' so H. unfold state_commit in H.
  destruct (match s_prev s with Some _ => _ | None => _ end) as [prev|]; [|discriminate].
  destruct (match prev with Some _ => _ | None => _ end) as [sp|]; [|discriminate].
  unfold put in H. cbv beta iota zeta in H.
  destruct (group_parents _ _ _ _ _) as [objs2 grouped]. injection H as <- <-.
  unfold first_parent, parents_of. rewrite get_put_new. cbn. discriminate.
Qed.

Lemma state_commit_some : forall objs s msg,
  (forall po, s_prev s = Some po -> state_of objs po <> None /\ first_parent objs po <> None) ->
  state_commit objs s msg <> None.
Proof.
  intros objs s msg H. unfold state_commit. destruct (s_prev s) as [po|].
  - destruct (H po eq_refl) as [H1 H2].
    destruct (state_of objs po); [|congruence]. destruct (first_parent objs po); [|congruence].
    unfold put. cbv beta iota zeta. destruct (group_parents _ _ _ _ _). discriminate.
  - unfold put. cbv beta iota zeta. destruct (group_parents _ _ _ _ _). discriminate.
Qed.

Lemma sref_dep : forall w w',
  store_extends (w_objs w) (w_objs w') -> w_stack w' = w_stack w ->
  stack_ref_has_parent w -> stack_ref_has_parent w'.
Proof.
  intros w w' He Hs H so E. rewrite Hs in E. eapply first_parent_ext; [exact He|]. now apply H.
Qed.

Lemma sref_new : forall objs b so p wt um x a,
  first_parent objs so <> None -> stack_ref_has_parent (mkWorld objs b (Some so) p wt um x a).
Proof. intros objs b so p wt um x a H so' E. cbn in E. injection E as <-. exact H. Qed.

Lemma init_stack_ref_has_parent : forall t, stack_ref_has_parent (init_world t).
Proof. intros t so E. discriminate. Qed.

Lemma open_sref : forall p w op,
  open_stack p w = Some op -> stack_ref_has_parent w -> stack_ref_has_parent (op_world op).
Proof.
  intros p w op H Hs. unfold open_stack in H.
  assert (Href : forall so,
    match state_of (w_objs w) so with
    | None => None
    | Some s => match stack_base (w_objs w) (w_branch w) s with
                | None => None
                | Some b => Some (mkOpened (ensure_patch_refs w s) s b true) end
    end = Some op -> stack_ref_has_parent (op_world op)).
  { intros so E. destruct (state_of (w_objs w) so) as [s|]; [|discriminate].
    destruct (stack_base _ _ s); [|discriminate]. injection E as <-. exact Hs. }
  assert (Hini :
    match state_commit (w_objs w) (empty_state (w_branch w)) MOp with
    | None => None
    | Some (objs', so) =>
        Some (mkOpened (ensure_patch_refs
                 (mkWorld objs' (w_branch w) (Some so) (w_prefs w) (w_wt w) (w_unmerged w) (w_base w) (w_apc w))
                 (empty_state (w_branch w))) (empty_state (w_branch w)) (w_branch w) true)
    end = Some op -> stack_ref_has_parent (op_world op)).
  { intros E. destruct (state_commit _ _ _) as [[objs' so]|] eqn:Ec; [|discriminate].
    injection E as <-. apply state_commit_first_parent in Ec. cbn. now apply sref_new. }
  destruct p, (w_stack w) as [so|] eqn:Es; try discriminate; eauto.
  injection H as <-. exact Hs.
Qed.

(* --- execute keeps the property (no hypothesis on the transaction but its frame) --- *)

Lemma exec_logged_sref : forall w t w1 st1,
  stack_ref_has_parent w -> store_extends (w_objs w) (t_objs t) ->
  exec_logged w t = Some (w1, st1) -> stack_ref_has_parent w1.
Proof.
  intros w t w1 st1 Hs He E. unfold exec_logged in E. destruct (Nat.eqb _ _).
  - injection E as <- <-. eapply sref_dep; [| |exact Hs]; [exact He|reflexivity].
  - unfold log_external_mods in E. destruct (w_stack (exec_w0 w t)); [|discriminate].
    destruct (state_commit _ _ _) as [[objs' so']|] eqn:Ec; [|discriminate].
    injection E as <- <-. apply state_commit_first_parent in Ec. now apply sref_new.
Qed.

Lemma exec_body_sref : forall w t halted msg,
  stack_ref_has_parent w -> store_extends (w_objs w) (t_objs t) ->
  stack_ref_has_parent (fst (exec_body w t halted msg)).
Proof.
  intros w t halted msg Hs He. unfold exec_body.
  destruct (negb _); [exact Hs|].
  destruct (t_head_oid t) as [th|]; [|exact Hs].
  destruct (exec_logged w t) as [[w1 st1]|] eqn:El.
  - pose proof (exec_logged_sref w t w1 st1 Hs He El) as H1.
    destruct (exec_co t th w1 st1) as [[wt' um']|[[wt' um'] x]].
    + unfold exec_fin. destruct (w_stack w1) as [prev|]; [|exact H1].
      destruct (state_commit _ _ _) as [[objs' so]|] eqn:Ec; [|exact H1].
      apply state_commit_first_parent in Ec. destruct halted; cbn [fst]; now apply sref_new.
    + cbn [fst]. eapply sref_dep; [| |exact H1]; [apply store_extends_refl|reflexivity].
  - cbn [fst]. eapply sref_dep; [| |exact Hs]; [exact He|reflexivity].
Qed.

Lemma execute_sref : forall w r msg,
  stack_ref_has_parent w ->
  match r with
  | TOk t | THalt t _ | TErr t => store_extends (w_objs w) (t_objs t)
  | TPanic => True
  end ->
  stack_ref_has_parent (fst (execute w r msg)).
Proof.
  intros w r msg Hs He. rewrite execute_eq. destruct r as [t|t h|t|].
  - now apply exec_body_sref.
  - now apply exec_body_sref.
  - cbn [fst]. eapply sref_dep; [| |exact Hs]; [exact He|reflexivity].
  - exact Hs.
Qed.

Lemma transact_sref : forall op o f msg,
  stack_ref_has_parent (op_world op) -> frame (begin_txn op o) (f (begin_txn op o)) ->
  stack_ref_has_parent (fst (transact op o f msg)).
Proof.
  intros op o f msg Hs Hf. unfold transact. destruct (negb (op_initialized op)).
  - destruct (f (begin_txn op o)); exact Hs.
  - apply execute_sref; [exact Hs|]. destruct (f (begin_txn op o)); cbn in *; try exact I; apply Hf.
Qed.

Lemma sref_with_objs : forall w objs',
  store_extends (w_objs w) objs' -> stack_ref_has_parent w -> stack_ref_has_parent (with_objs w objs').
Proof. intros w objs' He Hs. eapply sref_dep; [| |exact Hs]; [exact He|reflexivity]. Qed.

(* --- commands --- *)

Ltac sr_leaf :=
  cbn [fst err2 ok0];
  first
    [ assumption
    | match goal with |- stack_ref_has_parent (fst (transact (mkOpened (with_objs (op_world ?op) _) _ _ _) _ _ _)) =>
        apply transact_sref; [apply sref_with_objs; [apply store_extends_put|assumption]|frame_auto] end
    | match goal with |- stack_ref_has_parent (fst (transact ?op _ _ _)) =>
        apply transact_sref; [assumption|frame_auto] end ].

Ltac sr_destruct :=
  match goal with
  | |- stack_ref_has_parent (fst (rres_bind _ ?r _)) => destruct r; cbn [rres_bind]
  | Hs : stack_ref_has_parent ?w |- context [match open_stack ?p ?w with _ => _ end] =>
      let E := fresh "Eo" in
      destruct (open_stack p w) as [?op|] eqn:E; [apply (fun H => open_sref p w _ H Hs) in E|]
  | |- context [match ?x with _ => _ end] =>
      lazymatch x with
      | context [match _ with _ => _ end] => fail
      | _ => destruct x
      end
  | |- stack_ref_has_parent (fst (if ?b then _ else _)) => destruct b
  | |- stack_ref_has_parent (fst (match ?x with _ => _ end)) => destruct x
  end.

Ltac sr := repeat (first [sr_leaf | sr_destruct]).

Lemma run_push_sref : forall w r n al rv na st mg kp cf,
  stack_ref_has_parent w -> stack_ref_has_parent (fst (run_push w r n al rv na st mg kp cf)).
Proof. intros. unfold run_push. sr. Qed.
Lemma run_pop_sref : forall w r n al kp sp,
  stack_ref_has_parent w -> stack_ref_has_parent (fst (run_pop w r n al kp sp)).
Proof. intros. unfold run_pop. sr. Qed.
Lemma run_goto_sref : forall w l kp mg cf,
  stack_ref_has_parent w -> stack_ref_has_parent (fst (run_goto w l kp mg cf)).
Proof. intros. unfold run_goto. sr. Qed.
Lemma run_float_sref : forall w r na kp,
  stack_ref_has_parent w -> stack_ref_has_parent (fst (run_float w r na kp)).
Proof. intros. unfold run_float. sr. Qed.
Lemma run_sink_sref : forall w r t np kp,
  stack_ref_has_parent w -> stack_ref_has_parent (fst (run_sink w r t np kp)).
Proof. intros. unfold run_sink. sr. Qed.
Lemma run_delete_sref : forall w r tp al a u h sp cf,
  stack_ref_has_parent w -> stack_ref_has_parent (fst (run_delete w r tp al a u h sp cf)).
Proof. intros. unfold run_delete. sr. Qed.
Lemma run_hide_sref : forall w r, stack_ref_has_parent w -> stack_ref_has_parent (fst (run_hide w r)).
Proof. intros. unfold run_hide. sr. Qed.
Lemma run_unhide_sref : forall w r, stack_ref_has_parent w -> stack_ref_has_parent (fst (run_unhide w r)).
Proof. intros. unfold run_unhide. sr. Qed.
Lemma run_rename_sref : forall w o n, stack_ref_has_parent w -> stack_ref_has_parent (fst (run_rename w o n)).
Proof. intros. unfold run_rename. sr. Qed.
Lemma run_commit_sref : forall w r n al ae,
  stack_ref_has_parent w -> stack_ref_has_parent (fst (run_commit w r n al ae)).
Proof. intros. unfold run_commit. sr. Qed.
Lemma run_uncommit_sref : forall lower_s w n names,
  stack_ref_has_parent w -> stack_ref_has_parent (fst (run_uncommit lower_s w n names)).
Proof. intros. unfold run_uncommit. sr. Qed.
Lemma run_clean_sref : forall w a u, stack_ref_has_parent w -> stack_ref_has_parent (fst (run_clean w a u)).
Proof. intros. unfold run_clean. sr. Qed.
Lemma run_new_sref : forall w nm meta msg,
  stack_ref_has_parent w -> stack_ref_has_parent (fst (run_new w nm meta msg)).
Proof. intros. unfold run_new, put. sr. Qed.
Lemma run_spill_sref : forall w, stack_ref_has_parent w -> stack_ref_has_parent (fst (run_spill w)).
Proof. intros. unfold run_spill, put. sr. Qed.
Lemma log_extmods_first_sref : forall op0 op,
  stack_ref_has_parent (op_world op0) -> log_extmods_first op0 = Some op ->
  stack_ref_has_parent (op_world op).
Proof.
  intros op0 op Hs E. unfold log_extmods_first in E.
  destruct (Nat.eqb _ _); [now injection E as <-|].
  unfold log_external_mods in E. destruct (w_stack (op_world op0)); [|discriminate].
  destruct (state_commit _ _ _) as [[objs' so']|] eqn:Ec; [|discriminate].
  injection E as <-. apply state_commit_first_parent in Ec. cbn [op_world]. now apply sref_new.
Qed.

Lemma run_undo_like_sref : forall w s h m,
  stack_ref_has_parent w -> stack_ref_has_parent (fst (run_undo_like w s h m)).
Proof.
  intros w s h m H. unfold run_undo_like.
  destruct (open_stack PRequire w) as [op0|] eqn:Eo; [apply (fun E => open_sref _ _ _ E H) in Eo|exact H].
  destruct (log_extmods_first op0) as [op|] eqn:El; [|exact Eo].
  apply (log_extmods_first_sref _ _ Eo) in El. sr.
Qed.
Lemma run_undo_sref : forall w n h, stack_ref_has_parent w -> stack_ref_has_parent (fst (run_undo w n h)).
Proof. intros. unfold run_undo. destruct (n <? 1)%Z; [assumption|now apply run_undo_like_sref]. Qed.
Lemma run_redo_sref : forall w n h, stack_ref_has_parent w -> stack_ref_has_parent (fst (run_redo w n h)).
Proof.
  intros. unfold run_redo. destruct (n =? 0)%N; [assumption|].
  destruct (isize_max <? n)%N; [assumption|now apply run_undo_like_sref].
Qed.
Lemma run_reset_sref : forall w e r h,
  stack_ref_has_parent w -> stack_ref_has_parent (fst (run_reset w e r h)).
Proof.
  intros. unfold run_reset. destruct e as [k|].
  - sr.
  - destruct h; cbn [fst]; [|assumption].
    eapply sref_dep; [| |eassumption]; [apply store_extends_refl|reflexivity].
Qed.

Lemma run_refresh_sref : forall w p, stack_ref_has_parent w -> stack_ref_has_parent (fst (run_refresh w p)).
Proof.
  intros w p H. unfold run_refresh, put.
  destruct (match p with Some o => _ | None => _ end) as [loc_l|]; [|exact H].
  destruct (open_stack PAllow w) as [op|] eqn:Eo; [apply (fun E => open_sref _ _ _ E H) in Eo|exact H].
  destruct (negb (head_top_ok op)); [sr|].
  match goal with |- stack_ref_has_parent (fst (rres_bind _ ?r _)) =>
    destruct r as [pn| |]; cbn [rres_bind]; [|sr|sr] end.
  destruct (w_unmerged (op_world op)); [sr|].
  match goal with |- context [transact ?o ?a ?f ?m] =>
    assert (Hm : stack_ref_has_parent (fst (transact o a f m))) by sr;
    destruct (transact o a f m) as [w2 x] end.
  cbn [fst] in Hm. destruct x; try exact Hm.
  destruct (open_stack PAllow w2) as [op2|] eqn:Eo2; [apply (fun E => open_sref _ _ _ E Hm) in Eo2|exact Hm].
  apply transact_sref; [exact Eo2|]. apply frame_refresh_absorb.
Qed.

Lemma run_repair_sref : forall lower_s w,
  stack_ref_has_parent w -> stack_ref_has_parent (fst (run_repair lower_s w)).
Proof.
  intros lower_s w H. unfold run_repair.
  destruct (open_stack PRequire w) as [op|] eqn:Eo; [apply (fun E => open_sref _ _ _ E H) in Eo|exact H].
  destruct (repair_walk _ _ _ _ _ _ _ _) as [[ar pr] stop].
  apply transact_sref; [exact Eo|]. cbv beta.
  apply frame_tbind; [auto with frames|]. intros t0 _.
  eapply frame_fr; [|apply frame_fold_tbind].
  - instantiate (1 := set_base t0 (Some _)). fr_triv.
  - intros c t1. cbv beta. frame_auto.
  - apply fr_refl.
Qed.

Lemma run_log_clear_sref : forall w, stack_ref_has_parent w -> stack_ref_has_parent (fst (run_log_clear w)).
Proof.
  intros w H. unfold run_log_clear.
  destruct (open_stack PRequire w) as [op|] eqn:Eo; [apply (fun E => open_sref _ _ _ E H) in Eo|exact H].
  destruct (state_commit _ _ _) as [[objs' so]|] eqn:Ec; [|sr].
  apply state_commit_first_parent in Ec. cbn [fst]. now apply sref_new.
Qed.

Lemma run_git_sref : forall w c, stack_ref_has_parent w -> stack_ref_has_parent (fst (run_git w c)).
Proof.
  intros w c H. destruct c; cbn [run_git]; unfold put; cbn [fst]; try exact H.
  - eapply sref_dep; [| |exact H]; [apply store_extends_put|reflexivity].
  - eapply sref_dep; [| |exact H]; [apply store_extends_put|reflexivity].
  - match goal with |- context [match ?x with Some _ => _ | None => _ end] => destruct x end; [|exact H].
    cbn [fst]. eapply sref_dep; [| |exact H]; [apply store_extends_refl|reflexivity].
  - destruct (first_parent _ _); [|exact H]. cbn [fst].
    eapply sref_dep; [| |exact H]; [apply store_extends_put|reflexivity].
Qed.

Lemma run_edit_sref : forall w l m msg,
  stack_ref_has_parent w -> stack_ref_has_parent (fst (run_edit w l m msg)).
Proof.
  intros w l m msg H. unfold run_edit, put.
  destruct (match l with Some o => _ | None => _ end) as [loc_l|]; [|exact H].
  destruct (open_stack PAllow w) as [op|] eqn:Eo; [apply (fun E => open_sref _ _ _ E H) in Eo|exact H].
  destruct (negb (head_top_ok op)); [sr|].
  match goal with |- stack_ref_has_parent (fst (rres_bind _ ?r _)) =>
    destruct r as [pn| |]; cbn [rres_bind]; [|sr|sr] end.
  destruct (pm_get _ pn) as [pc|]; [|sr].
  destruct (get _ pc) as [old|]; [|sr].
  destruct (_ && _); [sr|].
  apply transact_sref; [apply sref_with_objs; [apply store_extends_put|assumption]|].
  apply frame_edit_body.
Qed.

Lemma run_rebase_sref : forall w tg,
  stack_ref_has_parent w -> stack_ref_has_parent (fst (run_rebase w tg)).
Proof.
  intros w tg H. unfold run_rebase.
  destruct (open_stack PRequire w) as [op|] eqn:Eo; [apply (fun E => open_sref _ _ _ E H) in Eo|exact H].
  destruct (resolve_gtarget (op_world op) tg) as [target|]; [|sr].
  destruct (Nat.eqb target (op_base op)); [sr|].
  destruct (negb (head_top_ok op)); [sr|].
  destruct (dirty (op_world op)); [sr|].
  match goal with |- context [transact ?o ?a ?f ?m] =>
    assert (Hm : stack_ref_has_parent (fst (transact o a f m)));
    [|destruct (transact o a f m) as [w2 x]] end.
  { apply transact_sref; [exact Eo|]. cbv beta. cbn [frame]. apply fr_pop. }
  cbn [fst] in Hm. destruct x; try exact Hm.
  match goal with |- context [open_stack PRequire ?w3] =>
    assert (Hm3 : stack_ref_has_parent w3)
      by (eapply sref_dep; [| |exact Hm]; [apply store_extends_refl|reflexivity]);
    destruct (open_stack PRequire w3) as [op3|] eqn:Eo3;
      [apply (fun E => open_sref _ _ _ E Hm3) in Eo3|exact Hm3] end.
  destruct (log_extmods_first op3) as [op4|] eqn:El; [|exact Eo3].
  apply (log_extmods_first_sref _ _ Eo3) in El.
  destruct (negb (head_top_ok op4)); [sr|].
  apply transact_sref; [exact El|apply frame_push_patches].
Qed.

Lemma run_squash_sref : forall w r nm meta msg,
  stack_ref_has_parent w -> stack_ref_has_parent (fst (run_squash w r nm meta msg)).
Proof.
  intros w r nm meta msg H. unfold run_squash.
  destruct (parse_ranges r) as [prs|]; [|exact H].
  destruct (from_str nm) as [newn|]; [|exact H].
  destruct (open_stack PAllow w) as [op|] eqn:Eo; [apply (fun E => open_sref _ _ _ E H) in Eo|exact H].
  destruct (w_unmerged (op_world op)); [sr|].
  destruct (negb (head_top_ok op)); [sr|].
  match goal with |- stack_ref_has_parent (fst (rres_bind _ ?r _)) =>
    destruct r as [ps| |]; cbn [rres_bind]; [|sr|sr] end.
  destruct (_ && _); [sr|].
  destruct (Nat.ltb _ _); [sr|].
  rewrite squash_exit_fst.
  apply transact_sref; [exact Eo|apply frame_squash_closure].
Qed.

Lemma run_pick_sref : forall lower_s w src nm na,
  stack_ref_has_parent w -> stack_ref_has_parent (fst (run_pick lower_s w src nm na)).
Proof.
  intros lower_s w src nm na H.
  destruct (run_pick_case lower_s w src nm na) as
    [_|_|op Eo|op given o Eo _ _ _ _|op given o pn0 Eo _ _ _ _ _|op given o pn0 pn c par Eo _ _ _ _ _ _ _ _];
    cbn [fst]; try exact H; apply (fun E => open_sref _ _ _ E H) in Eo; try exact Eo.
  apply transact_sref; [apply sref_with_objs; [apply store_extends_put|exact Eo]|apply frame_pick_body].
Qed.

Theorem step_stack_ref_has_parent : forall lower_s w c,
  stack_ref_has_parent w -> stack_ref_has_parent (fst (step lower_s w c)).
Proof.
  intros lower_s w c H. destruct c; cbn [step].
  - destruct (open_stack PMust w) as [op|] eqn:Eo; [|exact H]. now apply (open_sref _ _ _ Eo).
  - now apply run_new_sref.
  - now apply run_refresh_sref.
  - now apply run_push_sref.
  - now apply run_pop_sref.
  - now apply run_goto_sref.
  - now apply run_float_sref.
  - now apply run_sink_sref.
  - now apply run_delete_sref.
  - now apply run_hide_sref.
  - now apply run_unhide_sref.
  - now apply run_rename_sref.
  - now apply run_commit_sref.
  - now apply run_uncommit_sref.
  - now apply run_clean_sref.
  - now apply run_spill_sref.
  - now apply run_undo_sref.
  - now apply run_redo_sref.
  - now apply run_reset_sref.
  - now apply run_repair_sref.
  - now apply run_log_clear_sref.
  - now apply run_edit_sref.
  - now apply run_rebase_sref.
  - now apply run_squash_sref.
  - now apply run_pick_sref.
  - destruct (open_stack PAllow w) as [op|] eqn:Eo; [|exact H]. now apply (open_sref _ _ _ Eo).
  - now apply run_git_sref.
  - now apply run_git_sref.
  - now apply run_git_sref.
  - now apply run_git_sref.
  - now apply run_git_sref.
  - now apply run_git_sref.
Qed.

(* ---------------------------------------------------------------- execute does not panic *)

Lemma exec_co_not_panic : forall t th w1 st1 wt um x,
  exec_co t th w1 st1 = inr (wt, um, x) -> x <> XPanic.
Proof.
  intros t th w1 st1 wt um x H. unfold exec_co in H.
  repeat match type of H with
  | context [match checkout ?a ?b ?c ?d ?e ?f ?g with _ => _ end] =>
      destruct (checkout a b c d e f g) as [[? ?]|]
  | context [if ?b then _ else _] => destruct b
  end; try discriminate; injection H as _ _ <-; discriminate.
Qed.

Lemma exec_logged_prev : forall w t w1 st1 prev,
  Inv w -> stack_ref_has_parent w -> store_extends (w_objs w) (t_objs t) ->
  exec_logged w t = Some (w1, st1) -> w_stack w1 = Some prev ->
  state_of (w_objs w1) prev <> None /\ first_parent (w_objs w1) prev <> None.
Proof.
  intros w t w1 st1 prev Hi Hs He E Hp. unfold exec_logged in E. destruct (Nat.eqb _ _).
  - injection E as <- <-. cbn in Hp |- *. destruct Hi as [_ [_ [_ Hst]]]. rewrite Hp in Hst.
    destruct Hst as [s Es]. split.
    + rewrite (state_of_ext _ _ _ _ He Es). discriminate.
    + eapply first_parent_ext; [exact He|]. now apply Hs.
  - unfold log_external_mods in E. destruct (w_stack (exec_w0 w t)); [|discriminate].
    destruct (state_commit _ _ _) as [[objs' so']|] eqn:Ec; [|discriminate].
    injection E as <- <-. cbn in Hp |- *. injection Hp as <-. split.
    + apply state_commit_state in Ec as [_ Ec]. rewrite Ec. discriminate.
    + now apply state_commit_first_parent in Ec.
Qed.

Lemma exec_body_np : forall w t halted msg,
  Inv w -> stack_ref_has_parent w -> wf_txn t -> uinv t -> store_extends (w_objs w) (t_objs t) ->
  snd (exec_body w t halted msg) <> XPanic.
Proof.
  intros w t halted msg Hi Hs W U He. unfold exec_body.
  rewrite (uinv_consistent t W U). cbn [negb].
  destruct (wf_head_oid t W) as [th [-> _]].
  destruct (exec_logged w t) as [[w1 st1]|] eqn:El; [|discriminate].
  destruct (exec_co t th w1 st1) as [[wt' um']|[[wt' um'] x]] eqn:Eco.
  - unfold exec_fin. destruct (w_stack w1) as [prev|] eqn:Ep; [|discriminate].
    destruct (state_commit _ _ _) as [[objs' so]|] eqn:Ec.
    + destruct halted; discriminate.
    + exfalso. revert Ec. apply state_commit_some. intros po E. cbn in E. injection E as <-.
      eapply exec_logged_prev; eassumption.
  - cbn [snd]. eapply exec_co_not_panic; exact Eco.
Qed.

Lemma execute_np : forall w r msg,
  Inv w -> stack_ref_has_parent w -> good r -> nsat uinv r ->
  match r with
  | TOk t | THalt t _ | TErr t => store_extends (w_objs w) (t_objs t)
  | TPanic => True
  end ->
  snd (execute w r msg) <> XPanic.
Proof.
  intros w r msg Hi Hs Hg Hn He. rewrite execute_eq. destruct r as [t|t h|t|]; cbn in Hg, Hn.
  - now apply exec_body_np.
  - now apply exec_body_np.
  - discriminate.
  - destruct Hn.
Qed.

(* --- the start of a transaction --- *)

Lemma begin_uinv : forall op o, uinv (begin_txn op o).
Proof. intros op o. split; [constructor|intros n []]. Qed.

Lemma begin_nis : forall op o, op_ok op -> nis (begin_txn op o).
Proof.
  intros op o [_ [[_ [_ [Hd _]]] _]] n Hn. unfold stack_has. cbn in *. now apply Hd.
Qed.

Lemma transact_np : forall op o f msg,
  op_ok op -> stack_ref_has_parent (op_world op) ->
  (wf_txn (begin_txn op o) -> good (f (begin_txn op o))) ->
  (wf_txn (begin_txn op o) -> uinv (begin_txn op o) -> nis (begin_txn op o) ->
   nsat uinv (f (begin_txn op o))) ->
  frame (begin_txn op o) (f (begin_txn op o)) ->
  snd (transact op o f msg) <> XPanic.
Proof.
  intros op o f msg Hop Hs Hg Hn Hf. pose proof (begin_wf op o Hop) as W.
  specialize (Hg W). specialize (Hn W (begin_uinv op o) (begin_nis op o Hop)).
  destruct Hop as [Hi _]. unfold transact. destruct (negb (op_initialized op)).
  - destruct (f (begin_txn op o)); try discriminate. destruct Hn.
  - apply execute_np; auto. destruct (f (begin_txn op o)); cbn in *; try exact I; apply Hf.
Qed.
