(* C01 proofs, part 4: the transaction invariant [wf_txn] and its preservation by the
   transaction operations of Model/Stack.v. *)
From Coq Require Import Lia Permutation.
From StgV Require Import Model.StackSpec Proofs.WfBasics Proofs.WfFrame.

Record wf_txn (t : txn) : Prop := mk_wf_txn {
  wt_store : store_ok (t_objs t);
  wt_stack : wf_state (t_objs t) (t_stack t);
  wt_names : names_ok (t_all t);
  wt_dom : forall n, In n (t_all t) <-> t_patch t n <> None;
  wt_patch : forall n o, t_patch t n = Some o -> is_patch_commit (t_objs t) o;
  wt_base : is_plain (t_objs t) (t_base_oid t);
  wt_head : forall h, t_head t = Some h -> is_plain (t_objs t) h
}.

Definition res_sat (Q : txn -> Prop) (r : tres) : Prop :=
  match r with
  | TOk t => Q t
  | THalt t _ => wf_txn t
  | TErr t => store_ok (t_objs t)
  | TPanic => True
  end.

Definition good : tres -> Prop := res_sat wf_txn.

Lemma res_sat_tbind : forall (Q Q' : txn -> Prop) r f,
  res_sat Q r -> (forall t, Q t -> res_sat Q' (f t)) -> res_sat Q' (tbind r f).
Proof. intros Q Q' [t|t h|t|] f H1 H2; cbn in *; auto. Qed.

Lemma res_sat_impl : forall (Q Q' : txn -> Prop) r,
  res_sat Q r -> (forall t, Q t -> Q' t) -> res_sat Q' r.
Proof. intros Q Q' [t|t h|t|] H1 H2; cbn in *; auto. Qed.

(* ---------------------------------------------------------------- derived projections *)

Lemma t_patch_upd : forall t u n,
  t_patch (set_updated t u) n =
  match up_get u n with Some v => v | None => pm_get (s_patches (t_stack t)) n end.
Proof. reflexivity. Qed.

Lemma t_patch_up_set : forall t k v n,
  t_patch (set_updated t (up_set (t_updated t) k v)) n = if name_eqb k n then v else t_patch t n.
Proof.
  intros t k v n. rewrite t_patch_upd, up_get_set. now destruct (name_eqb k n).
Qed.

Lemma t_patch_mark_deleted : forall t ns n,
  t_patch (set_updated t (mark_deleted (t_updated t) ns)) n = if mem n ns then None else t_patch t n.
Proof.
  intros t ns n. rewrite t_patch_upd, up_get_mark_deleted. now destruct (mem n ns).
Qed.

(* ---------------------------------------------------------------- generic preservation *)

(* same store, stack, base and head: only the lists and the patch map matter *)
Lemma wf_txn_change : forall t t',
  wf_txn t ->
  t_objs t' = t_objs t -> t_stack t' = t_stack t -> t_base_oid t' = t_base_oid t ->
  t_head t' = t_head t ->
  names_ok (t_all t') ->
  (forall n, In n (t_all t') <-> t_patch t' n <> None) ->
  (forall n o, t_patch t' n = Some o -> is_patch_commit (t_objs t) o) ->
  wf_txn t'.
Proof.
  intros t t' W E1 E2 E3 E4 Hn Hd Hp. destruct W. constructor; rewrite ?E1, ?E2, ?E3, ?E4; auto.
Qed.

Lemma wf_txn_lists : forall t a u h,
  wf_txn t -> Permutation (a ++ u ++ h) (t_all t) -> wf_txn (set_lists t a u h).
Proof.
  intros t a u h W Hp. apply (wf_txn_change t); try reflexivity; try exact W.
  - change (t_all (set_lists t a u h)) with (a ++ u ++ h). eapply names_ok_perm; [exact Hp|apply W].
  - intros n. change (t_all (set_lists t a u h)) with (a ++ u ++ h).
    change (t_patch (set_lists t a u h) n) with (t_patch t n). rewrite <- (wt_dom t W).
    split; apply Permutation_in; [exact Hp|now apply Permutation_sym].
  - intros n o. apply (wt_patch t W).
Qed.

Lemma wf_txn_core_eq : forall t t2, core_eq t t2 -> wf_txn t -> wf_txn t2.
Proof.
  intros t t2 [E1 [E2 [E3 [E4 [E5 [E6 [E7 [E8 E9]]]]]]]] W.
  assert (Ea : t_all t2 = t_all t) by (unfold t_all; congruence).
  assert (Ep : forall n, t_patch t2 n = t_patch t n) by (intros n; unfold t_patch; now rewrite E6, E1).
  apply (wf_txn_change t); auto.
  - unfold t_base_oid. now rewrite E8, E2.
  - rewrite Ea. apply W.
  - intros n. rewrite Ea, Ep. apply W.
  - intros n o. rewrite Ep. apply W.
Qed.

Lemma plain_new : forall objs ps t m sj, is_plain (objs ++ [plain ps t m sj]) (length objs).
Proof.
  intros objs ps t m sj. exists (plain ps t m sj). split; [apply get_put_new|].
  split; [reflexivity|discriminate].
Qed.

Lemma patch_commit_new : forall objs p t m sj, is_patch_commit (objs ++ [plain [p] t m sj]) (length objs).
Proof.
  intros objs p t m sj. split; [apply plain_new|]. exists p. unfold parents_of.
  now rewrite get_put_new.
Qed.

Lemma store_ok_put_plain : forall objs ps t m sj,
  store_ok objs -> (forall p, In p ps -> is_plain objs p) -> store_ok (objs ++ [plain ps t m sj]).
Proof.
  intros objs ps t m sj H Hp. apply store_ok_put; [exact H|now right|].
  intros s Hs. discriminate.
Qed.

Lemma wf_txn_put : forall t ps tr m sj,
  wf_txn t -> (forall p, In p ps -> is_plain (t_objs t) p) ->
  wf_txn (set_objs t (t_objs t ++ [plain ps tr m sj])).
Proof.
  intros t ps tr m sj W Hp. destruct W. constructor; rewrite ?t_objs_set_objs.
  - now apply store_ok_put_plain.
  - now apply wf_state_mono.
  - exact wt_names0.
  - exact wt_dom0.
  - intros n o H. apply is_patch_commit_mono. now apply (wt_patch0 n).
  - now apply is_plain_mono.
  - intros h H. apply is_plain_mono. now apply wt_head0.
Qed.

Lemma wf_txn_set_base : forall t b, wf_txn t -> is_plain (t_objs t) b -> wf_txn (set_base t (Some b)).
Proof. intros t b W Hb. destruct W. constructor; auto. Qed.

Lemma wf_txn_set_head : forall t h, wf_txn t -> is_plain (t_objs t) h -> wf_txn (set_head t (Some h)).
Proof.
  intros t h W Hh. destruct W. constructor; auto.
  intros h' E. rewrite t_head_set_head in E. injection E as <-. exact Hh.
Qed.

Lemma wf_txn_update : forall t n o,
  wf_txn t -> In n (t_all t) -> is_patch_commit (t_objs t) o ->
  wf_txn (set_updated t (up_set (t_updated t) n (Some o))).
Proof.
  intros t n o W Hn Ho. apply (wf_txn_change t); try reflexivity; try exact W.
  - apply W.
  - intros m. rewrite t_patch_up_set. change (t_all (set_updated t _)) with (t_all t).
    destruct (name_eqb_spec n m) as [<-|Hm].
    + split; [discriminate|auto].
    + apply W.
  - intros m o'. rewrite t_patch_up_set. destruct (name_eqb n m).
    + intros E. injection E as <-. exact Ho.
    + apply W.
Qed.

(* the top of a well-formed transaction is a plain commit *)
Lemma wf_top : forall t, wf_txn t -> exists top, t_top t = Some top /\ is_plain (t_objs t) top.
Proof.
  intros t W. unfold t_top. destruct (hd_error (rev (t_applied t))) as [n|] eqn:E.
  - apply last_error_In in E.
    assert (Hn : In n (t_all t)) by (unfold t_all; apply in_or_app; now left).
    apply (wt_dom t W) in Hn. destruct (t_patch t n) as [o|] eqn:Eo; [|congruence].
    exists o. split; [reflexivity|]. now apply (wt_patch t W) in Eo as [Hp _].
  - exists (t_base_oid t). split; [reflexivity|apply W].
Qed.

Lemma wf_head_oid : forall t, wf_txn t -> exists th, t_head_oid t = Some th /\ is_plain (t_objs t) th.
Proof.
  intros t W. unfold t_head_oid. destruct (t_head t) as [h|] eqn:E.
  - exists h. split; [reflexivity|now apply (wt_head t W)].
  - now apply wf_top.
Qed.

Lemma in_all_cases : forall t n,
  In n (t_all t) <-> In n (t_applied t) \/ In n (t_unapplied t) \/ In n (t_hidden t).
Proof. intros t n. unfold t_all. now rewrite !in_app_iff. Qed.

Lemma names_disjoint : forall t,
  names_ok (t_all t) ->
  NoDup (t_applied t) /\ NoDup (t_unapplied t) /\ NoDup (t_hidden t)
  /\ (forall x, In x (t_applied t) -> ~ In x (t_unapplied t) /\ ~ In x (t_hidden t))
  /\ (forall x, In x (t_unapplied t) -> ~ In x (t_hidden t)).
Proof.
  intros t [Hd _]. unfold t_all in Hd. apply NoDup_app_iff in Hd as [H1 [H2 H3]].
  apply NoDup_app_iff in H2 as [H4 [H5 H6]]. repeat split; auto.
  - intros Hi. apply (H3 x H). apply in_or_app. now left.
  - intros Hi. apply (H3 x H). apply in_or_app. now right.
Qed.
